(* C12 — body extractors never accept or buffer more than their configured limit.
   Only statements here; proofs live in Web/ExtractProofs.v.

   Vocabulary (Web/ExtractSpec.v):
     extractor            XBytes dflt (web::Bytes, String) | XJson dflt (web::Json) | XForm (web::Form)
                          | XPayloadTBL (web::Payload::to_bytes_limited) | XBodyTBL (body::to_bytes_limited)
                          | XFieldBytes (multipart Field::bytes)
     run x limit d items  the extractor's fold (Web/Extract.v) with configured [limit], declared length
                          [d] (Content-Length / MessageBody::size; None = not declared) on the DECODED
                          payload stream [items]; result and ghost record (polls, largest buffer,
                          largest buffer + incoming chunk)
     chunks cs            the error-free stream delivering the chunk list cs
   Every statement is for all limits, all chunk lists / item streams, all extractors. *)
From Coq Require Import String.
From AV Require Import Lib.Base Gen.Consts Gen.ExtractTables Web.Extract Web.ExtractSpec Web.ExtractProofs Web.ExtractTie.

(* the extractor succeeds exactly when the whole decoded body fits, and then returns exactly it *)
Theorem C12_accepts_iff_within_limit : forall (x : extractor) (limit : N) (cs : list bytes) (b : bytes),
  fst (run x limit None (chunks cs)) = Ok b <-> b = concat cs /\ lenN b <= limit.
Proof. exact run_exact. Qed.

(* ... and otherwise fails with its overflow error *)
Theorem C12_overflow_otherwise : forall (x : extractor) (limit : N) (cs : list bytes),
  limit < lenN (concat cs) -> is_overflow (fst (run x limit None (chunks cs))) = true.
Proof. exact run_beyond. Qed.

(* whatever length was declared (true, too small, absent) and whatever the stream does (errors
   included): what is handed to the application is never longer than the limit *)
Theorem C12_never_more_than_limit : forall (x : extractor) (limit : N) (declared : option N)
                                           (items : stream) (b : bytes),
  fst (run x limit declared items) = Ok b -> lenN b <= limit.
Proof. exact run_ok_bounded. Qed.

(* a declared length above the limit is refused before the stream is polled at all *)
Theorem C12_declared_above_limit_rejected_unread : forall (x : extractor) (limit n : N) (items : stream),
  uses_declared x = true -> limit < n ->
  is_overflow (fst (run x limit (Some n) items)) = true /\ snd (run x limit (Some n) items) = g0.
Proof. exact run_declared_gt. Qed.

(* a declared length within the limit (honest or lying) changes nothing: the streaming check still
   applies in full.  (to_bytes_limited alone trusts `Sized(0)` and returns an empty body unread.) *)
Theorem C12_declared_within_limit_is_not_trusted : forall (x : extractor) (limit n : N) (items : stream),
  n <= limit -> (x = XBodyTBL -> n <> 0) ->
  run x limit (Some n) items = run x limit None items.
Proof. exact run_declared_le. Qed.

(* memory: the accumulator never exceeds the limit, and accumulator + incoming chunk never exceeds
   limit + the largest chunk the (decompressing) stream hands over *)
Theorem C12_memory_bounded : forall (x : extractor) (limit : N) (declared : option N) (items : stream),
  g_pbuf (snd (run x limit declared items)) <= limit /\
  g_pheld (snd (run x limit declared items)) <= limit + max_chunk items.
Proof. exact run_memory. Qed.

(* the outcome depends on the concatenation only, not on the chunk boundaries
   (erase_size forgets the byte count carried inside UrlencodedError::Overflow, see next theorem) *)
Theorem C12_chunking_irrelevant : forall (x : extractor) (limit : N) (declared : option N)
                                         (cs1 cs2 : list bytes),
  concat cs1 = concat cs2 ->
  erase_size (fst (run x limit declared (chunks cs1))) = erase_size (fst (run x limit declared (chunks cs2))).
Proof. exact run_chunking_irrelevant. Qed.

(* the stronger statement without erase_size is false: the `size` reported by web::Form's overflow
   error is the size reached at the crossing chunk *)
Theorem C12_refuted_form_overflow_size_chunking_independent :
  exists limit cs1 cs2, concat cs1 = concat cs2 /\
    fst (run XForm limit None (chunks cs1)) <> fst (run XForm limit None (chunks cs2)).
Proof. exact form_overflow_size_depends_on_chunking. Qed.

(* reading stops at the chunk that crosses the limit: nothing behind it is polled *)
Theorem C12_stops_at_crossing_chunk : forall (x : extractor) (limit : N) (pre : list bytes) (c : bytes)
                                             (post : list bytes),
  x <> XFieldBytes ->
  lenN (concat pre) <= limit -> limit < lenN (concat pre) + lenN c ->
  g_pulled (snd (run x limit None (chunks (pre ++ c :: post)))) = lenN pre + 1.
Proof. exact run_pulls_cross. Qed.

(* Field::bytes is the deliberate exception: it drops its buffer and drains the field to its end *)
Theorem C12_field_bytes_drains : forall (limit : N) (cs : list bytes),
  g_pulled (snd (field_bytes limit (chunks cs))) = lenN cs + 1.
Proof. exact field_bytes_drains. Qed.

(* an error of the payload stream (transport, corrupt content coding) never becomes a success *)
Theorem C12_stream_error_never_success : forall (x : extractor) (limit : N) (items : stream) (b : bytes),
  In Fail items -> fst (run x limit None items) <> Ok b.
Proof. exact run_stream_error. Qed.

(* the limit applies to the decoded bytes: behind `Decompress` the extractor sees the decoder's
   outputs, so all of the above is about what the wire chunks inflate to *)
Theorem C12_limit_applies_to_decoded_bytes : forall (x : extractor) (limit : N) (outs : list (option bytes))
                                                    (tail : option bytes) (b : bytes),
  let w := {| w_items := map (fun o => match o with Some c => WOut c | None => WSkip end) outs;
              w_tail := option_map Data tail |} in
  let delivered := concat (map (fun o => match o with Some c => c | None => [] end) outs)
                   ++ match tail with Some c => c | None => [] end in
  fst (run x limit None (decoded w)) = Ok b <-> b = delivered /\ lenN b <= limit.
Proof. exact run_decoded_exact. Qed.

(* unparsable Content-Length / unacceptable content type: refused unread (Json ignores a bad length) *)
Theorem C12_bad_headers : forall (dflt limit : N) (cl : clen) (items : stream),
  bytes_extract dflt limit CLBad items = (Err EUnknownLength, g0) /\
  form_extract limit true CLBad items = (Err EUnknownLength, g0) /\
  json_extract dflt limit true CLBad items = json_extract dflt limit true CLAbsent items /\
  json_extract dflt limit false cl items = (Err EContentType, g0) /\
  form_extract limit false cl items = (Err EContentType, g0).
Proof. intros. repeat split. Qed.

(* ---------------------------------------------------------------- multipart forms *)

(* Limits::try_consume_limits: on success each counter went down by exactly the chunk length
   (checked_sub: no wrap-around) ... *)
Theorem C12_multipart_no_wrap : forall (l l' : limits) (n : N) (in_memory : bool),
  try_consume_limits l n in_memory = Some l' ->
  total_rem l' + n = total_rem l /\
  memory_rem l' + (if in_memory then n else 0) = memory_rem l /\
  match field_rem l with
  | Some f => exists f', field_rem l' = Some f' /\ f' + n = f
  | None => field_rem l' = None
  end.
Proof. intros l l' n m. apply try_consume_some. Qed.

(* ... and it fails exactly when one of the applicable counters is smaller than the chunk *)
Theorem C12_multipart_overflow_iff : forall (l : limits) (n : N) (in_memory : bool),
  try_consume_limits l n in_memory = None <->
  total_rem l < n \/ (in_memory = true /\ memory_rem l < n) \/ (exists f, field_rem l = Some f /\ f < n).
Proof. exact try_consume_none. Qed.

(* an accepted form: all field bytes (discarded duplicates and unknown fields included) fit the
   total limit, the bytes kept in memory fit the memory limit and are exactly the field contents,
   and all occurrences of a name together fit that name's `#[multipart(limit = ..)]` *)
Theorem C12_multipart_sums_bounded : forall (decl : N -> option N) (total memory : N) (fs : list field)
                                            (kept : list (N * bytes)) (l' : limits),
  (forall f, In f fs -> f_limit f = decl (f_name f)) ->
  form_collect total memory fs = FormOk kept l' ->
  sum_all fs <= total /\ total_rem l' + sum_all fs = total /\
  sum_memory [] fs <= memory /\ sum_kept kept = sum_memory [] fs /\
  kept = kept_spec [] fs /\
  (forall n lim, decl n = Some lim -> sum_name n fs <= lim).
Proof. exact form_collect_sound. Qed.

(* exact characterisation on error-free field streams: accepted iff within the three limits,
   otherwise the overflow error *)
Theorem C12_multipart_exact : forall (decl : N -> option N) (total memory : N) (fs : list field),
  (forall f, In f fs -> f_limit f = decl (f_name f)) -> data_only fs ->
  ((exists l', form_collect total memory fs = FormOk (kept_spec [] fs) l') <-> form_within decl total memory fs) /\
  (~ form_within decl total memory fs -> form_collect total memory fs = FormOverflow).
Proof. exact form_collect_exact. Qed.

(* the outcome of a form does not depend on how the field contents are chunked *)
Theorem C12_multipart_chunking_irrelevant : forall (total memory : N) (fs1 fs2 : list field),
  Forall2 same_field fs1 fs2 -> form_collect total memory fs1 = form_collect total memory fs2.
Proof. exact form_collect_chunking. Qed.

(* the defaults of this source tree satisfy what the general statements are instantiated with *)
Theorem C12_defaults_instance : forall (cs : list bytes) (b : bytes),
  (fst (run (XBytes PAYLOAD_DEFAULT_CONFIG_LIMIT) PAYLOAD_DEFAULT_CONFIG_LIMIT None (chunks cs)) = Ok b
     <-> b = concat cs /\ lenN b <= 262144) /\
  (fst (run (XJson JSON_DEFAULT_LIMIT) JSON_DEFAULT_LIMIT None (chunks cs)) = Ok b
     <-> b = concat cs /\ lenN b <= 2097152) /\
  (fst (run XForm FORM_DEFAULT_LIMIT None (chunks cs)) = Ok b <-> b = concat cs /\ lenN b <= 16384).
Proof. intros. split; [|split]; apply run_exact. Qed.


(* ---------------------------------------------------------------- tie to the source text
   Gen/ExtractTables.v is regenerated from the Rust sources on every check (tools/gen/extract.py):
   each limit test as written -- operands, operator, conjuncts, position relative to the append.
   [rejects t acc chunk limit dflt declared] evaluates such a record. *)

(* every collecting loop tests once per chunk, before the append, unconditionally, and one step of
   the model's fold is exactly the source's test *)
Theorem C12_loop_guards_are_the_source_tests :
  (per_chunk_before_append HMB_LOOP_TEST /\ forall limit buf c r g,
     hmb_loop limit buf (Data c :: r) g =
     let g' := g_see (g_pull g) buf c in
     if rejects HMB_LOOP_TEST (lenN buf) (lenN c) limit 0 0 then (Err EOverflow, g')
     else hmb_loop limit (buf ++ c) r (g_buf g' (buf ++ c))) /\
  (per_chunk_before_append JSON_LOOP_TEST /\ forall limit buf c r g,
     json_loop limit buf (Data c :: r) g =
     let g' := g_see (g_pull g) buf c in
     if rejects JSON_LOOP_TEST (lenN buf) (lenN c) limit 0 0 then (Err EOverflow, g')
     else json_loop limit (buf ++ c) r (g_buf g' (buf ++ c))) /\
  (per_chunk_before_append FORM_LOOP_TEST /\ forall limit body c r g,
     ue_loop limit body (Data c :: r) g =
     let g' := g_see (g_pull g) body c in
     if rejects FORM_LOOP_TEST (lenN body) (lenN c) limit 0 0
     then (Err (EOverflowAt (lenN body + lenN c) limit), g')
     else ue_loop limit (body ++ c) r (g_buf g' (body ++ c))) /\
  (per_chunk_before_append TBL_LOOP_TEST /\ forall limit buf c r g,
     tbl_loop limit buf (Data c :: r) g =
     let g' := g_see (g_pull g) buf c in
     if rejects TBL_LOOP_TEST (lenN buf) (lenN c) limit 0 0 then (Err EOverflow, g')
     else tbl_loop limit (buf ++ c) r (g_buf g' (buf ++ c))) /\
  (per_chunk_before_append FIELD_BYTES_TEST /\ forall limit buf c r g,
     field_bytes_loop limit false buf (Data c :: r) g =
     let g' := g_see (g_pull g) buf c in
     if rejects FIELD_BYTES_TEST (lenN buf) (lenN c) limit 0 0
     then field_bytes_loop limit true [] r (g_buf g' [])
     else field_bytes_loop limit false (buf ++ c) r (g_buf g' (buf ++ c))).
Proof.
  split; [exact hmb_loop_tie|]. split; [exact json_loop_tie|]. split; [exact form_loop_tie|].
  split; [exact tbl_loop_tie|exact field_bytes_tie].
Qed.

(* the declared-length pre-checks are the source's comparisons *)
Theorem C12_prechecks_are_the_source_tests :
  (forall dflt l, hmb_err (hmb_new dflt (CLNum l)) =
                  if rejects HMB_NEW_PRECHECK 0 0 0 dflt l then Some EOverflow else None) /\
  (forall limit s l, hmb_length s = Some l ->
     hmb_err (hmb_set_limit limit s) = if rejects HMB_LIMIT_PRECHECK 0 0 limit 0 l then Some EOverflow else None) /\
  (forall limit d len, json_set_limit limit (JBody d (Some len)) =
     if rejects JSON_LIMIT_PRECHECK 0 0 limit 0 len then JError (EOverflowKnown len limit) else JBody limit (Some len)) /\
  (forall limit len items, ue_poll {| ue_limit := limit; ue_length := Some len; ue_err := None |} items =
     if rejects FORM_POLL_PRECHECK 0 0 limit 0 len then (Err (EOverflowAt len limit), g0) else ue_loop limit [] items g0) /\
  (forall limit n items, n <> 0 -> to_bytes_limited (SzSized n) limit items =
     if rejects TBL_SIZE_PRECHECK 0 0 limit 0 n then (Err EOverflow, g0) else tbl_loop limit [] items g0).
Proof.
  split; [exact hmb_new_tie|]. split; [exact hmb_limit_tie|]. split; [exact json_limit_tie|].
  split; [exact form_poll_tie|exact tbl_size_tie].
Qed.

(* Limits::try_consume_limits is the source's list of guarded subtractions (three checked_sub),
   and the field readers charge before they append *)
Theorem C12_multipart_subtractions_are_the_source :
  (forall l n in_memory,
     try_consume_limits l n in_memory = interp_subtractions MULTIPART_SUBTRACTIONS l n in_memory) /\
  MULTIPART_READ_FIELD_CONSUME = (true, true, true) /\
  MULTIPART_DISCARD_FIELD_CONSUME = (false, true, false).
Proof.
  split; [exact try_consume_limits_tie|]. destruct read_field_tie as [H1 [H2 _]]. split; assumption.
Qed.

(* non-vacuity: concrete runs on both sides of the limit, a lying Content-Length, a form *)
Example C12_example :
  fst (run (XBytes 262144) 4 None (chunks [[1; 2]; [3; 4]])) = Ok [1; 2; 3; 4] /\
  fst (run (XBytes 262144) 4 None (chunks [[1; 2]; [3; 4; 5]; [6]])) = Err EOverflow /\
  g_pulled (snd (run (XBytes 262144) 4 None (chunks [[1; 2]; [3; 4; 5]; [6]]))) = 2 /\
  fst (run (XJson 2097152) 4 (Some 1) (chunks [[1; 2]; [3; 4; 5]])) = Err EOverflow /\
  run (XJson 2097152) 4 (Some 5) (chunks [[1]]) = (Err (EOverflowKnown 5 4), g0) /\
  form_collect 10 5 [ {| f_name := 0; f_kind := KSingle; f_limit := Some 3; f_items := chunks [[1]; [2; 3]] |};
                      {| f_name := 7; f_kind := KUnknown; f_limit := None; f_items := chunks [[4; 5; 6; 7; 8]] |} ]
    = FormOk [(0, [1; 2; 3])] {| total_rem := 2; memory_rem := 2; field_rem := None |} /\
  form_collect 10 5 [ {| f_name := 0; f_kind := KSingle; f_limit := Some 3; f_items := chunks [[1]; [2; 3; 4]] |} ]
    = FormOverflow.
Proof. vm_compute. repeat split. Qed.
