(* C07 — request-body channel (placeholder while the correspondence is brought up). *)
From AV Require Import Lib.Base Gen.Consts H1.Payload H1.PayloadSpec.
