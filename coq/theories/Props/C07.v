(* C07 — Request-body channel (actix-http/src/h1/payload.rs): exact bytes, truthful ending,
   no lost wake-ups. Only statements here; proofs live in H1/PayloadProofs*.v.

   Vocabulary (H1/Payload.v, H1/PayloadSpec.v):
     run e os = (s, t)   the channel created by Payload::create(e), driven by the operation
                         history os (any length, any interleaving of both handles); s is the
                         final state, t the trace: one event (operation, result, woken wakers)
                         per operation.
     ref_run q t         the reference byte queue replayed over a trace (None = contradiction):
                         feed_data appends, unread_data puts back in front, a delivered chunk
                         must be the front of the queue, an ending or Pending needs it empty.
     delivered t / fed t concatenation of the chunks delivered to the reader / fed by the sender.
   Chunks are byte strings, their length is lenN, the limit is the constant of the Rust source. *)
From AV Require Import Lib.Base Gen.Consts H1.Payload H1.PayloadSpec H1.PayloadProofs
  H1.PayloadProofsBytes H1.PayloadProofsEnding H1.PayloadProofsWake H1.PayloadProofsKnown
  Gen.PayloadTables H1.PayloadTie.

Definition LIMIT : N := H1_PAYLOAD_MAX_BUFFER_SIZE.
Definition chunk_bytes (c : bytes) : bytes := c.
Notation run := (run (Chunk:=bytes) lenN LIMIT).
Notation step := (step (Chunk:=bytes) lenN LIMIT).
Notation ref_run := (ref_run chunk_bytes).
Notation delivered := (delivered chunk_bytes).
Notation fed := (fed chunk_bytes).
Notation ev := (event bytes).

(* ---------------------------------------------------------------- exact bytes, in order *)

(* Every trace of every history is accepted by the reference byte queue, and the queue then
   holds exactly what the channel still buffers. *)
Theorem C07_bytes_in_order : forall e os s t, run e os = (s, t) ->
  exists q, ref_run [] t = Some q /\
            forall i, inner s = Some i -> q = concat (map chunk_bytes (items i)).
Proof. exact (bytes_in_order lenN LIMIT chunk_bytes). Qed.

(* Without unread_data: delivered ++ still buffered = fed; so delivered is a prefix of fed. *)
Theorem C07_bytes_prefix : forall e os s t, run e os = (s, t) ->
  (forall o, In o os -> is_unread o = false) ->
  exists q, fed t = delivered t ++ q /\
            forall i, inner s = Some i -> q = concat (map chunk_bytes (items i)).
Proof. exact (bytes_prefix lenN LIMIT chunk_bytes). Qed.

(* ... and complete as soon as a poll reports an ending (or Pending): nothing is left behind. *)
Theorem C07_bytes_complete : forall e os cx s t p wk,
  run e (os ++ [OPoll cx]) = (s, t) ->
  (forall o, In o os -> is_unread o = false) ->
  last t (OIsDropped, RUnit, []) = (OPoll cx, RPoll p, wk) ->
  (forall d, p <> PData d) ->
  delivered t = fed t.
Proof. exact (bytes_complete lenN LIMIT chunk_bytes). Qed.

(* len = sum of the queued chunk lengths after every history; `self.len -= data.len()` never
   underflows (no event of any trace is a panic). *)
Theorem C07_len_accounting : forall e os s t, run e os = (s, t) ->
  (forall i, inner s = Some i -> len i = sumN (map lenN (items i))) /\
  (forall x : ev, In x t -> ev_res x <> RPanic).
Proof. exact (len_accounting lenN LIMIT). Qed.

(* ---------------------------------------------------------------- truthful ending *)

(* A clean end (Ready(None)) is reported only if the end of the body was signalled: the channel
   was created with eof = true or a feed_eof was executed earlier. *)
Theorem C07_clean_end_truthful : forall e os s t t1 cx wk t2,
  run e os = (s, t) -> t = t1 ++ (OPoll cx, RPoll PEnd, wk) :: t2 ->
  e = true \/ exists x : ev, In x t1 /\ signals_eof x = true.
Proof. exact (clean_end_truthful lenN LIMIT). Qed.

(* After an executed set_error(x) — and until another error is set or one is reported — every
   poll returns queued data or exactly Err(x); in particular never a clean end and never
   Pending (the dispatcher's `set_error; feed_eof` yields Err, then None; never None alone). *)
Theorem C07_error_seen : forall e os s t t1 x w1 t2 cx p w2 t3,
  run e os = (s, t) ->
  t = t1 ++ (OSetError x, RUnit, w1) :: t2 ++ (OPoll cx, RPoll p, w2) :: t3 ->
  (forall y : ev, In y t2 -> reports_err y = false /\ sets_error y = false) ->
  (exists d, p = PData d) \/ p = PErr x.
Proof. exact (error_seen lenN LIMIT). Qed.

(* The sender is dropped before any ending was signalled (created with eof = false, no executed
   feed_eof / set_error before): no later poll ever reports a clean end, and until an error is
   reported every poll returns queued data or exactly Err(Incomplete). *)
Theorem C07_sender_vanished_first : forall os s t t1 w1 t2,
  run false os = (s, t) ->
  t = t1 ++ (OSenderDrop, RUnit, w1) :: t2 ->
  (forall x : ev, In x t1 -> signals_eof x = false /\ sets_error x = false) ->
  (forall x : ev, In x t2 -> ev_res x <> RPoll PEnd) /\
  (forall t2a cx p w2 t3, t2 = t2a ++ (OPoll cx, RPoll p, w2) :: t3 ->
     (forall x : ev, In x t2a -> reports_err x = false) ->
     (exists d, p = PData d) \/ p = PErr EIncomplete).
Proof. exact (sender_vanished_first lenN LIMIT). Qed.

(* ---------------------------------------------------------------- reader wake-up *)

(* A reader whose last poll returned Pending (with waker r), that has not polled again, was not
   dropped and has not been woken since, is registered: task = Some r. *)
Theorem C07_reader_registered : forall e os s t t1 r w1 t2,
  run e os = (s, t) -> t = t1 ++ (OPoll r, RPoll PPending, w1) :: t2 -> quiet_reader r t2 ->
  exists i, inner s = Some i /\ task i = Some r.
Proof. exact (reader_registered lenN LIMIT). Qed.

(* ... and the next executed feed_data / feed_eof / set_error wakes it. *)
Theorem C07_reader_wakeup : forall e os s t t1 r w1 t2 o w2 t3,
  run e os = (s, t) ->
  t = t1 ++ (OPoll r, RPoll PPending, w1) :: t2 ++ (o, RUnit, w2) :: t3 ->
  quiet_reader r t2 -> is_signal o = true -> In r w2.
Proof. exact (reader_wakeup lenN LIMIT). Qed.

(* Sender drop. FULL STATEMENT (false, see the refutation below): the same with
   o = OSenderDrop for every history. Proved outside the decidable class
   known_case e os  = "created with eof = false, and a set_error precedes the first sender drop
                       with neither feed_eof nor a reader drop before it"
   (known_findings.txt: drop-after-error-consumed). *)
Theorem C07_reader_wakeup_drop_holds_outside_known : forall e os s t t1 r w1 t2 w2 t3,
  known_case e os = false ->
  run e os = (s, t) ->
  t = t1 ++ (OPoll r, RPoll PPending, w1) :: t2 ++ (OSenderDrop, RUnit, w2) :: t3 ->
  quiet_reader r t2 -> In r w2.
Proof. exact (reader_wakeup_drop lenN LIMIT). Qed.

(* Inside the class the statement fails: the reader consumes the error, polls again (Pending,
   registered), and the drop of the sender wakes nobody — close_sender does nothing once
   sender_closed is set. *)
Theorem C07_refuted_drop_after_error_consumed :
  exists e os s t t1 r w1 t2 w2 t3,
    known_case e os = true /\
    run e os = (s, t) /\
    t = t1 ++ (OPoll r, RPoll PPending, w1) :: t2 ++ (OSenderDrop, RUnit, w2) :: t3 /\
    quiet_reader r t2 /\ ~ In r w2.
Proof.
  exists false, [OSetError (EOther 2); OPoll 0; OPoll 0; OSenderDrop].
  eexists. eexists.
  exists [(OSetError (EOther 2), RUnit, []); (OPoll 0, RPoll (PErr (EOther 2)), [])], 0, [], [], [], [].
  split; [reflexivity|]. split; [vm_compute; reflexivity|]. split; [reflexivity|].
  split; [intros x []| intros []].
Qed.

(* What is lost inside the class, exactly: whenever a sender drop leaves a Pending reader asleep
   (in ANY history), an earlier poll of that reader already returned an error — the reader had
   been told how the body ended and polled past it. A reader that stops at the first error is
   never affected. *)
Theorem C07_unwoken_reader_was_told : forall e os s t t1 r w1 t2 w2 t3,
  run e os = (s, t) ->
  t = t1 ++ (OPoll r, RPoll PPending, w1) :: t2 ++ (OSenderDrop, RUnit, w2) :: t3 ->
  quiet_reader r t2 -> ~ In r w2 ->
  exists y : ev, In y t1 /\ reports_err y = true.
Proof. exact (unwoken_reader_was_told lenN LIMIT). Qed.

(* ---------------------------------------------------------------- feeder wake-up *)

(* A feeder that was answered Pause (waker f), has not called need_read again, whose reader was
   not dropped and that has not been woken since, is registered: io_task = Some f. *)
Theorem C07_feeder_registered : forall e os s t t1 f w1 t2,
  run e os = (s, t) -> t = t1 ++ (ONeedRead f, RStatus Pause, w1) :: t2 -> quiet_feeder f t2 ->
  exists i, inner s = Some i /\ io_task i = Some f.
Proof. exact (feeder_registered lenN LIMIT). Qed.

(* ... and EVERY reader poll that pops an item or returns Pending wakes it. *)
Theorem C07_feeder_wakeup : forall e os s t t1 f w1 t2 cx p w2 t3,
  run e os = (s, t) ->
  t = t1 ++ (ONeedRead f, RStatus Pause, w1) :: t2 ++ (OPoll cx, RPoll p, w2) :: t3 ->
  quiet_feeder f t2 -> pops_or_pends p = true -> In f w2.
Proof. exact (feeder_wakeup lenN LIMIT). Qed.

(* Pause is answered only while at least LIMIT bytes are queued. *)
Theorem C07_pause_means_full : forall e os f s t w,
  run e (os ++ [ONeedRead f]) = (s, t) ->
  last t (OIsDropped, RUnit, []) = (ONeedRead f, RStatus Pause, w) ->
  exists i, inner s = Some i /\ LIMIT <= sumN (map lenN (items i)).
Proof. exact (pause_means_full lenN LIMIT). Qed.

(* The re-polling feeder (what h1::Dispatcher does: `can_read` calls need_read on every poll):
   in the environment exec_repoll, where need_read(f) is called again whenever waker f fires,
   after ANY history the feeder believes "Pause" only while the channel really has need_read =
   false, holds its waker, and buffers at least LIMIT bytes. No state "paused, below the limit,
   nobody will wake me" is reachable. (If the reader was dropped, inner s = None: see
   C07_reader_drop_wakes_nobody.) *)
Theorem C07_feeder_repolling : forall e f os,
  (forall cx, In (ONeedRead cx) os -> cx = f) ->
  let '(s, la) := exec_repoll (Chunk:=bytes) lenN LIMIT f e os in
  la = Some Pause -> sender s = true ->
  forall i, inner s = Some i ->
    need_read i = false /\ io_task i = Some f /\ LIMIT <= sumN (map lenN (items i)).
Proof. exact (feeder_repolling lenN LIMIT). Qed.

(* ... and it observes Read at the first poll that leaves fewer than LIMIT bytes queued: that
   poll wakes f, and the need_read it triggers answers Read. *)
Theorem C07_feeder_resumes : forall f s cx s' d w i i',
  SInv lenN LIMIT s -> sender s = true -> inner s = Some i -> need_read i = false -> io_task i = Some f ->
  step s (OPoll cx) = (s', RPoll (PData d), w) -> inner s' = Some i' -> len i' < LIMIT ->
  In f w /\ exists w', step s' (ONeedRead f) = (s', RStatus Read, w').
Proof. exact (feeder_resumes lenN LIMIT). Qed.

(* Observation (outside the property's statement, recorded because it is a wake-up that does
   not happen): dropping the reader frees Inner and wakes nobody, a paused feeder included. *)
Theorem C07_reader_drop_wakes_nobody : forall s s' x w,
  step s OReaderDrop = (s', x, w) -> w = [].
Proof.
  intros [[i|] snd] s' x w H; cbn in H; inversion H; reflexivity.
Qed.

(* ---------------------------------------------------------------- the model IS the source

   Gen/PayloadTables.v is regenerated from actix-http/src/h1/payload.rs on every check run
   (tools/gen/payload.py): each function body as its statements in source order, the tests of
   Inner::poll_next in source order, the operator and operand of `self.need_read = self.len <
   MAX_BUFFER_SIZE`, every wake()/wake_io() call site, the `len +=` / `len -=` lines.
   H1/PayloadTie.v interprets those tables over the model's state. The theorems below say that
   the interpretation equals the model's functions, for every state: permuting the tests,
   changing `<` into `<=`, or deleting a wake call or a bookkeeping line in the Rust source
   changes the table and breaks them. *)

(* Inner::poll_next: test order items / err.take() / eof / else; `len -= data.len()` (checked);
   need_read = len < MAX_BUFFER_SIZE; register only if need_read && !eof; wake_io() after a pop
   and in the Pending branch; nothing woken on Err / None. *)
Theorem C07_source_tie_poll_next : forall cx (i : Inner bytes),
  interp_poll lenN PAYLOAD_POLL_NEXT cx i = poll_next lenN LIMIT cx i /\
  PAYLOAD_POLL_NEXT_ORDER = [TItemsPopFront; TErrTake; TEof; TElse].
Proof. intros cx i. split; [apply tie_poll_next | apply tie_poll_order]. Qed.

(* the feeding side: feed_data (len += data.len(); push_back; need_read = len < MAX; wake()),
   feed_eof / set_error (flags, then wake()), close_sender, Drop for PayloadSender, and
   need_read (Read iff the flag is set, otherwise register_io + Pause; Dropped without reader) *)
Theorem C07_source_tie_sender_side : forall (d : bytes) e cx (i : Inner bytes) (s : sys bytes),
  exec_items lenN (mkEnv (Some d) 0 EIncomplete None) PAYLOAD_FEED_DATA (i, []) = Val (feed_data lenN LIMIT d i) /\
  exec_items lenN (env0 0) PAYLOAD_FEED_EOF (i, []) = Val (feed_eof i) /\
  exec_items lenN (mkEnv None 0 e None) PAYLOAD_SET_ERROR (i, []) = Val (set_error e i) /\
  exec_items lenN (env0 0) PAYLOAD_CLOSE_SENDER (i, []) = Val (close_sender i) /\
  (sender s = true -> interp_sender_drop lenN PAYLOAD_SENDER_DROP s = Some (step s OSenderDrop)) /\
  (sender s = true -> interp_need_read lenN PAYLOAD_NEED_READ cx s = Some (step s (ONeedRead cx))).
Proof.
  intros d e cx i s.
  repeat split; first [apply tie_feed_data | apply tie_feed_eof | apply tie_set_error
                      | apply tie_close_sender | apply tie_sender_drop | apply tie_need_read].
Qed.

(* the helpers: wake / wake_io take the stored waker and wake it; unread_data; the constant *)
Theorem C07_source_tie_helpers : forall (d : bytes) (i : Inner bytes),
  exec_items lenN (env0 0) PAYLOAD_WAKE (i, []) = Val (wake i) /\
  exec_items lenN (env0 0) PAYLOAD_WAKE_IO (i, []) = Val (wake_io i) /\
  exec_items lenN (mkEnv (Some d) 0 EIncomplete None) PAYLOAD_UNREAD_DATA (i, []) = Val (unread_data lenN d i, []) /\
  PAYLOAD_MAX_BUFFER_SIZE = LIMIT.
Proof.
  intros d i.
  repeat split; first [apply tie_wake | apply tie_wake_io | apply tie_unread_data].
Qed.

(* ---------------------------------------------------------------- non-vacuity *)

(* a 40 000-byte chunk, described structurally as (fill byte, length): the model only looks at
   the length of a chunk (same instance as the correspondence driver Run/RunC07.v) *)
Definition big : N * N := (7, 40000).

(* 40 000-byte feed, pause, drain, resume, clean end: exercises Pause / registration / wake of
   the feeder (waker 1) by the pop, Pending / registration / wake of the reader (waker 0) by
   feed_eof, and the truthful clean end. *)
Example C07_example :
  snd (Payload.run (Chunk:=N * N) snd LIMIT false
         [ONeedRead 1; OFeedData big; ONeedRead 1; OPoll 0; ONeedRead 1; OPoll 0; OFeedEof; OPoll 0]) =
  [ (ONeedRead 1, RStatus Read, []);
    (OFeedData big, RUnit, []);
    (ONeedRead 1, RStatus Pause, []);
    (OPoll 0, RPoll (PData big), [1]);
    (ONeedRead 1, RStatus Read, []);
    (OPoll 0, RPoll PPending, []);
    (OFeedEof, RUnit, [0]);
    (OPoll 0, RPoll PEnd, []) ].
Proof. vm_compute. reflexivity. Qed.

(* the hypotheses of C07_error_seen / C07_sender_vanished_first are met by real histories *)
Example C07_example_endings :
  snd (run false [OFeedData [1; 2]; OSetError EIncomplete; OFeedEof; OPoll 0; OPoll 0; OPoll 0]) =
  [ (OFeedData [1; 2], RUnit, []); (OSetError EIncomplete, RUnit, []); (OFeedEof, RUnit, []);
    (OPoll 0, RPoll (PData [1; 2]), []); (OPoll 0, RPoll (PErr EIncomplete), []); (OPoll 0, RPoll PEnd, []) ] /\
  snd (run false [OPoll 2; OSenderDrop; OPoll 2; OPoll 2]) =
  [ (OPoll 2, RPoll PPending, []); (OSenderDrop, RUnit, [2]);
    (OPoll 2, RPoll (PErr EIncomplete), []); (OPoll 2, RPoll PPending, []) ].
Proof. split; vm_compute; reflexivity. Qed.
