(* C03 — placeholder while the model is being validated *)
From AV Require Import Lib.Base H1.ConnRec H1.ConnState.
