(* C03 — placeholder while the model is being validated *)
Require Import AV.Lib.Base AV.H1.ConnRec AV.H1.ConnState.
