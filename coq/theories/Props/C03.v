(* C03 — HTTP/1 reuse discipline: close means close; unread bodies never reparsed.
   Statements only; proofs in H1/ConnProofs.v, ConnSeal.v, ConnCtx.v, ConnLocal.v.
   Model: H1/ConnState.v (event-level transcription of h1/dispatcher.rs + codec context).
   [run_events c es s] runs an ARBITRARY sequence of dispatcher events; every [poll] of the
   correspondence driver is one such sequence (C03_poll_is_event_sequence).
   [fx c] says which repairs the modelled tree contains: fx_ctx = fixes/F12.patch (in the tree),
   fx_sd = fixes/F14.patch (in the tree), fx_close = the F15 repair that the test-suite rejects
   (NOT in the tree: C03_refuted_close_then_more is a known finding). *)
Require Import AV.Lib.Base AV.H1.ConnRec AV.H1.ConnState AV.H1.ConnSpec AV.H1.ConnProofs.
Require Import AV.H1.ConnGraceful AV.H1.ConnSeal AV.H1.ConnCtx AV.H1.ConnLocal AV.H1.ConnKeepAlive AV.H1.ConnQuiet.
Require Import AV.Gen.ConnStateTables AV.H1.ConnTie.
Require Import AV.H1.ConnExpect.

(* TIE TO THE SOURCE TEXT. Gen/ConnStateTables.v is generated on every check from
   actix-http/src/h1/dispatcher.rs (tools/gen/conn_state.py): the statement lists with guards, in
   source order, of the regions the model transcribes. [run c e TABLE s] interprets a table over the
   model state ([G] a guard). For the tree as it is, the model's transitions ARE the interpretation
   of: the four poll_request arms that queue an error message (each sets READ_DISCONNECT),
   should_close_for_unread_payload and its call-site conjunctions in send_response /
   send_error_response, the Ready(None) arms of SendPayload and SendErrorPayload, the Error and Item
   arms of `messages.pop_front()` (F12: context derived from the request's own head), and the F12
   save / restore statements around the decode of a request head. *)
Theorem C03_transitions_match_source : forall c s, fx c = tree_fixes ->
  parse_error s = run c env0 CS_ERR_PARSE s /\
  internal_error s = run c env0 CS_ERR_CHUNK s /\ internal_error s = run c env0 CS_ERR_EOF s /\
  CS_ERR_TOO_LARGE = map (fun a => match a with SPushErr _ => SPushErr 431 | a => a end) CS_ERR_PARSE /\
  should_close c s = close_unread s /\
  (forall e, G c e CS_CU_SEND_RESPONSE s = (close_unread s && (if fx_ctx (fx c) then is_nil (messages s) else true)) /\
             G c e CS_CU_SEND_ERROR s = (close_unread s && (if fx_ctx (fx c) then is_nil (messages s) else true)) /\
             G c (with_cu (G c e CS_CU_SEND_RESPONSE s) e) CS_CLOSE_AFTER_RESPONSE s = (draining s || G c e CS_CU_SEND_RESPONSE s) /\
             G c (with_cu (G c e CS_CU_SEND_ERROR s) e) CS_CLOSE_AFTER_ERROR s = (draining s || G c e CS_CU_SEND_ERROR s)) /\
  body_end c s = add_trace TComplete (run c env0 CS_BODY_END s) /\
  body_end_err c s = add_trace TComplete (run c env0 CS_BODY_END_ERR s) /\
  (forall st, send_response c None st ONone 0 0 s = run c (with_status st env0) CS_POP_ERROR s) /\
  (forall r, start_service c true r s = run c (with_req r env0) CS_POP_ITEM s) /\
  (forall r, CS_DECODE_LOOP_PREFIX = [SSaveCtx] /\
     (is_none (dstate s) = true ->
        run c (fst (fst (exl c CS_DECODE_LOOP_PREFIX (with_req r env0, s)))) CS_DISPATCH_OR_QUEUE (set_ctx c r s) = handle_request c r (set_ctx c r s)) /\
     (is_none (dstate s) = false ->
        run c (fst (fst (exl c CS_DECODE_LOOP_PREFIX (with_req r env0, s)))) CS_DISPATCH_OR_QUEUE (set_ctx c r s) =
        set_messages (messages s ++ [MItem r]) (if fx_ctx (fx c) && negb (is_none (dstate s)) then s else set_ctx c r s))).
Proof. intros c s T. exact (transitions_match_source c s T). Qed.

(* every invariant of the event steps is an invariant of whole polls *)
Theorem C03_poll_is_event_sequence : forall (c : cfg) (P : st -> Prop),
  (forall e s, P s -> P (step c e s)) -> forall rs s, P s -> P (run_polls c rs s).
Proof. intros c P H rs s. apply run_polls_steps. exact H. Qed.

(* ---- "close means close" ------------------------------------------------------------------ *)
(* FULL STATEMENT (C03_silent_after_close): for every configuration, handler scripts and event
   sequence, quiet_after_close (trace (run_events c es (init c hs))) = true.
   FALSE of the code (F15), with or without fixes/F12.patch: *)
Definition f15_case_cfg (f : fixes) : cfg := mkCfg (KaTimeout 5000) 0 0 true false f.
Definition f15_req0 := mkReq 0 false true OClose RBNone.     (* GET /r0, Connection: close *)
Definition f15_req1 := mkReq 1 false true ONone RBNone.      (* GET /r1 pipelined behind it *)
Definition f15_run (f : fixes) : st :=
  run_polls (f15_case_cfg f) [mkRound 0 [IReq f15_req0; IReq f15_req1] RPending false false false]
            (init (f15_case_cfg f) [[HRespond ONone 0 0]; [HRespond ONone 0 0]]).

Theorem C03_refuted_close_then_more :
  quiet_after_close (trace (f15_run no_fixes)) = false /\
  quiet_after_close (trace (f15_run (mkFixes true false true))) = false /\
  (* the second request is dispatched and answered after the response that announced close *)
  trace (f15_run (mkFixes true false true)) =
    [TDecode f15_req0; TStart f15_req0; THead (Some f15_req0) 200 true false CClose; TComplete;
     TDecode f15_req1; TStart f15_req1; THead (Some f15_req1) 200 true false CKeepAlive; TComplete; TKeepAlive].
Proof. vm_compute. repeat split; reflexivity. Qed.

(* POSITIVE THEOREM OUTSIDE THE F15 CLASS, for the tree as it is (fixes/F12.patch + fixes/F14.patch in,
   F15 repair not in), no graceful-shutdown signal configured (C06_graceful covers the signal).
   The class is a predicate on the INPUT only: [Known_F15 c hs es] says that the concatenation of
   everything that ever arrives ([arrivals es]) is not [calm]: some request that is followed by
   further request material is not [good] -- its own context is not keep-alive (Connection: close,
   HTTP/1.0 without keep-alive, keep-alive disabled), or it has a body, or its handler script may
   force close. (Coarser than the harness's class in one respect: a body-bearing request that is
   followed by more is always inside; see notes/C03.md.)
   Outside the class, for ALL handler scripts and ALL event sequences -- hence all polls, timings,
   segmentations, blocked peers, EOF/reset -- nothing active follows the first closing response. *)
Theorem C03_silent_after_close_outside_F15 : forall c hs es,
  fx c = tree_fixes -> has_signal c = false -> ~ Known_F15 c hs es ->
  quiet_after_close (trace (run_events c es (init c hs))) = true.
Proof. intros c hs es T N K. apply quiet_outside_F15; assumption. Qed.

Theorem C03_silent_after_close_outside_F15_polls : forall c hs rs,
  fx c = tree_fixes -> has_signal c = false -> calm c (number 0 hs) (poll_arrivals rs) = true ->
  quiet_after_close (trace (run_polls c rs (init c hs))) = true.
Proof. intros c hs rs T N K. apply quiet_polls_outside_F15; assumption. Qed.

(* the class is decidable and the theorem is not vacuous: three pipelined requests, the last one with
   Connection: close and a body, a malformed head in a second run *)
Example C03_outside_F15_example :
  let c := mkCfg (KaTimeout 5000) 0 1000 true false tree_fixes in
  let r0 := mkReq 0 false true ONone RBNone in
  let r1 := mkReq 1 true false OKeepAlive RBNone in
  let r2 := mkReq 2 false true OClose RBLen in
  let hs := [[HPend; HRespond ONone 3 1]; [HFail 403 4 0]; [HRead; HRespond OKeepAlive 0 0]] in
  let rs := [mkRound 0 [IReq r0; IReq r1; IPart] RPending false false false;
             mkRound 7 [IReq r2; IData 3] RPending true false false;
             mkRound 7 [IData 2; IEnd] REof false false false] in
  calm c (number 0 hs) (poll_arrivals rs) = true /\
  count_heads 200 (trace (run_polls c rs (init c hs))) = 2%nat /\
  count_heads 403 (trace (run_polls c rs (init c hs))) = 1%nat /\
  quiet_after_close (trace (run_polls c rs (init c hs))) = true /\
  (* and the F15 witness is inside the class *)
  calm (f15_case_cfg tree_fixes) (number 0 [[HRespond ONone 0 0]; [HRespond ONone 0 0]]) [IReq f15_req0; IReq f15_req1] = false.
Proof. vm_compute. repeat split; reflexivity. Qed.

(* WHY the class above is coarser than the harness's predicate for body-bearing requests: the
   harness keeps "response sent with the content-length body unread, rest of the body + follower in
   a LATER read, response body not pending" outside its class, because LINGER / SHUTDOWN|FINISHED
   is entered before anything else is read. That argument depends on the ORDER of regions inside
   one poll (read phase, then response phase): for arbitrary event sequences the statement is
   false -- two read phases in a row decode the rest of the body and queue the follower before the
   closing response completes. The same input delivered as polls is quiet. So a theorem for the
   smaller class cannot be an invariant of [step]; it needs an induction over whole polls with a
   read-boundary-indexed stream condition (not done; the gap is judged by the oracle: see
   notes/C03.md for the measured size). *)
Theorem C03_smaller_class_needs_poll_order :
  let c := mkCfg (KaTimeout 5000) 0 0 true false tree_fixes in
  let r0 := mkReq 0 false true ONone RBLen in            (* POST, content-length body, handler reads nothing *)
  let r1 := mkReq 1 false true ONone RBNone in
  let hs := [[HRespond ONone 5 0]; [HRespond ONone 0 0]] in
  let e1 := mkRound 0 [IReq r0; IData 3] RPending false false false in
  let e2 := mkRound 3 [IData 2; IEnd; IReq r1] RPending false false false in
  (* inside the Coq class *)
  calm c (number 0 hs) (r_arrive e1 ++ r_arrive e2) = false /\
  (* as polls: quiet *)
  quiet_after_close (trace (run_polls c [e1; e2; mkRound 3 [] RPending false false false] (init c hs))) = true /\
  (* as an event sequence that no poll produces: the follower is answered after the closing response *)
  quiet_after_close (trace (run_events c [EEnv e1; EReadPhase; EEnv e2; EReadPhase; EResponsePhase false; EEpilogue] (init c hs))) = false.
Proof. vm_compute. repeat split; reflexivity. Qed.

(* What holds of the code as it is: a SEALED state (closing response complete, nothing queued, read
   side stopped or lingering / shutting down; or closing response still streaming) is never left and
   adds no response head and no service call, whatever events follow. The three repairs together
   make every closing response seal the connection (C03_closing_response_seals); in the tree as
   delivered (fx_close = false) the sealing step is missing exactly in the F15 class. *)
Theorem C03_sealed_is_silent : forall c es s, all_fixes c -> Sealed s ->
  Sealed (run_events c es s) /\
  exists l, trace (run_events c es s) = trace s ++ l /\ forallb silent l = true.
Proof.
  intros c es s F S. destruct (run_events_Z c es F s S) as [S' [l [T Q]]].
  split; [exact S'|]. exists l. split; [exact T|exact Q].
Qed.

(* [silent] = neither a response head nor a service call *)
Theorem C03_silent_means_inactive : forall e, silent e = negb (active_ev e).
Proof. intros []; reflexivity. Qed.

Theorem C03_closing_response_seals : forall c who st ro bl bp s,
  fx_close (fx c) = true -> started s = true -> t_active (head_t s) = false ->
  resp_conn c ro s = CClose -> Sealed (send_response c who st ro bl bp s).
Proof. exact send_response_seals. Qed.

(* error responses: a 400/431 is popped when nothing is queued behind it and reading has stopped;
   holds of the code as it is (any fixes) *)
Theorem C03_silent_after_error : forall c st s,
  messages s = [] -> read_disc s = true -> started s = true -> t_active (head_t s) = false ->
  Sealed (send_response c None st ONone 0 0 s).
Proof. exact error_response_seals. Qed.

(* the 408: with fixes/F14.patch the head timer fires once and seals *)
Theorem C03_silent_after_408 : forall c s,
  fx_sd (fx c) = true -> t_ready (head_t s) (now s) = true -> shutdown s = false -> read_disc s = false ->
  messages s = [] -> started s = true ->
  Sealed (poll_head_timer c s) /\
  exists k, trace (poll_head_timer c s) = trace s ++ [THead None 408 (c_v11 s) (c_head s) k; TComplete].
Proof. exact head_timer_seals. Qed.

(* without it a peer that does not read gets one more 408 per poll (part of F14) *)
Theorem C03_refuted_408_repeated :
  let c := mkCfg (KaTimeout 5000) 1000 1000 true false no_fixes in
  let blocked := mkRound 1001 [] RPending true false false in
  count_heads 408 (trace (run_polls c [mkRound 0 [] RPending false false false; blocked; blocked; blocked] (init c []))) = 3%nat.
Proof. vm_compute. reflexivity. Qed.

(* ---- per-request context (F12, repaired by fixes/F12.patch) ------------------------------- *)
Theorem C03_refuted_context_overwritten :
  let c := mkCfg (KaTimeout 5000) 0 0 true false no_fixes in
  let r0 := mkReq 0 false true ONone RBNone in                (* GET, handler pending once *)
  let r1 := mkReq 1 true false ONone RBNone in                (* HEAD, HTTP/1.0 *)
  let idle := mkRound 0 [] RPending false false false in
  own_context c (trace (run_polls c [mkRound 0 [IReq r0; IReq r1] RPending false false false; idle]
                                  (init c [[HPend; HRespond ONone 3 0]; [HRespond ONone 3 0]]))) = false.
Proof. vm_compute. reflexivity. Qed.

Theorem C03_response_uses_own_context : forall c hs es,
  fx_ctx (fx c) = true -> own_context c (trace (run_events c es (init c hs))) = true.
Proof. intros c hs es F. apply own_context_always. exact F. Qed.

(* ---- KEEP_ALIVE only after the exact end of the request body -------------------------------- *)
(* always: the dispatcher holds a payload sender exactly while the codec is inside a body, unless
   reading has stopped for good; so a request head is only ever decoded at a message boundary *)
Theorem C03_body_discipline : forall c hs es,
  let s := run_events c es (init c hs) in
  (payload s <> None -> c_pl s = true) /\ (payload s = None -> c_pl s = true -> read_disc s = true).
Proof. intros c hs es. apply run_events_B. apply init_B. Qed.

(* the idle decision sets KEEP_ALIVE only when no payload is outstanding and the context allows it *)
Theorem C03_keepalive_only_after_exact_body_end : forall c f s,
  dstate s = SNone -> draining s = false -> messages s = [] ->
  keep_alive (poll_response (S f) c s) = true -> payload s = None /\ c_conn s = CKeepAlive.
Proof. exact keepalive_decision. Qed.

(* ---- response finished while the payload is unread and undrainable -------------------------- *)
Theorem C03_unread_undrainable_closes : forall c who st ro bl bp s,
  close_unread s = true -> (fx_ctx (fx c) = true -> messages s = []) ->
  let s' := send_response c who st ro bl bp s in
  trace s' = trace s ++ THead who st (c_v11 s) (c_head s) CClose :: (if bl =? 0 then [TComplete] else []) /\
  c_conn s' = CClose /\
  (bl = 0 -> finished s' = true /\ (linger s' || shutdown s') = true /\ dstate s' = SNone).
Proof. exact unread_payload_closes. Qed.

Theorem C03_unread_at_body_end_closes : forall c s,
  close_unread s = true -> messages s = [] ->
  let s' := body_end c s in finished s' = true /\ (linger s' || shutdown s') = true /\ dstate s' = SNone.
Proof. exact body_end_unread_closes. Qed.

(* ... and at the end of the body of an ERROR response (handler returned Err with a non-empty body:
   State::SendErrorPayload, a separate arm of poll_response transcribed separately) *)
Theorem C03_unread_at_error_body_end_closes : forall c s,
  close_unread s = true -> messages s = [] ->
  let s' := body_end_err c s in finished s' = true /\ (linger s' || shutdown s') = true /\ dstate s' = SNone.
Proof. exact body_end_err_unread_closes. Qed.

(* ---- Expect: 100-continue (State::ExpectCall), H1/ConnExpect.v ------------------------------- *)
(* the Err arm of ExpectCall as the model runs it: the ServiceCall arm on a desugared reject script
   IS [expect_err] (drop the request, send_error_response with the payload state as it is) *)
Theorem C03_expect_err_arm_is_modelled : forall c f r st b p tl s,
  dstate s = SService r -> hs_get (rq_id r) (hs s) = HFail st b p :: tl ->
  poll_response (S f) c s = poll_response f c (expect_err c r st b p s).
Proof. exact service_arm_is_expect_err. Qed.

(* rejected while the (content-length) body is outstanding and nothing is queued: the error response
   announces close; without a body the connection is FINISHED and lingers / shuts down, with a body
   the state is SendErrorPayload with the payload still owned (decision repeated at its end:
   C03_unread_at_error_body_end_closes) *)
Theorem C03_expect_rejected_unread_closes : forall c r st b p s,
  st <> 0 -> payload s <> None -> drainable s = false -> messages s = [] ->
  let s' := expect_err c r st b p s in
  trace s' = trace s ++ THead (Some r) st (c_v11 s) (c_head s) CClose :: (if b =? 0 then [TComplete] else []) /\
  c_conn s' = CClose /\
  (b = 0 -> finished s' = true /\ (linger s' || shutdown s') = true /\ dstate s' = SNone) /\
  (b <> 0 -> dstate s' = SSendPayload (Some r) /\ berr s' = true /\ payload s' = payload s /\
             drainable s' = false /\ messages s' = []).
Proof. exact expect_reject_unread_closes. Qed.

(* in every case (chunked body included) the Err arm leaves the body with the codec: payload sender,
   payload decoder and read_buf untouched, and while the decoder is installed the decode loop
   decodes no head (anything but body data stops it) *)
Theorem C03_expect_rejected_body_stays_a_body : forall c r st b p s,
  let s' := expect_err c r st b p s in
  (payload s' = payload s /\ c_pl s' = c_pl s /\ drainable s' = drainable s /\ rbuf s' = rbuf s /\
   reparsed s' = reparsed s) /\
  (forall f upd it rest, c_pl s' = true -> rbuf s' = it :: rest ->
     match it with IData _ | IEnd => True | _ => decode_loop (S f) c s' upd = (s', upd) end).
Proof.
  intros c r st b p s. split; [apply expect_reject_keeps_decoder|].
  intros f upd it rest. apply inside_body_no_head.
Qed.

(* the unbounded theorems quantify over all handler scripts, hence over every run with expect
   scripts (accept / reject / pending k polls): body discipline always, close-means-close outside F15 *)
Theorem C03_expect_runs_covered : forall c hs ex es,
  let s := run_events c es (init c (desugar ex hs)) in
  ((payload s <> None -> c_pl s = true) /\ (payload s = None -> c_pl s = true -> read_disc s = true)) /\
  (fx c = tree_fixes -> has_signal c = false -> ~ Known_F15 c (desugar ex hs) es ->
   quiet_after_close (trace s) = true).
Proof.
  intros c hs ex es. split; [apply expect_body_discipline|apply expect_quiet_outside_F15].
Qed.

(* non-vacuity: `POST` with Expect and a 20-byte content-length body, rejected with 417 while only
   the head has arrived, the client sends the body (and a request) anyway: close announced, LINGER,
   body and follower discarded, nothing dispatched; chunked: kept alive, body drained to its exact
   end, only then the follower is decoded *)
Example C03_expect_example :
  let c := mkCfg (KaTimeout 5000) 0 1000 true false tree_fixes in
  let r0 := mkReq 0 false true ONone RBLen in
  let q0 := mkReq 0 false true ONone RBChunked in
  let r1 := mkReq 1 false true ONone RBNone in
  let hs := desugar [XExpect 0 417 0 0; XNone] [[HRespond ONone 0 0]; [HRespond ONone 0 0]] in
  let s := run_polls c [mkRound 0 [IReq r0] RPending false false false;
                        mkRound 7 [IData 20; IEnd; IReq r1] RPending false false false] (init c hs) in
  let z := run_polls c [mkRound 0 [IReq q0] RPending false false false;
                        mkRound 7 [IData 20; IEnd; IReq r1] RPending false false false] (init c hs) in
  trace s = [TDecode r0; TStart r0; THead (Some r0) 417 true false CClose; TComplete; TDiscard 3] /\
  linger s = true /\
  trace z = [TDecode q0; TStart q0; THead (Some q0) 417 true false CKeepAlive; TComplete;
             TDecode r1; TStart r1; THead (Some r1) 200 true false CKeepAlive; TComplete; TKeepAlive] /\
  reparsed z = false.
Proof. vm_compute. repeat split; reflexivity. Qed.

(* ---- LINGER drops what it reads --------------------------------------------------------------- *)
Theorem C03_linger_discards : forall c wb s,
  let s' := poll_linger c wb s in
  dstate s' = dstate s /\ messages s' = messages s /\ hs s' = hs s /\ chans s' = chans s /\
  (exists l, trace s' = trace s ++ l /\ forallb is_discard l = true) /\
  (forall s1 s2 s3 d, flush wb s = (s1, true) -> ensure_linger_timer c s1 = (s2, true) ->
                      read_available s2 = (s3, d, false) -> rbuf s' = []).
Proof.
  intros c wb s. destruct (linger_no_dispatch c wb s) as (A & B & C & D & E).
  repeat split; auto. intros. eapply linger_drops_what_it_reads; eauto.
Qed.

(* non-vacuity: an early response to a request whose 20-byte body has not arrived, disconnect
   timeout configured: close announced, LINGER entered, the late body bytes are discarded *)
Example C03_example :
  let c := mkCfg (KaTimeout 5000) 0 1000 true false (mkFixes true false true) in
  let r0 := mkReq 0 false true ONone RBLen in
  let s := run_polls c [mkRound 0 [IReq r0; IData 5] RPending false false false;
                        mkRound 7 [IData 15; IEnd] RPending false false false]
                     (init c [[HRespond ONone 0 0]]) in
  trace s = [TDecode r0; TStart r0; THead (Some r0) 200 true false CClose; TComplete; TDiscard 2] /\
  linger s = true /\ quiet_after_close (trace s) = true.
Proof. vm_compute. repeat split; reflexivity. Qed.
