(* C15 proofs, part 5: the whole parser on complete AND truncated bodies, with a parser buffer
   that may be far smaller than the body.
   [Z] is the part of the body that never arrives: Z = [] (complete body, any epilogue) or
   |Z| >= 3 (the body is cut at least 3 bytes before its end "--" boundary "--" CR LF, i.e.
   strictly inside  ... "--" boundary "--"; no epilogue).
   Requirement on buffer_limit [lim]: it holds a boundary line (|boundary| + 6) and the longest
   header block; field contents are unbounded. *)
From AV Require Import Lib.Base.
From AV Require Import Multipart.Buffer.
From AV Require Import Multipart.Scan.
From AV Require Import Multipart.Parser.
From AV Require Import Multipart.ScanProofs.
From AV Require Import Multipart.ParserProofs.
From AV Require Import Run.RunC15.
From AV Require Import Multipart.Roundtrip.
From AV Require Import Multipart.Stream2.

(* delivered prefix of an expected transcript: whole items, the last data possibly cut short *)
Inductive tpre : list tev -> list tev -> Prop :=
| tp_nil full : tpre [] full
| tp_data d d' rest : d <> [] -> tpre [TData d] (TData (d ++ d') :: rest)
| tp_cons e t full : tpre t full -> tpre (e :: t) (e :: full).

Section RT2.
Variable hdr : bytes -> hres.
Variable bnd : bytes.
Hypothesis bnd_ne : bnd <> [].
Hypothesis bnd_nolf : ~ In 10 bnd.
Variable epi : bytes.                       (* epilogue after the close delimiter line *)
Variable Z : bytes.                         (* the missing tail *)
Hypothesis HZ : Z = [] \/ ((3 <= length Z)%nat /\ epi = []).
Variable lim : N.                           (* buffer_limit *)
Hypothesis lim_line : N.of_nat (length bnd + 6) <= lim.

Notation after' := (after bnd close_line epi).
Notation body' := (body bnd close_line epi).
Notation F := (stream_of bnd close_line epi).
Notation line_of' := (line_of bnd close_line epi).
Notation line_len' := (line_len bnd close_line epi).

Lemma close_nolf : ~ In 10 close_line.
Proof. intros [H|[H|[H|[]]]]; discriminate. Qed.

(* [inv p Fq]: Fq = the rest of the FULL body from the parser's position; what has arrived or
   will arrive of it is everything but Z *)
Definition inv (p : pb) (Fq : bytes) : Prop := exists S, good2 p S /\ Fq = S ++ Z.

Lemma inv_prefix p Fq : inv p Fq -> is_prefix (p_buf p) Fq.
Proof.
  intros (S & G & ->). destruct (good2_prefix _ _ G) as (s & ->). exists (s ++ Z). rewrite app_assoc. reflexivity.
Qed.

Lemma inv_eof p Fq : inv p Fq -> p_eof p = true -> Fq = p_buf p ++ Z.
Proof. intros (S & G & ->) H. rewrite (good2_eof _ _ G H). reflexivity. Qed.

Lemma inv_skip p Fq k : inv p Fq -> (k <= length (p_buf p))%nat ->
  inv (set_buf p (skipn k (p_buf p))) (skipn k Fq).
Proof.
  intros (S & G & ->) L. exists (skipn k S). split; [apply good2_skip; assumption|].
  rewrite skipn_app. pose proof (good2_len _ _ G). replace (k - length S)%nat with O by lia. reflexivity.
Qed.

Lemma inv_firstn p Fq k : inv p Fq -> (k <= length (p_buf p))%nat -> firstn k (p_buf p) = firstn k Fq.
Proof.
  intros (S & G & ->) L. rewrite (firstn_good2 _ _ _ G L), firstn_app.
  pose proof (good2_len _ _ G). replace (k - length S)%nat with O by lia. cbn. rewrite app_nil_r. reflexivity.
Qed.

Lemma inv_bounded p Fq : inv p Fq -> lenN (p_buf p) <= p_limit p.
Proof. intros (S & (_ & _ & _ & D) & _). exact D. Qed.

Lemma inv_len p Fq : inv p Fq -> (length (p_buf p) <= length Fq)%nat.
Proof. intro I. destruct (inv_prefix _ _ I) as (s & ->). rewrite app_length. lia. Qed.

Lemma poll_stream_inv p Fq :
  inv p Fq -> lenN (p_buf p) < p_limit p ->
  exists p' w, poll_stream false p = Ok (p', w) /\ inv p' Fq /\ p_limit p' = p_limit p /\
    (w = false -> p_eof p' = true) /\
    (length (p_stream p') <= length (p_stream p))%nat /\ progress p p'.
Proof.
  intros (S & G & E) L. destruct (poll_stream2 p S G L) as (p' & w & PS & G' & R).
  exists p', w. split; [exact PS|]. split; [exists S; auto|exact R].
Qed.

(* read_until on a possibly truncated stream *)
Lemma read_until_t needle p Fq i :
  inv p Fq -> find_sub needle Fq = Some i ->
  let k := (i + length needle)%nat in
  if (k <=? length (p_buf p))%nat
  then read_until needle p = Ok (Some (firstn k Fq), set_buf p (skipn k (p_buf p)))
  else (p_eof p = false /\ read_until needle p = Ok (None, p)) \/
       (p_eof p = true /\ Z <> [] /\ Fq = p_buf p ++ Z /\ read_until needle p = Err EIncomplete).
Proof.
  intros I Fi k. destruct (inv_prefix _ _ I) as (s & Es).
  destruct (Nat.leb_spec k (length (p_buf p))) as [L|L]; unfold read_until.
  - rewrite Es in Fi. rewrite (find_sub_restrict _ _ _ _ Fi L). fold k.
    rewrite (inv_firstn p Fq k I L). reflexivity.
  - pose proof Fi as Fi'. rewrite Es in Fi. rewrite (find_sub_short _ _ _ _ Fi L).
    destruct (p_eof p) eqn:Eo; [right|left; auto].
    pose proof (inv_eof _ _ I Eo) as Eb. split; [reflexivity|]. split; [|auto].
    intros ->. rewrite app_nil_r in Eb. apply find_sub_len in Fi'. rewrite Eb in Fi'. fold k in Fi'. lia.
Qed.

(* ---- outcome of a run: the expected transcript, or (truncated) a delivered prefix + an error *)
Definition Out (tr full : list tev) : Prop :=
  (Z = [] -> norm tr = full) /\
  (Z <> [] -> exists t e, norm tr = t ++ [TErr e] /\ tpre t full).

Lemma Out_pend w tr full : Out tr full -> Out (TPend w :: tr) full.
Proof. intro H. exact H. Qed.

Lemma Out_field n cl tr full : Out tr full -> Out (TField n cl :: tr) (TField n cl :: full).
Proof.
  intros [A B]. split.
  - intro Hz. cbn [norm]. rewrite (A Hz). reflexivity.
  - intro Hz. destruct (B Hz) as (t & e & E & T). exists (TField n cl :: t), e. cbn [norm]. rewrite E.
    split; [reflexivity|constructor; exact T].
Qed.

Lemma Out_fend tr full : Out tr full -> Out (TFieldEnd :: tr) (TFieldEnd :: full).
Proof.
  intros [A B]. split.
  - intro Hz. cbn [norm]. rewrite (A Hz). reflexivity.
  - intro Hz. destruct (B Hz) as (t & e & E & T). exists (TFieldEnd :: t), e. cbn [norm]. rewrite E.
    split; [reflexivity|constructor; exact T].
Qed.

Lemma Out_data ch tr c k : ch <> [] -> Out tr (exp_content c k) -> Out (TData ch :: tr) (exp_content (ch ++ c) k).
Proof.
  intros Nch [A B]. split.
  - intro Hz. cbn [norm]. rewrite (A Hz). apply norm_data_content. exact Nch.
  - intro Hz. destruct (B Hz) as (t & e & E & T). cbn [norm]. rewrite E.
    unfold exp_content in *. destruct c as [|c0 c]; cbn [is_nil app] in *.
    + rewrite app_nil_r. destruct ch as [|h ch]; [congruence|]. cbn [is_nil app].
      inversion T as [full|d d' rest Nd|e0 t0 full0 T0]; subst; cbn [app].
      * exists [TData (h :: ch)], e. split; [reflexivity|].
        rewrite <- (app_nil_r (h :: ch)) at 2. constructor. discriminate.
      * exists (TData (h :: ch) :: TFieldEnd :: t0), e. split; [reflexivity|]. constructor. constructor. exact T0.
    + destruct ch as [|h ch]; [congruence|]. cbn [is_nil app].
      inversion T as [full|d d' rest Nd|e0 t0 full0 T0]; subst; cbn [app].
      * exists [TData (h :: ch)], e. split; [reflexivity|].
        change (h :: ch ++ c0 :: c) with ((h :: ch) ++ c0 :: c). constructor. discriminate.
      * exists [TData ((h :: ch) ++ d)], e. split; [reflexivity|].
        change (h :: ch ++ d ++ d') with ((h :: ch) ++ d ++ d'). rewrite app_assoc. constructor. discriminate.
      * exists (TData ((h :: ch) ++ c0 :: c) :: t0), e. split; [reflexivity|]. constructor. exact T0.
Qed.

Lemma Out_end : Z = [] -> Out [TEnd] [TEnd].
Proof. intro Hz. split; [reflexivity|congruence]. Qed.

Lemma Out_err e full : Z <> [] -> Out [TErr e] full.
Proof. intro Hz. split; [congruence|]. intros _. exists [], e. split; [reflexivity|constructor]. Qed.


(* ------------------------------------------------------------------ the parser functions *)

Lemma readline_boundary_t p fs :
  inv p (body' fs) ->
  if (line_len' fs <=? length (p_buf p))%nat
  then readline p = Ok (Some (DD ++ bnd ++ fst (line_of' fs) ++ [10]), set_buf p (skipn (line_len' fs) (p_buf p)))
       /\ inv (set_buf p (skipn (line_len' fs) (p_buf p))) (snd (line_of' fs))
  else (p_eof p = false /\ readline p = Ok (None, p)) \/
       (p_eof p = true /\ Z <> [] /\ body' fs = p_buf p ++ Z /\ readline p = Err EIncomplete).
Proof.
  intro I. destruct (after_line bnd close_line epi close_nolf fs) as [EA NA].
  assert (ES : body' fs = (DD ++ bnd ++ fst (line_of' fs)) ++ 10 :: snd (line_of' fs)).
  { unfold body. rewrite EA, <- !app_assoc. reflexivity. }
  pose proof (read_until_t [10] p (body' fs) _ I
                (eq_trans (f_equal (find_sub [10]) ES)
                          (find_sub_lf _ _ (nolf_line bnd bnd_nolf close_line epi close_nolf fs)))) as R.
  cbn zeta in R. cbn [length] in R. rewrite Nat.add_1_r in R. fold (line_len' fs) in R.
  unfold readline. destruct (line_len' fs <=? length (p_buf p))%nat eqn:L; [|exact R].
  apply Nat.leb_le in L. split.
  - rewrite R. f_equal. f_equal. f_equal. rewrite ES. unfold line_len.
    rewrite firstn_app. rewrite firstn_all2 by lia.
    replace (S (length (DD ++ bnd ++ fst (line_of' fs))) - length (DD ++ bnd ++ fst (line_of' fs)))%nat with 1%nat by lia.
    cbn [firstn]. rewrite <- !app_assoc. reflexivity.
  - pose proof (inv_skip p (body' fs) (line_len' fs) I L) as G2.
    replace (skipn (line_len' fs) (body' fs)) with (snd (line_of' fs)) in G2; [exact G2|].
    rewrite ES. unfold line_len. rewrite skipn_app. rewrite skipn_all2 by lia.
    replace (S (length (DD ++ bnd ++ fst (line_of' fs))) - length (DD ++ bnd ++ fst (line_of' fs)))%nat with 1%nat by lia.
    reflexivity.
Qed.

Lemma bnd_nil : is_nil bnd = false.
Proof. exact (is_nil_bnd bnd bnd_ne bnd_nolf). Qed.

(* a complete close line can only be buffered when the body is complete *)
Lemma last_line_complete p :
  inv p (body' []) -> (line_len' [] <= length (p_buf p))%nat -> Z = [].
Proof.
  intros I L. destruct HZ as [Hz|[Hz He]]; [exact Hz|exfalso].
  pose proof (inv_len _ _ I) as Ll. destruct I as (S & G & E).
  pose proof (good2_len _ _ G) as Ls.
  apply (f_equal (@length _)) in E. rewrite app_length in E.
  pose proof (body_len hdr bnd close_line epi close_nolf []) as BL. cbn [line_of snd] in BL.
  rewrite He in BL. cbn [length] in BL. rewrite He in *. lia.
Qed.

Lemma skip_first_t p fs :
  inv p (body' fs) ->
  if (line_len' fs <=? length (p_buf p))%nat
  then skip_until_boundary p bnd =
         Ok (Some (match fs with [] => true | _ => false end), set_buf p (skipn (line_len' fs) (p_buf p)))
       /\ inv (set_buf p (skipn (line_len' fs) (p_buf p))) (snd (line_of' fs))
  else (p_eof p = false /\ skip_until_boundary p bnd = Ok (None, p)) \/
       (p_eof p = true /\ Z <> [] /\ skip_until_boundary p bnd = Err EIncomplete).
Proof.
  intro I. pose proof (readline_boundary_t p fs I) as R.
  unfold skip_until_boundary. rewrite bnd_nil. cbn [skip_loop].
  destruct (line_len' fs <=? length (p_buf p))%nat.
  - destruct R as [R G2]. split; [|exact G2]. rewrite R.
    destruct fs as [|f r]; cbn [line_of fst].
    + unfold close_line.
      replace (DD ++ bnd ++ (DD ++ [CR]) ++ [10]) with ((DD ++ bnd ++ DD) ++ CRLF)
        by (rewrite <- !app_assoc; reflexivity).
      replace (is_nil ((DD ++ bnd ++ DD) ++ CRLF)) with false by reflexivity.
      rewrite strip_suffix_app, strip_prefix_app. rewrite bytes_eqb_app_neq by discriminate.
      rewrite strip_suffix_app. cbn [opt_bytes_eqb]. rewrite bytes_eqb_refl. reflexivity.
    + replace (DD ++ bnd ++ [CR] ++ [10]) with ((DD ++ bnd) ++ CRLF)
        by (rewrite <- !app_assoc; reflexivity).
      replace (is_nil ((DD ++ bnd) ++ CRLF)) with false by reflexivity.
      rewrite strip_suffix_app, strip_prefix_app, bytes_eqb_refl. reflexivity.
  - destruct R as [[E R]|(E & Hz & _ & R)]; rewrite R.
    + left. cbn iota. rewrite E. auto.
    + right. auto.
Qed.

Lemma in_prefix (a b : bytes) x : is_prefix a b -> In x a -> In x b.
Proof. intros (s & ->) H. apply in_or_app. left. exact H. Qed.

Lemma boundary_read_t p fs :
  inv p (body' fs) ->
  if (line_len' fs <=? length (p_buf p))%nat
  then read_boundary p bnd =
         Ok (Some (match fs with [] => true | _ => false end), set_buf p (skipn (line_len' fs) (p_buf p)))
       /\ inv (set_buf p (skipn (line_len' fs) (p_buf p))) (snd (line_of' fs))
  else (p_eof p = false /\ read_boundary p bnd = Ok (None, p)) \/
       (p_eof p = true /\ Z <> [] /\ exists e, read_boundary p bnd = Err e).
Proof.
  intro I. pose proof (readline_boundary_t p fs I) as R.
  destruct (line_len' fs <=? length (p_buf p))%nat eqn:L.
  - destruct R as [R G2]. split; [|exact G2].
    unfold read_boundary, readline_or_eof. rewrite bnd_nil, R, !strip_prefix_app.
    destruct fs as [|f r]; cbn [line_of fst]; reflexivity.
  - destruct R as [[E R]|(E & Hz & Eb & R)].
    + left. split; [exact E|]. unfold read_boundary, readline_or_eof. rewrite bnd_nil, R. cbn iota. rewrite E. reflexivity.
    + right. split; [exact E|]. split; [exact Hz|].
      destruct (read_boundary p bnd) as [[[fin|] p']|e] eqn:RB; [| |eexists; reflexivity]; exfalso.
      * (* an accepted line would have to be "--" boundary "--" without CRLF: only 2 bytes missing *)
        apply Nat.leb_gt in L.
        destruct (read_boundary_exact _ _ _ _ RB) as (line & Hl & Form).
        destruct (after_line bnd close_line epi close_nolf fs) as [EA NA].
        assert (ES : body' fs = (DD ++ bnd ++ fst (line_of' fs)) ++ 10 :: snd (line_of' fs)).
        { unfold body. rewrite EA, <- !app_assoc. reflexivity. }
        assert (Hp : is_prefix (p_buf p) (DD ++ bnd ++ fst (line_of' fs))).
        { exists (skipn (length (p_buf p)) (DD ++ bnd ++ fst (line_of' fs))).
          rewrite <- (firstn_skipn (length (p_buf p)) (DD ++ bnd ++ fst (line_of' fs))) at 1. f_equal.
          assert (X : firstn (length (p_buf p)) (body' fs) = p_buf p).
          { rewrite Eb, firstn_app, firstn_all, Nat.sub_diag. cbn. apply app_nil_r. }
          rewrite ES, firstn_app in X. unfold line_len in L.
          replace (length (p_buf p) - length (DD ++ bnd ++ fst (line_of' fs)))%nat with O in X by lia.
          cbn [firstn] in X. rewrite app_nil_r in X. exact X. }
        assert (Nl : ~ In 10 (p_buf p)).
        { intro H. exact (nolf_line bnd bnd_nolf close_line epi close_nolf fs (in_prefix _ _ _ Hp H)). }
        assert (Fl : line = DD ++ bnd ++ DD).
        { destruct fin.
          - destruct Form as [F1|F1]; [exact F1|]. exfalso. apply Nl. rewrite Hl, F1.
            apply in_or_app. left. rewrite !app_assoc. apply in_or_app. right. right. left. reflexivity.
          - exfalso. apply Nl. rewrite Hl, Form.
            apply in_or_app. left. rewrite !app_assoc. apply in_or_app. right. right. left. reflexivity. }
        destruct Hp as (s & Hp). rewrite Hl, Fl, <- !app_assoc in Hp.
        apply app_inv_head in Hp. apply app_inv_head in Hp.
        destruct fs as [|f r]; cbn [line_of fst] in Hp; [|discriminate].
        unfold close_line in Hp. apply app_inv_head in Hp.
        (* p_buf p' ++ s = [CR]: at most 2 bytes are missing *)
        destruct HZ as [Hz'|[Hz' He]]; [contradiction|].
        assert (Lb : (length (DD ++ bnd ++ DD) <= length (p_buf p))%nat) by (rewrite Hl, Fl, !app_length; lia).
        apply (f_equal (@length _)) in Eb. rewrite app_length in Eb.
        pose proof (body_len hdr bnd close_line epi close_nolf []) as BL. cbn [line_of snd] in BL.
        rewrite He in BL, Eb. cbn [length] in BL. unfold line_len in BL. cbn [line_of fst] in BL.
        rewrite BL in Eb. unfold close_line in Eb. rewrite !app_length in *. cbn [length] in *. lia.
      * pose proof (read_boundary_spec _ _ _ _ RB) as [_ N]. rewrite (N eq_refl) in E. discriminate.
Qed.

Definition fits (f : fld) : Prop := lenN (fh f) <= lim.

Lemma headers_poll_t m p f r :
  fld_ok hdr bnd f -> inv p (fh f ++ fc f ++ delim bnd ++ after' r) -> m_bnd m = bnd ->
  if (length (fh f) <=? length (p_buf p))%nat
  then poll_headers hdr m p =
         (Ready (MField (fname f) (cl_of f)),
          mkMp (set_buf p (skipn (length (fh f)) (p_buf p))) Boundary (Some (mkField true false (cl_of f))) bnd)
       /\ inv (set_buf p (skipn (length (fh f)) (p_buf p))) (fc f ++ delim bnd ++ after' r)
  else (p_eof p = false /\ poll_headers hdr m p = (Pending, mkMp p Headers None bnd)) \/
       (p_eof p = true /\ Z <> [] /\ exists m', poll_headers hdr m p = (Ready (MErr EIncomplete), m')).
Proof.
  intros (Hh & (h0 & Eh & Fh) & _) I Eb. unfold poll_headers, read_field_headers.
  pose proof (read_until_t CRLF2 p _ _ I (find_sub_app _ _ (fc f ++ delim bnd ++ after' r) _ Fh)) as R.
  cbn zeta in R.
  assert (Lh : (length h0 + length CRLF2 = length (fh f))%nat) by (rewrite Eh, app_length; reflexivity).
  rewrite Lh in R. change (CRLF ++ CRLF) with CRLF2. rewrite Eb.
  destruct (length (fh f) <=? length (p_buf p))%nat eqn:L.
  - rewrite R. rewrite firstn_app, firstn_all, Nat.sub_diag. cbn [firstn]. rewrite app_nil_r, Hh.
    split; [reflexivity|]. apply Nat.leb_le in L.
    pose proof (inv_skip p _ (length (fh f)) I L) as G2.
    rewrite skipn_app, skipn_all, Nat.sub_diag in G2. exact G2.
  - destruct R as [[E R]|(E & Hz & _ & R)]; rewrite R.
    + left. cbn iota. rewrite E. auto.
    + right. split; [exact E|]. split; [exact Hz|]. eexists. reflexivity.
Qed.


(* p' is p with a strictly shorter buffer (same stream, limit, eof) *)
Definition shorter (p p' : pb) : Prop := exists b, p' = set_buf p b /\ (length b < length (p_buf p))%nat.

Lemma stage2_t f p r :
  inv p (delim bnd ++ after' r) ->
  if (2 <=? length (p_buf p))%nat
  then field_stage2 f p = (Ready IEnd, mkField false (f_eof f) (f_length f), set_buf p (skipn 2 (p_buf p)))
       /\ inv (set_buf p (skipn 2 (p_buf p))) (body' r)
  else (p_eof p = false /\ field_stage2 f p = (Pending, f, p)) \/
       (p_eof p = true /\ Z <> [] /\ field_stage2 f p = (Ready (IErr EIncomplete), f, p)).
Proof.
  intro I. unfold field_stage2, readline.
  pose proof (read_until_t [10] p _ 1%nat I eq_refl) as R. cbn zeta in R. cbn [length Nat.add] in R.
  destruct (2 <=? length (p_buf p))%nat eqn:L.
  - rewrite R. split; [reflexivity|]. apply Nat.leb_le in L. exact (inv_skip p _ 2 I L).
  - destruct R as [[E R]|(E & Hz & _ & R)]; rewrite R; auto.
Qed.

Lemma content_poll_t p c r :
  clean bnd c -> inv p (c ++ delim bnd ++ after' r) ->
  match field_poll false false bnd (mkField true false None) p with
  | (Ready (IData ch), f', p') =>
      ch <> [] /\ exists c', c = ch ++ c' /\ f' = mkField true false None /\
                            inv p' (c' ++ delim bnd ++ after' r) /\ shorter p p'
  | (Ready IEnd, f', p') => c = [] /\ f' = mkField false true None /\ inv p' (body' r) /\ shorter p p'
  | (Ready (IErr _), _, _) => p_eof p = true /\ Z <> []
  | (Pending, f', p') => f' = mkField true false None /\ p' = p /\ p_eof p = false /\
                         (length (p_buf p) < length bnd + 4)%nat
  end.
Proof.
  intros Hc I. unfold field_poll. cbn [f_present f_eof f_length negb].
  change (read_stream_gen false false p bnd) with (read_stream p bnd).
  pose proof (read_stream_step p bnd c (after' r) (inv_prefix _ _ I) Hc) as St.
  destruct (read_stream p bnd) as [[[| ch | e]|] p1] eqn:RS.
  - destruct St as (-> & -> & (tail & Hb)).
    rewrite (field_end_handoff _ p bnd tail Hb). cbn [f_eof f_length f_present].
    split; [reflexivity|]. split; [reflexivity|].
    assert (L2 : (2 <= length (p_buf p))%nat) by (rewrite Hb; unfold delim; cbn [length app]; lia).
    pose proof (inv_skip p _ 2 I L2) as G2. rewrite Hb in G2 at 1.
    split; [exact G2|]. eexists. split; [reflexivity|]. rewrite Hb. unfold delim, DD. cbn [length app]. lia.
  - destruct St as (Nch & (c' & ->) & Hb & Hp). split; [exact Nch|]. exists c'.
    split; [reflexivity|]. split; [reflexivity|].
    pose proof (inv_skip p _ (length ch) I ltac:(rewrite Hb, app_length; lia)) as G2.
    rewrite Hb in G2 at 1. rewrite skipn_app, skipn_all, Nat.sub_diag in G2. cbn [skipn app] in G2.
    rewrite <- Hp in G2. rewrite <- app_assoc, skipn_app, skipn_all, Nat.sub_diag in G2.
    split; [exact G2|]. exists (p_buf p1). split; [exact Hp|]. rewrite Hb, app_length.
    destruct ch; [congruence|cbn [length]; lia].
  - destruct St as (-> & Eo & ->). split; [exact Eo|]. intro Hz0.
    pose proof (read_stream_waits_short _ _ _ _ RS ltac:(right; eexists; reflexivity)) as L.
    pose proof (inv_eof _ _ I Eo) as Eb. rewrite Hz0, app_nil_r in Eb.
    apply (f_equal (@length _)) in Eb. rewrite !app_length in Eb. unfold delim in Eb. cbn [length] in Eb. lia.
  - destruct St as (Eo & ->).
    pose proof (read_stream_waits_short _ _ _ _ RS ltac:(left; reflexivity)) as L. auto.
Qed.

Lemma cl_poll_t p c r :
  inv p (c ++ delim bnd ++ after' r) ->
  match field_poll false false bnd (mkField true false (Some (lenN c))) p with
  | (Ready (IData ch), f', p') =>
      ch <> [] /\ exists c', c = ch ++ c' /\ f' = mkField true false (Some (lenN c')) /\
                            inv p' (c' ++ delim bnd ++ after' r) /\ shorter p p'
  | (Ready IEnd, f', p') => c = [] /\ (exists e l, f' = mkField false e l) /\ inv p' (body' r) /\ shorter p p'
  | (Ready (IErr _), _, _) => p_eof p = true /\ Z <> []
  | (Pending, f', p') => p' = p /\ p_eof p = false /\ (length (p_buf p) < 2)%nat /\
      (f' = mkField true false (Some (lenN c)) \/ (c = [] /\ f' = mkField true true (Some 0)))
  end.
Proof.
  intro I. unfold field_poll. cbn [f_present f_eof f_length negb]. unfold read_len.
  destruct c as [|c0 c1].
  - change (lenN (@nil N)) with 0. rewrite N.eqb_refl. cbn [f_present f_length app] in *.
    pose proof (stage2_t (mkField true true (Some 0)) p r I) as S2.
    destruct (2 <=? length (p_buf p))%nat eqn:L.
    + destruct S2 as [S2 G2]. rewrite S2. cbn [f_eof f_length].
      split; [reflexivity|]. split; [eauto|]. split; [exact G2|].
      eexists. split; [reflexivity|]. apply Nat.leb_le in L. rewrite skipn_length. lia.
    + apply Nat.leb_gt in L. destruct S2 as [[E S2]|(E & Hz & S2)]; rewrite S2; [|auto].
      split; [reflexivity|]. split; [exact E|]. split; [exact L|]. right. auto.
  - rewrite (lenN_cons_pos hdr bnd). unfold read_max.
    destruct (p_buf p) as [|b0 bs] eqn:Hb; cbn [is_nil negb].
    + destruct (p_eof p) eqn:Eo.
      * split; [reflexivity|]. intro Hz0. pose proof (inv_eof _ _ I Eo) as X. rewrite Hb, Hz0 in X. discriminate.
      * cbn [p_eof]. rewrite Eo. cbn [andb length]. repeat split; auto; lia.
    + rewrite <- Hb.
      set (kk := Nat.min (length (p_buf p)) (length (c0 :: c1))).
      assert (Ek : N.to_nat (N.min (lenN (p_buf p)) (lenN (c0 :: c1))) = kk) by (unfold lenN, kk; lia).
      rewrite Ek.
      assert (Lk : (1 <= kk)%nat) by (unfold kk; rewrite Hb; cbn [length]; lia).
      assert (Lch : length (firstn kk (p_buf p)) = kk) by (rewrite firstn_length; unfold kk; lia).
      assert (El : N.to_nat (N.min (lenN (firstn kk (p_buf p))) (lenN (c0 :: c1))) = kk)
        by (unfold lenN; rewrite Lch; unfold kk; lia).
      rewrite El. rewrite skipn_all2 by lia. cbn [is_nil negb]. rewrite firstn_all2 by lia.
      assert (Ech : firstn kk (p_buf p) = firstn kk (c0 :: c1)).
      { rewrite (inv_firstn p _ kk I) by (unfold kk; lia).
        rewrite firstn_app. replace (kk - length (c0 :: c1))%nat with O by (unfold kk; lia).
        cbn [firstn]. apply app_nil_r. }
      split; [intro X; rewrite X in Lch; cbn in Lch; lia|].
      exists (skipn kk (c0 :: c1)). split; [rewrite Ech; symmetry; apply firstn_skipn|].
      split.
      { f_equal. f_equal. unfold lenN. rewrite Lch, skipn_length. unfold kk. lia. }
      split.
      * pose proof (inv_skip p _ kk I ltac:(unfold kk; lia)) as G2.
        rewrite skipn_app in G2. replace (kk - length (c0 :: c1))%nat with O in G2 by (unfold kk; lia).
        cbn [skipn] in G2. exact G2.
      * eexists. split; [reflexivity|]. rewrite skipn_length. lia.
Qed.


(* ------------------------------------------------------------------ the driver *)
Definition fields_of (q : pos) : list fld :=
  match q with
  | PFirst fs | PBoundary fs | PContent _ fs | PContentCL _ fs | PFieldEof _ fs => fs
  | PHeaders f fs => f :: fs
  end.

Definition sok (q : pos) (m : mp) (mode : dmode) : Prop :=
  state_ok hdr bnd close_line q m mode /\ Forall fits (fields_of q) /\ p_limit (m_pb m) = lim.

Definition meas (q : pos) (m : mp) : nat := (length (p_stream (m_pb m)) + length (F q))%nat.

Notation drv := (drive hdr false false false None).

Lemma pend_progress p p1 k :
  progress p p1 -> p_eof p1 = false -> (length (p_buf p1) < k)%nat -> N.of_nat k <= p_limit p1 ->
  (length (p_stream p1) < length (p_stream p))%nat.
Proof.
  intros [H|[H|H]] E L K; [exact H|congruence|]. unfold full, lenN in H. lia.
Qed.

Lemma line_len_lim fs : N.of_nat (line_len' fs) <= lim.
Proof.
  unfold line_len. destruct fs as [|f r]; cbn [line_of fst]; unfold close_line;
    rewrite !app_length; cbn [length DD]; lia.
Qed.

Lemma shorter_lim p p' Fq : shorter p p' -> inv p Fq -> p_limit p = lim ->
  lenN (p_buf p') < lim /\ p_limit p' = lim /\ p_stream p' = p_stream p.
Proof.
  intros (b & -> & L) I El. pose proof (inv_bounded _ _ I) as B. cbn. unfold lenN in *. repeat split; auto; lia.
Qed.

Section Step2.
Variable k : nat.
Hypothesis IH : forall q m mode,
  inv (m_pb m) (F q) -> lenN (p_buf (m_pb m)) < lim -> sok q m mode -> (meas q m < k)%nat ->
  Out (drv k m mode) (expect TEnd q).

Lemma headers_branch2 mm p w f r :
  m_bnd mm = bnd -> Forall (fld_ok hdr bnd) (f :: r) -> Forall fits (f :: r) -> p_limit p = lim ->
  inv p (fh f ++ fc f ++ delim bnd ++ after' r) ->
  (w = false -> p_eof p = true) ->
  (length (p_stream p) + length (fh f ++ fc f ++ delim bnd ++ after' r) <= k)%nat ->
  (p_eof p = false -> (length (p_buf p) < length (fh f))%nat ->
   (length (p_stream p) + length (fh f ++ fc f ++ delim bnd ++ after' r) < k)%nat) ->
  Out (at_mp hdr k (let '(res, m1) := poll_headers hdr mm p in (res, w, m1))) (exp_fields TEnd (f :: r)).
Proof.
  intros Eb Fo Fi El I W M M'. inversion Fo as [|? ? Ff Fr]; subst. inversion Fi as [|? ? Fif Fir]; subst.
  pose proof (headers_poll_t mm p f r Ff I Eb) as HP.
  pose proof (inv_bounded _ _ I) as Bd.
  destruct (length (fh f) <=? length (p_buf p))%nat eqn:L.
  - destruct HP as [HP G2]. rewrite HP. cbn [at_mp exp_fields]. apply Out_field.
    destruct Ff as (_ & (h0 & Eh & _) & Hcl). apply Nat.leb_le in L.
    assert (Lh : (4 <= length (fh f))%nat) by (rewrite Eh, app_length; cbn; lia).
    assert (Mm : (length (p_stream p) + length (fc f ++ delim bnd ++ after' r) < k)%nat).
    { rewrite !app_length in *. lia. }
    assert (Lb : lenN (skipn (length (fh f)) (p_buf p)) < lim).
    { unfold lenN in *. rewrite skipn_length. lia. }
    unfold cl_of in *. destruct (fcl f) eqn:Ecl.
    + apply (IH (PContentCL (fc f) r)).
      * exact G2.
      * exact Lb.
      * split; [|split; [exact Fir|exact El]]. split; [reflexivity|]. cbn.
        split; [exists 0; reflexivity|]. split; [reflexivity|]. split; [reflexivity|exact Fr].
      * unfold meas. cbn [m_pb stream_of p_stream set_buf]. exact Mm.
    + apply (IH (PContent (fc f) r)).
      * exact G2.
      * exact Lb.
      * split; [|split; [exact Fir|exact El]]. split; [reflexivity|]. cbn.
        split; [exists 0; reflexivity|]. split; [reflexivity|]. split; [reflexivity|].
        split; [exact (Hcl eq_refl)|exact Fr].
      * unfold meas. cbn [m_pb stream_of p_stream set_buf]. exact Mm.
  - apply Nat.leb_gt in L. destruct HP as [[E HP]|(E & Hz & (m' & HP))]; rewrite HP; cbn [at_mp].
    + rewrite (woken_true w p W E). apply Out_pend. apply (IH (PHeaders f r)).
      * exact I.
      * cbn [m_pb]. unfold fits, lenN in *. lia.
      * split; [|split; [exact Fi|exact El]]. split; [reflexivity|]. cbn. repeat split; auto.
      * unfold meas. cbn [m_pb stream_of]. exact (M' E L).
    + apply Out_err. exact Hz.
Qed.
End Step2.


Lemma body_len' fs : length (body' fs) = (line_len' fs + length (snd (line_of' fs)))%nat.
Proof. exact (body_len hdr bnd close_line epi close_nolf fs). Qed.

Lemma drive_out : forall fuel q m mode,
  inv (m_pb m) (F q) -> lenN (p_buf (m_pb m)) < lim -> sok q m mode -> (meas q m < fuel)%nat ->
  Out (drv fuel m mode) (expect TEnd q).
Proof.
  induction fuel as [|k IH]; intros q m mode I Lb (Sok & Fi & El) M; [lia|].
  destruct m as [p st it b]. destruct Sok as [Eb Sok]. cbn [m_bnd] in Eb. subst b.
  unfold meas in M. cbn [m_pb] in *. rewrite <- El in Lb.
  destruct (poll_stream_inv p _ I Lb) as (p1 & w & PS & I1 & El1 & W & Ms & Pr).
  rewrite El in El1.
  pose proof (inv_bounded _ _ I1) as Bd1. rewrite El1 in Bd1.
  destruct q as [fs|fs|f fs|c fs|c fs|l fs]; cbn [stream_of expect fields_of] in *.
  - (* before the first boundary line *)
    destruct Sok as (-> & Est & Eit & Hk & Fo). cbn in Est, Eit. subst st it.
    rewrite drive_at_mp. unfold mp_poll_next. cbn [m_pb m_state m_item m_bnd]. rewrite PS.
    unfold inner_poll. cbn [m_state m_item m_pb m_bnd state_eqb].
    pose proof (skip_first_t p1 fs I1) as SF. pose proof (body_len' fs) as BL.
    pose proof (line_len_lim fs) as LL.
    destruct (line_len' fs <=? length (p_buf p1))%nat eqn:L.
    + destruct SF as [SF G2]. rewrite SF. apply Nat.leb_le in L. destruct fs as [|f r].
      * cbn [at_mp exp_fields]. apply Out_end. exact (last_line_complete p1 I1 L).
      * cbn [line_of snd] in G2, BL.
        apply (headers_branch2 k IH (mkMp p1 FirstBoundary None bnd)); auto;
          unfold line_len in BL; cbn [p_stream set_buf]; intros; lia.
    + apply Nat.leb_gt in L. destruct SF as [[E SF]|(E & Hz & SF)]; rewrite SF; cbn [at_mp].
      * rewrite (woken_true w p1 W E). apply Out_pend. apply (IH (PFirst fs)).
        -- exact I1.
        -- cbn [m_pb]. unfold lenN. lia.
        -- split; [|split; [exact Fi|exact El1]]. split; [reflexivity|]. cbn. auto.
        -- unfold meas. cbn [m_pb stream_of].
           pose proof (pend_progress p p1 _ Pr E L ltac:(rewrite El1; exact LL)). lia.
      * apply Out_err. exact Hz.
  - (* at a boundary line after a field *)
    destruct Sok as (-> & Est & Eit & Fo). cbn in Est, Eit. subst st.
    rewrite drive_at_mp. unfold mp_poll_next. cbn [m_pb m_state m_item m_bnd]. rewrite PS.
    unfold inner_poll. cbn [m_state m_item m_pb m_bnd state_eqb].
    assert (Rel : match it with
                  | Some f => release false false (S (length (p_buf p1))) bnd f p1
                  | None => RelDone None p1 end = RelDone None p1).
    { destruct Eit as [->|(e & l & ->)]; [reflexivity|]. cbn [release]. unfold field_poll. cbn. reflexivity. }
    rewrite Rel.
    pose proof (boundary_read_t p1 fs I1) as BR. pose proof (body_len' fs) as BL.
    pose proof (line_len_lim fs) as LL.
    destruct (line_len' fs <=? length (p_buf p1))%nat eqn:L.
    + destruct BR as [BR G2]. rewrite BR. apply Nat.leb_le in L. destruct fs as [|f r].
      * cbn [at_mp exp_fields]. apply Out_end. exact (last_line_complete p1 I1 L).
      * cbn [line_of snd] in G2, BL.
        apply (headers_branch2 k IH (mkMp p1 Boundary it bnd)); auto;
          unfold line_len in BL; cbn [p_stream set_buf]; intros; lia.
    + apply Nat.leb_gt in L. destruct BR as [[E BR]|(E & Hz & (e & BR))]; rewrite BR; cbn [at_mp].
      * rewrite (woken_true w p1 W E). apply Out_pend. apply (IH (PBoundary fs)).
        -- exact I1.
        -- cbn [m_pb]. unfold lenN. lia.
        -- split; [|split; [exact Fi|exact El1]]. split; [reflexivity|]. cbn. auto.
        -- unfold meas. cbn [m_pb stream_of].
           pose proof (pend_progress p p1 _ Pr E L ltac:(rewrite El1; exact LL)). lia.
      * apply Out_err. exact Hz.
  - (* at a header block *)
    destruct Sok as (-> & Est & Eit & Fo). cbn in Est, Eit. subst st it.
    rewrite drive_at_mp. unfold mp_poll_next. cbn [m_pb m_state m_item m_bnd]. rewrite PS.
    unfold inner_poll. cbn [m_state m_item m_pb m_bnd state_eqb].
    apply (headers_branch2 k IH (mkMp p1 Headers None bnd)); auto; [lia|].
    intros E L. inversion Fi as [|? ? Fif _]; subst.
    pose proof (pend_progress p p1 _ Pr E L ltac:(rewrite El1; exact Fif)). lia.
  - (* inside a scanned field *)
    destruct Sok as ((n & ->) & Est & Eit & Hc & Fo). cbn in Est, Eit. subst st it.
    rewrite drive_in_field. unfold field_poll_next. cbn [m_pb m_state m_item m_bnd f_present negb]. rewrite PS.
    pose proof (content_poll_t p1 c fs Hc I1) as CP.
    destruct (field_poll false false bnd (mkField true false None) p1) as [[[[| ch | e]|] f1] p2].
    + destruct CP as (-> & -> & G2 & Sh). destruct (shorter_lim _ _ _ Sh I1 El1) as (Lb2 & El2 & Es).
      cbn [in_field exp_content is_nil app]. apply Out_fend.
      apply (IH (PBoundary fs)).
      * exact G2.
      * exact Lb2.
      * split; [|split; [exact Fi|exact El2]]. split; [reflexivity|]. cbn.
        split; [reflexivity|]. split; [reflexivity|]. split; [right; eauto|exact Fo].
      * unfold meas. cbn [m_pb stream_of]. rewrite Es. clear - M Ms.
        unfold body, delim, DD in *. rewrite !app_length in *. cbn [length] in *. lia.
    + destruct CP as (Nch & c' & -> & -> & G2 & Sh). destruct (shorter_lim _ _ _ Sh I1 El1) as (Lb2 & El2 & Es).
      cbn [in_field]. apply Out_data; [exact Nch|].
      apply (IH (PContent c' fs) (mkMp p2 Boundary (Some (mkField true false None)) bnd) (InField (n + 1))).
      * exact G2.
      * exact Lb2.
      * split; [|split; [exact Fi|exact El2]]. split; [reflexivity|]. cbn.
        split; [eauto|]. split; [reflexivity|]. split; [reflexivity|].
        split; [exact (clean_suffix _ _ _ Hc)|exact Fo].
      * unfold meas. cbn [m_pb stream_of]. rewrite Es. rewrite <- app_assoc in M.
        rewrite (app_length ch) in M. destruct ch; [congruence|cbn [length] in M; lia].
    + cbn [in_field]. apply Out_err. exact (proj2 CP).
    + destruct CP as (-> & -> & E & L). cbn [in_field].
      rewrite (woken_true w p1 W E). apply Out_pend. apply (IH (PContent c fs)).
      * exact I1.
      * cbn [m_pb]. unfold lenN. lia.
      * split; [|split; [exact Fi|exact El1]]. split; [reflexivity|]. cbn. split; [eauto|]. auto.
      * unfold meas. cbn [m_pb stream_of].
        pose proof (pend_progress p p1 _ Pr E L ltac:(rewrite El1; lia)). lia.
  - (* inside a field read by Content-Length *)
    destruct Sok as ((n & ->) & Est & Eit & Fo). cbn in Est, Eit. subst st it.
    rewrite drive_in_field. unfold field_poll_next. cbn [m_pb m_state m_item m_bnd f_present negb]. rewrite PS.
    pose proof (cl_poll_t p1 c fs I1) as CP.
    destruct (field_poll false false bnd (mkField true false (Some (lenN c))) p1) as [[[[| ch | e]|] f1] p2].
    + destruct CP as (-> & (e & l & ->) & G2 & Sh). destruct (shorter_lim _ _ _ Sh I1 El1) as (Lb2 & El2 & Es).
      cbn [in_field exp_content is_nil app]. apply Out_fend.
      apply (IH (PBoundary fs)).
      * exact G2.
      * exact Lb2.
      * split; [|split; [exact Fi|exact El2]]. split; [reflexivity|]. cbn.
        split; [reflexivity|]. split; [reflexivity|]. split; [right; eauto|exact Fo].
      * unfold meas. cbn [m_pb stream_of]. rewrite Es. clear - M Ms.
        unfold body, delim, DD in *. rewrite !app_length in *. cbn [length] in *. lia.
    + destruct CP as (Nch & c' & -> & -> & G2 & Sh). destruct (shorter_lim _ _ _ Sh I1 El1) as (Lb2 & El2 & Es).
      cbn [in_field]. apply Out_data; [exact Nch|].
      apply (IH (PContentCL c' fs) (mkMp p2 Boundary (Some (mkField true false (Some (lenN c')))) bnd) (InField (n + 1))).
      * exact G2.
      * exact Lb2.
      * split; [|split; [exact Fi|exact El2]]. split; [reflexivity|]. cbn.
        split; [eauto|]. split; [reflexivity|]. split; [reflexivity|exact Fo].
      * unfold meas. cbn [m_pb stream_of]. rewrite Es. rewrite <- app_assoc in M.
        rewrite (app_length ch) in M. destruct ch; [congruence|cbn [length] in M; lia].
    + cbn [in_field]. apply Out_err. exact (proj2 CP).
    + destruct CP as (-> & E & L & Hf). cbn [in_field].
      rewrite (woken_true w p1 W E). apply Out_pend.
      pose proof (pend_progress p p1 _ Pr E L ltac:(rewrite El1; lia)) as Mp.
      destruct Hf as [->|[-> ->]].
      * apply (IH (PContentCL c fs)).
        -- exact I1.
        -- cbn [m_pb]. unfold lenN. lia.
        -- split; [|split; [exact Fi|exact El1]]. split; [reflexivity|]. cbn. split; [eauto|]. auto.
        -- unfold meas. cbn [m_pb stream_of]. lia.
      * cbn [exp_content is_nil app]. apply (IH (PFieldEof (Some 0) fs)).
        -- exact I1.
        -- cbn [m_pb]. unfold lenN. lia.
        -- split; [|split; [exact Fi|exact El1]]. split; [reflexivity|]. cbn. split; [eauto|]. auto.
        -- unfold meas. cbn [m_pb stream_of app] in *. lia.
  - (* field data finished, closing CRLF not yet buffered *)
    destruct Sok as ((n & ->) & Est & Eit & Fo). cbn in Est, Eit. subst st it.
    rewrite drive_in_field. unfold field_poll_next. cbn [m_pb m_state m_item m_bnd f_present negb]. rewrite PS.
    unfold field_poll. cbn [f_present f_eof negb].
    pose proof (stage2_t (mkField true true l) p1 fs I1) as S2.
    destruct (2 <=? length (p_buf p1))%nat eqn:L.
    + destruct S2 as [S2 G2]. rewrite S2. cbn [in_field]. apply Out_fend. apply Nat.leb_le in L.
      apply (IH (PBoundary fs)).
      * exact G2.
      * cbn [m_pb p_buf set_buf]. unfold lenN in *. rewrite skipn_length. lia.
      * split; [|split; [exact Fi|exact El1]]. split; [reflexivity|]. cbn.
        split; [reflexivity|]. split; [reflexivity|]. split; [right; eauto|exact Fo].
      * unfold meas. cbn [m_pb stream_of p_stream set_buf]. clear - M Ms.
        unfold body, delim, DD in *. rewrite !app_length in *. cbn [length] in *. lia.
    + apply Nat.leb_gt in L. destruct S2 as [[E S2]|(E & Hz & S2)]; rewrite S2; cbn [in_field].
      * rewrite (woken_true w p1 W E). apply Out_pend. apply (IH (PFieldEof l fs)).
        -- exact I1.
        -- cbn [m_pb]. unfold lenN. lia.
        -- split; [|split; [exact Fi|exact El1]]. split; [reflexivity|]. cbn. split; [eauto|]. auto.
        -- unfold meas. cbn [m_pb stream_of].
           pose proof (pend_progress p p1 _ Pr E L ltac:(rewrite El1; lia)). lia.
      * apply Out_err. exact Hz.
Qed.

End RT2.

(* ------------------------------------------------------------------ the theorems *)

Lemma init_inv bnd Z script limit Fq :
  no_err script -> Fq = chunks script ++ Z -> inv Z (m_pb (mp_new bnd script limit)) Fq.
Proof.
  intros Ne E. exists (chunks script). split; [|exact E].
  unfold good2, rest_of, mp_new, pb_new. cbn. repeat split; auto; try discriminate. unfold lenN. cbn. lia.
Qed.

(* round trip through a SMALL parser buffer: buffer_limit only has to hold a boundary line
   (|boundary| + 6 bytes) and the longest header block; contents and the body are unbounded *)
Theorem roundtrip_small_buffer :
  forall (hdr : bytes -> hres) (bnd : bytes) (fs : list fld) (epilogue : bytes)
         (script : list ev) (limit : N) (fuel : nat),
  bnd <> [] -> ~ In 10 bnd -> Forall (fld_ok hdr bnd) fs -> no_err script ->
  N.of_nat (length bnd + 6) <= limit -> Forall (fun f => lenN (fh f) <= limit) fs ->
  chunks script = body bnd close_line epilogue fs ->
  (length script + length (chunks script) < fuel)%nat ->
  norm (drive hdr false false false None fuel (mp_new bnd script limit) AtMp) = exp_fields TEnd fs.
Proof.
  intros hdr bnd fs epi script limit fuel B1 B2 Fo Ne Ll Fi Eb Lf.
  refine (proj1 (drive_out hdr bnd B1 B2 epi [] (or_introl eq_refl) limit Ll fuel (PFirst fs)
                           (mp_new bnd script limit) AtMp _ _ _ _) eq_refl).
  - apply init_inv; [exact Ne|]. unfold stream_of. rewrite app_nil_r. symmetry. exact Eb.
  - cbn. unfold lenN. cbn. lia.
  - split; [|split; [exact Fi|reflexivity]]. split; [reflexivity|]. cbn. repeat split; auto.
  - unfold meas, stream_of. rewrite <- Eb. cbn. exact Lf.
Qed.

(* TRUNCATION: the body is cut anywhere strictly before the end of "--" boundary "--" (at least
   3 bytes of  ... "--" CR LF  are missing) and delivered under any chunking: the run ends with
   an error after a prefix of the parts (the last data possibly cut short) — never the clean
   end, never a hang — also through a small buffer *)
Theorem truncated_body_is_error :
  forall (hdr : bytes -> hres) (bnd : bytes) (fs : list fld) (missing : bytes)
         (script : list ev) (limit : N) (fuel : nat),
  bnd <> [] -> ~ In 10 bnd -> Forall (fld_ok hdr bnd) fs -> no_err script ->
  N.of_nat (length bnd + 6) <= limit -> Forall (fun f => lenN (fh f) <= limit) fs ->
  body bnd close_line [] fs = chunks script ++ missing -> (3 <= length missing)%nat ->
  (length script + length (body bnd close_line [] fs) < fuel)%nat ->
  exists t e,
    norm (drive hdr false false false None fuel (mp_new bnd script limit) AtMp) = t ++ [TErr e] /\
    tpre t (exp_fields TEnd fs).
Proof.
  intros hdr bnd fs Z script limit fuel B1 B2 Fo Ne Ll Fi Eb Lz Lf.
  assert (Hz : Z <> []) by (intros ->; cbn in Lz; lia).
  refine (proj2 (drive_out hdr bnd B1 B2 [] Z (or_intror (conj Lz eq_refl)) limit Ll fuel (PFirst fs)
                           (mp_new bnd script limit) AtMp _ _ _ _) Hz).
  - apply init_inv; [exact Ne|]. exact Eb.
  - cbn. unfold lenN. cbn. lia.
  - split; [|split; [exact Fi|reflexivity]]. split; [reflexivity|]. cbn. repeat split; auto.
  - unfold meas, stream_of. cbn. exact Lf.
Qed.

(* non-vacuity: the 3-part example body of Roundtrip.v (epilogue-free), buffer_limit 8 =
   |"ab"| + 6, one byte per chunk with Pending; complete, and cut in the middle of part 3 *)
Definition ex_body : bytes := body [97;98] close_line [] ex_fs.
Definition ex_script2 (n : nat) : list ev := flat_map (fun b => [EChunk [b]; EPending]) (firstn n ex_body).

Example small_buffer_example :
  norm (drive ex_hdr false false false None 1000 (mp_new [97;98] (ex_script2 (length ex_body)) 8) AtMp)
  = exp_fields TEnd ex_fs /\
  Forall (fun f => lenN (fh f) <= 8) ex_fs.
Proof. split; [vm_compute; reflexivity|repeat constructor; vm_compute; discriminate]. Qed.

Example truncation_example :
  norm (drive ex_hdr false false false None 1000 (mp_new [97;98] (ex_script2 (length ex_body - 12)) 8) AtMp)
  = [TField (Some [7]) None; TData [120;13;10;45;45;97]; TFieldEnd;
     TField (Some [6]) None; TFieldEnd;
     TField (Some [7]) (Some 8); TData [13;10;45;45;97;98]; TErr EIncomplete].
Proof. vm_compute. reflexivity. Qed.
