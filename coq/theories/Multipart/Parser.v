(* C15 model, part 3: actix-multipart/src/multipart.rs (Inner::poll, skip_until_boundary,
   read_boundary, read_field_headers, Multipart::poll_next) and field.rs (InnerField::poll,
   Field::poll_next).

   The header block (bytes up to and including the first CRLF CRLF) is handed to an oracle
   [hdr] standing for httparse::parse_headers + HeaderName/HeaderValue conversion +
   ContentDisposition::from_raw + the Content-Length parse of InnerField::new + the nested
   multipart test; only the field name and the Content-Length are used from its answer.

   [o24 o7 o25] select the original (true) or repaired (false) code at the three repaired
   places, see Scan.v and Buffer.v. *)
From AV Require Import Lib.Base.
From AV Require Import Multipart.Buffer.
From AV Require Import Multipart.Scan.

Inductive hres := HOk (name : option bytes) (cl : option N) | HErr (tag : bytes).

Inductive state := FirstBoundary | Boundary | Headers | Eof.

Definition state_eqb (a b : state) : bool :=
  match a, b with
  | FirstBoundary, FirstBoundary | Boundary, Boundary | Headers, Headers | Eof, Eof => true
  | _, _ => false
  end.

(* InnerField: payload: Option<PayloadRef> (present?), eof, length *)
Record ifield := mkField { f_present : bool; f_eof : bool; f_length : option N }.

(* Inner (+ the PayloadBuffer behind the PayloadRef) *)
Record mp := mkMp { m_pb : pb; m_state : state; m_item : option ifield; m_bnd : bytes }.

Definition mp_new (bnd : bytes) (s : list ev) (limit : N) : mp :=
  mkMp (pb_new s limit) FirstBoundary None bnd.

(* Option<Result<Field, Error>> *)
Inductive mitem := MEnd | MField (name : option bytes) (cl : option N) | MErr (e : merr).

Definition strip_prefix (x l : bytes) : option bytes :=
  if starts x l then Some (skipn (length x) l) else None.
Definition strip_suffix (x l : bytes) : option bytes :=
  if (length x <=? length l)%nat && bytes_eqb (skipn (length l - length x) l) x
  then Some (firstn (length l - length x) l) else None.
Definition opt_bytes_eqb (o : option bytes) (b : bytes) : bool :=
  match o with Some a => bytes_eqb a b | None => false end.

Definition CRLF : bytes := [CR; LF].
Definition DD : bytes := [DASH; DASH].

Section Parser.
Variable hdr : bytes -> hres.
Variables o24 o7 o25 : bool.

(* InnerField::poll *)
Definition field_stage2 (f : ifield) (p : pb) : poll item * ifield * pb :=
  match readline p with
  | Ok (None, p1) => (Pending, f, p1)
  | Ok (Some line, p1) => (Ready IEnd, mkField false (f_eof f) (f_length f), p1)  (* payload.take() *)
  | Err e => (Ready (IErr e), f, p)
  end.

Definition field_poll (bnd : bytes) (f : ifield) (p : pb) : poll item * ifield * pb :=
  if negb (f_present f) then (Ready IEnd, f, p)
  else if negb (f_eof f) then
    let '(r, p1, f1) :=
      match f_length f with
      | Some len => let '(r, p1, len1) := read_len p len in (r, p1, mkField (f_present f) (f_eof f) (Some len1))
      | None => let '(r, p1) := read_stream_gen o24 o7 p bnd in (r, p1, f)
      end in
    match r with
    | Pending => (Pending, f1, p1)
    | Ready (IData b) => (Ready (IData b), f1, p1)
    | Ready (IErr e) => (Ready (IErr e), f1, p1)
    | Ready IEnd => field_stage2 (mkField (f_present f1) true (f_length f1)) p1   (* self.eof = true *)
    end
  else field_stage2 f p.

(* Inner::read_boundary *)
Definition read_boundary (p : pb) (bnd : bytes) : res (option bool * pb) :=
  if is_nil bnd then Err EBoundary
  else
    match readline_or_eof p with
    | Err e => Err e
    | Ok (None, p1) => Ok ((if p_eof p1 then Some true else None), p1)
    | Ok (Some chunk, p1) =>
        match strip_prefix DD chunk with
        | None => Err EBoundary
        | Some c1 =>
            match strip_prefix bnd c1 with
            | None => Err EBoundary
            | Some c2 =>
                if bytes_eqb c2 CRLF then Ok (Some false, p1)
                else if bytes_eqb c2 DD || bytes_eqb c2 (DD ++ CRLF) then Ok (Some true, p1)
                else Err EBoundary
            end
        end
    end.

(* Inner::skip_until_boundary; every iteration consumes a line, fuel = |buf| + 1 *)
Fixpoint skip_loop (fuel : nat) (p : pb) (bnd : bytes) : res (option bool * pb) :=
  match fuel with
  | O => Err EFuel
  | S k =>
      match readline p with
      | Err e => Err e
      | Ok (None, p1) => if p_eof p1 then Err EIncomplete else Ok (None, p1)
      | Ok (Some chunk, p1) =>
          if is_nil chunk then Err EBoundary
          else
            match strip_suffix CRLF chunk with
            | None => skip_loop k p1 bnd
            | Some line =>
                match strip_prefix DD line with
                | Some l2 =>
                    if bytes_eqb l2 bnd then Ok (Some false, p1)
                    else if opt_bytes_eqb (strip_suffix DD l2) bnd then Ok (Some true, p1)
                    else skip_loop k p1 bnd
                | None => skip_loop k p1 bnd
                end
            end
      end
  end.

Definition skip_until_boundary (p : pb) (bnd : bytes) : res (option bool * pb) :=
  if is_nil bnd then Err EBoundary else skip_loop (S (length (p_buf p))) p bnd.

(* Inner::read_field_headers, up to the hand-over to the oracle *)
Definition read_field_headers (p : pb) : res (option hres * pb) :=
  match read_until (CRLF ++ CRLF) p with
  | Err e => Err e
  | Ok (None, p1) => if p_eof p1 then Err EIncomplete else Ok (None, p1)
  | Ok (Some block, p1) => Ok (Some (hdr block), p1)
  end.

(* the "release field" loop at the start of Inner::poll: drain what is left of the
   previous field; every Ready(Some(Ok)) consumed at least one byte, fuel = |buf| + 1 *)
Inductive rel := RelDone (f : option ifield) (p : pb) | RelPending (f : ifield) (p : pb)
               | RelErr (e : merr) (f : ifield) (p : pb).

Fixpoint release (fuel : nat) (bnd : bytes) (f : ifield) (p : pb) : rel :=
  match fuel with
  | O => RelErr EFuel f p
  | S k =>
      match field_poll bnd f p with
      | (Pending, f1, p1) => RelPending f1 p1
      | (Ready (IData _), f1, p1) => release k bnd f1 p1
      | (Ready (IErr e), f1, p1) => RelErr e f1 p1
      | (Ready IEnd, f1, p1) => RelDone None p1
      end
  end.

(* the part of Inner::poll after the field has been released, state = Headers *)
Definition poll_headers (m : mp) (p : pb) : poll mitem * mp :=
  match read_field_headers p with
  | Err e => (Ready (MErr e), mkMp p Headers None (m_bnd m))
  | Ok (None, p1) => (Pending, mkMp p1 Headers None (m_bnd m))
  | Ok (Some (HErr tag), p1) => (Ready (MErr (EHdr tag)), mkMp p1 Boundary None (m_bnd m))
  | Ok (Some (HOk name cl), p1) =>
      (Ready (MField name cl), mkMp p1 Boundary (Some (mkField true false cl)) (m_bnd m))
  end.

(* Inner::poll *)
Definition inner_poll (m : mp) : poll mitem * mp :=
  if state_eqb (m_state m) Eof then (Ready MEnd, m)
  else
    let r := match m_item m with
             | Some f => release (S (length (p_buf (m_pb m)))) (m_bnd m) f (m_pb m)
             | None => RelDone None (m_pb m)
             end in
    match r with
    | RelPending f1 p1 => (Pending, mkMp p1 (m_state m) (Some f1) (m_bnd m))
    | RelErr e f1 p1 => (Ready (MErr e), mkMp p1 (m_state m) (Some f1) (m_bnd m))
    | RelDone _ p1 =>
        match m_state m with
        | FirstBoundary =>
            match skip_until_boundary p1 (m_bnd m) with
            | Err e => (Ready (MErr e), mkMp p1 FirstBoundary None (m_bnd m))
            | Ok (None, p2) => (Pending, mkMp p2 FirstBoundary None (m_bnd m))
            | Ok (Some true, p2) => (Ready MEnd, mkMp p2 Eof None (m_bnd m))
            | Ok (Some false, p2) => poll_headers m p2
            end
        | Boundary =>
            match read_boundary p1 (m_bnd m) with
            | Err e => (Ready (MErr e), mkMp p1 Boundary None (m_bnd m))
            | Ok (None, p2) => (Pending, mkMp p2 Boundary None (m_bnd m))
            | Ok (Some true, p2) => (Ready MEnd, mkMp p2 Eof None (m_bnd m))
            | Ok (Some false, p2) => poll_headers m p2
            end
        | Headers => poll_headers m p1
        | Eof => (Ready MEnd, m)
        end
    end.

(* Multipart::poll_next (the Field handle has been dropped or finished: safety.current()).
   Result: poll result, [woken] (meaningful for Pending), new state. *)
Definition mp_poll_next (m : mp) : poll mitem * bool * mp :=
  match poll_stream o25 (m_pb m) with
  | Err e => (Ready (MErr e), false, m)
  | Ok (p1, w) =>
      let '(r, m1) := inner_poll (mkMp p1 (m_state m) (m_item m) (m_bnd m)) in (r, w, m1)
  end.

(* Field::poll_next *)
Definition field_poll_next (m : mp) : poll item * bool * mp :=
  match m_item m with
  | None => (Ready (IErr EPanic), false, m)
  | Some f =>
      if negb (f_present f) then (Ready (IErr EPanic), false, m)   (* expect("Field should not be polled after completion") *)
      else
        match poll_stream o25 (m_pb m) with
        | Err e => (Ready (IErr e), false, m)
        | Ok (p1, w) =>
            let '(r, f1, p2) := field_poll (m_bnd m) f p1 in
            (r, w, mkMp p2 (m_state m) (Some f1) (m_bnd m))
        end
  end.

End Parser.
