(* C15 model, part 2: actix-multipart/src/field.rs  (InnerField::read_len, read_stream).
   [read_stream_gen orig24 orig7] is the scanner with the two repaired places switchable:
     orig24 = true : the start-of-buffer delimiter test is guarded by `len > 4`  (F24, original)
     orig7  = true : the two look-ahead exits return Pending also at eof          (F7, original)
   [read_stream] = both repairs = the code after fixes/F24.patch + fixes/F7.patch. *)
From AV Require Import Lib.Base.
From AV Require Import Multipart.Buffer.

Inductive poll (A : Type) := Ready (a : A) | Pending.
Arguments Ready {A}. Arguments Pending {A}.

(* Option<Result<Bytes, Error>> *)
Inductive item := IEnd | IData (b : bytes) | IErr (e : merr).

Definition CR : N := 13.
Definition LF : N := 10.
Definition DASH : N := 45.

(* read_len(payload, size) *)
Definition read_len (p : pb) (size : N) : poll item * pb * N :=
  if size =? 0 then (Ready IEnd, p, size)
  else
    match read_max size p with
    | Err e => (Ready (IErr e), p, size)
    | Ok (Some chunk, p1) =>
        let len := N.min (lenN chunk) size in
        let ch := firstn (N.to_nat len) chunk in
        let rest := skipn (N.to_nat len) chunk in
        let p2 := if negb (is_nil rest) then unprocessed rest p1 else p1 in
        (Ready (IData ch), p2, size - len)
    | Ok (None, p1) =>
        if p_eof p1 && negb (size =? 0) then (Ready (IErr EIncomplete), p1, size)
        else (Pending, p1, size)
    end.

(* the delimiter look-alike test at buf[cur..] (needs 4 bytes):
   buf[cur..cur+2]=="\r\n" && buf[cur+2..cur+4]=="--"  ||  buf[cur]=='\r' && buf[cur+1..cur+3]=="--" *)
Definition lookalike (l : bytes) : bool :=
  (bytes_eqb (firstn 2 l) [CR; LF] && bytes_eqb (firstn 2 (skipn 2 l)) [DASH; DASH])
  || (bytes_eqb (firstn 1 l) [CR] && bytes_eqb (firstn 2 (skipn 1 l)) [DASH; DASH]).

Inductive scan_res :=
| SEmitAll               (* no CR left: hand out the whole buffer *)
| SEmitTo (cur : nat)    (* hand out buf[..cur], cur > 0 *)
| SStuck.                (* CR at index 0 and fewer than 4 bytes: cannot decide *)

(* the `loop { memmem::find(&buf[pos..], "\r") ... }` of read_stream; [l] = buf[cur..]:
   bytes that are not CR are skipped by memmem, a CR is examined by the loop body *)
Fixpoint scan_from (cur : nat) (l : bytes) : scan_res :=
  match l with
  | [] => SEmitAll
  | x :: l' =>
      if x =? CR then
        if (length l <? 4)%nat                               (* cur + 4 > len *)
        then (if (0 <? cur)%nat then SEmitTo cur else SStuck)
        else if lookalike l
             then (if negb (cur =? 0)%nat then SEmitTo cur   (* return buffer *)
                   else scan_from (S cur) l')                (* pos = cur + 1; continue *)
             else scan_from (S cur) l'                       (* not boundary *)
      else scan_from (S cur) l'
  end.

(* the `// check boundary` block at the start of read_stream: Some r = return r *)
Definition start_check (orig24 orig7 : bool) (buf bnd : bytes) (eof : bool) : option (poll item) :=
  let len := length buf in
  if (if orig24 then (4 <? len)%nat else (4 <=? len)%nat) && (nth 0 buf 0 =? CR) then
    let b_len :=
      if bytes_eqb (firstn 2 buf) [CR; LF] && bytes_eqb (firstn 2 (skipn 2 buf)) [DASH; DASH] then Some 4%nat
      else if bytes_eqb (firstn 2 (skipn 1 buf)) [DASH; DASH] then Some 3%nat
      else None in
    match b_len with
    | Some bl =>
        let b_size := (length bnd + bl)%nat in
        if (len <? b_size)%nat then
          Some (if negb orig7 && eof then Ready (IErr EIncomplete) else Pending)
        else if bytes_eqb (firstn (length bnd) (skipn bl buf)) bnd then Some (Ready IEnd)
        else None
    | None => None
    end
  else None.

Definition read_stream_gen (orig24 orig7 : bool) (p : pb) (bnd : bytes) : poll item * pb :=
  let buf := p_buf p in
  if (length buf =? 0)%nat then
    ((if p_eof p then Ready (IErr EIncomplete) else Pending), p)
  else
    match start_check orig24 orig7 buf bnd (p_eof p) with
    | Some r => (r, p)
    | None =>
        match scan_from 0 buf with
        | SEmitAll => (Ready (IData buf), set_buf p [])                       (* buf.split() *)
        | SEmitTo cur => (Ready (IData (firstn cur buf)), set_buf p (skipn cur buf))
        | SStuck => ((if negb orig7 && p_eof p then Ready (IErr EIncomplete) else Pending), p)
        end
    end.

Definition read_stream := read_stream_gen false false.
