(* C15 translator tie: the hand-written model (Scan.v, Parser.v, Buffer.v) is the interpretation
   of the literals, slice bounds and comparison operators that tools/gen/multipart.py reads from
   the Rust sources into Gen/MultipartTables.v on every check run.  Every lemma is closed by
   conversion ([change] / [reflexivity]) or a short case analysis, so a changed literal, bound
   or operator in field.rs / multipart.rs / payload.rs (e.g. `len >= 4` -> `len > 4`, a slice
   bound, the look-ahead width, a dropped wake-up) breaks a proof obligation. *)
From AV Require Import Lib.Base.
From AV Require Import Gen.MultipartTables.
From AV Require Import Multipart.Buffer.
From AV Require Import Multipart.Scan.
From AV Require Import Multipart.Parser.

(* &buf[lo..hi] *)
Definition slice (lo hi : nat) (l : bytes) : bytes := firstn (hi - lo) (skipn lo l).

(* ---- field.rs: the start-of-buffer test of read_stream, from the generated pieces ---- *)
Definition start_check_g (buf bnd : bytes) (eof : bool) : option (poll item) :=
  let len := length buf in
  if MP_START_GUARD len && (nth MP_START_BYTE_IDX buf 0 =? MP_START_BYTE) then
    let b_len :=
      if bytes_eqb (firstn (length MP_B4_PREFIX) buf) MP_B4_PREFIX && bytes_eqb (slice MP_B4_LO MP_B4_HI buf) MP_B4_LIT
      then Some MP_B4_LEN
      else if bytes_eqb (slice MP_B3_LO MP_B3_HI buf) MP_B3_LIT then Some MP_B3_LEN
      else None in
    match b_len with
    | Some bl =>
        let b_size := (length bnd + bl)%nat in
        if MP_WAIT_TEST len b_size then
          Some (if MP_EOF_EXIT_WAIT && eof then Ready (IErr EIncomplete) else Pending)
        else if MP_BOUNDARY_CMP && bytes_eqb (slice bl b_size buf) bnd then Some (Ready IEnd)
        else None
    | None => None
    end
  else None.

Lemma start_check_matches_generated : forall buf bnd eof,
  start_check false false buf bnd eof = start_check_g buf bnd eof.
Proof.
  intros. unfold start_check, start_check_g.
  change (MP_START_GUARD (length buf) && (nth MP_START_BYTE_IDX buf 0 =? MP_START_BYTE))
    with ((4 <=? length buf)%nat && (nth 0 buf 0 =? CR)).
  destruct ((4 <=? length buf)%nat && (nth 0 buf 0 =? CR)); [|reflexivity].
  change (if bytes_eqb (firstn (length MP_B4_PREFIX) buf) MP_B4_PREFIX && bytes_eqb (slice MP_B4_LO MP_B4_HI buf) MP_B4_LIT
          then Some MP_B4_LEN
          else if bytes_eqb (slice MP_B3_LO MP_B3_HI buf) MP_B3_LIT then Some MP_B3_LEN else None)
    with (if bytes_eqb (firstn 2 buf) [CR; LF] && bytes_eqb (firstn 2 (skipn 2 buf)) [DASH; DASH]
          then Some 4%nat
          else if bytes_eqb (firstn 2 (skipn 1 buf)) [DASH; DASH] then Some 3%nat else None).
  destruct (if bytes_eqb (firstn 2 buf) [CR; LF] && bytes_eqb (firstn 2 (skipn 2 buf)) [DASH; DASH]
            then Some 4%nat
            else if bytes_eqb (firstn 2 (skipn 1 buf)) [DASH; DASH] then Some 3%nat else None) as [bl|];
    [|reflexivity].
  unfold slice. rewrite Nat.add_sub. reflexivity.
Qed.

(* the look-alike test of the scan loop: buf[cur..cur+2]=="\r\n" && buf[cur+2..cur+4]=="--"
   || buf[cur..=cur]=="\r" && buf[cur+1..cur+3]=="--", l = buf[cur..] *)
Definition lookalike_g (l : bytes) : bool :=
  (bytes_eqb (slice 0 MP_LA4_HI1 l) MP_LA4_LIT1 && bytes_eqb (slice MP_LA4_LO2 MP_LA4_HI2 l) MP_LA4_LIT2)
  || (bytes_eqb (slice 0 1 l) MP_LA3_LIT1 && bytes_eqb (slice MP_LA3_LO2 MP_LA3_HI2 l) MP_LA3_LIT2).

Lemma lookalike_matches_generated : forall l, lookalike l = lookalike_g l.
Proof. reflexivity. Qed.

(* `if cur + 4 > len`: the model tests |buf[cur..]| < 4 *)
Lemma lookahead_matches_generated : forall (pre l : bytes),
  (length l <? 4)%nat = MP_LOOKAHEAD_SHORT (length pre) (length (pre ++ l)).
Proof.
  intros. unfold MP_LOOKAHEAD_SHORT. rewrite app_length.
  destruct (Nat.ltb_spec (length l) 4), (Nat.ltb_spec (length pre + length l) (length pre + 4)); try reflexivity; lia.
Qed.

(* memmem::find(.., b"\r"): the byte the scan loop stops at *)
Lemma scan_needle_matches_generated : forall x : N, (x =? CR) = bytes_eqb [x] MP_SCAN_NEEDLE.
Proof. intro x. cbn [bytes_eqb MP_SCAN_NEEDLE]. rewrite andb_true_r. reflexivity. Qed.

(* the two look-ahead exits answer Err(Incomplete) at eof (F7 repaired) *)
Lemma eof_exits_match_generated : forall p bnd,
  (length (p_buf p) =? 0)%nat = false ->
  start_check false false (p_buf p) bnd (p_eof p) = None -> scan_from 0 (p_buf p) = SStuck ->
  read_stream p bnd = ((if MP_EOF_EXIT_STUCK && p_eof p then Ready (IErr EIncomplete) else Pending), p).
Proof.
  intros p bnd H0 H1 H2. unfold read_stream, read_stream_gen. rewrite H0, H1, H2. reflexivity.
Qed.

(* ---- multipart.rs ---- *)
Definition read_boundary_g (p : pb) (bnd : bytes) : res (option bool * pb) :=
  if is_nil bnd then Err EBoundary
  else
    match readline_or_eof p with
    | Err e => Err e
    | Ok (None, p1) => Ok ((if p_eof p1 then Some true else None), p1)
    | Ok (Some chunk, p1) =>
        match (if MP_RB_PREFIXES then strip_prefix MP_BOUNDARY_MARKER chunk else Some chunk) with
        | None => Err EBoundary
        | Some c1 =>
            match strip_prefix bnd c1 with
            | None => Err EBoundary
            | Some c2 =>
                if MP_RB_MORE && bytes_eqb c2 MP_LINE_BREAK then Ok (Some false, p1)
                else if bytes_eqb c2 MP_BOUNDARY_MARKER || bytes_eqb c2 MP_RB_FINAL_ALT then Ok (Some true, p1)
                else Err EBoundary
            end
        end
    end.

Lemma read_boundary_matches_generated : forall p bnd, read_boundary p bnd = read_boundary_g p bnd.
Proof. reflexivity. Qed.

Lemma header_terminator_matches_generated : forall (hdr : bytes -> hres) p,
  read_field_headers hdr p =
  match read_until MP_HEADER_TERMINATOR p with
  | Err e => Err e
  | Ok (None, p1) => if p_eof p1 then Err EIncomplete else Ok (None, p1)
  | Ok (Some block, p1) => Ok (Some (hdr block), p1)
  end.
Proof. reflexivity. Qed.

Lemma skip_loop_matches_generated : forall k p bnd,
  skip_loop (S k) p bnd =
  match readline p with
  | Err e => Err e
  | Ok (None, p1) => if p_eof p1 then Err EIncomplete else Ok (None, p1)
  | Ok (Some chunk, p1) =>
      if is_nil chunk then Err EBoundary
      else
        match strip_suffix MP_SKIP_EOL chunk with
        | None => skip_loop k p1 bnd
        | Some line =>
            match strip_prefix MP_SKIP_PREFIX line with
            | Some l2 =>
                if bytes_eqb l2 bnd then Ok (Some false, p1)
                else if opt_bytes_eqb (strip_suffix MP_SKIP_FINAL_SUFFIX l2) bnd then Ok (Some true, p1)
                else skip_loop k p1 bnd
            | None => skip_loop k p1 bnd
            end
        end
  end.
Proof. reflexivity. Qed.

(* ---- payload.rs ---- *)
Lemma readline_needle_matches_generated : forall p, readline p = read_until MP_READLINE_NEEDLE p.
Proof. reflexivity. Qed.

(* the wake-up decision of an exit: unconditional (repaired) or `if appended` *)
Definition wake_flag (unconditional appended : bool) : bool := if unconditional then true else appended.

Lemma wake_after_loop_matches_generated : forall p a,
  poll_loop false 0 p a = Ok (p, wake_flag MP_WAKE_AFTER_LOOP a).
Proof. reflexivity. Qed.

Lemma wake_early_pending_matches_generated : forall n p a d p1 a1,
  p_pending p = Some d -> append_pending p = Ok (p1, a1) ->
  is_some (p_pending p1) || MP_FULL_TEST (lenN (p_buf p1)) (p_limit p1) = true ->
  poll_loop false (S n) p a = Ok (p1, wake_flag MP_WAKE_EARLY_PENDING (a || a1)).
Proof.
  intros n p a d p1 a1 H H0 H1. cbn [poll_loop]. rewrite H, H0.
  change (MP_FULL_TEST (lenN (p_buf p1)) (p_limit p1)) with (p_limit p1 <=? lenN (p_buf p1)) in H1.
  rewrite H1. reflexivity.
Qed.

Lemma wake_early_chunk_matches_generated : forall n p a data rest p1 a1,
  p_pending p = None -> p_stream p = EChunk data :: rest ->
  append_pending (set_pending (set_stream p rest) (Some data)) = Ok (p1, a1) ->
  is_some (p_pending p1) || MP_FULL_TEST (lenN (p_buf p1)) (p_limit p1) = true ->
  poll_loop false (S n) p a = Ok (p1, wake_flag MP_WAKE_EARLY_CHUNK (a || a1)).
Proof.
  intros n p a data rest p1 a1 H H0 H1 H2. cbn [poll_loop]. rewrite H, H0, H1.
  change (MP_FULL_TEST (lenN (p_buf p1)) (p_limit p1)) with (p_limit p1 <=? lenN (p_buf p1)) in H2.
  rewrite H2. reflexivity.
Qed.

Lemma eof_exit_matches_generated : forall n p a,
  p_pending p = None -> p_stream p = [] ->
  poll_loop false (S n) p a = Ok (set_eof p true, negb MP_EOF_NO_WAKE).
Proof. intros n p a H H0. cbn [poll_loop]. rewrite H, H0. reflexivity. Qed.

(* payload.rs append_pending: the Overflow guard, `available = buffer_limit - buf.len()` derived
   from the buffer on EVERY call (no cached room — the region of seeded change C15-3),
   `cmp::min(data.len(), available)`, and the whole/split decision *)
Lemma append_pending_matches_generated : forall p data,
  p_pending p = Some data -> is_nil data = false ->
  append_pending p =
    if MP_AP_OVERFLOW_TEST (lenN (p_buf p)) (p_limit p) then Err EOverflow
    else
      let len := MP_AP_LEN (lenN data) (MP_AP_AVAILABLE (p_limit p) (lenN (p_buf p))) in
      if MP_AP_WHOLE_TEST len (lenN data)
      then Ok (set_buf (set_pending p None) (p_buf p ++ data), negb (len =? 0))
      else Ok (set_pending (set_buf (set_pending p None) (p_buf p ++ firstn (N.to_nat len) data))
                           (Some (skipn (N.to_nat len) data)), negb (len =? 0)).
Proof. intros p data H H0. unfold append_pending. rewrite H, H0. reflexivity. Qed.

Lemma append_pending_call_sites_generated : MP_AP_CALL_SITES = 2%nat.
Proof. reflexivity. Qed.
