(* C15 proofs, part 6: an optional preamble (lines before the first boundary line) is skipped
   by Inner::skip_until_boundary; after it the run is that of the body (Roundtrip2.v). *)
From AV Require Import Lib.Base.
From AV Require Import Multipart.Buffer.
From AV Require Import Multipart.Scan.
From AV Require Import Multipart.Parser.
From AV Require Import Multipart.ScanProofs.
From AV Require Import Multipart.ParserProofs.
From AV Require Import Run.RunC15.
From AV Require Import Multipart.Roundtrip.
From AV Require Import Multipart.Stream2.
From AV Require Import Multipart.Roundtrip2.

Lemma strip_suffix_some x l r : strip_suffix x l = Some r -> l = r ++ x.
Proof.
  unfold strip_suffix. destruct ((length x <=? length l)%nat && bytes_eqb (skipn (length l - length x) l) x) eqn:C; [|discriminate].
  apply andb_true_iff in C as [_ C]. apply bytes_eqb_eq in C. intro H. injection H as <-.
  rewrite <- C at 2. symmetry. apply firstn_skipn.
Qed.

Section PRE.
Variable hdr : bytes -> hres.
Variable bnd : bytes.
Hypothesis bnd_ne : bnd <> [].
Hypothesis bnd_nolf : ~ In 10 bnd.
Variable epi : bytes.
Variable Z : bytes.
Hypothesis HZ : Z = [] \/ ((3 <= length Z)%nat /\ epi = []).
Variable lim : N.
Hypothesis lim_line : N.of_nat (length bnd + 6) <= lim.

Notation body' := (body bnd close_line epi).
Notation inv' := (inv Z).

(* a preamble line (without its LF): no LF inside, not a boundary line, fits the buffer *)
Definition pline_ok (l : bytes) : Prop :=
  ~ In 10 l /\ l ++ [10] <> DD ++ bnd ++ CRLF /\ l ++ [10] <> DD ++ bnd ++ DD ++ CRLF /\
  N.of_nat (S (length l)) <= lim.

Definition pre (ls : list bytes) : bytes := flat_map (fun l => l ++ [10]) ls.

(* one iteration of the skip_until_boundary loop on a complete preamble line *)
Lemma skip_loop_line k p p1 l :
  pline_ok l -> readline p = Ok (Some (l ++ [10]), p1) ->
  skip_loop (S k) p bnd = skip_loop k p1 bnd.
Proof.
  intros (Nl & N1 & N2 & _) R. cbn [skip_loop]. rewrite R.
  replace (is_nil (l ++ [10])) with false by (destruct l; reflexivity).
  destruct (strip_suffix CRLF (l ++ [10])) as [line|] eqn:S1; [|reflexivity].
  apply strip_suffix_some in S1.
  destruct (strip_prefix DD line) as [l2|] eqn:S2; [|reflexivity].
  apply strip_prefix_some in S2. subst line.
  destruct (bytes_eqb l2 bnd) eqn:E1.
  - apply bytes_eqb_eq in E1. subst l2. exfalso. apply N1. rewrite S1, <- !app_assoc. reflexivity.
  - destruct (strip_suffix DD l2) as [l3|] eqn:S3; cbn [opt_bytes_eqb]; [|reflexivity].
    destruct (bytes_eqb l3 bnd) eqn:E2; [|reflexivity].
    apply bytes_eqb_eq in E2. subst l3. apply strip_suffix_some in S3. subst l2.
    exfalso. apply N2. rewrite S1, <- !app_assoc. reflexivity.
Qed.

(* readline on a preamble line *)
Lemma readline_pline p l rest :
  inv' p ((l ++ [10]) ++ rest) -> ~ In 10 l ->
  if (S (length l) <=? length (p_buf p))%nat
  then readline p = Ok (Some (l ++ [10]), set_buf p (skipn (S (length l)) (p_buf p)))
       /\ inv' (set_buf p (skipn (S (length l)) (p_buf p))) rest
  else (p_eof p = false /\ readline p = Ok (None, p)) \/
       (p_eof p = true /\ Z <> [] /\ readline p = Err EIncomplete).
Proof.
  intros I Nl.
  assert (ES : (l ++ [10]) ++ rest = l ++ 10 :: rest) by (rewrite <- app_assoc; reflexivity).
  pose proof (read_until_t hdr bnd epi Z HZ lim lim_line [10] p _ _ I (eq_trans (f_equal (find_sub [10]) ES) (find_sub_lf _ _ Nl))) as R.
  cbn zeta in R. cbn [length] in R. rewrite Nat.add_1_r in R. unfold readline.
  destruct (S (length l) <=? length (p_buf p))%nat eqn:L.
  - apply Nat.leb_le in L.
    assert (Ll : S (length l) = length (l ++ [10])) by (rewrite app_length; cbn; lia).
    split.
    + rewrite R. f_equal. f_equal. f_equal.
      rewrite Ll, firstn_app, firstn_all, Nat.sub_diag. cbn [firstn]. apply app_nil_r.
    + pose proof (inv_skip hdr bnd epi Z HZ lim lim_line p _ (S (length l)) I L) as G2.
      rewrite Ll in G2 at 2. rewrite skipn_app, skipn_all, Nat.sub_diag in G2. exact G2.
  - destruct R as [[E R]|(E & Hz & _ & R)]; auto.
Qed.


Notation line_len' := (line_len bnd close_line epi).
Notation line_of' := (line_of bnd close_line epi).

(* the decisive iteration of skip_until_boundary at the boundary line, for any remaining fuel *)
Lemma skip_first_loop f p fs :
  inv' p (body' fs) ->
  if (line_len' fs <=? length (p_buf p))%nat
  then skip_loop (S f) p bnd =
         Ok (Some (match fs with [] => true | _ => false end), set_buf p (skipn (line_len' fs) (p_buf p)))
       /\ inv' (set_buf p (skipn (line_len' fs) (p_buf p))) (snd (line_of' fs))
  else (p_eof p = false /\ skip_loop (S f) p bnd = Ok (None, p)) \/
       (p_eof p = true /\ Z <> [] /\ skip_loop (S f) p bnd = Err EIncomplete).
Proof.
  intro I. pose proof (readline_boundary_t hdr bnd bnd_nolf epi Z HZ lim lim_line p fs I) as R.
  cbn [skip_loop].
  destruct (line_len' fs <=? length (p_buf p))%nat.
  - destruct R as [R G2]. split; [|exact G2]. rewrite R.
    destruct fs as [|f0 r]; cbn [line_of fst].
    + unfold close_line.
      replace (DD ++ bnd ++ (DD ++ [CR]) ++ [10]) with ((DD ++ bnd ++ DD) ++ CRLF)
        by (rewrite <- !app_assoc; reflexivity).
      replace (is_nil ((DD ++ bnd ++ DD) ++ CRLF)) with false by reflexivity.
      rewrite strip_suffix_app, strip_prefix_app. rewrite bytes_eqb_app_neq by discriminate.
      rewrite strip_suffix_app. cbn [opt_bytes_eqb]. rewrite bytes_eqb_refl. reflexivity.
    + replace (DD ++ bnd ++ [CR] ++ [10]) with ((DD ++ bnd) ++ CRLF)
        by (rewrite <- !app_assoc; reflexivity).
      replace (is_nil ((DD ++ bnd) ++ CRLF)) with false by reflexivity.
      rewrite strip_suffix_app, strip_prefix_app, bytes_eqb_refl. reflexivity.
  - destruct R as [[E R]|(E & Hz & _ & R)]; rewrite R.
    + left. cbn iota. rewrite E. auto.
    + right. auto.
Qed.

(* skip_until_boundary's loop over the preamble *)
Lemma skip_loop_pre fs : forall ls fuel p,
  Forall pline_ok ls -> inv' p (pre ls ++ body' fs) -> (length (p_buf p) < fuel)%nat ->
  (exists p' f', skip_loop fuel p bnd = skip_loop (S f') p' bnd /\ inv' p' (body' fs) /\
       (exists b, p' = set_buf p b) /\ length (p_buf p) = (length (pre ls) + length (p_buf p'))%nat)
  \/
  (exists ls1 l ls2 p', ls = ls1 ++ l :: ls2 /\ inv' p' (pre (l :: ls2) ++ body' fs) /\
       (exists b, p' = set_buf p b) /\ length (p_buf p) = (length (pre ls1) + length (p_buf p'))%nat /\
       (length (p_buf p') < S (length l))%nat /\
       ((p_eof p = false /\ skip_loop fuel p bnd = Ok (None, p')) \/
        (p_eof p = true /\ Z <> [] /\ skip_loop fuel p bnd = Err EIncomplete))).
Proof.
  induction ls as [|l ls IH]; intros fuel p Fo I Lf.
  - left. destruct fuel as [|f']; [lia|]. exists p, f'. cbn [pre flat_map app length] in *.
    split; [reflexivity|]. split; [exact I|]. split; [exists (p_buf p); destruct p; reflexivity|lia].
  - inversion Fo as [|? ? Fl Fr]; subst. cbn [pre flat_map] in I. fold (pre ls) in I.
    rewrite <- app_assoc in I.
    pose proof (readline_pline p l (pre ls ++ body' fs)) as R.
    specialize (R I (proj1 Fl)).
    destruct fuel as [|k]; [lia|].
    destruct (S (length l) <=? length (p_buf p))%nat eqn:L.
    + destruct R as [R G2]. apply Nat.leb_le in L.
      rewrite (skip_loop_line k p _ l Fl R).
      set (p1 := set_buf p (skipn (S (length l)) (p_buf p))) in *.
      assert (L1 : length (p_buf p1) = (length (p_buf p) - S (length l))%nat) by (unfold p1; cbn [p_buf set_buf]; apply skipn_length).
      destruct (IH k p1 Fr G2 ltac:(lia)) as [(p' & f' & E & I' & (b & Eb) & Ln)|(ls1 & l0 & ls2 & p' & El & I' & (b & Eb) & Ln & Lp & Res)].
      * left. exists p', f'. split; [exact E|]. split; [exact I'|]. split; [exists b; rewrite Eb; reflexivity|].
        cbn [pre flat_map]. fold (pre ls). rewrite !app_length. cbn [length]. lia.
      * right. exists (l :: ls1), l0, ls2, p'. split; [rewrite El; reflexivity|]. split; [exact I'|].
        split; [exists b; rewrite Eb; reflexivity|]. split.
        { cbn [pre flat_map]. fold (pre ls1). rewrite !app_length. cbn [length]. lia. }
        split; [exact Lp|exact Res].
    + apply Nat.leb_gt in L. right. exists [], l, ls, p. split; [reflexivity|].
      split; [cbn [pre flat_map]; fold (pre ls); rewrite <- app_assoc; exact I|].
      split; [exists (p_buf p); destruct p; reflexivity|]. split; [reflexivity|]. split; [exact L|].
      cbn [skip_loop]. destruct R as [[E R]|(E & Hz & R)]; rewrite R.
      * left. cbn iota. rewrite E. auto.
      * right. auto.
Qed.


Lemma pre_app a b : pre (a ++ b) = pre a ++ pre b.
Proof. unfold pre. apply flat_map_app. Qed.

Notation drv := (drive hdr false false false None).
Notation HB := (headers_branch2 hdr bnd epi Z HZ lim lim_line).
Notation DO := (drive_out hdr bnd bnd_ne bnd_nolf epi Z HZ lim lim_line).

(* the consumer loop while the preamble is being skipped *)
Lemma drive_pre fs : forall fuel ls m,
  Forall pline_ok ls -> Forall (fld_ok hdr bnd) fs -> Forall (fits lim) fs ->
  inv' (m_pb m) (pre ls ++ body' fs) -> lenN (p_buf (m_pb m)) < lim -> p_limit (m_pb m) = lim ->
  m_state m = FirstBoundary -> m_item m = None -> m_bnd m = bnd ->
  (length (p_stream (m_pb m)) + length (pre ls ++ body' fs) < fuel)%nat ->
  Out Z (drv fuel m AtMp) (exp_fields TEnd fs).
Proof.
  induction fuel as [|k IH]; intros ls m Pl Fo Fi I Lb El Est Eit Eb M; [lia|].
  destruct m as [p st it b]. cbn [m_pb m_state m_item m_bnd] in *. subst st it b.
  rewrite <- El in Lb.
  destruct (poll_stream_inv Z p _ I Lb) as (p1 & w & PS & I1 & El1 & W & Ms & Pr).
  rewrite El in El1. pose proof (inv_bounded _ _ _ I1) as Bd1. rewrite El1 in Bd1.
  rewrite drive_at_mp. unfold mp_poll_next. cbn [m_pb m_state m_item m_bnd]. rewrite PS.
  unfold inner_poll. cbn [m_state m_item m_pb m_bnd state_eqb].
  unfold skip_until_boundary. rewrite (is_nil_bnd bnd bnd_ne bnd_nolf).
  destruct (skip_loop_pre fs ls (S (length (p_buf p1))) p1 Pl I1 ltac:(lia))
    as [(p' & f' & E & I' & (b & Eb') & Ln)|(ls1 & l & ls2 & p' & Els & I' & (b & Eb') & Ln & Lp & Res)].
  - (* the whole preamble is skipped in this poll *)
    rewrite E. subst p'. cbn [p_buf set_buf] in Ln.
    set (p' := set_buf p1 b) in *.
    assert (Sp : p_stream p' = p_stream p1) by reflexivity.
    assert (Ep : p_eof p' = p_eof p1) by reflexivity.
    assert (Lp' : p_limit p' = lim) by exact El1.
    pose proof (skip_first_loop f' p' fs I') as SF.
    pose proof (body_len' hdr bnd epi fs) as BL.
    pose proof (line_len_lim hdr bnd epi Z HZ lim lim_line fs) as LL.
    rewrite app_length in M.
    destruct (line_len' fs <=? length (p_buf p'))%nat eqn:L.
    + destruct SF as [SF G2]. rewrite SF. apply Nat.leb_le in L. destruct fs as [|f r].
      * cbn [at_mp exp_fields]. apply Out_end.
        exact (last_line_complete hdr bnd epi Z HZ lim lim_line p' I' L).
      * cbn [line_of snd] in G2, BL.
        apply (HB k (DO k) (mkMp p1 FirstBoundary None bnd)); auto;
          unfold line_len in BL; cbn [p_stream set_buf]; intros; try rewrite Sp; lia.
    + apply Nat.leb_gt in L. destruct SF as [[E' SF]|(E' & Hz & SF)]; rewrite SF; cbn [at_mp].
      * rewrite Ep in E'. rewrite (woken_true w p1 W E'). apply Out_pend.
        apply (DO k (PFirst fs)).
        -- exact I'.
        -- cbn [m_pb]. unfold lenN. lia.
        -- split; [|split; [exact Fi|exact Lp']]. split; [reflexivity|]. cbn. repeat split; auto.
        -- unfold meas. cbn [m_pb stream_of]. rewrite Sp.
           destruct (Nat.eq_dec (length (pre ls)) 0) as [E0|E0]; [|lia].
           assert (Lb1 : (length (p_buf p1) < line_len' fs)%nat) by (unfold p' in L; cbn [p_buf set_buf] in L; lia).
           pose proof (pend_progress hdr bnd epi Z HZ lim lim_line p p1 _ Pr E' Lb1 ltac:(rewrite El1; exact LL)). lia.
      * apply Out_err. exact Hz.
  - (* stopped in front of an incomplete preamble line *)
    subst p'. cbn [p_buf set_buf] in Ln, Lp. set (p' := set_buf p1 b) in *.
    assert (Pl2 : Forall pline_ok (l :: ls2)).
    { rewrite Els in Pl. apply Forall_app in Pl. exact (proj2 Pl). }
    inversion Pl2 as [|? ? Pll _]; subst.
    destruct Res as [[E' Res]|(E' & Hz & Res)]; rewrite Res; cbn [at_mp].
    + rewrite (woken_true w p1 W E'). apply Out_pend.
      apply (IH (l :: ls2) (mkMp p' FirstBoundary None bnd)); auto.
      * unfold p'. cbn [m_pb p_buf set_buf]. destruct Pll as (_ & _ & _ & Ll). unfold lenN. lia.
      * unfold p'. cbn [m_pb p_stream set_buf]. rewrite pre_app, !app_length in M. rewrite !app_length.
        destruct (Nat.eq_dec (length (pre ls1)) 0) as [E0|E0]; [|lia].
        assert (Lb1 : (length (p_buf p1) < S (length l))%nat) by lia.
        destruct Pll as (_ & _ & _ & Ll).
        pose proof (pend_progress hdr bnd epi Z HZ lim lim_line p p1 _ Pr E' Lb1 ltac:(rewrite El1; exact Ll)). lia.
    + apply Out_err. exact Hz.
Qed.

End PRE.

(* ------------------------------------------------------------------ the theorems *)

(* ROUND TRIP, final form: optional preamble, any epilogue, parser buffer only as large as the
   longest line it must see whole *)
Theorem roundtrip_full :
  forall (hdr : bytes -> hres) (bnd : bytes) (ls : list bytes) (fs : list fld) (epilogue : bytes)
         (script : list ev) (limit : N) (fuel : nat),
  bnd <> [] -> ~ In 10 bnd -> Forall (pline_ok bnd limit) ls -> Forall (fld_ok hdr bnd) fs ->
  no_err script ->
  N.of_nat (length bnd + 6) <= limit -> Forall (fun f => lenN (fh f) <= limit) fs ->
  chunks script = pre ls ++ body bnd close_line epilogue fs ->
  (length script + length (chunks script) < fuel)%nat ->
  norm (drive hdr false false false None fuel (mp_new bnd script limit) AtMp) = exp_fields TEnd fs.
Proof.
  intros hdr bnd ls fs epi script limit fuel B1 B2 Pl Fo Ne Ll Fi Eb Lf.
  refine (proj1 (drive_pre hdr bnd B1 B2 epi [] (or_introl eq_refl) limit Ll fs fuel ls
                           (mp_new bnd script limit) Pl Fo Fi _ _ eq_refl eq_refl eq_refl eq_refl _) eq_refl).
  - apply init_inv; [exact Ne|]. rewrite app_nil_r. symmetry. exact Eb.
  - cbn. unfold lenN. cbn. lia.
  - rewrite <- Eb. cbn. exact Lf.
Qed.

(* TRUNCATION, final form: the stream (preamble + body, no epilogue) is cut anywhere at least 3
   bytes before its end, i.e. strictly inside  ... "--" boundary "--" *)
Theorem truncated_full :
  forall (hdr : bytes -> hres) (bnd : bytes) (ls : list bytes) (fs : list fld) (missing : bytes)
         (script : list ev) (limit : N) (fuel : nat),
  bnd <> [] -> ~ In 10 bnd -> Forall (pline_ok bnd limit) ls -> Forall (fld_ok hdr bnd) fs ->
  no_err script ->
  N.of_nat (length bnd + 6) <= limit -> Forall (fun f => lenN (fh f) <= limit) fs ->
  pre ls ++ body bnd close_line [] fs = chunks script ++ missing -> (3 <= length missing)%nat ->
  (length script + length (pre ls ++ body bnd close_line [] fs) < fuel)%nat ->
  exists t e,
    norm (drive hdr false false false None fuel (mp_new bnd script limit) AtMp) = t ++ [TErr e] /\
    tpre t (exp_fields TEnd fs).
Proof.
  intros hdr bnd ls fs Z script limit fuel B1 B2 Pl Fo Ne Ll Fi Eb Lz Lf.
  assert (Hz : Z <> []) by (intros ->; cbn in Lz; lia).
  refine (proj2 (drive_pre hdr bnd B1 B2 [] Z (or_intror (conj Lz eq_refl)) limit Ll fs fuel ls
                           (mp_new bnd script limit) Pl Fo Fi _ _ eq_refl eq_refl eq_refl eq_refl _) Hz).
  - apply init_inv; [exact Ne|]. exact Eb.
  - cbn. unfold lenN. cbn. lia.
  - cbn. exact Lf.
Qed.

(* segmentation independence, final form *)
Theorem segmentation_full :
  forall hdr bnd ls fs epilogue s1 s2 l1 l2 f1 f2,
  bnd <> [] -> ~ In 10 bnd -> Forall (pline_ok bnd l1) ls -> Forall (pline_ok bnd l2) ls ->
  Forall (fld_ok hdr bnd) fs -> no_err s1 -> no_err s2 ->
  N.of_nat (length bnd + 6) <= l1 -> N.of_nat (length bnd + 6) <= l2 ->
  Forall (fun f => lenN (fh f) <= l1) fs -> Forall (fun f => lenN (fh f) <= l2) fs ->
  chunks s1 = pre ls ++ body bnd close_line epilogue fs -> chunks s2 = chunks s1 ->
  (length s1 + length (chunks s1) < f1)%nat -> (length s2 + length (chunks s1) < f2)%nat ->
  norm (drive hdr false false false None f1 (mp_new bnd s1 l1) AtMp) =
  norm (drive hdr false false false None f2 (mp_new bnd s2 l2) AtMp).
Proof.
  intros. rewrite (roundtrip_full hdr bnd ls fs epilogue s1 l1 f1) by assumption.
  rewrite (roundtrip_full hdr bnd ls fs epilogue s2 l2 f2); try assumption; congruence.
Qed.

(* non-vacuity: preamble of two lines (one of them "--abx", a near-boundary line), the 3-part
   body, an epilogue, buffer_limit 8, bytewise with Pending: complete and cut 12 bytes early *)
Definition ex_pre : list bytes := [[112;114;101;13]; [45;45;97;98;120;13]].

Example full_example :
  Forall (pline_ok [97;98] 8) ex_pre /\
  norm (drive ex_hdr false false false None 2000
          (mp_new [97;98] (flat_map (fun b => [EChunk [b]; EPending])
                                    (pre ex_pre ++ body [97;98] close_line [101;102] ex_fs)) 8) AtMp)
  = exp_fields TEnd ex_fs /\
  norm (drive ex_hdr false false false None 2000
          (mp_new [97;98] (flat_map (fun b => [EChunk [b]; EPending])
                                    (firstn 12 (pre ex_pre ++ ex_body))) 8) AtMp)
  = [TErr EIncomplete].
Proof.
  split.
  { repeat constructor; try (intro H; repeat (destruct H as [H|H]; [discriminate|]); exact H);
      try discriminate; vm_compute; discriminate. }
  split; vm_compute; reflexivity.
Qed.
