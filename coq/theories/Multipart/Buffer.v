(* C15 model, part 1: actix-multipart/src/payload.rs  (PayloadBuffer).
   Executable transcription, branch by branch; no proofs in this file.

   The upstream body stream is a script: each [poll_next] consumes one event; an exhausted
   script answers Ready(None).  [EPending] is an upstream Pending: by the Stream contract the
   upstream has registered the waker and will wake the task, so the poll is "woken". *)
From AV Require Import Lib.Base.
From AV Require Import Gen.Consts.

Inductive ev := EChunk (b : bytes) | EPending | EErr.

(* actix_multipart::Error, the classes the parser itself produces; [EHdr tag] is an error
   reported by the header oracle (httparse / Content-Disposition / Content-Length / nested);
   [EFuel] and [EPanic] are model artefacts (loop fuel exhausted — proved unreachable;
   Field polled after completion — never done by the driver). *)
Inductive merr := EIncomplete | EBoundary | EOverflow | EPayload | EHdr (tag : bytes) | EFuel | EPanic.

Inductive res (A : Type) := Ok (a : A) | Err (e : merr).
Arguments Ok {A}. Arguments Err {A}.

Record pb := mkPb {
  p_stream : list ev;          (* stream: LocalBoxStream *)
  p_pending : option bytes;    (* pending: Option<Bytes> *)
  p_buf : bytes;               (* buf: BytesMut *)
  p_limit : N;                 (* buffer_limit *)
  p_eof : bool                 (* eof *)
}.

Definition set_stream (p : pb) (s : list ev) := mkPb s (p_pending p) (p_buf p) (p_limit p) (p_eof p).
Definition set_pending (p : pb) (x : option bytes) := mkPb (p_stream p) x (p_buf p) (p_limit p) (p_eof p).
Definition set_buf (p : pb) (b : bytes) := mkPb (p_stream p) (p_pending p) b (p_limit p) (p_eof p).
Definition set_eof (p : pb) (e : bool) := mkPb (p_stream p) (p_pending p) (p_buf p) (p_limit p) e.

Definition pb_new (s : list ev) (limit : N) : pb := mkPb s None [] limit false.

Definition is_nil {A} (l : list A) : bool := match l with [] => true | _ => false end.
Definition is_some {A} (o : option A) : bool := match o with Some _ => true | None => false end.

(* fn append_pending(&mut self) -> Result<bool, PayloadError> *)
Definition append_pending (p : pb) : res (pb * bool) :=
  match p_pending p with
  | None => Ok (p, false)
  | Some data =>
      let p0 := set_pending p None in                       (* self.pending.take() *)
      if is_nil data then Ok (p0, false)
      else if p_limit p <=? lenN (p_buf p) then Err EOverflow  (* pending restored, Overflow *)
      else
        let available := p_limit p - lenN (p_buf p) in
        let len := N.min (lenN data) available in
        if len =? lenN data
        then Ok (set_buf p0 (p_buf p ++ data), negb (len =? 0))
        else let n := N.to_nat len in
             Ok (set_pending (set_buf p0 (p_buf p ++ firstn n data)) (Some (skipn n data)),
                 negb (len =? 0))
  end.

(* the `for _ in 0..MAX_READY_CHUNKS_PER_POLL` loop of poll_stream.
   Result: new buffer and [woken] = a wake-up of the polling task is guaranteed
   (self-wake `cx.waker().wake_by_ref()`, or the upstream returned Pending). *)
Fixpoint poll_loop (o25 : bool) (n : nat) (p : pb) (appended : bool) : res (pb * bool) :=
  match n with
  | O => Ok (p, if o25 then appended else true)
      (* after the loop.  original (o25 = true, F25): if appended { wake };
         repaired (fixes/F25.patch): wake unconditionally — the stream was ready 16 times *)
  | S n' =>
      match p_pending p with
      | Some _ =>
          match append_pending p with
          | Err e => Err e
          | Ok (p1, a) =>
              let appended1 := appended || a in
              if is_some (p_pending p1) || (p_limit p1 <=? lenN (p_buf p1))
              then Ok (p1, if o25 then appended1 else true) (* original: if appended { wake }; return
                                                               repaired: wake; return *)
              else poll_loop o25 n' p1 appended1                (* continue *)
          end
      | None =>
          match p_stream p with
          | EChunk data :: rest =>                          (* Ready(Some(Ok(data))) *)
              match append_pending (set_pending (set_stream p rest) (Some data)) with
              | Err e => Err e
              | Ok (p1, a) =>
                  let appended1 := appended || a in
                  if is_some (p_pending p1) || (p_limit p1 <=? lenN (p_buf p1))
                  then Ok (p1, if o25 then appended1 else true)
                  else poll_loop o25 n' p1 appended1
              end
          | EErr :: rest => Err EPayload                    (* Ready(Some(Err(err))) *)
          | [] => Ok (set_eof p true, false)                (* Ready(None): eof, no wake *)
          | EPending :: rest => Ok (set_stream p rest, true)(* Pending: upstream will wake *)
          end
      end
  end.

Definition poll_stream_n (o25 : bool) (max_chunks : nat) (p : pb) : res (pb * bool) :=
  if p_limit p =? 0 then Err EOverflow else poll_loop o25 max_chunks p false.

Definition poll_stream (o25 : bool) (p : pb) : res (pb * bool) :=
  poll_stream_n o25 (N.to_nat MULTIPART_MAX_READY_CHUNKS) p.

(* ---- reads ---- *)

(* [starts x l]: l begins with x *)
Definition starts (x l : bytes) : bool := bytes_eqb (firstn (length x) l) x.

(* memchr::memmem::find: index of the first occurrence *)
Fixpoint find_sub (needle hay : bytes) : option nat :=
  if starts needle hay then Some O
  else match hay with
       | [] => None
       | _ :: t => match find_sub needle t with Some i => Some (S i) | None => None end
       end.

(* read_until: Ok(Some chunk) chunk ends after needle; Err(Incomplete) at eof; Ok(None) *)
Definition read_until (needle : bytes) (p : pb) : res (option bytes * pb) :=
  match find_sub needle (p_buf p) with
  | None => if p_eof p then Err EIncomplete else Ok (None, p)
  | Some idx =>
      let k := (idx + length needle)%nat in
      Ok (Some (firstn k (p_buf p)), set_buf p (skipn k (p_buf p)))
  end.

Definition readline (p : pb) := read_until [10] p.

Definition readline_or_eof (p : pb) : res (option bytes * pb) :=
  match readline p with
  | Err EIncomplete => if p_eof p then Ok (Some (p_buf p), set_buf p []) else Err EIncomplete
  | line => line
  end.

Definition read_max (size : N) (p : pb) : res (option bytes * pb) :=
  if negb (is_nil (p_buf p)) then
    let k := N.to_nat (N.min (lenN (p_buf p)) size) in
    Ok (Some (firstn k (p_buf p)), set_buf p (skipn k (p_buf p)))
  else if p_eof p then Err EIncomplete
  else Ok (None, p).

(* #[cfg(test)] read_exact *)
Definition read_exact (size : N) (p : pb) : option bytes * pb :=
  if size <=? lenN (p_buf p)
  then (Some (firstn (N.to_nat size) (p_buf p)), set_buf p (skipn (N.to_nat size) (p_buf p)))
  else (None, p).

Definition unprocessed (data : bytes) (p : pb) : pb := set_buf p (data ++ p_buf p).
