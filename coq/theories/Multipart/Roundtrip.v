(* C15 proofs, part 3: the whole parser (Multipart::poll_next / Field::poll_next as driven by
   the consumer loop of Run/RunC15.v) delivers exactly the rendered fields, for every chunking
   and Pending pattern of the upstream script.  Repaired code (all switches false). *)
From AV Require Import Lib.Base.
From AV Require Import Multipart.Buffer.
From AV Require Import Multipart.Scan.
From AV Require Import Multipart.Parser.
From AV Require Import Multipart.ScanProofs.
From AV Require Import Multipart.ParserProofs.
From AV Require Import Run.RunC15.

(* ------------------------------------------------------------------ find_sub on prefixes *)

Lemma find_sub_restrict needle : forall a b i,
  find_sub needle (a ++ b) = Some i -> (i + length needle <= length a)%nat ->
  find_sub needle a = Some i.
Proof.
  induction a as [|x a IH]; intros b i H L.
  - cbn [length] in L. assert (i = O) by lia. assert (length needle = O) by lia.
    destruct needle; [|discriminate]. subst. reflexivity.
  - cbn [app find_sub] in H. cbn [find_sub].
    destruct (starts needle (x :: a ++ b)) eqn:S.
    + injection H as <-. change (x :: a ++ b) with ((x :: a) ++ b) in S.
      rewrite starts_app_long in S by (cbn [length] in *; lia). rewrite S. reflexivity.
    + destruct (find_sub needle (a ++ b)) as [j|] eqn:F; [|discriminate]. injection H as <-.
      destruct (starts needle (x :: a)) eqn:S2.
      * apply (starts_app _ _ b) in S2. cbn [app] in S2. congruence.
      * rewrite (IH b j F) by (cbn [length] in L; lia). reflexivity.
Qed.

Lemma find_sub_short needle a b i :
  find_sub needle (a ++ b) = Some i -> (length a < i + length needle)%nat -> find_sub needle a = None.
Proof.
  intros H L. destruct (find_sub needle a) as [j|] eqn:F; [|reflexivity].
  pose proof (find_sub_len _ _ _ F). rewrite (find_sub_app _ _ b _ F) in H. injection H as ->. lia.
Qed.

(* first LF of a line *)
Lemma find_sub_lf : forall x t, ~ In 10 x -> find_sub [10] (x ++ 10 :: t) = Some (length x).
Proof.
  induction x as [|a x IH]; intros t N.
  - cbn. reflexivity.
  - cbn [app find_sub length]. unfold starts. cbn [length firstn bytes_eqb].
    destruct (N.eqb_spec a 10) as [E|E]; [exfalso; apply N; left; auto|]. cbn [andb].
    rewrite IH; [reflexivity|]. intro I. apply N. right. exact I.
Qed.

(* ------------------------------------------------------------------ the buffer invariant *)

Fixpoint no_err (s : list ev) : Prop :=
  match s with [] => True | EErr :: _ => False | _ :: r => no_err r end.

(* [good p S]: S is what the parser has not consumed yet (buffer ++ rest of the script);
   nothing is held back, the limit is never reached, the script has no error event *)
Definition good (p : pb) (S : bytes) : Prop :=
  p_pending p = None /\ p_buf p ++ chunks (p_stream p) = S /\ lenN S < p_limit p /\
  no_err (p_stream p) /\ (p_eof p = true -> p_stream p = []).

Lemma good_prefix p S : good p S -> is_prefix (p_buf p) S.
Proof. intros (_ & E & _). exists (chunks (p_stream p)). auto. Qed.

Lemma good_eof p S : good p S -> p_eof p = true -> p_buf p = S.
Proof. intros (_ & E & _ & _ & Z) H. rewrite (Z H) in E. cbn in E. rewrite app_nil_r in E. exact E. Qed.

Lemma good_skip p S k : good p S -> (k <= length (p_buf p))%nat ->
  good (set_buf p (skipn k (p_buf p))) (skipn k S).
Proof.
  intros (A & B & C & D & E) L. unfold good. cbn. repeat split; auto.
  - rewrite <- B, skipn_app. replace (k - length (p_buf p))%nat with O by lia. reflexivity.
  - unfold lenN in *. rewrite skipn_length. lia.
Qed.

Lemma good_len p S : good p S -> (length (p_buf p) <= length S)%nat.
Proof. intros (_ & E & _). rewrite <- E, app_length. lia. Qed.

Lemma firstn_good p S k : good p S -> (k <= length (p_buf p))%nat -> firstn k (p_buf p) = firstn k S.
Proof.
  intros (_ & E & _) L. rewrite <- E, firstn_app. replace (k - length (p_buf p))%nat with O by lia.
  cbn. rewrite app_nil_r. reflexivity.
Qed.

(* poll_stream under the invariant: succeeds, keeps the invariant, consumes a script event or
   reaches eof *)
Lemma append_pending_good p data rest S :
  p_pending p = None -> p_stream p = EChunk data :: rest -> good p S ->
  exists p1 a, append_pending (set_pending (set_stream p rest) (Some data)) = Ok (p1, a) /\
    good p1 S /\ p_stream p1 = rest /\ p_eof p1 = p_eof p /\ p_limit p1 = p_limit p.
Proof.
  intros Pe Se (A & B & C & D & E). unfold append_pending. cbn [p_pending set_pending set_stream].
  rewrite Se in B, D, E. cbn [chunks no_err] in B, D.
  destruct data as [|d0 data]; cbn [is_nil].
  - eexists _, _. split; [reflexivity|]. unfold good. cbn. repeat split; auto.
    intro H. apply E in H. discriminate.
  - cbn [p_limit p_buf p_pending p_stream p_eof set_buf set_pending set_stream].
    assert (L : lenN (p_buf p) + lenN (d0 :: data) <= lenN S).
    { rewrite <- B. unfold lenN. rewrite !app_length. lia. }
    destruct (N.leb_spec (p_limit p) (lenN (p_buf p))); [lia|].
    replace (N.min (lenN (d0 :: data)) (p_limit p - lenN (p_buf p))) with (lenN (d0 :: data)) by lia.
    rewrite N.eqb_refl. eexists _, _. split; [reflexivity|]. unfold good. cbn. repeat split; auto.
    + rewrite <- app_assoc. exact B.
    + intro H'. apply E in H'. discriminate.
Qed.

Lemma poll_loop_good : forall n p a S,
  good p S ->
  exists p' w, poll_loop false n p a = Ok (p', w) /\ good p' S /\ p_limit p' = p_limit p /\
    (w = false -> p_eof p' = true) /\
    (length (p_stream p') <= length (p_stream p))%nat /\
    ((0 < n)%nat -> (length (p_stream p') < length (p_stream p))%nat \/ p_eof p' = true).
Proof.
  induction n as [|n IH]; intros p a S G.
  - exists p, true. cbn. repeat split; auto; try (intro; discriminate); try (intro; lia); destruct G as (A & B & C & D & E); assumption.
  - cbn [poll_loop]. destruct G as (A & B & C & D & E). rewrite A.
    destruct (p_stream p) as [|[data| |] rest] eqn:Se.
    + exists (set_eof p true), false. cbn. rewrite Se. unfold good. cbn. rewrite Se.
      repeat split; auto.
    + destruct (append_pending_good p data rest S A Se) as (p1 & a1 & AP & G1 & S1 & E1 & L1).
      { unfold good. rewrite Se. auto. }
      rewrite AP. destruct G1 as (A1 & B1 & C1 & D1 & Z1).
      rewrite A1. cbn [is_some orb].
      assert (Lb : lenN (p_buf p1) <= lenN S) by (rewrite <- B1; unfold lenN; rewrite app_length; lia).
      destruct (N.leb_spec (p_limit p1) (lenN (p_buf p1))); [lia|].
      destruct (IH p1 (a || a1) S) as (p' & w & PL & G' & L' & W' & M' & _).
      { unfold good; auto. }
      exists p', w. rewrite PL. split; [reflexivity|]. split; [exact G'|]. split; [congruence|].
      split; [exact W'|]. split.
      * rewrite S1 in M'. cbn [length]. lia.
      * intros _. left. rewrite S1 in M'. cbn [length]. lia.
    + exists (set_stream p rest), true. cbn [chunks no_err] in *.
      split; [reflexivity|]. split.
      { unfold good. cbn. repeat split; auto. intro H. apply E in H. discriminate. }
      cbn. repeat split; auto; try (intro; discriminate).
    + cbn in D. contradiction.
Qed.

Lemma poll_stream_good p S :
  good p S ->
  exists p' w, poll_stream false p = Ok (p', w) /\ good p' S /\
    (w = false -> p_eof p' = true) /\
    (length (p_stream p') <= length (p_stream p))%nat /\
    ((length (p_stream p') < length (p_stream p))%nat \/ p_eof p' = true).
Proof.
  intro G. unfold poll_stream, poll_stream_n.
  assert (Lp : 0 < p_limit p) by (destruct G as (_ & _ & C & _); lia).
  destruct (N.eqb_spec (p_limit p) 0); [lia|].
  destruct (poll_loop_good (N.to_nat Gen.Consts.MULTIPART_MAX_READY_CHUNKS) p false S G)
    as (p' & w & PL & G' & _ & W & M & Pr).
  exists p', w. split; [exact PL|]. split; [exact G'|]. split; [exact W|]. split; [exact M|].
  apply Pr. vm_compute. lia.
Qed.

(* ------------------------------------------------------------------ read_until under the invariant *)

Lemma read_until_good needle p S i :
  good p S -> find_sub needle S = Some i ->
  let k := (i + length needle)%nat in
  if (k <=? length (p_buf p))%nat
  then read_until needle p = Ok (Some (firstn k S), set_buf p (skipn k (p_buf p)))
  else read_until needle p = Ok (None, p) /\ p_eof p = false.
Proof.
  intros G F k. pose proof G as (_ & E & _).
  destruct (Nat.leb_spec k (length (p_buf p))) as [L|L]; unfold read_until.
  - rewrite <- E in F. rewrite (find_sub_restrict _ _ _ _ F L).
    fold k. rewrite (firstn_good p S k G L). reflexivity.
  - rewrite <- E in F. rewrite (find_sub_short _ _ _ _ F L).
    destruct (p_eof p) eqn:Eo; [|auto].
    exfalso. pose proof (good_eof p S G Eo) as Hb. rewrite E in F.
    apply find_sub_len in F. rewrite Hb in L. fold k in F. lia.
Qed.

(* ------------------------------------------------------------------ the rendered body *)

Record fld := mkFld {
  fh : bytes;              (* header block, ends with CRLF CRLF *)
  fname : option bytes;    (* what the header oracle reports for it *)
  fcl : bool;              (* has a Content-Length header (= exact length of the content) *)
  fc : bytes               (* content *)
}.
Definition cl_of (f : fld) : option N := if fcl f then Some (lenN (fc f)) else None.

Definition CRLF2 : bytes := CRLF ++ CRLF.

Lemma strip_prefix_app x l : strip_prefix x (x ++ l) = Some l.
Proof.
  unfold strip_prefix. replace (starts x (x ++ l)) with true
    by (symmetry; apply starts_true; eexists; reflexivity).
  rewrite skipn_app, skipn_all, Nat.sub_diag. reflexivity.
Qed.

Lemma strip_suffix_app x l : strip_suffix x (l ++ x) = Some l.
Proof.
  unfold strip_suffix. rewrite app_length.
  replace (length x <=? length l + length x)%nat with true by (symmetry; apply Nat.leb_le; lia).
  replace (length l + length x - length x)%nat with (length l) by lia.
  rewrite skipn_app, skipn_all, Nat.sub_diag, firstn_app, firstn_all, Nat.sub_diag. cbn [skipn firstn app].
  rewrite bytes_eqb_refl, app_nil_r. reflexivity.
Qed.

Lemma bytes_eqb_app_neq (a b : bytes) : b <> [] -> bytes_eqb (a ++ b) a = false.
Proof.
  intro N. apply bytes_eqb_neq. intro E. apply (f_equal (@length _)) in E. rewrite app_length in E.
  destruct b; [congruence|cbn in E; lia].
Qed.

Section RT.
Variable hdr : bytes -> hres.
Variable bnd : bytes.
Hypothesis bnd_ne : bnd <> [].
Hypothesis bnd_nolf : ~ In 10 bnd.

(* what follows the last delimiter CRLF--boundary: a line [tlX ++ LF] and anything after it *)
Variables tlX tlT : bytes.
Hypothesis tlX_nolf : ~ In 10 tlX.
Definition tl : bytes := tlX ++ 10 :: tlT.

(* [fin]: how the run must end: the close delimiter "--" CR LF => clean end; a malformed line
   (neither CR LF = another part, nor "--" CR LF) => Err(BoundaryMissing) *)
Variable fin : tev.
Hypothesis fin_spec :
  (tlX = DD ++ [CR] /\ fin = TEnd) \/
  (tlX ++ [10] <> CRLF /\ tlX ++ [10] <> DD ++ CRLF /\ fin = TErr EBoundary).

Fixpoint after (fs : list fld) : bytes :=
  match fs with
  | [] => tl
  | f :: r => CRLF ++ fh f ++ fc f ++ delim bnd ++ after r
  end.

(* the whole body: "--" boundary, then per part CRLF headers content CRLF "--" boundary, then tl *)
Definition body (fs : list fld) : bytes := DD ++ bnd ++ after fs.

Definition fld_ok (f : fld) : Prop :=
  hdr (fh f) = HOk (fname f) (cl_of f) /\
  (exists h0, fh f = h0 ++ CRLF2 /\ find_sub CRLF2 (fh f) = Some (length h0)) /\
  (fcl f = false -> clean bnd (fc f)).

(* expected transcript (Pending removed, adjacent data merged) *)
Definition exp_content (c : bytes) (k : list tev) : list tev :=
  (if is_nil c then [] else [TData c]) ++ TFieldEnd :: k.
Fixpoint exp_fields (fs : list fld) : list tev :=
  match fs with
  | [] => [fin]
  | f :: r => TField (fname f) (cl_of f) :: exp_content (fc f) (exp_fields r)
  end.

Fixpoint norm (t : list tev) : list tev :=
  match t with
  | [] => []
  | TPend _ :: r => norm r
  | TData a :: r => match norm r with TData b :: r' => TData (a ++ b) :: r' | r' => TData a :: r' end
  | e :: r => e :: norm r
  end.

Lemma norm_data_content ch c k : ch <> [] ->
  match exp_content c k with TData b :: r' => TData (ch ++ b) :: r' | r' => TData ch :: r' end
  = exp_content (ch ++ c) k.
Proof.
  intro N. unfold exp_content. destruct c as [|c0 c]; cbn [is_nil app].
  - rewrite app_nil_r. destruct ch; [congruence|reflexivity].
  - destruct ch; [congruence|reflexivity].
Qed.

(* ---- the boundary line in front of [after fs] ---- *)
Inductive lkind := LMore | LLast | LBad.

Definition line_of (fs : list fld) : bytes * bytes :=     (* X, T with after fs = X ++ LF :: T *)
  match fs with
  | [] => (tlX, tlT)
  | f :: r => ([CR], fh f ++ fc f ++ delim bnd ++ after r)
  end.

Lemma after_line fs : after fs = fst (line_of fs) ++ 10 :: snd (line_of fs) /\ ~ In 10 (fst (line_of fs)).
Proof.
  destruct fs as [|f r]; cbn [after line_of fst snd].
  - split; [reflexivity|exact tlX_nolf].
  - split; [reflexivity|]. intros [H|[]]. discriminate.
Qed.

Lemma nolf_line fs : ~ In 10 (DD ++ bnd ++ fst (line_of fs)).
Proof.
  intro H. apply in_app_or in H as [H|H].
  - destruct H as [H|[H|[]]]; discriminate.
  - apply in_app_or in H as [H|H]; [exact (bnd_nolf H)|]. exact (proj2 (after_line fs) H).
Qed.

Definition line_len (fs : list fld) : nat := S (length (DD ++ bnd ++ fst (line_of fs))).

(* readline at a boundary line: either the whole line is buffered and is returned, or nothing
   happens (and the stream has not ended) *)
Lemma readline_boundary p fs :
  good p (body fs) ->
  if (line_len fs <=? length (p_buf p))%nat
  then readline p = Ok (Some (DD ++ bnd ++ fst (line_of fs) ++ [10]), set_buf p (skipn (line_len fs) (p_buf p)))
       /\ good (set_buf p (skipn (line_len fs) (p_buf p))) (snd (line_of fs))
  else readline p = Ok (None, p) /\ p_eof p = false.
Proof.
  intro G. destruct (after_line fs) as [EA NA].
  assert (ES : body fs = (DD ++ bnd ++ fst (line_of fs)) ++ 10 :: snd (line_of fs)).
  { unfold body. rewrite EA, <- !app_assoc. reflexivity. }
  pose proof (read_until_good [10] p (body fs) _ G
                (eq_trans (f_equal (find_sub [10]) ES) (find_sub_lf _ _ (nolf_line fs)))) as R.
  cbn zeta in R. cbn [length] in R. rewrite Nat.add_1_r in R. fold (line_len fs) in R.
  unfold readline. destruct (line_len fs <=? length (p_buf p))%nat eqn:L; [|exact R].
  apply Nat.leb_le in L. split.
  - rewrite R. f_equal. f_equal. f_equal. rewrite ES. unfold line_len.
    rewrite firstn_app. rewrite firstn_all2 by lia.
    replace (S (length (DD ++ bnd ++ fst (line_of fs))) - length (DD ++ bnd ++ fst (line_of fs)))%nat with 1%nat by lia.
    cbn [firstn]. rewrite <- !app_assoc. reflexivity.
  - pose proof (good_skip p (body fs) (line_len fs) G L) as G2.
    replace (skipn (line_len fs) (body fs)) with (snd (line_of fs)) in G2; [exact G2|].
    rewrite ES. unfold line_len. rewrite skipn_app. rewrite skipn_all2 by lia.
    replace (S (length (DD ++ bnd ++ fst (line_of fs))) - length (DD ++ bnd ++ fst (line_of fs)))%nat with 1%nat by lia.
    reflexivity.
Qed.

Lemma is_nil_bnd : is_nil bnd = false.
Proof. destruct bnd; [exfalso; apply bnd_ne; reflexivity|reflexivity]. Qed.

(* Inner::skip_until_boundary on a body without preamble *)
Lemma skip_first p fs :
  good p (body fs) -> (fs <> [] \/ tlX = DD ++ [CR]) ->
  if (line_len fs <=? length (p_buf p))%nat
  then skip_until_boundary p bnd =
         Ok (Some (match fs with [] => true | _ => false end), set_buf p (skipn (line_len fs) (p_buf p)))
       /\ good (set_buf p (skipn (line_len fs) (p_buf p))) (snd (line_of fs))
  else skip_until_boundary p bnd = Ok (None, p) /\ p_eof p = false.
Proof.
  intros G Hk. pose proof (readline_boundary p fs G) as R.
  unfold skip_until_boundary. rewrite is_nil_bnd. cbn [skip_loop].
  destruct (line_len fs <=? length (p_buf p))%nat.
  - destruct R as [R G2]. split; [|exact G2]. rewrite R.
    destruct fs as [|f r]; cbn [line_of fst].
    + destruct Hk as [Hk|Hk]; [congruence|]. rewrite Hk.
      replace (DD ++ bnd ++ (DD ++ [CR]) ++ [10]) with ((DD ++ bnd ++ DD) ++ CRLF)
        by (rewrite <- !app_assoc; reflexivity).
      replace (is_nil ((DD ++ bnd ++ DD) ++ CRLF)) with false by reflexivity.
      rewrite strip_suffix_app, strip_prefix_app. rewrite bytes_eqb_app_neq by discriminate.
      rewrite strip_suffix_app. cbn [opt_bytes_eqb]. rewrite bytes_eqb_refl. reflexivity.
    + replace (DD ++ bnd ++ [CR] ++ [10]) with ((DD ++ bnd) ++ CRLF)
        by (rewrite <- !app_assoc; reflexivity).
      replace (is_nil ((DD ++ bnd) ++ CRLF)) with false by reflexivity.
      rewrite strip_suffix_app, strip_prefix_app, bytes_eqb_refl. reflexivity.
  - destruct R as [R E]. rewrite R. cbn iota. rewrite E. split; reflexivity.
Qed.

Lemma lf_line_not_dd (x : bytes) : bytes_eqb (x ++ [10]) DD = false.
Proof.
  apply bytes_eqb_neq. intro E. destruct x as [|a [|b [|c x]]]; cbn in E; try discriminate.
Qed.

(* Inner::read_boundary after a field *)
Lemma boundary_read p fs :
  good p (body fs) ->
  if (line_len fs <=? length (p_buf p))%nat
  then good (set_buf p (skipn (line_len fs) (p_buf p))) (snd (line_of fs)) /\
       match fs with
       | _ :: _ => read_boundary p bnd = Ok (Some false, set_buf p (skipn (line_len fs) (p_buf p)))
       | [] => (tlX = DD ++ [CR] -> read_boundary p bnd = Ok (Some true, set_buf p (skipn (line_len fs) (p_buf p)))) /\
               (tlX ++ [10] <> CRLF -> tlX ++ [10] <> DD ++ CRLF -> read_boundary p bnd = Err EBoundary)
       end
  else read_boundary p bnd = Ok (None, p) /\ p_eof p = false.
Proof.
  intro G. pose proof (readline_boundary p fs G) as R.
  unfold read_boundary, readline_or_eof. rewrite is_nil_bnd.
  destruct (line_len fs <=? length (p_buf p))%nat.
  - destruct R as [R G2]. split; [exact G2|]. rewrite R.
    rewrite !strip_prefix_app.
    destruct fs as [|f r]; cbn [line_of fst].
    + split.
      * intros ->. reflexivity.
      * intros N1 N2. apply bytes_eqb_neq in N1, N2. rewrite N1, N2, lf_line_not_dd. reflexivity.
    + reflexivity.
  - destruct R as [R E]. rewrite R. cbn iota. rewrite E. split; reflexivity.
Qed.

(* Inner::poll from state Headers *)
Lemma headers_poll m p f r :
  fld_ok f -> good p (fh f ++ fc f ++ delim bnd ++ after r) -> m_bnd m = bnd ->
  if (length (fh f) <=? length (p_buf p))%nat
  then poll_headers hdr m p =
         (Ready (MField (fname f) (cl_of f)),
          mkMp (set_buf p (skipn (length (fh f)) (p_buf p))) Boundary (Some (mkField true false (cl_of f))) bnd)
       /\ good (set_buf p (skipn (length (fh f)) (p_buf p))) (fc f ++ delim bnd ++ after r)
  else poll_headers hdr m p = (Pending, mkMp p Headers None bnd) /\ p_eof p = false.
Proof.
  intros (Hh & (h0 & Eh & Fh) & _) G Eb. unfold poll_headers, read_field_headers.
  pose proof (read_until_good CRLF2 p _ _ G (find_sub_app _ _ (fc f ++ delim bnd ++ after r) _ Fh)) as R.
  cbn zeta in R.
  assert (Lh : (length h0 + length CRLF2 = length (fh f))%nat) by (rewrite Eh, app_length; reflexivity).
  rewrite Lh in R. change (CRLF ++ CRLF) with CRLF2. rewrite Eb.
  destruct (length (fh f) <=? length (p_buf p))%nat eqn:L.
  - rewrite R. rewrite firstn_app, firstn_all, Nat.sub_diag. cbn [firstn]. rewrite app_nil_r, Hh.
    split; [reflexivity|]. apply Nat.leb_le in L.
    pose proof (good_skip p _ (length (fh f)) G L) as G2.
    rewrite skipn_app, skipn_all, Nat.sub_diag in G2. exact G2.
  - destruct R as [R E]. rewrite R. cbn iota. rewrite E. split; reflexivity.
Qed.


(* InnerField::poll on a scanned field (no Content-Length) *)
Lemma content_poll p c r :
  clean bnd c -> good p (c ++ delim bnd ++ after r) ->
  match field_poll false false bnd (mkField true false None) p with
  | (Ready (IData ch), f', p') =>
      ch <> [] /\ exists c', c = ch ++ c' /\ f' = mkField true false None /\
                            good p' (c' ++ delim bnd ++ after r) /\ p_stream p' = p_stream p
  | (Ready IEnd, f', p') => c = [] /\ f' = mkField false true None /\ good p' (body r) /\
                            p_stream p' = p_stream p
  | (Ready (IErr _), _, _) => False
  | (Pending, f', p') => f' = mkField true false None /\ p' = p /\ p_eof p = false
  end.
Proof.
  intros Hc G. unfold field_poll. cbn [f_present f_eof f_length negb].
  change (read_stream_gen false false p bnd) with (read_stream p bnd).
  pose proof (read_stream_step p bnd c (after r) (good_prefix _ _ G) Hc) as St.
  destruct (read_stream p bnd) as [[[| ch | e]|] p1] eqn:RS.
  - destruct St as (-> & -> & (tail & Hb)).
    rewrite (field_end_handoff _ p bnd tail Hb). cbn [f_eof f_length f_present].
    split; [reflexivity|]. split; [reflexivity|]. split; [|reflexivity].
    pose proof (good_skip p _ 2 G ltac:(rewrite Hb; unfold delim; cbn [length app]; lia)) as G2.
    rewrite Hb in G2. exact G2.
  - destruct St as (Nch & (c' & ->) & Hb & Hp). split; [exact Nch|]. exists c'.
    split; [reflexivity|]. split; [reflexivity|]. split; [|rewrite Hp; reflexivity].
    pose proof (good_skip p _ (length ch) G ltac:(rewrite Hb, app_length; lia)) as G2.
    rewrite Hb in G2 at 1. rewrite skipn_app, skipn_all, Nat.sub_diag in G2. cbn [skipn app] in G2.
    rewrite <- Hp in G2. rewrite <- app_assoc, skipn_app, skipn_all, Nat.sub_diag in G2. exact G2.
  - destruct St as (-> & Eo & ->).
    pose proof (read_stream_waits_short _ _ _ _ RS ltac:(right; eexists; reflexivity)) as L.
    rewrite (good_eof _ _ G Eo), !app_length in L. unfold delim in L. cbn [length] in L. lia.
  - destruct St as (Eo & ->). auto.
Qed.


(* the final readline of InnerField::poll, buffer at the delimiter *)
Lemma stage2_poll f p r :
  good p (delim bnd ++ after r) ->
  if (2 <=? length (p_buf p))%nat
  then field_stage2 f p = (Ready IEnd, mkField false (f_eof f) (f_length f), set_buf p (skipn 2 (p_buf p)))
       /\ good (set_buf p (skipn 2 (p_buf p))) (body r)
  else field_stage2 f p = (Pending, f, p) /\ p_eof p = false.
Proof.
  intro G. unfold field_stage2, readline.
  pose proof (read_until_good [10] p _ 1%nat G eq_refl) as R. cbn zeta in R. cbn [length Nat.add] in R.
  destruct (2 <=? length (p_buf p))%nat eqn:L.
  - rewrite R. split; [reflexivity|]. apply Nat.leb_le in L. exact (good_skip p _ 2 G L).
  - destruct R as [R E]. rewrite R. split; [reflexivity|exact E].
Qed.

Lemma lenN_cons_pos {A} (a : A) l : (lenN (a :: l) =? 0) = false.
Proof. unfold lenN. cbn [length]. apply N.eqb_neq. lia. Qed.

(* InnerField::poll on a field read by its Content-Length (read_len) *)
Lemma cl_poll p c r :
  good p (c ++ delim bnd ++ after r) ->
  match field_poll false false bnd (mkField true false (Some (lenN c))) p with
  | (Ready (IData ch), f', p') =>
      ch <> [] /\ exists c', c = ch ++ c' /\ f' = mkField true false (Some (lenN c')) /\
                            good p' (c' ++ delim bnd ++ after r) /\ p_stream p' = p_stream p
  | (Ready IEnd, f', p') => c = [] /\ (exists e l, f' = mkField false e l) /\ good p' (body r) /\
                            p_stream p' = p_stream p
  | (Ready (IErr _), _, _) => False
  | (Pending, f', p') => p' = p /\ p_eof p = false /\
      (f' = mkField true false (Some (lenN c)) \/ (c = [] /\ f' = mkField true true (Some 0)))
  end.
Proof.
  intro G. unfold field_poll. cbn [f_present f_eof f_length negb]. unfold read_len.
  destruct c as [|c0 c1].
  - change (lenN (@nil N)) with 0. rewrite N.eqb_refl. cbn [f_present f_length app] in *.
    pose proof (stage2_poll (mkField true true (Some 0)) p r G) as S2.
    destruct (2 <=? length (p_buf p))%nat.
    + destruct S2 as [S2 G2]. rewrite S2. cbn [f_eof f_length].
      split; [reflexivity|]. split; [eauto|]. split; [exact G2|reflexivity].
    + destruct S2 as [S2 E]. rewrite S2. auto.
  - rewrite lenN_cons_pos. unfold read_max.
    destruct (p_buf p) as [|b0 bs] eqn:Hb; cbn [is_nil negb].
    + destruct (p_eof p) eqn:Eo.
      * exfalso. pose proof (good_eof _ _ G Eo) as X. rewrite Hb in X. discriminate.
      * cbn [p_eof]. rewrite Eo. cbn [andb]. auto.
    + rewrite <- Hb.
      set (kk := Nat.min (length (p_buf p)) (length (c0 :: c1))).
      assert (Ek : N.to_nat (N.min (lenN (p_buf p)) (lenN (c0 :: c1))) = kk) by (unfold lenN, kk; lia).
      rewrite Ek.
      assert (Lk : (1 <= kk)%nat) by (unfold kk; rewrite Hb; cbn [length]; lia).
      assert (Lch : length (firstn kk (p_buf p)) = kk) by (rewrite firstn_length; unfold kk; lia).
      assert (El : N.to_nat (N.min (lenN (firstn kk (p_buf p))) (lenN (c0 :: c1))) = kk)
        by (unfold lenN; rewrite Lch; unfold kk; lia).
      rewrite El. rewrite skipn_all2 by lia. cbn [is_nil negb]. rewrite firstn_all2 by lia.
      assert (Ech : firstn kk (p_buf p) = firstn kk (c0 :: c1)).
      { rewrite (firstn_good p _ kk G) by (unfold kk; lia).
        rewrite firstn_app. replace (kk - length (c0 :: c1))%nat with O by (unfold kk; lia).
        cbn [firstn]. apply app_nil_r. }
      split; [intro Z; rewrite Z in Lch; cbn in Lch; lia|].
      exists (skipn kk (c0 :: c1)). split; [rewrite Ech; symmetry; apply firstn_skipn|].
      split.
      { f_equal. f_equal. unfold lenN. rewrite Lch, skipn_length. unfold kk. lia. }
      split; [|reflexivity].
      pose proof (good_skip p _ kk G ltac:(unfold kk; lia)) as G2.
      rewrite skipn_app in G2. replace (kk - length (c0 :: c1))%nat with O in G2 by (unfold kk; lia).
      cbn [skipn] in G2. exact G2.
Qed.

(* ------------------------------------------------------------------ logical positions *)
Inductive pos :=
| PFirst (fs : list fld)                  (* before the first boundary line *)
| PBoundary (fs : list fld)               (* at a boundary line after a field *)
| PHeaders (f : fld) (fs : list fld)      (* at the header block of f *)
| PContent (c : bytes) (fs : list fld)    (* inside a scanned field, c still to deliver *)
| PContentCL (c : bytes) (fs : list fld)  (* inside a field read by Content-Length *)
| PFieldEof (l : option N) (fs : list fld). (* field data finished, its closing CRLF not yet read *)

Definition stream_of (q : pos) : bytes :=
  match q with
  | PFirst fs | PBoundary fs => body fs
  | PHeaders f fs => fh f ++ fc f ++ delim bnd ++ after fs
  | PContent c fs | PContentCL c fs => c ++ delim bnd ++ after fs
  | PFieldEof _ fs => delim bnd ++ after fs
  end.

Definition expect (q : pos) : list tev :=
  match q with
  | PFirst fs | PBoundary fs => exp_fields fs
  | PHeaders f fs => exp_fields (f :: fs)
  | PContent c fs | PContentCL c fs => exp_content c (exp_fields fs)
  | PFieldEof _ fs => TFieldEnd :: exp_fields fs
  end.

Definition state_ok (q : pos) (m : mp) (mode : dmode) : Prop :=
  m_bnd m = bnd /\
  match q with
  | PFirst fs => mode = AtMp /\ m_state m = FirstBoundary /\ m_item m = None /\
                 (fs <> [] \/ tlX = DD ++ [CR]) /\ Forall fld_ok fs
  | PBoundary fs => mode = AtMp /\ m_state m = Boundary /\
                    (m_item m = None \/ exists e l, m_item m = Some (mkField false e l)) /\
                    Forall fld_ok fs
  | PHeaders f fs => mode = AtMp /\ m_state m = Headers /\ m_item m = None /\ Forall fld_ok (f :: fs)
  | PContent c fs => (exists n, mode = InField n) /\ m_state m = Boundary /\
                     m_item m = Some (mkField true false None) /\ clean bnd c /\ Forall fld_ok fs
  | PContentCL c fs => (exists n, mode = InField n) /\ m_state m = Boundary /\
                       m_item m = Some (mkField true false (Some (lenN c))) /\ Forall fld_ok fs
  | PFieldEof l fs => (exists n, mode = InField n) /\ m_state m = Boundary /\
                      m_item m = Some (mkField true true l) /\ Forall fld_ok fs
  end.

Definition measure (q : pos) (m : mp) : nat := (length (p_stream (m_pb m)) + length (stream_of q))%nat.

Notation drv := (drive hdr false false false None).

Definition at_mp (k : nat) (x : poll mitem * bool * mp) : list tev :=
  match x with
  | (Pending, w, m1) => TPend w :: (if w then drv k m1 AtMp else [])
  | (Ready MEnd, _, _) => [TEnd]
  | (Ready (MErr e), _, _) => [TErr e]
  | (Ready (MField name cl), _, m1) => TField name cl :: drv k m1 (InField 0)
  end.

Lemma drive_at_mp k m : drv (S k) m AtMp = at_mp k (mp_poll_next hdr false false false m).
Proof. reflexivity. Qed.

Definition in_field (k : nat) (n : N) (x : poll item * bool * mp) : list tev :=
  match x with
  | (Pending, w, m1) => TPend w :: (if w then drv k m1 (InField n) else [])
  | (Ready IEnd, _, m1) => TFieldEnd :: drv k m1 AtMp
  | (Ready (IErr e), _, _) => [TErr e]
  | (Ready (IData b), _, m1) => TData b :: drv k m1 (InField (n + 1))
  end.

Lemma drive_in_field k m n : drv (S k) m (InField n) = in_field k n (field_poll_next false false false m).
Proof. reflexivity. Qed.

Lemma fin_good : tlX = DD ++ [CR] -> fin = TEnd.
Proof.
  intro E. destruct fin_spec as [[_ F]|(_ & N & _)]; [exact F|].
  exfalso. apply N. rewrite E. reflexivity.
Qed.

Section Step.
Variable k : nat.
Hypothesis IH : forall q m mode,
  good (m_pb m) (stream_of q) -> state_ok q m mode -> (measure q m < k)%nat ->
  norm (drv k m mode) = expect q.

(* the Headers part of Inner::poll, shared by the three AtMp positions *)
Lemma headers_branch mm p w f r :
  m_bnd mm = bnd -> Forall fld_ok (f :: r) ->
  good p (fh f ++ fc f ++ delim bnd ++ after r) ->
  (w = false -> p_eof p = true) ->
  (length (p_stream p) + length (fh f ++ fc f ++ delim bnd ++ after r) <= k)%nat ->
  (p_eof p = false -> (length (p_stream p) + length (fh f ++ fc f ++ delim bnd ++ after r) < k)%nat) ->
  norm (at_mp k (let '(res, m1) := poll_headers hdr mm p in (res, w, m1))) = exp_fields (f :: r).
Proof.
  intros Eb Fo G W M M'. inversion Fo as [|? ? Ff Fr]; subst.
  pose proof (headers_poll mm p f r Ff G Eb) as HP.
  destruct (length (fh f) <=? length (p_buf p))%nat eqn:L.
  - destruct HP as [HP G2]. rewrite HP. cbn [at_mp norm exp_fields]. f_equal.
    destruct Ff as (_ & (h0 & Eh & _) & Hcl).
    assert (Mm : (length (p_stream p) + length (fc f ++ delim bnd ++ after r) < k)%nat).
    { rewrite !app_length in *. rewrite Eh, app_length in M. cbn [length CRLF2 CRLF app] in M. lia. }
    unfold cl_of in *. destruct (fcl f) eqn:Ecl.
    + apply (IH (PContentCL (fc f) r)).
      * exact G2.
      * split; [reflexivity|]. cbn. split; [exists 0; reflexivity|]. split; [reflexivity|].
        split; [reflexivity|exact Fr].
      * unfold measure. cbn [m_pb stream_of p_stream set_buf]. exact Mm.
    + apply (IH (PContent (fc f) r)).
      * exact G2.
      * split; [reflexivity|]. cbn. split; [exists 0; reflexivity|]. split; [reflexivity|].
        split; [reflexivity|]. split; [exact (Hcl eq_refl)|exact Fr].
      * unfold measure. cbn [m_pb stream_of p_stream set_buf]. exact Mm.
  - destruct HP as [HP E]. rewrite HP. cbn [at_mp].
    assert (Hw : w = true) by (destruct w; [reflexivity|rewrite (W eq_refl) in E; discriminate]).
    subst w. cbn [norm]. apply (IH (PHeaders f r)).
    + exact G.
    + split; [reflexivity|]. cbn. repeat split; auto.
    + unfold measure. cbn [m_pb stream_of]. exact (M' E).
Qed.
End Step.


Lemma body_len fs : length (body fs) = (line_len fs + length (snd (line_of fs)))%nat.
Proof.
  unfold body, line_len. rewrite (proj1 (after_line fs)), !app_length. cbn [length]. lia.
Qed.

Lemma woken_true (w : bool) (p : pb) : (w = false -> p_eof p = true) -> p_eof p = false -> w = true.
Proof. intros W E. destruct w; [reflexivity|]. rewrite (W eq_refl) in E. discriminate. Qed.

Lemma drive_exact : forall fuel q m mode,
  good (m_pb m) (stream_of q) -> state_ok q m mode -> (measure q m < fuel)%nat ->
  norm (drv fuel m mode) = expect q.
Proof.
  induction fuel as [|k IH]; intros q m mode G Sok M; [lia|].
  destruct m as [p st it b]. destruct Sok as [Eb Sok]. cbn [m_bnd] in Eb. subst b.
  unfold measure in M. cbn [m_pb] in *.
  destruct (poll_stream_good p _ G) as (p1 & w & PS & G1 & W & Ms & Pr).
  destruct q as [fs|fs|f fs|c fs|c fs|l fs]; cbn [stream_of expect] in *.
  - (* before the first boundary line *)
    destruct Sok as (-> & Est & Eit & Hk & Fo). cbn in Est, Eit. subst st it.
    rewrite drive_at_mp. unfold mp_poll_next. cbn [m_pb m_state m_item m_bnd]. rewrite PS.
    unfold inner_poll. cbn [m_state m_item m_pb m_bnd state_eqb].
    pose proof (skip_first p1 fs G1 Hk) as SF. pose proof (body_len fs) as BL.
    destruct (line_len fs <=? length (p_buf p1))%nat eqn:L.
    + destruct SF as [SF G2]. rewrite SF. destruct fs as [|f r].
      * cbn [at_mp norm exp_fields]. destruct Hk as [Hk|Hk]; [congruence|]. rewrite (fin_good Hk). reflexivity.
      * cbn [line_of snd] in G2, BL.
        apply (headers_branch k IH (mkMp p1 FirstBoundary None bnd)); auto;
          unfold line_len in BL; cbn [p_stream set_buf]; intros; lia.
    + destruct SF as [SF E]. rewrite SF. cbn [at_mp].
      rewrite (woken_true w p1 W E). cbn [norm]. apply (IH (PFirst fs)).
      * exact G1.
      * split; [reflexivity|]. cbn. auto.
      * unfold measure. cbn [m_pb stream_of]. destruct Pr as [Pr|Pr]; [lia|congruence].
  - (* at a boundary line after a field *)
    destruct Sok as (-> & Est & Eit & Fo). cbn in Est, Eit. subst st.
    rewrite drive_at_mp. unfold mp_poll_next. cbn [m_pb m_state m_item m_bnd]. rewrite PS.
    unfold inner_poll. cbn [m_state m_item m_pb m_bnd state_eqb].
    assert (Rel : match it with
                  | Some f => release false false (S (length (p_buf p1))) bnd f p1
                  | None => RelDone None p1 end = RelDone None p1).
    { destruct Eit as [->|(e & l & ->)]; [reflexivity|]. cbn [release]. unfold field_poll. cbn. reflexivity. }
    rewrite Rel.
    pose proof (boundary_read p1 fs G1) as BR. pose proof (body_len fs) as BL.
    destruct (line_len fs <=? length (p_buf p1))%nat eqn:L.
    + destruct BR as [G2 BR]. destruct fs as [|f r].
      * destruct BR as [BR1 BR2]. destruct fin_spec as [[Ht Hf]|(N1 & N2 & Hf)].
        -- rewrite (BR1 Ht). cbn [at_mp norm exp_fields]. rewrite Hf. reflexivity.
        -- rewrite (BR2 N1 N2). cbn [at_mp norm exp_fields]. rewrite Hf. reflexivity.
      * rewrite BR. cbn [line_of snd] in G2, BL.
        apply (headers_branch k IH (mkMp p1 Boundary it bnd)); auto;
          unfold line_len in BL; cbn [p_stream set_buf]; intros; lia.
    + destruct BR as [BR E]. rewrite BR. cbn [at_mp].
      rewrite (woken_true w p1 W E). cbn [norm]. apply (IH (PBoundary fs)).
      * exact G1.
      * split; [reflexivity|]. cbn. auto.
      * unfold measure. cbn [m_pb stream_of]. destruct Pr as [Pr|Pr]; [lia|congruence].
  - (* at a header block *)
    destruct Sok as (-> & Est & Eit & Fo). cbn in Est, Eit. subst st it.
    rewrite drive_at_mp. unfold mp_poll_next. cbn [m_pb m_state m_item m_bnd]. rewrite PS.
    unfold inner_poll. cbn [m_state m_item m_pb m_bnd state_eqb].
    apply (headers_branch k IH (mkMp p1 Headers None bnd)); auto; [lia|].
    intro E. destruct Pr as [Pr|Pr]; [lia|congruence].
  - (* inside a scanned field *)
    destruct Sok as ((n & ->) & Est & Eit & Hc & Fo). cbn in Est, Eit. subst st it.
    rewrite drive_in_field. unfold field_poll_next. cbn [m_pb m_state m_item m_bnd f_present negb]. rewrite PS.
    pose proof (content_poll p1 c fs Hc G1) as CP.
    destruct (field_poll false false bnd (mkField true false None) p1) as [[[[| ch | e]|] f1] p2].
    + destruct CP as (-> & -> & G2 & Es). cbn [in_field norm exp_content is_nil app]. f_equal.
      apply (IH (PBoundary fs)).
      * exact G2.
      * split; [reflexivity|]. cbn. split; [reflexivity|]. split; [reflexivity|]. split; [right; eauto|exact Fo].
      * unfold measure. cbn [m_pb stream_of]. rewrite Es. clear - M Ms.
        unfold body, delim, DD in *. rewrite !app_length in *. cbn [length] in *. lia.
    + destruct CP as (Nch & c' & -> & -> & G2 & Es). cbn [in_field norm].
      rewrite (IH (PContent c' fs) (mkMp p2 Boundary (Some (mkField true false None)) bnd) (InField (n + 1))).
      * cbn [expect]. apply norm_data_content. exact Nch.
      * exact G2.
      * split; [reflexivity|]. cbn. split; [eauto|]. split; [reflexivity|]. split; [reflexivity|].
        split; [exact (clean_suffix _ _ _ Hc)|exact Fo].
      * unfold measure. cbn [m_pb stream_of]. rewrite Es. rewrite <- app_assoc in M.
        rewrite (app_length ch) in M. destruct ch; [congruence|cbn [length] in M; lia].
    + contradiction.
    + destruct CP as (-> & -> & E). cbn [in_field].
      rewrite (woken_true w p1 W E). cbn [norm]. apply (IH (PContent c fs)).
      * exact G1.
      * split; [reflexivity|]. cbn. split; [eauto|]. auto.
      * unfold measure. cbn [m_pb stream_of]. destruct Pr as [Pr|Pr]; [lia|congruence].
  - (* inside a field read by Content-Length *)
    destruct Sok as ((n & ->) & Est & Eit & Fo). cbn in Est, Eit. subst st it.
    rewrite drive_in_field. unfold field_poll_next. cbn [m_pb m_state m_item m_bnd f_present negb]. rewrite PS.
    pose proof (cl_poll p1 c fs G1) as CP.
    destruct (field_poll false false bnd (mkField true false (Some (lenN c))) p1) as [[[[| ch | e]|] f1] p2].
    + destruct CP as (-> & (e & l & ->) & G2 & Es). cbn [in_field norm exp_content is_nil app]. f_equal.
      apply (IH (PBoundary fs)).
      * exact G2.
      * split; [reflexivity|]. cbn. split; [reflexivity|]. split; [reflexivity|]. split; [right; eauto|exact Fo].
      * unfold measure. cbn [m_pb stream_of]. rewrite Es. clear - M Ms.
        unfold body, delim, DD in *. rewrite !app_length in *. cbn [length] in *. lia.
    + destruct CP as (Nch & c' & -> & -> & G2 & Es). cbn [in_field norm].
      rewrite (IH (PContentCL c' fs) (mkMp p2 Boundary (Some (mkField true false (Some (lenN c')))) bnd) (InField (n + 1))).
      * cbn [expect]. apply norm_data_content. exact Nch.
      * exact G2.
      * split; [reflexivity|]. cbn. split; [eauto|]. split; [reflexivity|]. split; [reflexivity|exact Fo].
      * unfold measure. cbn [m_pb stream_of]. rewrite Es. rewrite <- app_assoc in M.
        rewrite (app_length ch) in M. destruct ch; [congruence|cbn [length] in M; lia].
    + contradiction.
    + destruct CP as (-> & E & Hf). cbn [in_field].
      rewrite (woken_true w p1 W E). cbn [norm].
      assert (Mp : (length (p_stream p1) < length (p_stream p))%nat) by (destruct Pr as [Pr|Pr]; [lia|congruence]).
      destruct Hf as [->|[-> ->]].
      * apply (IH (PContentCL c fs)).
        -- exact G1.
        -- split; [reflexivity|]. cbn. split; [eauto|]. auto.
        -- unfold measure. cbn [m_pb stream_of]. lia.
      * cbn [exp_content is_nil app]. apply (IH (PFieldEof (Some 0) fs)).
        -- exact G1.
        -- split; [reflexivity|]. cbn. split; [eauto|]. auto.
        -- unfold measure. cbn [m_pb stream_of app] in *. lia.
  - (* field data finished, closing CRLF not yet buffered *)
    destruct Sok as ((n & ->) & Est & Eit & Fo). cbn in Est, Eit. subst st it.
    rewrite drive_in_field. unfold field_poll_next. cbn [m_pb m_state m_item m_bnd f_present negb]. rewrite PS.
    unfold field_poll. cbn [f_present f_eof negb].
    pose proof (stage2_poll (mkField true true l) p1 fs G1) as S2.
    destruct (2 <=? length (p_buf p1))%nat.
    + destruct S2 as [S2 G2]. rewrite S2. cbn [in_field norm]. f_equal.
      apply (IH (PBoundary fs)).
      * exact G2.
      * split; [reflexivity|]. cbn. split; [reflexivity|]. split; [reflexivity|]. split; [right; eauto|exact Fo].
      * unfold measure. cbn [m_pb stream_of p_stream set_buf]. clear - M Ms.
        unfold body, delim, DD in *. rewrite !app_length in *. cbn [length] in *. lia.
    + destruct S2 as [S2 E]. rewrite S2. cbn [in_field].
      rewrite (woken_true w p1 W E). cbn [norm]. apply (IH (PFieldEof l fs)).
      * exact G1.
      * split; [reflexivity|]. cbn. split; [eauto|]. auto.
      * unfold measure. cbn [m_pb stream_of]. destruct Pr as [Pr|Pr]; [lia|congruence].
Qed.

End RT.

(* ------------------------------------------------------------------ the theorems *)

Definition close_line : bytes := DD ++ [CR].      (* "--" CR (LF follows): the close delimiter *)

(* every chunking / Pending pattern of a valid body: exactly the rendered fields, then the end *)
Theorem roundtrip_any_chunking :
  forall (hdr : bytes -> hres) (bnd : bytes) (fs : list fld) (epilogue : bytes)
         (script : list ev) (limit : N) (fuel : nat),
  bnd <> [] -> ~ In 10 bnd -> Forall (fld_ok hdr bnd) fs -> no_err script ->
  chunks script = body bnd close_line epilogue fs ->
  lenN (chunks script) < limit ->
  (length script + length (chunks script) < fuel)%nat ->
  norm (drive hdr false false false None fuel (mp_new bnd script limit) AtMp) = exp_fields TEnd fs.
Proof.
  intros hdr bnd fs epi script limit fuel B1 B2 Fo Ne Eb Ll Lf.
  assert (NX : ~ In 10 close_line) by (intros [H|[H|[H|[]]]]; discriminate).
  apply (drive_exact hdr bnd B1 B2 close_line epi NX TEnd (or_introl (conj eq_refl eq_refl))
                     fuel (PFirst fs)).
  - unfold stream_of. rewrite <- Eb. unfold good, mp_new, pb_new. cbn. repeat split; auto. discriminate.
  - split; [reflexivity|]. cbn. repeat split; auto.
  - unfold measure, stream_of. rewrite <- Eb. cbn. exact Lf.
Qed.

(* whole-parser segmentation independence: two scripts carrying the same valid body deliver
   the same fields *)
Theorem segmentation_independent :
  forall hdr bnd fs epilogue s1 s2 l1 l2 f1 f2,
  bnd <> [] -> ~ In 10 bnd -> Forall (fld_ok hdr bnd) fs ->
  no_err s1 -> no_err s2 ->
  chunks s1 = body bnd close_line epilogue fs -> chunks s2 = chunks s1 ->
  lenN (chunks s1) < l1 -> lenN (chunks s1) < l2 ->
  (length s1 + length (chunks s1) < f1)%nat -> (length s2 + length (chunks s1) < f2)%nat ->
  norm (drive hdr false false false None f1 (mp_new bnd s1 l1) AtMp) =
  norm (drive hdr false false false None f2 (mp_new bnd s2 l2) AtMp).
Proof.
  intros. rewrite (roundtrip_any_chunking hdr bnd fs epilogue s1 l1 f1) by assumption.
  rewrite (roundtrip_any_chunking hdr bnd fs epilogue s2 l2 f2); try assumption; try congruence.
Qed.

(* a malformed line after the last delimiter ("--boundary" followed by neither CRLF nor
   "--" CRLF): every field before it is delivered exactly — none spans the delimiter — and the
   run ends with Err(BoundaryMissing) *)
Theorem malformed_delimiter_is_error :
  forall hdr bnd fs (x rest : bytes) script limit fuel,
  bnd <> [] -> ~ In 10 bnd -> Forall (fld_ok hdr bnd) fs -> fs <> [] -> no_err script ->
  ~ In 10 x -> x ++ [10] <> CRLF -> x ++ [10] <> DD ++ CRLF ->
  chunks script = body bnd x rest fs ->
  lenN (chunks script) < limit ->
  (length script + length (chunks script) < fuel)%nat ->
  norm (drive hdr false false false None fuel (mp_new bnd script limit) AtMp)
  = exp_fields (TErr EBoundary) fs.
Proof.
  intros hdr bnd fs x rest script limit fuel B1 B2 Fo Nf Ne NX N1 N2 Eb Ll Lf.
  apply (drive_exact hdr bnd B1 B2 x rest NX (TErr EBoundary)
                     (or_intror (conj N1 (conj N2 eq_refl))) fuel (PFirst fs)).
  - unfold stream_of. rewrite <- Eb. unfold good, mp_new, pb_new. cbn. repeat split; auto. discriminate.
  - split; [reflexivity|]. cbn. repeat split; auto.
  - unfold measure, stream_of. rewrite <- Eb. cbn. exact Lf.
Qed.

(* non-vacuity: boundary "ab"; three parts: content  x CR LF - - a  (scanned), the empty
   content (scanned), and a part with Content-Length 8 whose content is  CR LF - - a b CR LF
   (the delimiter itself); delivered one byte per chunk with Pending after every chunk *)
Definition ex_hdr (b : bytes) : hres :=
  HOk (Some [lenN b]) (match b with 67 :: _ => Some 8 | _ => None end).
Definition ex_fs : list fld :=
  [mkFld [65;58;49;13;10;13;10] (Some [7]) false [120;13;10;45;45;97];
   mkFld [66;58;13;10;13;10] (Some [6]) false [];
   mkFld [67;58;56;13;10;13;10] (Some [7]) true [13;10;45;45;97;98;13;10]].
Definition ex_script : list ev :=
  flat_map (fun b => [EChunk [b]; EPending]) (body [97;98] close_line [101] ex_fs).

Example roundtrip_example :
  Forall (fld_ok ex_hdr [97;98]) ex_fs /\ no_err ex_script /\
  chunks ex_script = body [97;98] close_line [101] ex_fs /\
  norm (drive ex_hdr false false false None 1000 (mp_new [97;98] ex_script 65536) AtMp)
  = [TField (Some [7]) None; TData [120;13;10;45;45;97]; TFieldEnd;
     TField (Some [6]) None; TFieldEnd;
     TField (Some [7]) (Some 8); TData [13;10;45;45;97;98;13;10]; TFieldEnd; TEnd].
Proof.
  split.
  { apply Forall_cons; [|apply Forall_cons; [|apply Forall_cons; [|apply Forall_nil]]].
    - split; [reflexivity|]. split; [exists [65;58;49]; split; reflexivity|].
      intros _; apply cleanb_clean; reflexivity.
    - split; [reflexivity|]. split; [exists [66;58]; split; reflexivity|].
      intros _; apply cleanb_clean; reflexivity.
    - split; [reflexivity|]. split; [exists [67;58;56]; split; reflexivity|].
      intro H; discriminate. }
  split; [vm_compute; exact I|]. split; vm_compute; reflexivity.
Qed.
