(* C15 proofs, part 3: the whole parser (Multipart::poll_next / Field::poll_next as driven by
   the consumer loop of Run/RunC15.v) delivers exactly the rendered fields, for every chunking
   and Pending pattern of the upstream script.  Repaired code (all switches false). *)
From AV Require Import Lib.Base.
From AV Require Import Multipart.Buffer.
From AV Require Import Multipart.Scan.
From AV Require Import Multipart.Parser.
From AV Require Import Multipart.ScanProofs.
From AV Require Import Multipart.ParserProofs.
From AV Require Import Run.RunC15.

(* ------------------------------------------------------------------ find_sub on prefixes *)

Lemma find_sub_restrict needle : forall a b i,
  find_sub needle (a ++ b) = Some i -> (i + length needle <= length a)%nat ->
  find_sub needle a = Some i.
Proof.
  induction a as [|x a IH]; intros b i H L.
  - cbn [length] in L. assert (i = O) by lia. assert (length needle = O) by lia.
    destruct needle; [|discriminate]. subst. reflexivity.
  - cbn [app find_sub] in H. cbn [find_sub].
    destruct (starts needle (x :: a ++ b)) eqn:S.
    + injection H as <-. change (x :: a ++ b) with ((x :: a) ++ b) in S.
      rewrite starts_app_long in S by (cbn [length] in *; lia). rewrite S. reflexivity.
    + destruct (find_sub needle (a ++ b)) as [j|] eqn:F; [|discriminate]. injection H as <-.
      destruct (starts needle (x :: a)) eqn:S2.
      * apply (starts_app _ _ b) in S2. cbn [app] in S2. congruence.
      * rewrite (IH b j F) by (cbn [length] in L; lia). reflexivity.
Qed.

Lemma find_sub_short needle a b i :
  find_sub needle (a ++ b) = Some i -> (length a < i + length needle)%nat -> find_sub needle a = None.
Proof.
  intros H L. destruct (find_sub needle a) as [j|] eqn:F; [|reflexivity].
  pose proof (find_sub_len _ _ _ F). rewrite (find_sub_app _ _ b _ F) in H. injection H as ->. lia.
Qed.

(* first LF of a line *)
Lemma find_sub_lf : forall x t, ~ In 10 x -> find_sub [10] (x ++ 10 :: t) = Some (length x).
Proof.
  induction x as [|a x IH]; intros t N.
  - cbn. reflexivity.
  - cbn [app find_sub length]. unfold starts. cbn [length firstn bytes_eqb].
    destruct (N.eqb_spec a 10) as [E|E]; [exfalso; apply N; left; auto|]. cbn [andb].
    rewrite IH; [reflexivity|]. intro I. apply N. right. exact I.
Qed.

(* ------------------------------------------------------------------ the buffer invariant *)

Fixpoint no_err (s : list ev) : Prop :=
  match s with [] => True | EErr :: _ => False | _ :: r => no_err r end.

(* [good p S]: S is what the parser has not consumed yet (buffer ++ rest of the script);
   nothing is held back, the limit is never reached, the script has no error event *)
Definition good (p : pb) (S : bytes) : Prop :=
  p_pending p = None /\ p_buf p ++ chunks (p_stream p) = S /\ lenN S < p_limit p /\
  no_err (p_stream p) /\ (p_eof p = true -> p_stream p = []).

Lemma good_prefix p S : good p S -> is_prefix (p_buf p) S.
Proof. intros (_ & E & _). exists (chunks (p_stream p)). auto. Qed.

Lemma good_eof p S : good p S -> p_eof p = true -> p_buf p = S.
Proof. intros (_ & E & _ & _ & Z) H. rewrite (Z H) in E. cbn in E. rewrite app_nil_r in E. exact E. Qed.

Lemma good_skip p S k : good p S -> (k <= length (p_buf p))%nat ->
  good (set_buf p (skipn k (p_buf p))) (skipn k S).
Proof.
  intros (A & B & C & D & E) L. unfold good. cbn. repeat split; auto.
  - rewrite <- B, skipn_app. replace (k - length (p_buf p))%nat with O by lia. reflexivity.
  - unfold lenN in *. rewrite skipn_length. lia.
Qed.

Lemma good_len p S : good p S -> (length (p_buf p) <= length S)%nat.
Proof. intros (_ & E & _). rewrite <- E, app_length. lia. Qed.

Lemma firstn_good p S k : good p S -> (k <= length (p_buf p))%nat -> firstn k (p_buf p) = firstn k S.
Proof.
  intros (_ & E & _) L. rewrite <- E, firstn_app. replace (k - length (p_buf p))%nat with O by lia.
  cbn. rewrite app_nil_r. reflexivity.
Qed.

(* poll_stream under the invariant: succeeds, keeps the invariant, consumes a script event or
   reaches eof *)
Lemma append_pending_good p data rest S :
  p_pending p = None -> p_stream p = EChunk data :: rest -> good p S ->
  exists p1 a, append_pending (set_pending (set_stream p rest) (Some data)) = Ok (p1, a) /\
    good p1 S /\ p_stream p1 = rest /\ p_eof p1 = p_eof p /\ p_limit p1 = p_limit p.
Proof.
  intros Pe Se (A & B & C & D & E). unfold append_pending. cbn [p_pending set_pending set_stream].
  rewrite Se in B, D, E. cbn [chunks no_err] in B, D.
  destruct data as [|d0 data]; cbn [is_nil].
  - eexists _, _. split; [reflexivity|]. unfold good. cbn. repeat split; auto.
    intro H. apply E in H. discriminate.
  - cbn [p_limit p_buf p_pending p_stream p_eof set_buf set_pending set_stream].
    assert (L : lenN (p_buf p) + lenN (d0 :: data) <= lenN S).
    { rewrite <- B. unfold lenN. rewrite !app_length. lia. }
    destruct (N.leb_spec (p_limit p) (lenN (p_buf p))); [lia|].
    replace (N.min (lenN (d0 :: data)) (p_limit p - lenN (p_buf p))) with (lenN (d0 :: data)) by lia.
    rewrite N.eqb_refl. eexists _, _. split; [reflexivity|]. unfold good. cbn. repeat split; auto.
    + rewrite <- app_assoc. exact B.
    + intro H'. apply E in H'. discriminate.
Qed.

Lemma poll_loop_good : forall n p a S,
  good p S ->
  exists p' w, poll_loop false n p a = Ok (p', w) /\ good p' S /\ p_limit p' = p_limit p /\
    (w = false -> p_eof p' = true) /\
    (length (p_stream p') <= length (p_stream p))%nat /\
    ((0 < n)%nat -> (length (p_stream p') < length (p_stream p))%nat \/ p_eof p' = true).
Proof.
  induction n as [|n IH]; intros p a S G.
  - exists p, true. cbn. repeat split; auto; try (intro; discriminate); try (intro; lia); destruct G as (A & B & C & D & E); assumption.
  - cbn [poll_loop]. destruct G as (A & B & C & D & E). rewrite A.
    destruct (p_stream p) as [|[data| |] rest] eqn:Se.
    + exists (set_eof p true), false. cbn. rewrite Se. unfold good. cbn. rewrite Se.
      repeat split; auto.
    + destruct (append_pending_good p data rest S A Se) as (p1 & a1 & AP & G1 & S1 & E1 & L1).
      { unfold good. rewrite Se. auto. }
      rewrite AP. destruct G1 as (A1 & B1 & C1 & D1 & Z1).
      rewrite A1. cbn [is_some orb].
      assert (Lb : lenN (p_buf p1) <= lenN S) by (rewrite <- B1; unfold lenN; rewrite app_length; lia).
      destruct (N.leb_spec (p_limit p1) (lenN (p_buf p1))); [lia|].
      destruct (IH p1 (a || a1) S) as (p' & w & PL & G' & L' & W' & M' & _).
      { unfold good; auto. }
      exists p', w. rewrite PL. split; [reflexivity|]. split; [exact G'|]. split; [congruence|].
      split; [exact W'|]. split.
      * rewrite S1 in M'. cbn [length]. lia.
      * intros _. left. rewrite S1 in M'. cbn [length]. lia.
    + exists (set_stream p rest), true. cbn [chunks no_err] in *.
      split; [reflexivity|]. split.
      { unfold good. cbn. repeat split; auto. intro H. apply E in H. discriminate. }
      cbn. repeat split; auto; try (intro; discriminate).
    + cbn in D. contradiction.
Qed.

Lemma poll_stream_good p S :
  good p S ->
  exists p' w, poll_stream false p = Ok (p', w) /\ good p' S /\
    (w = false -> p_eof p' = true) /\
    (length (p_stream p') <= length (p_stream p))%nat /\
    ((length (p_stream p') < length (p_stream p))%nat \/ p_eof p' = true).
Proof.
  intro G. unfold poll_stream, poll_stream_n.
  assert (Lp : 0 < p_limit p) by (destruct G as (_ & _ & C & _); lia).
  destruct (N.eqb_spec (p_limit p) 0); [lia|].
  destruct (poll_loop_good (N.to_nat Gen.Consts.MULTIPART_MAX_READY_CHUNKS) p false S G)
    as (p' & w & PL & G' & _ & W & M & Pr).
  exists p', w. split; [exact PL|]. split; [exact G'|]. split; [exact W|]. split; [exact M|].
  apply Pr. vm_compute. lia.
Qed.

(* ------------------------------------------------------------------ read_until under the invariant *)

Lemma read_until_good needle p S i :
  good p S -> find_sub needle S = Some i ->
  let k := (i + length needle)%nat in
  if (k <=? length (p_buf p))%nat
  then read_until needle p = Ok (Some (firstn k S), set_buf p (skipn k (p_buf p)))
  else read_until needle p = Ok (None, p) /\ p_eof p = false.
Proof.
  intros G F k. pose proof G as (_ & E & _).
  destruct (Nat.leb_spec k (length (p_buf p))) as [L|L]; unfold read_until.
  - rewrite <- E in F. rewrite (find_sub_restrict _ _ _ _ F L).
    fold k. rewrite (firstn_good p S k G L). reflexivity.
  - rewrite <- E in F. rewrite (find_sub_short _ _ _ _ F L).
    destruct (p_eof p) eqn:Eo; [|auto].
    exfalso. pose proof (good_eof p S G Eo) as Hb. rewrite E in F.
    apply find_sub_len in F. rewrite Hb in L. fold k in F. lia.
Qed.

(* ------------------------------------------------------------------ the rendered body *)

Record fld := mkFld {
  fh : bytes;              (* header block, ends with CRLF CRLF *)
  fname : option bytes;    (* what the header oracle reports for it *)
  fcl : bool;              (* has a Content-Length header (= exact length of the content) *)
  fc : bytes               (* content *)
}.
Definition cl_of (f : fld) : option N := if fcl f then Some (lenN (fc f)) else None.

Definition CRLF2 : bytes := CRLF ++ CRLF.

Lemma strip_prefix_app x l : strip_prefix x (x ++ l) = Some l.
Proof.
  unfold strip_prefix. replace (starts x (x ++ l)) with true
    by (symmetry; apply starts_true; eexists; reflexivity).
  rewrite skipn_app, skipn_all, Nat.sub_diag. reflexivity.
Qed.

Lemma strip_suffix_app x l : strip_suffix x (l ++ x) = Some l.
Proof.
  unfold strip_suffix. rewrite app_length.
  replace (length x <=? length l + length x)%nat with true by (symmetry; apply Nat.leb_le; lia).
  replace (length l + length x - length x)%nat with (length l) by lia.
  rewrite skipn_app, skipn_all, Nat.sub_diag, firstn_app, firstn_all, Nat.sub_diag. cbn [skipn firstn app].
  rewrite bytes_eqb_refl, app_nil_r. reflexivity.
Qed.

Lemma bytes_eqb_app_neq (a b : bytes) : b <> [] -> bytes_eqb (a ++ b) a = false.
Proof.
  intro N. apply bytes_eqb_neq. intro E. apply (f_equal (@length _)) in E. rewrite app_length in E.
  destruct b; [congruence|cbn in E; lia].
Qed.

Section RT.
Variable hdr : bytes -> hres.
Variable bnd : bytes.
Hypothesis bnd_ne : bnd <> [].
Hypothesis bnd_nolf : ~ In 10 bnd.

(* what follows the last delimiter CRLF--boundary: a line [tlX ++ LF] and anything after it *)
Variables tlX tlT : bytes.
Hypothesis tlX_nolf : ~ In 10 tlX.
Definition tl : bytes := tlX ++ 10 :: tlT.

(* [fin]: how the run must end: the close delimiter "--" CR LF => clean end; a malformed line
   (neither CR LF = another part, nor "--" CR LF) => Err(BoundaryMissing) *)
Variable fin : tev.
Hypothesis fin_spec :
  (tlX = DD ++ [CR] /\ fin = TEnd) \/
  (tlX ++ [10] <> CRLF /\ tlX ++ [10] <> DD ++ CRLF /\ fin = TErr EBoundary).

Fixpoint after (fs : list fld) : bytes :=
  match fs with
  | [] => tl
  | f :: r => CRLF ++ fh f ++ fc f ++ delim bnd ++ after r
  end.

(* the whole body: "--" boundary, then per part CRLF headers content CRLF "--" boundary, then tl *)
Definition body (fs : list fld) : bytes := DD ++ bnd ++ after fs.

Definition fld_ok (f : fld) : Prop :=
  hdr (fh f) = HOk (fname f) (cl_of f) /\
  (exists h0, fh f = h0 ++ CRLF2 /\ find_sub CRLF2 (fh f) = Some (length h0)) /\
  fcl f = false /\ clean bnd (fc f).

(* expected transcript (Pending removed, adjacent data merged) *)
Definition exp_content (c : bytes) (k : list tev) : list tev :=
  (if is_nil c then [] else [TData c]) ++ TFieldEnd :: k.
Fixpoint exp_fields (fs : list fld) : list tev :=
  match fs with
  | [] => [fin]
  | f :: r => TField (fname f) (cl_of f) :: exp_content (fc f) (exp_fields r)
  end.

Fixpoint norm (t : list tev) : list tev :=
  match t with
  | [] => []
  | TPend _ :: r => norm r
  | TData a :: r => match norm r with TData b :: r' => TData (a ++ b) :: r' | r' => TData a :: r' end
  | e :: r => e :: norm r
  end.

Lemma norm_data_content ch c k : ch <> [] ->
  match exp_content c k with TData b :: r' => TData (ch ++ b) :: r' | r' => TData ch :: r' end
  = exp_content (ch ++ c) k.
Proof.
  intro N. unfold exp_content. destruct c as [|c0 c]; cbn [is_nil app].
  - rewrite app_nil_r. destruct ch; [congruence|reflexivity].
  - destruct ch; [congruence|reflexivity].
Qed.

(* ---- the boundary line in front of [after fs] ---- *)
Inductive lkind := LMore | LLast | LBad.

Definition line_of (fs : list fld) : bytes * bytes :=     (* X, T with after fs = X ++ LF :: T *)
  match fs with
  | [] => (tlX, tlT)
  | f :: r => ([CR], fh f ++ fc f ++ delim bnd ++ after r)
  end.

Lemma after_line fs : after fs = fst (line_of fs) ++ 10 :: snd (line_of fs) /\ ~ In 10 (fst (line_of fs)).
Proof.
  destruct fs as [|f r]; cbn [after line_of fst snd].
  - split; [reflexivity|exact tlX_nolf].
  - split; [reflexivity|]. intros [H|[]]. discriminate.
Qed.

Lemma nolf_line fs : ~ In 10 (DD ++ bnd ++ fst (line_of fs)).
Proof.
  intro H. apply in_app_or in H as [H|H].
  - destruct H as [H|[H|[]]]; discriminate.
  - apply in_app_or in H as [H|H]; [exact (bnd_nolf H)|]. exact (proj2 (after_line fs) H).
Qed.

Definition line_len (fs : list fld) : nat := S (length (DD ++ bnd ++ fst (line_of fs))).

(* readline at a boundary line: either the whole line is buffered and is returned, or nothing
   happens (and the stream has not ended) *)
Lemma readline_boundary p fs :
  good p (body fs) ->
  if (line_len fs <=? length (p_buf p))%nat
  then readline p = Ok (Some (DD ++ bnd ++ fst (line_of fs) ++ [10]), set_buf p (skipn (line_len fs) (p_buf p)))
       /\ good (set_buf p (skipn (line_len fs) (p_buf p))) (snd (line_of fs))
  else readline p = Ok (None, p) /\ p_eof p = false.
Proof.
  intro G. destruct (after_line fs) as [EA NA].
  assert (ES : body fs = (DD ++ bnd ++ fst (line_of fs)) ++ 10 :: snd (line_of fs)).
  { unfold body. rewrite EA, <- !app_assoc. reflexivity. }
  pose proof (read_until_good [10] p (body fs) _ G
                (eq_trans (f_equal (find_sub [10]) ES) (find_sub_lf _ _ (nolf_line fs)))) as R.
  cbn zeta in R. cbn [length] in R. rewrite Nat.add_1_r in R. fold (line_len fs) in R.
  unfold readline. destruct (line_len fs <=? length (p_buf p))%nat eqn:L; [|exact R].
  apply Nat.leb_le in L. split.
  - rewrite R. f_equal. f_equal. f_equal. rewrite ES. unfold line_len.
    rewrite firstn_app. rewrite firstn_all2 by lia.
    replace (S (length (DD ++ bnd ++ fst (line_of fs))) - length (DD ++ bnd ++ fst (line_of fs)))%nat with 1%nat by lia.
    cbn [firstn]. rewrite <- !app_assoc. reflexivity.
  - pose proof (good_skip p (body fs) (line_len fs) G L) as G2.
    replace (skipn (line_len fs) (body fs)) with (snd (line_of fs)) in G2; [exact G2|].
    rewrite ES. unfold line_len. rewrite skipn_app. rewrite skipn_all2 by lia.
    replace (S (length (DD ++ bnd ++ fst (line_of fs))) - length (DD ++ bnd ++ fst (line_of fs)))%nat with 1%nat by lia.
    reflexivity.
Qed.

Lemma is_nil_bnd : is_nil bnd = false.
Proof. destruct bnd; [exfalso; apply bnd_ne; reflexivity|reflexivity]. Qed.

(* Inner::skip_until_boundary on a body without preamble *)
Lemma skip_first p fs :
  good p (body fs) -> (fs <> [] \/ tlX = DD ++ [CR]) ->
  if (line_len fs <=? length (p_buf p))%nat
  then skip_until_boundary p bnd =
         Ok (Some (match fs with [] => true | _ => false end), set_buf p (skipn (line_len fs) (p_buf p)))
       /\ good (set_buf p (skipn (line_len fs) (p_buf p))) (snd (line_of fs))
  else skip_until_boundary p bnd = Ok (None, p) /\ p_eof p = false.
Proof.
  intros G Hk. pose proof (readline_boundary p fs G) as R.
  unfold skip_until_boundary. rewrite is_nil_bnd. cbn [skip_loop].
  destruct (line_len fs <=? length (p_buf p))%nat.
  - destruct R as [R G2]. split; [|exact G2]. rewrite R.
    destruct fs as [|f r]; cbn [line_of fst].
    + destruct Hk as [Hk|Hk]; [congruence|]. rewrite Hk.
      replace (DD ++ bnd ++ (DD ++ [CR]) ++ [10]) with ((DD ++ bnd ++ DD) ++ CRLF)
        by (rewrite <- !app_assoc; reflexivity).
      cbn [is_nil app DD]. rewrite strip_suffix_app.
      change ([DASH; DASH] ++ bnd ++ [DASH; DASH]) with (DD ++ bnd ++ DD).
      rewrite strip_prefix_app. rewrite bytes_eqb_app_neq by discriminate.
      rewrite strip_suffix_app. cbn [opt_bytes_eqb]. rewrite bytes_eqb_refl. reflexivity.
    + replace (DD ++ bnd ++ [CR] ++ [10]) with ((DD ++ bnd) ++ CRLF)
        by (rewrite <- !app_assoc; reflexivity).
      cbn [is_nil app DD]. rewrite strip_suffix_app.
      change ([DASH; DASH] ++ bnd) with (DD ++ bnd).
      rewrite strip_prefix_app, bytes_eqb_refl. reflexivity.
  - destruct R as [R E]. rewrite R, E. split; [reflexivity|exact E].
Qed.

Lemma lf_line_not_dd (x : bytes) : bytes_eqb (x ++ [10]) DD = false.
Proof.
  apply bytes_eqb_neq. intro E. destruct x as [|a [|b [|c x]]]; cbn in E; try discriminate.
  injection E as _ E. discriminate. injection E as _ _ E. destruct x; discriminate.
Qed.

(* Inner::read_boundary after a field *)
Lemma boundary_read p fs :
  good p (body fs) ->
  if (line_len fs <=? length (p_buf p))%nat
  then good (set_buf p (skipn (line_len fs) (p_buf p))) (snd (line_of fs)) /\
       match fs with
       | _ :: _ => read_boundary p bnd = Ok (Some false, set_buf p (skipn (line_len fs) (p_buf p)))
       | [] => (tlX = DD ++ [CR] -> read_boundary p bnd = Ok (Some true, set_buf p (skipn (line_len fs) (p_buf p)))) /\
               (tlX ++ [10] <> CRLF -> tlX ++ [10] <> DD ++ CRLF -> read_boundary p bnd = Err EBoundary)
       end
  else read_boundary p bnd = Ok (None, p) /\ p_eof p = false.
Proof.
  intro G. pose proof (readline_boundary p fs G) as R.
  unfold read_boundary, readline_or_eof. rewrite is_nil_bnd.
  destruct (line_len fs <=? length (p_buf p))%nat.
  - destruct R as [R G2]. split; [exact G2|]. rewrite R.
    rewrite !strip_prefix_app.
    destruct fs as [|f r]; cbn [line_of fst].
    + split.
      * intros ->. reflexivity.
      * intros N1 N2. apply bytes_eqb_neq in N1, N2. rewrite N1, N2, lf_line_not_dd. reflexivity.
    + reflexivity.
  - destruct R as [R E]. rewrite R, E. split; [reflexivity|exact E].
Qed.

(* Inner::poll from state Headers *)
Lemma headers_poll m p f r :
  fld_ok f -> good p (fh f ++ fc f ++ delim bnd ++ after r) -> m_bnd m = bnd ->
  if (length (fh f) <=? length (p_buf p))%nat
  then poll_headers hdr m p =
         (Ready (MField (fname f) (cl_of f)),
          mkMp (set_buf p (skipn (length (fh f)) (p_buf p))) Boundary (Some (mkField true false (cl_of f))) bnd)
       /\ good (set_buf p (skipn (length (fh f)) (p_buf p))) (fc f ++ delim bnd ++ after r)
  else poll_headers hdr m p = (Pending, mkMp p Headers None bnd) /\ p_eof p = false.
Proof.
  intros (Hh & (h0 & Eh & Fh) & _) G Eb. unfold poll_headers, read_field_headers.
  pose proof (read_until_good CRLF2 p _ _ G (find_sub_app _ _ (fc f ++ delim bnd ++ after r) _ Fh)) as R.
  cbn zeta in R.
  assert (Lh : (length h0 + length CRLF2 = length (fh f))%nat) by (rewrite Eh, app_length; reflexivity).
  rewrite Lh in R. change (CRLF ++ CRLF) with CRLF2. rewrite Eb.
  destruct (length (fh f) <=? length (p_buf p))%nat eqn:L.
  - rewrite R. rewrite firstn_app, firstn_all, Nat.sub_diag. cbn [firstn]. rewrite app_nil_r, Hh.
    split; [reflexivity|]. apply Nat.leb_le in L.
    pose proof (good_skip p _ (length (fh f)) G L) as G2.
    rewrite skipn_app, skipn_all, Nat.sub_diag in G2. exact G2.
  - destruct R as [R E]. rewrite R, E. split; [reflexivity|exact E].
Qed.

End RT.
