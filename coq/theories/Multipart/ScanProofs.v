(* C15 proofs, part 1: the delimiter scanner (InnerField::read_stream, repaired code)
   emits exactly the content that precedes the first delimiter, whatever the arrival pattern. *)
From AV Require Import Lib.Base.
From AV Require Import Multipart.Buffer.
From AV Require Import Multipart.Scan.

Definition delim (b : bytes) : bytes := CR :: LF :: DASH :: DASH :: b.   (* CRLF "--" boundary *)
Definition bare (b : bytes) : bytes := CR :: DASH :: DASH :: b.          (* CR "--" boundary, no LF *)
Definition is_prefix (a b : bytes) : Prop := exists s, b = a ++ s.

(* [clean b c]: in c followed by its delimiter, no delimiter and no bare-CR look-alike starts
   inside c (the renderer's validity condition, plus the exclusion of the F7b class) *)
Definition clean (b c : bytes) : Prop :=
  forall s1 s2, c = s1 ++ s2 -> s2 <> [] ->
    starts (delim b) (s2 ++ delim b) = false /\ starts (bare b) (s2 ++ delim b) = false.

Lemma starts_true x l : starts x l = true <-> exists s, l = x ++ s.
Proof.
  unfold starts. rewrite bytes_eqb_eq. split.
  - intro H. exists (skipn (length x) l). rewrite <- H at 1. symmetry. apply firstn_skipn.
  - intros (s & ->). rewrite firstn_app, firstn_all, Nat.sub_diag. cbn. apply app_nil_r.
Qed.

Lemma starts_app_long x l r : (length x <= length l)%nat -> starts x (l ++ r) = starts x l.
Proof.
  intro H. unfold starts. rewrite firstn_app.
  replace (length x - length l)%nat with O by lia. cbn. rewrite app_nil_r. reflexivity.
Qed.

Lemma clean_suffix b ch c' : clean b (ch ++ c') -> clean b c'.
Proof. intros H s1 s2 E N. apply (H (ch ++ s1) s2); [rewrite E, app_assoc; reflexivity|exact N]. Qed.

(* a position where the scan loop must stop: CR with fewer than 4 bytes left, or a look-alike *)
Definition stop_at (s : bytes) : Prop :=
  exists t, s = CR :: t /\ ((length s < 4)%nat \/ lookalike s = true).

Lemma delim_prefix_stop b rest l2 : l2 <> [] -> is_prefix l2 (delim b ++ rest) -> stop_at l2.
Proof.
  intros N (s & E). unfold delim in E. cbn [app] in E.
  destruct l2 as [|x0 l2]; [congruence|]. cbn [app] in E. injection E as <- E.
  exists l2. split; [reflexivity|].
  destruct l2 as [|x1 l2]; [left; cbn; lia|]. cbn [app] in E. injection E as <- E.
  destruct l2 as [|x2 l2]; [left; cbn; lia|]. cbn [app] in E. injection E as <- E.
  destruct l2 as [|x3 l2]; [left; cbn; lia|]. cbn [app] in E. injection E as <- E.
  right. reflexivity.
Qed.

Lemma scan_le : forall l1 l2 cur,
  stop_at l2 -> (0 < cur + length l1)%nat ->
  match scan_from cur (l1 ++ l2) with
  | SEmitTo k => (cur <= k <= cur + length l1)%nat /\ (0 < k)%nat
  | SEmitAll => False
  | SStuck => cur = O
  end.
Proof.
  induction l1 as [|x l1 IH]; intros l2 cur Hs Hpos.
  - destruct Hs as (t & -> & H). cbn [app length] in *. cbn [scan_from]. rewrite N.eqb_refl.
    destruct (Nat.ltb_spec (length (CR :: t)) 4).
    + destruct (Nat.ltb_spec 0 cur); lia.
    + destruct H as [H|H]; [cbn [length] in *; lia|]. rewrite H.
      destruct (Nat.eqb_spec cur 0); [lia|]. cbn [negb]. lia.
  - cbn [app scan_from]. cbn [length] in Hpos.
    assert (IH' := IH l2 (S cur) Hs ltac:(lia)).
    assert (Rec : match scan_from (S cur) (l1 ++ l2) with
                  | SEmitTo k => (cur <= k <= cur + length (x :: l1))%nat /\ (0 < k)%nat
                  | SEmitAll => False
                  | SStuck => cur = O
                  end).
    { destruct (scan_from (S cur) (l1 ++ l2)); cbn [length]; [exact IH'|lia|lia]. }
    destruct (x =? CR) eqn:E; [|exact Rec].
    destruct (Nat.ltb_spec (length (x :: l1 ++ l2)) 4).
    + destruct (Nat.ltb_spec 0 cur); cbn [length]; lia.
    + destruct (lookalike (x :: l1 ++ l2)); [|exact Rec].
      destruct (Nat.eqb_spec cur 0); cbn [negb]; [exact Rec|cbn [length]; lia].
Qed.

Lemma scan_range : forall l cur k,
  scan_from cur l = SEmitTo k -> (0 < k)%nat /\ (cur <= k < cur + length l)%nat.
Proof.
  induction l as [|x l IH]; intros cur k H; cbn [scan_from] in H; [discriminate|].
  assert (Rec : scan_from (S cur) l = SEmitTo k -> (0 < k)%nat /\ (cur <= k < cur + length (x :: l))%nat).
  { intro H'. apply IH in H'. cbn [length]. lia. }
  destruct (x =? CR); [|auto].
  destruct (Nat.ltb_spec (length (x :: l)) 4).
  - destruct (Nat.ltb_spec 0 cur); [|discriminate]. injection H as <-. cbn [length]. lia.
  - destruct (lookalike (x :: l)); [|auto].
    destruct (Nat.eqb_spec cur 0); cbn [negb] in H; [auto|]. injection H as <-. cbn [length]. lia.
Qed.

Lemma scan_not_stuck_pos : forall l n, scan_from (S n) l <> SStuck.
Proof.
  induction l as [|z l IH]; intros n; cbn [scan_from]; [discriminate|].
  destruct (z =? CR); [|apply IH].
  destruct (Nat.ltb_spec (length (z :: l)) 4); [cbn; discriminate|].
  destruct (lookalike (z :: l)); [cbn; discriminate|apply IH].
Qed.

Lemma scan_stuck : forall l, scan_from 0 l = SStuck ->
  exists t, l = CR :: t /\ (length l < 4)%nat.
Proof.
  intros [|x l] H; cbn [scan_from] in H; [discriminate|].
  destruct (x =? CR) eqn:E; [|exfalso; exact (scan_not_stuck_pos _ _ H)].
  apply N.eqb_eq in E. subst x.
  destruct (Nat.ltb_spec (length (CR :: l)) 4).
  - eexists; split; [reflexivity|assumption].
  - exfalso. destruct (lookalike (CR :: l)); cbn in H; exact (scan_not_stuck_pos _ _ H).
Qed.

Lemma firstn_prefix (a b s x : bytes) :
  a ++ s = b ++ x -> (length b <= length a)%nat -> firstn (length b) a = b.
Proof.
  intros E L. assert (H : firstn (length b) (a ++ s) = firstn (length b) (b ++ x)) by (rewrite E; reflexivity).
  rewrite !firstn_app in H. replace (length b - length a)%nat with O in H by lia.
  rewrite Nat.sub_diag, firstn_all in H. cbn in H. rewrite !app_nil_r in H. exact H.
Qed.

(* the start-of-buffer test of the repaired code, when it answers *)
Lemma start_check_spec buf bnd eof r :
  start_check false false buf bnd eof = Some r ->
  (r = Ready IEnd /\ (starts (delim bnd) buf = true \/ starts (bare bnd) buf = true)) \/
  (r = (if eof then Ready (IErr EIncomplete) else Pending) /\ (length buf < length bnd + 4)%nat).
Proof.
  unfold start_check.
  destruct ((4 <=? length buf)%nat && (nth 0 buf 0 =? CR)) eqn:G; [|discriminate].
  apply andb_true_iff in G as [G1 G2]. apply Nat.leb_le in G1. apply N.eqb_eq in G2.
  destruct buf as [|x0 [|x1 [|x2 [|x3 t]]]]; cbn [length] in G1; try lia.
  cbn [nth] in G2. subst x0.
  destruct (bytes_eqb (firstn 2 (CR :: x1 :: x2 :: x3 :: t)) [CR; LF] &&
            bytes_eqb (firstn 2 (skipn 2 (CR :: x1 :: x2 :: x3 :: t))) [DASH; DASH]) eqn:B4.
  - apply andb_true_iff in B4 as [B4a B4b]. apply bytes_eqb_eq in B4a, B4b.
    cbn [firstn skipn] in B4a, B4b. injection B4a as ->. injection B4b as -> ->.
    destruct (Nat.ltb_spec (length (CR :: LF :: DASH :: DASH :: t)) (length bnd + 4)) as [Hlt|Hge].
    + intro H. injection H as <-. right. split; [reflexivity|lia].
    + cbn [skipn]. destruct (bytes_eqb (firstn (length bnd) t) bnd) eqn:M; [|discriminate].
      intro H. injection H as <-. left. split; [reflexivity|]. left.
      apply bytes_eqb_eq in M. apply starts_true. exists (skipn (length bnd) t).
      unfold delim. cbn [app]. rewrite <- M at 1. rewrite firstn_skipn. reflexivity.
  - destruct (bytes_eqb (firstn 2 (skipn 1 (CR :: x1 :: x2 :: x3 :: t))) [DASH; DASH]) eqn:B3; [|discriminate].
    apply bytes_eqb_eq in B3. cbn [firstn skipn] in B3. injection B3 as -> ->.
    destruct (Nat.ltb_spec (length (CR :: DASH :: DASH :: x3 :: t)) (length bnd + 3)) as [Hlt|Hge].
    + intro H. injection H as <-. right. split; [reflexivity|lia].
    + cbn [skipn]. destruct (bytes_eqb (firstn (length bnd) (x3 :: t)) bnd) eqn:M; [|discriminate].
      intro H. injection H as <-. left. split; [reflexivity|]. right.
      apply bytes_eqb_eq in M. apply starts_true. exists (skipn (length bnd) (x3 :: t)).
      unfold bare. cbn [app]. rewrite <- M at 1. rewrite firstn_skipn. reflexivity.
Qed.

(* at the delimiter with at least 4 bytes buffered the test always answers *)
Lemma start_check_at_delim buf bnd rest eof :
  is_prefix buf (delim bnd ++ rest) -> (4 <= length buf)%nat ->
  start_check false false buf bnd eof =
  Some (if (length buf <? length bnd + 4)%nat
        then (if eof then Ready (IErr EIncomplete) else Pending) else Ready IEnd).
Proof.
  intros (s & E) L. unfold delim in E. cbn [app] in E.
  destruct buf as [|x0 [|x1 [|x2 [|x3 t]]]]; cbn [length] in L; try lia.
  cbn [app] in E. injection E as <- <- <- <- E.
  unfold start_check. replace ((4 <=? length (CR :: LF :: DASH :: DASH :: t))%nat) with true
    by (symmetry; apply Nat.leb_le; cbn [length]; lia).
  cbn [nth firstn skipn]. change (CR =? CR) with true. cbn [andb].
  change (bytes_eqb [CR; LF] [CR; LF] && bytes_eqb [DASH; DASH] [DASH; DASH]) with true. cbn iota.
  destruct (Nat.ltb_spec (length (CR :: LF :: DASH :: DASH :: t)) (length bnd + 4)) as [Hlt|Hge]; [reflexivity|].
  assert (M : firstn (length bnd) t = bnd).
  { apply (firstn_prefix t bnd s rest); [symmetry; exact E|cbn [length] in *; lia]. }
  cbn [skipn]. rewrite M, bytes_eqb_refl. reflexivity.
Qed.

(* ONE POLL of the repaired scanner.  The buffer holds what has arrived of the remaining
   stream  c ++ CRLF--boundary ++ rest  (c = the content still to deliver).  Then:
   data handed out is a non-empty prefix of c and is removed from the front of the buffer;
   end-of-field is reported only when c is empty (the buffer begins with the delimiter);
   an error only at eof; Pending only before eof; nothing is consumed in the last three. *)
Lemma read_stream_step : forall (p : pb) (bnd c rest : bytes),
  is_prefix (p_buf p) (c ++ delim bnd ++ rest) -> clean bnd c ->
  match read_stream p bnd with
  | (Ready (IData ch), p') =>
      ch <> [] /\ (exists c', c = ch ++ c') /\ p_buf p = ch ++ p_buf p' /\ p' = set_buf p (p_buf p')
  | (Ready IEnd, p') => c = [] /\ p' = p /\ is_prefix (delim bnd) (p_buf p)
  | (Ready (IErr e), p') => e = EIncomplete /\ p_eof p = true /\ p' = p
  | (Pending, p') => p_eof p = false /\ p' = p
  end.
Proof.
  intros p bnd c rest Hpre Hclean. unfold read_stream, read_stream_gen.
  destruct (Nat.eqb_spec (length (p_buf p)) 0) as [L0|L0].
  { destruct (p_eof p); cbn; auto. }
  destruct (start_check false false (p_buf p) bnd (p_eof p)) as [r|] eqn:SC.
  - apply start_check_spec in SC. destruct SC as [ [Hr Hd] | [Hr _] ]; subst r.
    + (* a delimiter or a bare look-alike at the start of the buffer: c must be empty *)
      destruct c as [|c0 c].
      * split; [reflexivity|]. split; [reflexivity|].
        destruct Hd as [Hd|Hd]; apply starts_true in Hd; [exact Hd|].
        exfalso. destruct Hd as (s & Hd). destruct Hpre as (s' & Hpre). rewrite Hd in Hpre.
        unfold bare, delim in Hpre. cbn [app] in Hpre. injection Hpre as Hpre. discriminate.
      * exfalso. destruct (Hclean [] (c0 :: c) eq_refl ltac:(discriminate)) as [C1 C2].
        destruct Hpre as (s' & Hpre).
        assert (X : forall d, (length d <= length ((c0 :: c) ++ delim bnd))%nat ->
                    starts d (p_buf p) = true -> starts d ((c0 :: c) ++ delim bnd) = true).
        { intros d Ld Hs. apply starts_true in Hs as (s & Hs). rewrite Hs in Hpre.
          rewrite <- starts_app_long with (r := rest) by exact Ld.
          apply starts_true. exists (s ++ s'). rewrite <- app_assoc, Hpre, <- !app_assoc. reflexivity. }
        destruct Hd as [Hd|Hd]; apply X in Hd.
        -- congruence.
        -- rewrite app_length. lia.
        -- congruence.
        -- rewrite app_length. unfold bare, delim. cbn [length]. lia.
    + destruct (p_eof p); cbn; auto.
  - (* the scan loop *)
    destruct Hpre as (s' & Hpre).
    destruct (Nat.le_gt_cases (length (p_buf p)) (length c)) as [Lc|Lc].
    + (* the buffer lies inside the content *)
      assert (Hc : exists c', c = p_buf p ++ c').
      { exists (skipn (length (p_buf p)) c).
        assert (F : firstn (length (p_buf p)) c = p_buf p).
        { assert (H : firstn (length (p_buf p)) (c ++ delim bnd ++ rest) = firstn (length (p_buf p)) (p_buf p ++ s')) by (rewrite Hpre; reflexivity).
          rewrite !firstn_app in H. replace (length (p_buf p) - length c)%nat with O in H by lia.
          rewrite Nat.sub_diag, firstn_all in H. cbn in H. rewrite !app_nil_r in H. exact H. }
        rewrite <- F at 1. symmetry. apply firstn_skipn. }
      destruct (scan_from 0 (p_buf p)) as [|k|] eqn:S.
      * split; [destruct (p_buf p); [cbn in L0; congruence|discriminate]|].
        split; [exact Hc|]. split; [cbn; rewrite app_nil_r; reflexivity|reflexivity].
      * apply scan_range in S as [K0 K1]. cbn in K1.
        split; [intro Z; apply (f_equal (@length _)) in Z; rewrite firstn_length in Z; cbn in Z; lia|].
        split; [|split; [cbn; symmetry; apply firstn_skipn|reflexivity]].
        destruct Hc as (c' & ->). exists (skipn k (p_buf p) ++ c').
        rewrite app_assoc, firstn_skipn. reflexivity.
      * apply scan_stuck in S as (t & St & Sl). destruct (p_eof p); cbn; auto.
    + (* the delimiter has (partly) arrived: buf = c ++ l2, l2 a non-empty prefix of delim ++ rest *)
      assert (Hb : p_buf p = c ++ skipn (length c) (p_buf p)).
      { assert (F : firstn (length c) (p_buf p) = c).
        { apply (firstn_prefix (p_buf p) c s' (delim bnd ++ rest)); [symmetry; exact Hpre|lia]. }
        rewrite <- F at 1. symmetry. apply firstn_skipn. }
      set (l2 := skipn (length c) (p_buf p)) in *.
      assert (Hl2 : is_prefix l2 (delim bnd ++ rest)).
      { exists s'. rewrite Hb, <- app_assoc in Hpre. apply app_inv_head in Hpre. exact Hpre. }
      assert (Nl2 : l2 <> []).
      { intro Z. rewrite Z, app_nil_r in Hb. rewrite Hb in Lc. lia. }
      destruct c as [|c0 c].
      * (* buffer starts with the delimiter: with >= 4 bytes the start test would have answered *)
        cbn [app] in Hb. destruct (Nat.le_gt_cases 4 (length (p_buf p))) as [L4|L4].
        -- rewrite Hb in SC, L4. rewrite (start_check_at_delim l2 bnd rest _ Hl2 L4) in SC. discriminate.
        -- pose proof (delim_prefix_stop bnd rest l2 Nl2 Hl2) as (t & Et & _).
           rewrite Hb, Et. cbn [scan_from]. change (CR =? CR) with true. cbn iota.
           replace ((length (CR :: t) <? 4)%nat) with true
             by (symmetry; apply Nat.ltb_lt; rewrite <- Et, <- Hb; exact L4).
           cbn. rewrite <- Et, <- Hb. destruct (p_eof p); cbn; auto.
      * pose proof (scan_le (c0 :: c) l2 0 (delim_prefix_stop bnd rest l2 Nl2 Hl2) ltac:(cbn; lia)) as SL.
        rewrite <- Hb in SL.
        destruct (scan_from 0 (p_buf p)) as [|k|] eqn:S; [contradiction| |].
        -- destruct SL as [K1 K0]. cbn [plus] in K1.
           pose proof (scan_range _ _ _ S) as [_ K2]. cbn in K2.
           split; [intro Z; apply (f_equal (@length _)) in Z; rewrite firstn_length in Z; cbn in Z; lia|].
           split; [|split; [cbn; symmetry; apply firstn_skipn|reflexivity]].
           exists (skipn k (c0 :: c)). rewrite Hb, firstn_app.
           replace (k - length (c0 :: c))%nat with O by lia. cbn [firstn]. rewrite app_nil_r.
           symmetry. apply firstn_skipn.
        -- destruct (p_eof p); cbn; auto.
Qed.

(* ---- any arrival / poll schedule ---- *)
Inductive act := Arrive (b : bytes) | PollScan | SetEof.

(* emitted bytes, how it ended (None: schedule exhausted), final buffer *)
Fixpoint scan_exec (bnd : bytes) (acts : list act) (p : pb) (out : bytes) : bytes * option item * pb :=
  match acts with
  | [] => (out, None, p)
  | Arrive b :: r => scan_exec bnd r (set_buf p (p_buf p ++ b)) out
  | SetEof :: r => scan_exec bnd r (set_eof p true) out
  | PollScan :: r =>
      match read_stream p bnd with
      | (Ready (IData ch), p') => scan_exec bnd r p' (out ++ ch)
      | (Ready IEnd, p') => (out, Some IEnd, p')
      | (Ready (IErr e), p') => (out, Some (IErr e), p')
      | (Pending, p') => scan_exec bnd r p' out
      end
  end.

Fixpoint arrived (acts : list act) : bytes :=
  match acts with
  | [] => []
  | Arrive b :: r => b ++ arrived r
  | _ :: r => arrived r
  end.

Lemma scan_exec_exact : forall bnd acts p out c rest,
  is_prefix (p_buf p ++ arrived acts) (c ++ delim bnd ++ rest) -> clean bnd c ->
  exists e, fst (fst (scan_exec bnd acts p out)) = out ++ e /\ is_prefix e c /\
    (snd (fst (scan_exec bnd acts p out)) = Some IEnd ->
       e = c /\ is_prefix (delim bnd) (p_buf (snd (scan_exec bnd acts p out)))) /\
    (forall x, snd (fst (scan_exec bnd acts p out)) = Some (IErr x) ->
       x = EIncomplete /\ p_eof (snd (scan_exec bnd acts p out)) = true).
Proof.
  intros bnd acts. induction acts as [|a acts IH]; intros p out c rest Hpre Hcl.
  - exists []. cbn. rewrite app_nil_r. repeat split; try discriminate. exists c; reflexivity.
  - destruct a as [b| |]; cbn [scan_exec arrived] in *.
    + apply (IH (set_buf p (p_buf p ++ b)) out c rest); [|exact Hcl].
      cbn. rewrite <- app_assoc. exact Hpre.
    + assert (Hp : is_prefix (p_buf p) (c ++ delim bnd ++ rest)).
      { destruct Hpre as (s & E). exists (arrived acts ++ s). rewrite E, app_assoc. reflexivity. }
      pose proof (read_stream_step p bnd c rest Hp Hcl) as St.
      destruct (read_stream p bnd) as [[[| ch | e]|] p'].
      * destruct St as (-> & -> & Hd). exists []. cbn. rewrite app_nil_r.
        repeat split; try discriminate; try assumption. exists []; reflexivity.
      * destruct St as (Nch & (c' & ->) & Hb & ->).
        destruct (IH (set_buf p (p_buf (set_buf p (p_buf p')))) (out ++ ch) c' rest) as (e' & E1 & E2 & E3 & E4).
        { cbn. destruct Hpre as (s & E). exists s. rewrite Hb in E. rewrite <- !app_assoc in E.
          apply app_inv_head in E. rewrite <- app_assoc. exact E. }
        { exact (clean_suffix _ _ _ Hcl). }
        cbn [set_buf p_buf] in *.
        exists (ch ++ e'). rewrite E1, app_assoc. split; [reflexivity|].
        split; [destruct E2 as (s & ->); exists s; rewrite app_assoc; reflexivity|].
        split; [intro H; destruct (E3 H) as [-> H']; split; [reflexivity|exact H']|exact E4].
      * destruct St as (-> & Heof & ->). exists []. cbn. rewrite app_nil_r.
        repeat split; try discriminate; try congruence. exists c; reflexivity.
      * destruct St as (_ & ->). apply (IH p out c rest Hpre Hcl).
    + apply (IH (set_eof p true) out c rest); [exact Hpre|exact Hcl].
Qed.

(* ---- progress: once the whole delimiter is buffered a poll never waits ---- *)
Lemma read_stream_waits_short p bnd r p' :
  read_stream p bnd = (r, p') -> (r = Pending \/ exists e, r = Ready (IErr e)) ->
  (length (p_buf p) < length bnd + 4)%nat.
Proof.
  unfold read_stream, read_stream_gen.
  destruct (Nat.eqb_spec (length (p_buf p)) 0) as [L0|L0]; [lia|].
  destruct (start_check false false (p_buf p) bnd (p_eof p)) as [r0|] eqn:SC.
  - apply start_check_spec in SC as [[-> _]|[_ L]]; [|lia].
    intro H. injection H as <- <-. intros [H|(e & H)]; discriminate.
  - destruct (scan_from 0 (p_buf p)) as [|k|] eqn:S; intro H; injection H as <- <-.
    + intros [H|(e & H)]; discriminate.
    + intros [H|(e & H)]; discriminate.
    + intros _. apply scan_stuck in S as (t & _ & L). lia.
Qed.

(* with the content and its whole delimiter in the buffer, at most |c|+1 polls deliver exactly
   c and then report the end of the field, leaving the delimiter at the start of the buffer *)
Lemma scan_complete bnd : forall n c p out tail,
  p_buf p = c ++ delim bnd ++ tail -> clean bnd c -> (length c < n)%nat ->
  exists p', scan_exec bnd (repeat PollScan n) p out = (out ++ c, Some IEnd, p') /\
             p_buf p' = delim bnd ++ tail.
Proof.
  induction n as [|n IH]; intros c p out tail Hb Hcl Hn; [lia|].
  cbn [repeat scan_exec].
  assert (Hp : is_prefix (p_buf p) (c ++ delim bnd ++ tail)) by (exists []; rewrite app_nil_r; auto).
  pose proof (read_stream_step p bnd c tail Hp Hcl) as St.
  destruct (read_stream p bnd) as [r p1] eqn:RS.
  assert (NW : ~ (r = Pending \/ exists e, r = Ready (IErr e))).
  { intro W. pose proof (read_stream_waits_short _ _ _ _ RS W) as L.
    rewrite Hb, !app_length in L. unfold delim in L. cbn [length] in L. lia. }
  destruct r as [[| ch | e]|].
  - destruct St as (-> & -> & _). exists p. rewrite app_nil_r. split; [reflexivity|exact Hb].
  - destruct St as (Nch & (c' & ->) & Hb1 & ->).
    destruct (IH c' (set_buf p (p_buf p1)) (out ++ ch) tail) as (p' & E & B).
    + cbn. rewrite Hb, <- app_assoc in Hb1. apply app_inv_head in Hb1. symmetry. exact Hb1.
    + exact (clean_suffix _ _ _ Hcl).
    + rewrite app_length in Hn. destruct ch; [congruence|cbn in Hn; lia].
    + exists p'. rewrite E, <- app_assoc. split; [reflexivity|exact B].
  - exfalso. apply NW. right. eexists; reflexivity.
  - exfalso. apply NW. left. reflexivity.
Qed.

(* [clean] is decidable (the Rust classifier `content_valid` / `in_bare_class` of the harness) *)
Definition cleanb (b c : bytes) : bool :=
  forallb (fun k => negb (starts (delim b) (skipn k c ++ delim b)) &&
                    negb (starts (bare b) (skipn k c ++ delim b))) (seq 0 (length c)).

Lemma cleanb_clean b c : cleanb b c = true -> clean b c.
Proof.
  unfold cleanb, clean. intros H s1 s2 E N. rewrite forallb_forall in H.
  specialize (H (length s1)). rewrite E, skipn_app, skipn_all, Nat.sub_diag in H. cbn in H.
  assert (I : In (length s1) (seq 0 (length (s1 ++ s2)))).
  { apply in_seq. rewrite app_length. destruct s2; [congruence|cbn; lia]. }
  apply H in I. apply andb_true_iff in I as [A B]. apply negb_true_iff in A, B. auto.
Qed.
