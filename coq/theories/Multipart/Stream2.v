(* C15 proofs, part 4: the buffer invariant for a SMALL parser buffer (buffer_limit far below
   the body size): poll_stream under [good2] never overflows as long as the buffer is not
   full when it is called, keeps the byte sequence, and makes progress. *)
From AV Require Import Lib.Base.
From AV Require Import Multipart.Buffer.
From AV Require Import Multipart.Scan.
From AV Require Import Multipart.Parser.
From AV Require Import Multipart.ScanProofs.
From AV Require Import Multipart.ParserProofs.
From AV Require Import Run.RunC15.
From AV Require Import Multipart.Roundtrip.

(* [good2 p S]: S = buffer ++ held-back chunk ++ rest of the script = what the parser has not
   consumed; the buffer respects the limit; the script has no error event *)
Definition good2 (p : pb) (S : bytes) : Prop :=
  rest_of p = S /\ no_err (p_stream p) /\
  (p_eof p = true -> p_pending p = None /\ p_stream p = []) /\
  lenN (p_buf p) <= p_limit p.

Lemma good2_prefix p S : good2 p S -> is_prefix (p_buf p) S.
Proof. intros (E & _). unfold rest_of in E. eexists. symmetry. exact E. Qed.

Lemma good2_eof p S : good2 p S -> p_eof p = true -> p_buf p = S.
Proof.
  intros (E & _ & Z & _) H. destruct (Z H) as [Zp Zs]. unfold rest_of in E. rewrite Zp, Zs in E.
  cbn in E. rewrite app_nil_r in E. exact E.
Qed.

Lemma good2_skip p S k : good2 p S -> (k <= length (p_buf p))%nat ->
  good2 (set_buf p (skipn k (p_buf p))) (skipn k S).
Proof.
  intros (A & B & C & D) L. unfold good2, rest_of in *. cbn. repeat split; auto.
  - rewrite <- A, skipn_app. replace (k - length (p_buf p))%nat with O by lia. reflexivity.
  - apply C; assumption.
  - apply C; assumption.
  - unfold lenN in *. rewrite skipn_length. lia.
Qed.

Lemma good2_len p S : good2 p S -> (length (p_buf p) <= length S)%nat.
Proof. intros (E & _). rewrite <- E. unfold rest_of. rewrite app_length. lia. Qed.

Lemma firstn_good2 p S k : good2 p S -> (k <= length (p_buf p))%nat -> firstn k (p_buf p) = firstn k S.
Proof.
  intros (E & _) L. rewrite <- E. unfold rest_of. rewrite firstn_app.
  replace (k - length (p_buf p))%nat with O by lia. cbn. rewrite app_nil_r. reflexivity.
Qed.

Definition full (p : pb) : Prop := lenN (p_buf p) = p_limit p.

(* append_pending with room in the buffer: no Overflow; what does not fit stays pending, and
   then the buffer is full *)
Lemma append_pending2 p S :
  good2 p S -> lenN (p_buf p) < p_limit p ->
  exists p1 a, append_pending p = Ok (p1, a) /\ good2 p1 S /\
    p_stream p1 = p_stream p /\ p_eof p1 = p_eof p /\ p_limit p1 = p_limit p /\
    (p_pending p1 = None \/ full p1).
Proof.
  intros (A & B & C & D) L. unfold append_pending.
  destruct (p_pending p) as [data|] eqn:Pe.
  2:{ eexists _, _. split; [reflexivity|]. unfold good2. repeat split; auto; try apply C; auto. }
  assert (Eo : p_eof p = false).
  { destruct (p_eof p) eqn:Eo; [|reflexivity]. destruct (C eq_refl) as [X _]. congruence. }
  unfold rest_of in A. rewrite Pe in A.
  destruct data as [|d0 data]; cbn [is_nil].
  - eexists _, _. split; [reflexivity|]. unfold good2, rest_of. cbn. rewrite Eo.
    repeat split; auto; discriminate.
  - destruct (N.leb_spec (p_limit p) (lenN (p_buf p))); [lia|].
    destruct (N.eqb_spec (N.min (lenN (d0 :: data)) (p_limit p - lenN (p_buf p))) (lenN (d0 :: data))) as [E|E].
    + eexists _, _. split; [reflexivity|]. unfold good2, rest_of. cbn. rewrite Eo.
      repeat split; auto; try discriminate.
      * rewrite <- app_assoc. exact A.
      * unfold lenN in *. rewrite app_length. lia.
    + remember (N.to_nat (N.min (lenN (d0 :: data)) (p_limit p - lenN (p_buf p)))) as n0.
      assert (Hn0 : n0 = N.to_nat (p_limit p - lenN (p_buf p)) /\ (n0 <= length (d0 :: data))%nat)
        by (subst n0; unfold lenN in *; lia).
      destruct Hn0 as [Hn0 Hn1].
      eexists _, _. split; [reflexivity|]. unfold good2, rest_of, full. cbn. rewrite Eo.
      repeat split; auto; try discriminate.
      * rewrite <- app_assoc, (app_assoc (firstn _ _)), firstn_skipn. exact A.
      * unfold lenN in *. rewrite app_length, firstn_length. lia.
      * right. unfold lenN in *. rewrite app_length, firstn_length. lia.
Qed.

Definition progress (p p' : pb) : Prop :=
  (length (p_stream p') < length (p_stream p))%nat \/ p_eof p' = true \/ full p'.

Lemma poll_loop2 : forall n p a S,
  good2 p S -> lenN (p_buf p) < p_limit p -> (n = O -> p_pending p = None) ->
  exists p' w, poll_loop false n p a = Ok (p', w) /\ good2 p' S /\ p_limit p' = p_limit p /\
    (w = false -> p_eof p' = true) /\
    (length (p_stream p') <= length (p_stream p))%nat /\
    (p_pending p' = None \/ full p') /\
    ((2 <= n)%nat \/ (1 <= n)%nat /\ p_pending p = None -> progress p p').
Proof.
  induction n as [|n IH]; intros p a S G L Hn.
  - exists p, true. cbn. split; [reflexivity|]. split; [exact G|]. split; [reflexivity|].
    split; [intro; discriminate|]. split; [lia|]. split; [left; auto|intros [H|[H _]]; lia].
  - cbn [poll_loop].
    (* what happens after an append, shared by both branches *)
    assert (K : forall q, good2 q S -> lenN (p_buf q) < p_limit q ->
                (length (p_stream q) <= length (p_stream p))%nat -> p_limit q = p_limit p ->
                exists p' w,
                  match append_pending q with
                  | Ok (p1, a1) =>
                      if is_some (p_pending p1) || (p_limit p1 <=? lenN (p_buf p1))
                      then Ok (p1, true) else poll_loop false n p1 (a || a1)
                  | Err e => Err e
                  end = Ok (p', w) /\ good2 p' S /\ p_limit p' = p_limit p /\
                  (w = false -> p_eof p' = true) /\
                  (length (p_stream p') <= length (p_stream p))%nat /\
                  (p_pending p' = None \/ full p') /\
                  ((length (p_stream q) < length (p_stream p))%nat \/ (1 <= n)%nat -> progress p p')).
    { intros q Gq Lq Sq Lim.
      destruct (append_pending2 q S Gq Lq) as (p1 & a1 & AP & G1 & S1 & E1 & L1 & F1).
      rewrite AP.
      destruct (is_some (p_pending p1) || (p_limit p1 <=? lenN (p_buf p1))) eqn:Ret.
      - exists p1, true. split; [reflexivity|]. split; [exact G1|]. split; [congruence|].
        split; [intro; discriminate|]. split; [rewrite S1; exact Sq|]. split; [exact F1|].
        intros _. right. right. apply orb_true_iff in Ret as [Ret|Ret].
        + destruct F1 as [F1|F1]; [rewrite F1 in Ret; discriminate|exact F1].
        + apply N.leb_le in Ret. destruct G1 as (_ & _ & _ & D1). unfold full. lia.
      - apply orb_false_iff in Ret as [R1 R2]. apply N.leb_gt in R2.
        assert (P1 : p_pending p1 = None) by (destruct (p_pending p1); [discriminate|reflexivity]).
        destruct (IH p1 (a || a1) S G1 R2 (fun _ => P1)) as (p' & w & PL & G' & L' & W' & M' & F' & Pr').
        rewrite S1 in M'.
        exists p', w. split; [exact PL|]. split; [exact G'|]. split; [congruence|].
        split; [exact W'|]. split; [lia|]. split; [exact F'|].
        intros [Hpr|Hpr].
        + left. lia.
        + destruct (Pr' (or_intror (conj Hpr P1))) as [X|[X|X]].
          * left. rewrite S1 in X. lia.
          * right; left; exact X.
          * right; right; exact X. }
    destruct (p_pending p) as [d|] eqn:Pe.
    + destruct (K p G L ltac:(lia) eq_refl) as (p' & w & EQ & G' & L' & W' & M' & F' & Pr').
      exists p', w. split; [exact EQ|]. split; [exact G'|]. split; [exact L'|]. split; [exact W'|].
      split; [exact M'|]. split; [exact F'|].
      intros [H|[_ H]]; [apply Pr'; right; lia|discriminate].
    + destruct G as (A & B & C & D). destruct (p_stream p) as [|[data| |] rest] eqn:Se.
      * exists (set_eof p true), false. split; [reflexivity|]. split.
        { unfold good2, rest_of in *. cbn [p_buf p_pending p_stream p_eof p_limit set_eof].
          rewrite Pe in *. try rewrite Se in *. cbn [chunks no_err app] in *.
          split; [exact A|]. split; [exact I|]. split; [auto|exact D]. }
        split; [reflexivity|]. split; [auto|]. split; [cbn; rewrite Se; cbn; lia|]. split; [left; exact Pe|].
        intros _. right. left. reflexivity.
      * set (q := set_pending (set_stream p rest) (Some data)).
        assert (Gq : good2 q S).
        { unfold good2, rest_of. cbn. unfold rest_of in A. rewrite Pe in A. rewrite Se in A. cbn [chunks no_err app] in *.
          split; [exact A|]. split; [exact B|]. split; [|exact D].
          intro H. destruct (C H) as [_ X]. discriminate. }
        destruct (K q Gq L ltac:(cbn; lia) eq_refl) as (p' & w & EQ & G' & L' & W' & M' & F' & Pr').
        exists p', w. split; [exact EQ|]. split; [exact G'|]. split; [exact L'|].
        split; [exact W'|]. split; [exact M'|]. split; [exact F'|].
        intros _. apply Pr'. left. cbn. lia.
      * exists (set_stream p rest), true. cbn. split; [reflexivity|].
        split.
        { unfold good2, rest_of. cbn. unfold rest_of in A. rewrite Pe in *. rewrite Se in A. cbn [chunks no_err app] in *.
          split; [exact A|]. split; [exact B|]. split; [|exact D].
          intro H. destruct (C H) as [_ X]. discriminate. }
        split; [reflexivity|]. split; [intro; discriminate|]. split; [cbn; lia|]. split; [left; exact Pe|].
        intros _. left. cbn. rewrite Se. cbn. lia.
      * try rewrite Se in B. cbn in B. contradiction.
Qed.

(* PayloadBuffer::poll_stream called with room in the buffer *)
Lemma poll_stream2 p S :
  good2 p S -> lenN (p_buf p) < p_limit p ->
  exists p' w, poll_stream false p = Ok (p', w) /\ good2 p' S /\ p_limit p' = p_limit p /\
    (w = false -> p_eof p' = true) /\
    (length (p_stream p') <= length (p_stream p))%nat /\ progress p p'.
Proof.
  intros G L. unfold poll_stream, poll_stream_n.
  destruct (N.eqb_spec (p_limit p) 0); [lia|].
  destruct (poll_loop2 (N.to_nat Gen.Consts.MULTIPART_MAX_READY_CHUNKS) p false S G L)
    as (p' & w & PL & G' & L' & W & M & _ & Pr).
  { vm_compute. discriminate. }
  exists p', w. repeat (split; [assumption|]). apply Pr. left. vm_compute. lia.
Qed.
