(* C15 proofs, part 2: buffer bound and "no hang" for the whole parser model
   (PayloadBuffer + Inner::poll + InnerField::poll), repaired code (o24 = o7 = o25 = false). *)
From AV Require Import Lib.Base.
From AV Require Import Multipart.Buffer.
From AV Require Import Multipart.Scan.
From AV Require Import Multipart.Parser.
From AV Require Import Multipart.ScanProofs.

Definition bounded (p : pb) : Prop := lenN (p_buf p) <= p_limit p.

(* what every parser-side read does to the buffer: same limit, same eof, never longer *)
Definition pres (p p' : pb) : Prop :=
  p_limit p' = p_limit p /\ p_eof p' = p_eof p /\ (length (p_buf p') <= length (p_buf p))%nat.

Lemma pres_refl p : pres p p.
Proof. unfold pres; auto. Qed.
Lemma pres_trans p q r : pres p q -> pres q r -> pres p r.
Proof. unfold pres. intros (A & B & C) (D & E & F). repeat split; try congruence; lia. Qed.
Lemma pres_bounded p p' : pres p p' -> bounded p -> bounded p'.
Proof. unfold pres, bounded, lenN. intros (A & B & C) H. rewrite A. lia. Qed.
Lemma pres_set_buf p b : (length b <= length (p_buf p))%nat -> pres p (set_buf p b).
Proof. unfold pres; cbn; auto. Qed.

(* ---- PayloadBuffer::poll_stream ---- *)

Lemma append_pending_spec p p' a :
  bounded p -> append_pending p = Ok (p', a) ->
  bounded p' /\ p_limit p' = p_limit p /\ p_eof p' = p_eof p.
Proof.
  unfold append_pending, bounded. intros B H.
  destruct (p_pending p) as [data|]; [|injection H as <- <-; auto].
  destruct (is_nil data); [injection H as <- <-; cbn; auto|].
  destruct (N.leb_spec (p_limit p) (lenN (p_buf p))); [discriminate|].
  destruct (N.eqb_spec (N.min (lenN data) (p_limit p - lenN (p_buf p))) (lenN data)) as [E|E];
    injection H as <- <-; cbn; unfold lenN in *; rewrite app_length; repeat split; try lia.
  rewrite firstn_length. lia.
Qed.

Lemma poll_loop_spec o25 : forall n p a p' w,
  bounded p -> poll_loop o25 n p a = Ok (p', w) ->
  bounded p' /\ p_limit p' = p_limit p /\ (o25 = false -> w = false -> p_eof p' = true).
Proof.
  induction n as [|n IH]; intros p a p' w B H; cbn [poll_loop] in H.
  - injection H as <- <-. repeat split; auto. intros ->; discriminate.
  - destruct (p_pending p) eqn:Pe.
    + destruct (append_pending p) as [[p1 a1]|] eqn:AP; [|discriminate].
      apply append_pending_spec in AP as (B1 & L1 & E1); [|exact B].
      destruct (is_some (p_pending p1) || (p_limit p1 <=? lenN (p_buf p1))).
      * injection H as <- <-. repeat split; auto. intros ->; discriminate.
      * apply IH in H as (B2 & L2 & E2); [|exact B1]. repeat split; auto; congruence.
    + destruct (p_stream p) as [|[data| |] rest].
      * injection H as <- <-. cbn. repeat split; auto.
      * destruct (append_pending (set_pending (set_stream p rest) (Some data))) as [[p1 a1]|] eqn:AP; [|discriminate].
        apply append_pending_spec in AP as (B1 & L1 & E1); [|exact B]. cbn in L1, E1.
        destruct (is_some (p_pending p1) || (p_limit p1 <=? lenN (p_buf p1))).
        -- injection H as <- <-. repeat split; auto. intros ->; discriminate.
        -- apply IH in H as (B2 & L2 & E2); [|exact B1]. repeat split; auto; congruence.
      * injection H as <- <-. cbn. repeat split; auto; discriminate.
      * discriminate.
Qed.

Lemma poll_stream_spec o25 p p' w :
  bounded p -> poll_stream o25 p = Ok (p', w) ->
  bounded p' /\ p_limit p' = p_limit p /\ (o25 = false -> w = false -> p_eof p' = true).
Proof.
  unfold poll_stream, poll_stream_n. intros B H.
  destruct (p_limit p =? 0); [discriminate|]. eapply poll_loop_spec; eauto.
Qed.

(* ---- reads ---- *)

Lemma read_until_spec needle p o p' :
  read_until needle p = Ok (o, p') -> pres p p' /\ (o = None -> p_eof p = false /\ p' = p).
Proof.
  unfold read_until. destruct (find_sub needle (p_buf p)).
  - intro H. injection H as <- <-. split; [|discriminate].
    apply pres_set_buf. rewrite skipn_length. lia.
  - destruct (p_eof p); [discriminate|]. intro H. injection H as <- <-. split; [apply pres_refl|auto].
Qed.

Lemma read_until_err needle p e : read_until needle p = Err e -> e = EIncomplete /\ p_eof p = true.
Proof.
  unfold read_until. destruct (find_sub needle (p_buf p)); [discriminate|].
  destruct (p_eof p); [|discriminate]. intro H. injection H as <-. auto.
Qed.

Lemma readline_or_eof_spec p o p' :
  readline_or_eof p = Ok (o, p') -> pres p p' /\ (o = None -> p_eof p = false /\ p' = p).
Proof.
  unfold readline_or_eof, readline.
  destruct (read_until [10] p) as [[o1 p1]|e] eqn:R.
  - intro H. injection H as <- <-. eapply read_until_spec; eauto.
  - apply read_until_err in R as [-> Eo]. rewrite Eo. intro H. injection H as <- <-.
    split; [apply pres_set_buf; cbn; lia|discriminate].
Qed.

Lemma read_max_spec size p o p' :
  read_max size p = Ok (o, p') ->
  pres p p' /\ (o = None -> p_eof p = false /\ p' = p) /\
  (forall chunk, o = Some chunk -> p_buf p = chunk ++ p_buf p').
Proof.
  unfold read_max. destruct (is_nil (p_buf p)); cbn [negb].
  - destruct (p_eof p); [discriminate|]. intro H. injection H as <- <-.
    split; [apply pres_refl|]. split; [auto|discriminate].
  - intro H. injection H as <- <-. split; [apply pres_set_buf; rewrite skipn_length; lia|].
    split; [discriminate|]. intros chunk H. injection H as <-. cbn. symmetry. apply firstn_skipn.
Qed.

Lemma read_len_spec p size r p' s' :
  read_len p size = (r, p', s') -> pres p p' /\ (r = Pending -> p_eof p = false).
Proof.
  unfold read_len. destruct (size =? 0).
  { intro H. injection H as <- <- <-. split; [apply pres_refl|discriminate]. }
  destruct (read_max size p) as [[[chunk|] p1]|e] eqn:R.
  - apply read_max_spec in R as ((P1 & P2 & P3) & _ & C). specialize (C chunk eq_refl).
    intro H. injection H as <- <- <-. split; [|discriminate].
    destruct (is_nil (skipn (N.to_nat (N.min (lenN chunk) size)) chunk)); cbn [negb].
    + repeat split; auto.
    + unfold pres, unprocessed. cbn. repeat split; auto.
      rewrite C, !app_length, skipn_length. lia.
  - apply read_max_spec in R as (P & N & _). destruct (N eq_refl) as [Eo ->].
    rewrite Eo. cbn. intro H. injection H as <- <- <-. split; [apply pres_refl|auto].
  - intro H. injection H as <- <- <-. split; [apply pres_refl|discriminate].
Qed.

Ltac dall H :=
  repeat match type of H with
         | context [match ?x with _ => _ end] => destruct x eqn:?
         end.

Lemma start_check_pending o24 buf bnd eof :
  start_check o24 false buf bnd eof = Some Pending -> eof = false.
Proof.
  unfold start_check.
  destruct ((if o24 then (4 <? length buf)%nat else (4 <=? length buf)%nat) && (nth 0 buf 0 =? CR)); [|discriminate].
  destruct (if bytes_eqb (firstn 2 buf) [CR; LF] && bytes_eqb (firstn 2 (skipn 2 buf)) [DASH; DASH]
            then Some 4%nat
            else if bytes_eqb (firstn 2 (skipn 1 buf)) [DASH; DASH] then Some 3%nat else None) as [bl|]; [|discriminate].
  destruct (length buf <? length bnd + bl)%nat.
  - destruct eof; cbn; [discriminate|reflexivity].
  - destruct (bytes_eqb (firstn (length bnd) (skipn bl buf)) bnd); discriminate.
Qed.

Lemma read_stream_spec o24 o7 p bnd r p' :
  read_stream_gen o24 o7 p bnd = (r, p') ->
  pres p p' /\ (o7 = false -> r = Pending -> p_eof p = false).
Proof.
  unfold read_stream_gen. intro H.
  destruct (length (p_buf p) =? 0)%nat.
  { injection H as <- <-. split; [apply pres_refl|]. intros _. destruct (p_eof p); [discriminate|reflexivity]. }
  destruct (start_check o24 o7 (p_buf p) bnd (p_eof p)) as [r0|] eqn:SC.
  { injection H as <- <-. split; [apply pres_refl|]. intros -> ->. eapply start_check_pending; eauto. }
  destruct (scan_from 0 (p_buf p)) as [|k|]; injection H as <- <-.
  - split; [apply pres_set_buf; cbn; lia|discriminate].
  - split; [apply pres_set_buf; rewrite skipn_length; lia|discriminate].
  - split; [apply pres_refl|]. intros ->. cbn. destruct (p_eof p); [discriminate|reflexivity].
Qed.

Lemma field_stage2_spec f p r f' p' :
  field_stage2 f p = (r, f', p') -> pres p p' /\ (r = Pending -> p_eof p = false).
Proof.
  unfold field_stage2, readline. intro H.
  destruct (read_until [10] p) as [[[line|] p1]|e] eqn:R.
  - apply read_until_spec in R as [P _]. injection H as <- <- <-. split; [exact P|discriminate].
  - apply read_until_spec in R as [P N]. injection H as <- <- <-. split; [exact P|]. intros _. apply N. reflexivity.
  - injection H as <- <- <-. split; [apply pres_refl|discriminate].
Qed.

Lemma field_poll_spec o24 o7 bnd f p r f' p' :
  field_poll o24 o7 bnd f p = (r, f', p') ->
  pres p p' /\ (o7 = false -> r = Pending -> p_eof p = false).
Proof.
  unfold field_poll. intro H.
  destruct (f_present f); cbn [negb] in H.
  2:{ injection H as <- <- <-. split; [apply pres_refl|discriminate]. }
  destruct (f_eof f); cbn [negb] in H.
  { apply field_stage2_spec in H as [P N]. auto. }
  destruct (f_length f) as [len|].
  - destruct (read_len p len) as [[r1 p1] len1] eqn:RL.
    apply read_len_spec in RL as [P N].
    destruct r1 as [[| b | e]|].
    + apply field_stage2_spec in H as [P2 N2]. split; [eapply pres_trans; eauto|].
      intros _ Hr. destruct P as (_ & E & _). rewrite <- E. auto.
    + injection H as <- <- <-. split; [exact P|discriminate].
    + injection H as <- <- <-. split; [exact P|discriminate].
    + injection H as <- <- <-. split; [exact P|auto].
  - destruct (read_stream_gen o24 o7 p bnd) as [r1 p1] eqn:RS.
    apply read_stream_spec in RS as [P N].
    destruct r1 as [[| b | e]|].
    + apply field_stage2_spec in H as [P2 N2]. split; [eapply pres_trans; eauto|].
      intros _ Hr. destruct P as (_ & E & _). rewrite <- E. auto.
    + injection H as <- <- <-. split; [exact P|discriminate].
    + injection H as <- <- <-. split; [exact P|discriminate].
    + injection H as <- <- <-. split; [exact P|auto].
Qed.

Lemma read_boundary_spec p bnd o p' :
  read_boundary p bnd = Ok (o, p') -> pres p p' /\ (o = None -> p_eof p = false).
Proof.
  unfold read_boundary. intro H. destruct (is_nil bnd); [discriminate|].
  destruct (readline_or_eof p) as [[[chunk|] p1]|e] eqn:R; [| |discriminate].
  - apply readline_or_eof_spec in R as [P _].
    dall H; try discriminate; injection H as <- <-; (split; [exact P|discriminate]).
  - apply readline_or_eof_spec in R as [P N]. destruct (N eq_refl) as [Eo ->].
    rewrite Eo in H. injection H as <- <-. split; [apply pres_refl|auto].
Qed.

Lemma skip_loop_spec : forall fuel p bnd o p',
  skip_loop fuel p bnd = Ok (o, p') -> pres p p' /\ (o = None -> p_eof p = false).
Proof.
  induction fuel as [|k IH]; intros p bnd o p' H; cbn [skip_loop] in H; [discriminate|].
  unfold readline in H.
  destruct (read_until [10] p) as [[[chunk|] p1]|e] eqn:R; [| |discriminate].
  - apply read_until_spec in R as [P _].
    assert (Rec : skip_loop k p1 bnd = Ok (o, p') -> pres p p' /\ (o = None -> p_eof p = false)).
    { intro H'. apply IH in H' as [P' N']. split; [eapply pres_trans; eauto|].
      intro Ho. destruct P as (_ & E & _). rewrite <- E. auto. }
    dall H; try discriminate; try (apply Rec; exact H);
      injection H as <- <-; (split; [exact P|discriminate]).
  - apply read_until_spec in R as [P N]. destruct (N eq_refl) as [Eo ->].
    rewrite Eo in H. injection H as <- <-. split; [apply pres_refl|auto].
Qed.

Lemma skip_until_boundary_spec p bnd o p' :
  skip_until_boundary p bnd = Ok (o, p') -> pres p p' /\ (o = None -> p_eof p = false).
Proof.
  unfold skip_until_boundary. destruct (is_nil bnd); [discriminate|]. apply skip_loop_spec.
Qed.

Lemma read_field_headers_spec hdr p o p' :
  read_field_headers hdr p = Ok (o, p') -> pres p p' /\ (o = None -> p_eof p = false).
Proof.
  unfold read_field_headers. intro H.
  destruct (read_until (CRLF ++ CRLF) p) as [[[block|] p1]|e] eqn:R; [| |discriminate].
  - apply read_until_spec in R as [P _]. injection H as <- <-. split; [exact P|discriminate].
  - apply read_until_spec in R as [P N]. destruct (N eq_refl) as [Eo ->].
    rewrite Eo in H. injection H as <- <-. split; [apply pres_refl|auto].
Qed.

Definition rel_pb (r : rel) : pb :=
  match r with RelDone _ p => p | RelPending _ p => p | RelErr _ _ p => p end.

Lemma release_spec o24 o7 : forall fuel bnd f p,
  pres p (rel_pb (release o24 o7 fuel bnd f p)) /\
  (o7 = false -> forall f1 p1, release o24 o7 fuel bnd f p = RelPending f1 p1 -> p_eof p = false).
Proof.
  induction fuel as [|k IH]; intros bnd f p; cbn [release].
  - split; [apply pres_refl|discriminate].
  - destruct (field_poll o24 o7 bnd f p) as [[r f1] p1] eqn:FP.
    apply field_poll_spec in FP as [P N].
    destruct r as [[| b | e]|]; cbn [rel_pb].
    + split; [exact P|discriminate].
    + destruct (IH bnd f1 p1) as [P' N']. split; [eapply pres_trans; eauto|].
      intros Ho f2 p2 H. destruct P as (_ & E & _). rewrite <- E. eapply N'; eauto.
    + split; [exact P|discriminate].
    + split; [exact P|]. intros Ho f2 p2 _. auto.
Qed.

Lemma poll_headers_spec hdr m p r m' :
  poll_headers hdr m p = (r, m') -> pres p (m_pb m') /\ (r = Pending -> p_eof p = false).
Proof.
  unfold poll_headers. intro H.
  destruct (read_field_headers hdr p) as [[[[name cl|tag]|] p1]|e] eqn:R.
  - apply read_field_headers_spec in R as [P _]. injection H as <- <-. split; [exact P|discriminate].
  - apply read_field_headers_spec in R as [P _]. injection H as <- <-. split; [exact P|discriminate].
  - apply read_field_headers_spec in R as [P N]. injection H as <- <-. split; [exact P|auto].
  - injection H as <- <-. split; [apply pres_refl|discriminate].
Qed.

Lemma inner_poll_spec hdr o24 o7 m r m' :
  inner_poll hdr o24 o7 m = (r, m') ->
  pres (m_pb m) (m_pb m') /\ (o7 = false -> r = Pending -> p_eof (m_pb m) = false).
Proof.
  unfold inner_poll. intro H.
  destruct (state_eqb (m_state m) Eof).
  { injection H as <- <-. split; [apply pres_refl|discriminate]. }
  set (rr := match m_item m with
             | Some f => release o24 o7 (S (length (p_buf (m_pb m)))) (m_bnd m) f (m_pb m)
             | None => RelDone None (m_pb m) end) in *.
  assert (RP : pres (m_pb m) (rel_pb rr) /\
               (o7 = false -> forall f1 p1, rr = RelPending f1 p1 -> p_eof (m_pb m) = false)).
  { subst rr. destruct (m_item m); [apply release_spec|]. split; [apply pres_refl|discriminate]. }
  destruct RP as [P NP].
  destruct rr as [fo p1|f1 p1|e f1 p1]; cbn [rel_pb] in P.
  - assert (Eo : p_eof p1 = p_eof (m_pb m)) by (destruct P as (_ & E & _); exact E).
    assert (PH : forall p2, pres p1 p2 -> (p_eof p1 = false -> p_eof (m_pb m) = false) ->
                 poll_headers hdr m p2 = (r, m') ->
                 pres (m_pb m) (m_pb m') /\ (o7 = false -> r = Pending -> p_eof (m_pb m) = false)).
    { intros p2 P2 _ HH. apply poll_headers_spec in HH as [P3 N3].
      split; [eapply pres_trans; [exact P|eapply pres_trans; eauto]|].
      intros _ Hr. rewrite <- Eo. destruct P2 as (_ & E2 & _). rewrite <- E2. auto. }
    destruct (m_state m).
    + destruct (skip_until_boundary p1 (m_bnd m)) as [[[[|]|] p2]|e] eqn:SK.
      * apply skip_until_boundary_spec in SK as [P2 _]. injection H as <- <-. cbn.
        split; [eapply pres_trans; eauto|discriminate].
      * apply skip_until_boundary_spec in SK as [P2 _]. eapply PH; eauto; congruence.
      * apply skip_until_boundary_spec in SK as [P2 N2]. injection H as <- <-. cbn.
        split; [eapply pres_trans; eauto|]. intros _ _. rewrite <- Eo. auto.
      * injection H as <- <-. cbn. split; [exact P|discriminate].
    + destruct (read_boundary p1 (m_bnd m)) as [[[[|]|] p2]|e] eqn:SK.
      * apply read_boundary_spec in SK as [P2 _]. injection H as <- <-. cbn.
        split; [eapply pres_trans; eauto|discriminate].
      * apply read_boundary_spec in SK as [P2 _]. eapply PH; eauto; congruence.
      * apply read_boundary_spec in SK as [P2 N2]. injection H as <- <-. cbn.
        split; [eapply pres_trans; eauto|]. intros _ _. rewrite <- Eo. auto.
      * injection H as <- <-. cbn. split; [exact P|discriminate].
    + eapply PH; eauto; apply pres_refl.
    + injection H as <- <-. split; [apply pres_refl|discriminate].
  - injection H as <- <-. cbn. split; [exact P|]. intros Ho _. eapply NP; eauto.
  - injection H as <- <-. cbn. split; [exact P|discriminate].
Qed.

(* the wake-up part needs no bound on the buffer *)
Lemma poll_loop_woken : forall n p a p' w,
  poll_loop false n p a = Ok (p', w) -> w = false -> p_eof p' = true.
Proof.
  induction n as [|n IH]; intros p a p' w H; cbn [poll_loop] in H.
  - injection H as <- <-. discriminate.
  - destruct (p_pending p).
    + destruct (append_pending p) as [[p1 a1]|]; [|discriminate].
      destruct (is_some (p_pending p1) || (p_limit p1 <=? lenN (p_buf p1))).
      * injection H as <- <-. discriminate.
      * eapply IH; eauto.
    + destruct (p_stream p) as [|[data| |] rest].
      * injection H as <- <-. reflexivity.
      * destruct (append_pending (set_pending (set_stream p rest) (Some data))) as [[p1 a1]|]; [|discriminate].
        destruct (is_some (p_pending p1) || (p_limit p1 <=? lenN (p_buf p1))).
        -- injection H as <- <-. discriminate.
        -- eapply IH; eauto.
      * injection H as <- <-. discriminate.
      * discriminate.
Qed.

Lemma poll_stream_woken p p' w :
  poll_stream false p = Ok (p', w) -> w = false -> p_eof p' = true.
Proof.
  unfold poll_stream, poll_stream_n. destruct (p_limit p =? 0); [discriminate|]. apply poll_loop_woken.
Qed.

(* ---- the two user-visible polls ---- *)

(* NO HANG: a poll of the Multipart stream returns Pending only when a wake-up of the task is
   guaranteed (self-wake, or the upstream stream returned Pending and holds the waker) *)
Lemma mp_poll_no_hang hdr m w m' :
  mp_poll_next hdr false false false m = (Pending, w, m') -> w = true.
Proof.
  unfold mp_poll_next. destruct (poll_stream false (m_pb m)) as [[p1 w1]|e] eqn:PS; [|discriminate].
  destruct (inner_poll hdr false false (mkMp p1 (m_state m) (m_item m) (m_bnd m))) as [r m1] eqn:IP.
  intro H. injection H as -> <- <-.
  apply inner_poll_spec in IP as [_ N]. specialize (N eq_refl eq_refl). cbn in N.
  destruct w1; [reflexivity|]. rewrite (poll_stream_woken _ _ _ PS eq_refl) in N. discriminate.
Qed.

Lemma field_poll_no_hang m w m' :
  field_poll_next false false false m = (Pending, w, m') -> w = true.
Proof.
  unfold field_poll_next. destruct (m_item m) as [f|]; [|discriminate].
  destruct (f_present f); cbn [negb]; [|discriminate].
  destruct (poll_stream false (m_pb m)) as [[p1 w1]|e] eqn:PS; [|discriminate].
  destruct (field_poll false false (m_bnd m) f p1) as [[r f1] p2] eqn:FP.
  intro H. injection H as -> <- <-.
  apply field_poll_spec in FP as [_ N]. specialize (N eq_refl eq_refl).
  destruct w1; [reflexivity|]. rewrite (poll_stream_woken _ _ _ PS eq_refl) in N. discriminate.
Qed.

(* BUFFER BOUND, one poll (any of the code variants) *)
Lemma mp_poll_bounded hdr o24 o7 o25 m :
  bounded (m_pb m) ->
  bounded (m_pb (snd (mp_poll_next hdr o24 o7 o25 m))) /\
  p_limit (m_pb (snd (mp_poll_next hdr o24 o7 o25 m))) = p_limit (m_pb m).
Proof.
  intro B. unfold mp_poll_next.
  destruct (poll_stream o25 (m_pb m)) as [[p1 w1]|e] eqn:PS; [|cbn; auto].
  apply poll_stream_spec in PS as (B1 & L1 & _); [|exact B].
  destruct (inner_poll hdr o24 o7 (mkMp p1 (m_state m) (m_item m) (m_bnd m))) as [r m1] eqn:IP.
  apply inner_poll_spec in IP as [P _]. cbn in *.
  split; [eapply pres_bounded; eauto|]. destruct P as (L & _). congruence.
Qed.

Lemma field_poll_bounded o24 o7 o25 m :
  bounded (m_pb m) ->
  bounded (m_pb (snd (field_poll_next o24 o7 o25 m))) /\
  p_limit (m_pb (snd (field_poll_next o24 o7 o25 m))) = p_limit (m_pb m).
Proof.
  intro B. unfold field_poll_next. destruct (m_item m) as [f|]; [|cbn; auto].
  destruct (f_present f); cbn [negb]; [|cbn; auto].
  destruct (poll_stream o25 (m_pb m)) as [[p1 w1]|e] eqn:PS; [|cbn; auto].
  apply poll_stream_spec in PS as (B1 & L1 & _); [|exact B].
  destruct (field_poll o24 o7 (m_bnd m) f p1) as [[r f1] p2] eqn:FP.
  apply field_poll_spec in FP as [P _]. cbn in *.
  split; [eapply pres_bounded; eauto|]. destruct P as (L & _). congruence.
Qed.

(* any sequence of polls by the consumer *)
Inductive op := OpMp | OpField.

Definition step (hdr : bytes -> hres) (o24 o7 o25 : bool) (m : mp) (o : op) : mp :=
  match o with
  | OpMp => snd (mp_poll_next hdr o24 o7 o25 m)
  | OpField => snd (field_poll_next o24 o7 o25 m)
  end.

Lemma buffer_bound_all hdr o24 o7 o25 : forall ops m,
  bounded (m_pb m) ->
  bounded (m_pb (fold_left (step hdr o24 o7 o25) ops m)) /\
  p_limit (m_pb (fold_left (step hdr o24 o7 o25) ops m)) = p_limit (m_pb m).
Proof.
  induction ops as [|o ops IH]; intros m B; cbn [fold_left]; [auto|].
  assert (S1 : bounded (m_pb (step hdr o24 o7 o25 m o)) /\ p_limit (m_pb (step hdr o24 o7 o25 m o)) = p_limit (m_pb m)).
  { destruct o; cbn [step]; [apply mp_poll_bounded|apply field_poll_bounded]; exact B. }
  destruct S1 as [B1 L1]. destruct (IH _ B1) as [B2 L2]. split; [exact B2|congruence].
Qed.

(* ---- boundary lines are matched exactly ---- *)

Lemma read_until_chunk needle p chunk p' :
  read_until needle p = Ok (Some chunk, p') -> p_buf p = chunk ++ p_buf p'.
Proof.
  unfold read_until. destruct (find_sub needle (p_buf p)).
  - intro H. injection H as <- <-. cbn. symmetry. apply firstn_skipn.
  - destruct (p_eof p); discriminate.
Qed.

Lemma readline_or_eof_chunk p chunk p' :
  readline_or_eof p = Ok (Some chunk, p') -> p_buf p = chunk ++ p_buf p'.
Proof.
  unfold readline_or_eof, readline.
  destruct (read_until [10] p) as [[o1 p1]|e] eqn:R.
  - intro H. injection H as -> <-. eapply read_until_chunk; eauto.
  - apply read_until_err in R as [-> Eo]. rewrite Eo. intro H. injection H as <- <-.
    cbn. rewrite app_nil_r. reflexivity.
Qed.

Lemma strip_prefix_some x l r : strip_prefix x l = Some r -> l = x ++ r.
Proof.
  unfold strip_prefix. destruct (starts x l) eqn:S; [|discriminate].
  intro H. injection H as <-. apply starts_true in S as (s & ->).
  rewrite skipn_app, skipn_all, Nat.sub_diag. reflexivity.
Qed.

(* Inner::read_boundary accepts exactly "--" boundary CRLF (more fields follow) and
   "--" boundary "--" [CRLF] (end of body); every other line is an error *)
Lemma read_boundary_exact p bnd fin p' :
  read_boundary p bnd = Ok (Some fin, p') ->
  exists line, p_buf p = line ++ p_buf p' /\
    if fin then line = DD ++ bnd ++ DD \/ line = DD ++ bnd ++ DD ++ CRLF
    else line = DD ++ bnd ++ CRLF.
Proof.
  unfold read_boundary. destruct (is_nil bnd); [discriminate|].
  destruct (readline_or_eof p) as [[[chunk|] p1]|e] eqn:R; [| |discriminate].
  - pose proof (readline_or_eof_chunk _ _ _ R) as Hc.
    destruct (strip_prefix DD chunk) as [c1|] eqn:S1; [|discriminate].
    destruct (strip_prefix bnd c1) as [c2|] eqn:S2; [|discriminate].
    apply strip_prefix_some in S1, S2. subst c1 chunk.
    destruct (bytes_eqb c2 CRLF) eqn:E1.
    + apply bytes_eqb_eq in E1. subst c2. intro H. injection H as <- <-. eexists; split; [exact Hc|reflexivity].
    + destruct (bytes_eqb c2 DD) eqn:E2.
      * apply bytes_eqb_eq in E2. subst c2. cbn [orb]. intro H. injection H as <- <-.
        eexists; split; [exact Hc|left; reflexivity].
      * destruct (bytes_eqb c2 (DD ++ CRLF)) eqn:E3; cbn [orb]; [|discriminate].
        apply bytes_eqb_eq in E3. subst c2. intro H. injection H as <- <-.
        eexists; split; [exact Hc|right; reflexivity].
  - apply readline_or_eof_spec in R as [_ N]. destruct (N eq_refl) as [Eo ->]. rewrite Eo. discriminate.
Qed.

(* ---- witnesses: the original code at the three repaired places ---- *)
Definition bs (l : list N) : bytes := l.

(* F24: buffer exactly CR LF - - : the original guard `len > 4` hands the delimiter out as content *)
Example F24_original_emits_delimiter :
  fst (read_stream_gen true false (mkPb [] None [13;10;45;45] 65536 false) [97;98])
  = Ready (IData [13;10;45;45]).
Proof. reflexivity. Qed.
Example F24_repaired_waits :
  fst (read_stream_gen false false (mkPb [] None [13;10;45;45] 65536 false) [97;98]) = Pending.
Proof. reflexivity. Qed.

(* F7: end of stream inside the look-ahead window: the original code answers Pending at eof *)
Example F7_original_pending_at_eof :
  fst (read_stream_gen false true (mkPb [] None [13] 65536 true) [97;98]) = Pending /\
  fst (read_stream_gen false true (mkPb [] None [13;10;45;45;97] 65536 true) [97;98]) = Pending.
Proof. split; reflexivity. Qed.
Example F7_repaired_error_at_eof :
  fst (read_stream_gen false false (mkPb [] None [13] 65536 true) [97;98]) = Ready (IErr EIncomplete) /\
  fst (read_stream_gen false false (mkPb [] None [13;10;45;45;97] 65536 true) [97;98]) = Ready (IErr EIncomplete).
Proof. split; reflexivity. Qed.

(* F25: 16 empty chunks: the original poll_stream returns without wake-up and without eof *)
Example F25_original_no_wake :
  match poll_stream true (mkPb (repeat (EChunk []) 17) None [] 65536 false) with
  | Ok (p, w) => w = false /\ p_eof p = false /\ p_stream p <> []
  | Err _ => False
  end.
Proof. vm_compute. repeat split; discriminate. Qed.

(* ---- the line / header-block reads do not depend on how much more has arrived ---- *)
Lemma starts_app x l r : starts x l = true -> starts x (l ++ r) = true.
Proof. intro H. apply starts_true in H as (s & ->). apply starts_true. exists (s ++ r). rewrite app_assoc. reflexivity. Qed.

Lemma find_sub_len needle : forall a i, find_sub needle a = Some i -> (i + length needle <= length a)%nat.
Proof.
  induction a as [|y a IHa]; intros i F; cbn [find_sub] in F.
  - destruct (starts needle []) eqn:S0; [|discriminate]. injection F as <-.
    apply starts_true in S0 as (s0 & E0). destruct needle; [cbn; lia|discriminate].
  - destruct (starts needle (y :: a)) eqn:S1.
    + injection F as <-. apply starts_true in S1 as (s1 & E1).
      apply (f_equal (@length _)) in E1. rewrite app_length in E1. lia.
    + destruct (find_sub needle a) eqn:F1; [|discriminate]. injection F as <-.
      specialize (IHa _ eq_refl). cbn [length]. lia.
Qed.

Lemma find_sub_app needle : forall a b i, find_sub needle a = Some i -> find_sub needle (a ++ b) = Some i.
Proof.
  induction a as [|x a IH]; intros b i H; cbn [find_sub] in H.
  - destruct (starts needle []) eqn:S; [|discriminate]. injection H as <-.
    pose proof (starts_app needle [] b S) as S2. cbn [app] in *.
    destruct b; cbn [find_sub]; rewrite S2; reflexivity.
  - cbn [app find_sub]. destruct (starts needle (x :: a)) eqn:S.
    + injection H as <-. change (x :: a ++ b) with ((x :: a) ++ b). rewrite (starts_app _ _ b S). reflexivity.
    + destruct (find_sub needle a) as [j|] eqn:F; [|discriminate]. injection H as <-.
      rewrite (IH b j eq_refl).
      destruct (starts needle (x :: a ++ b)) eqn:S2; [|reflexivity].
      exfalso. apply starts_true in S2 as (s & E).
      pose proof (find_sub_len _ _ _ F) as L.
      assert (S' : starts needle (x :: a) = true).
      { unfold starts. apply bytes_eqb_eq.
        change (x :: a ++ b) with ((x :: a) ++ b) in E.
        apply (ScanProofs.firstn_prefix (x :: a) needle b s); [exact E|cbn [length]; lia]. }
      congruence.
Qed.

(* once read_until has found its needle, the chunk it returns is the same however much more
   of the stream is already in the buffer: line and header-block reads are independent of the
   segmentation *)
Lemma read_until_stable needle p chunk p' extra :
  read_until needle p = Ok (Some chunk, p') ->
  read_until needle (set_buf p (p_buf p ++ extra)) = Ok (Some chunk, set_buf p (p_buf p' ++ extra)).
Proof.
  unfold read_until. destruct (find_sub needle (p_buf p)) as [i|] eqn:F.
  - intro H. injection H as <- <-. cbn [p_buf set_buf]. rewrite (find_sub_app _ _ extra _ F).
    pose proof (find_sub_len _ _ _ F) as L.
    rewrite firstn_app, skipn_app.
    replace (i + length needle - length (p_buf p))%nat with O by lia. cbn [firstn skipn].
    rewrite app_nil_r. destruct p; reflexivity.
  - destruct (p_eof p); discriminate.
Qed.

(* ---- poll_stream neither loses, duplicates nor reorders a byte ---- *)
Fixpoint chunks (s : list ev) : bytes :=
  match s with
  | [] => []
  | EChunk b :: r => b ++ chunks r
  | _ :: r => chunks r
  end.

(* everything not yet handed to the parser: buffer, then the held-back chunk, then the stream *)
Definition rest_of (p : pb) : bytes :=
  p_buf p ++ (match p_pending p with Some d => d | None => [] end) ++ chunks (p_stream p).

Lemma append_pending_rest p p' a :
  append_pending p = Ok (p', a) -> rest_of p' = rest_of p /\ exists added, p_buf p' = p_buf p ++ added.
Proof.
  unfold append_pending, rest_of. destruct (p_pending p) as [data|] eqn:Pe.
  2:{ intro H. injection H as <- <-. rewrite Pe. split; [reflexivity|exists []; rewrite app_nil_r; reflexivity]. }
  destruct data as [|d0 data]; cbn [is_nil].
  { intro H. injection H as <- <-. cbn. split; [reflexivity|exists []; rewrite app_nil_r; reflexivity]. }
  destruct (p_limit p <=? lenN (p_buf p)); [discriminate|].
  destruct (N.min (lenN (d0 :: data)) (p_limit p - lenN (p_buf p)) =? lenN (d0 :: data));
    intro H; injection H as <- <-; cbn [p_buf p_pending p_stream set_buf set_pending].
  - split; [rewrite <- app_assoc; reflexivity|eexists; reflexivity].
  - split; [|eexists; reflexivity].
    rewrite <- app_assoc. f_equal. rewrite app_assoc, firstn_skipn. reflexivity.
Qed.

Lemma poll_loop_rest o25 : forall n p a p' w,
  poll_loop o25 n p a = Ok (p', w) -> rest_of p' = rest_of p /\ exists added, p_buf p' = p_buf p ++ added.
Proof.
  induction n as [|n IH]; intros p a p' w H; cbn [poll_loop] in H.
  - injection H as <- <-. split; [reflexivity|exists []; rewrite app_nil_r; reflexivity].
  - assert (K : forall q p1 a1, append_pending q = Ok (p1, a1) -> rest_of q = rest_of p ->
                (exists ad, p_buf q = p_buf p ++ ad) ->
                (if is_some (p_pending p1) || (p_limit p1 <=? lenN (p_buf p1))
                 then Ok (p1, if o25 then a || a1 else true) else poll_loop o25 n p1 (a || a1)) = Ok (p', w) ->
                rest_of p' = rest_of p /\ exists added, p_buf p' = p_buf p ++ added).
    { intros q p1 a1 AP Rq (ad & Bq) HH. apply append_pending_rest in AP as (R1 & ad1 & B1).
      destruct (is_some (p_pending p1) || (p_limit p1 <=? lenN (p_buf p1))).
      - injection HH as <- <-. split; [congruence|]. exists (ad ++ ad1). rewrite B1, Bq, app_assoc. reflexivity.
      - apply IH in HH as (R2 & ad2 & B2). split; [congruence|].
        exists (ad ++ ad1 ++ ad2). rewrite B2, B1, Bq, !app_assoc. reflexivity. }
    destruct (p_pending p) eqn:Pe.
    + destruct (append_pending p) as [[p1 a1]|] eqn:AP; [|discriminate].
      eapply K; eauto. exists []. rewrite app_nil_r. reflexivity.
    + destruct (p_stream p) as [|[data| |] rest] eqn:Se.
      * injection H as <- <-. unfold rest_of. cbn. rewrite Pe, Se.
        split; [reflexivity|exists []; rewrite app_nil_r; reflexivity].
      * destruct (append_pending (set_pending (set_stream p rest) (Some data))) as [[p1 a1]|] eqn:AP; [|discriminate].
        eapply K; eauto.
        -- unfold rest_of. cbn. rewrite Pe, Se. reflexivity.
        -- exists []. cbn. rewrite app_nil_r. reflexivity.
      * injection H as <- <-. unfold rest_of. cbn. rewrite Pe, Se. cbn.
        split; [reflexivity|exists []; rewrite app_nil_r; reflexivity].
      * discriminate.
Qed.

Lemma poll_stream_rest o25 p p' w :
  poll_stream o25 p = Ok (p', w) -> rest_of p' = rest_of p /\ exists added, p_buf p' = p_buf p ++ added.
Proof.
  unfold poll_stream, poll_stream_n. destruct (p_limit p =? 0); [discriminate|]. apply poll_loop_rest.
Qed.

(* ---- end of a field: the CRLF in front of the delimiter is consumed, nothing else ---- *)
Lemma field_end_handoff f p bnd tail :
  p_buf p = delim bnd ++ tail ->
  field_stage2 f p = (Ready IEnd, mkField false (f_eof f) (f_length f), set_buf p (DD ++ bnd ++ tail)).
Proof.
  intro Hb. unfold field_stage2, readline, read_until. rewrite Hb. unfold delim. cbn [app].
  cbn [find_sub]. unfold starts. cbn [length firstn bytes_eqb].
  change (CR =? 10) with false. change (LF =? 10) with true. cbn [andb].
  cbn [length Nat.add firstn skipn]. reflexivity.
Qed.
