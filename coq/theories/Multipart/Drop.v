(* C15, consumer that drops a Field before its end: the "release field" loop at the start of
   Inner::poll (dropped, unfinished field: InnerField::poll is driven until it reports the end)
   discards exactly the rest of the field's content and the CRLF in front of the boundary line;
   the boundary line itself stays in the buffer for read_boundary.  No byte of the next part is
   swallowed and no byte of the dropped content is left to be taken for a boundary line. *)
From AV Require Import Lib.Base.
From AV Require Import Multipart.Buffer.
From AV Require Import Multipart.Scan.
From AV Require Import Multipart.Parser.
From AV Require Import Multipart.ScanProofs.
From AV Require Import Multipart.ParserProofs.

(* a scanned field (no Content-Length) whose remaining content c and whole delimiter are buffered *)
Lemma release_scanned_skips : forall fuel bnd c p tail,
  p_buf p = c ++ delim bnd ++ tail -> clean bnd c -> (length c < fuel)%nat ->
  release false false fuel bnd (mkField true false None) p
  = RelDone None (set_buf p (DD ++ bnd ++ tail)).
Proof.
  induction fuel as [|n IH]; intros bnd c p tail Hb Hcl Hn; [lia|].
  cbn [release]. unfold field_poll. cbn [f_present f_eof f_length negb].
  change (read_stream_gen false false p bnd) with (read_stream p bnd).
  assert (Hp : is_prefix (p_buf p) (c ++ delim bnd ++ tail)) by (exists []; rewrite app_nil_r; auto).
  pose proof (read_stream_step p bnd c tail Hp Hcl) as St.
  destruct (read_stream p bnd) as [r p1] eqn:RS.
  assert (NW : ~ (r = Pending \/ exists e, r = Ready (IErr e))).
  { intro W. pose proof (read_stream_waits_short _ _ _ _ RS W) as L.
    rewrite Hb, !app_length in L. unfold delim in L. cbn [length] in L. lia. }
  destruct r as [[| ch | e]|].
  - destruct St as (-> & -> & _). cbn [app] in Hb.
    cbv beta iota zeta. cbn [f_present f_eof f_length].
    rewrite (field_end_handoff _ p bnd tail Hb). reflexivity.
  - destruct St as (Nch & (c' & ->) & Hb1 & ->).
    assert (Hb2 : p_buf p1 = c' ++ delim bnd ++ tail).
    { rewrite Hb, <- app_assoc in Hb1. apply app_inv_head in Hb1. symmetry. exact Hb1. }
    cbv beta iota zeta.
    rewrite (IH bnd c' (set_buf p (p_buf p1)) tail).
    + reflexivity.
    + exact Hb2.
    + exact (clean_suffix _ _ _ Hcl).
    + rewrite app_length in Hn. destruct ch; [congruence|cbn in Hn; lia].
  - exfalso. apply NW. right. eexists; reflexivity.
  - exfalso. apply NW. left. reflexivity.
Qed.

(* ... and the fuel Inner::poll's loop gets in the model (|buf| + 1) is enough *)
Lemma inner_release_scanned : forall bnd c p tail,
  p_buf p = c ++ delim bnd ++ tail -> clean bnd c ->
  release false false (S (length (p_buf p))) bnd (mkField true false None) p
  = RelDone None (set_buf p (DD ++ bnd ++ tail)).
Proof.
  intros bnd c p tail Hb Hcl. apply (release_scanned_skips _ bnd c p tail Hb Hcl).
  rewrite Hb, app_length. lia.
Qed.
