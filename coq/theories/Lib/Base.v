(* Shared basics: bytes as N, panic-aware results, list equality. *)
From Coq Require Export List NArith Bool Lia.
From Coq Require Export ZArith ZifyBool ZifyN ZifyNat.
Export ListNotations.
#[global] Open Scope N_scope.
#[global] Arguments N.add : simpl never.
#[global] Arguments N.mul : simpl never.
#[global] Arguments N.sub : simpl never.
#[global] Arguments N.ltb : simpl never.
#[global] Arguments N.leb : simpl never.
#[global] Arguments N.eqb : simpl never.
#[global] Arguments N.div : simpl never.
#[global] Arguments N.modulo : simpl never.

Definition byte := N.
Definition bytes := list N.

(* A Rust computation that may panic (index out of bounds, overflow in a debug build,
   unwrap on None, failed assert!). *)
Inductive R (A : Type) := Val (a : A) | Panic.
Arguments Val {A}. Arguments Panic {A}.
Definition rbind {A B} (r : R A) (f : A -> R B) : R B :=
  match r with Val a => f a | Panic => Panic end.

Fixpoint bytes_eqb (a b : bytes) : bool :=
  match a, b with
  | [], [] => true
  | x :: a', y :: b' => (x =? y) && bytes_eqb a' b'
  | _, _ => false
  end.

Lemma bytes_eqb_eq a b : bytes_eqb a b = true <-> a = b.
Proof.
  revert b; induction a as [|x a IH]; intros [|y b]; cbn [bytes_eqb]; split; intro H;
    try reflexivity; try discriminate.
  - apply andb_true_iff in H as [H1 H2]. apply N.eqb_eq in H1. apply IH in H2. congruence.
  - inversion H; subst. apply andb_true_iff; split; [apply N.eqb_refl | apply IH; reflexivity].
Qed.

Lemma bytes_eqb_refl a : bytes_eqb a a = true.
Proof. apply bytes_eqb_eq; reflexivity. Qed.

Lemma bytes_eqb_neq a b : bytes_eqb a b = false <-> a <> b.
Proof.
  split; intro H.
  - intro E. apply bytes_eqb_eq in E. congruence.
  - destruct (bytes_eqb a b) eqn:E; [|reflexivity]. apply bytes_eqb_eq in E. contradiction.
Qed.

Definition u64_max : N := 18446744073709551615.
Definition u16_mod (n : N) : N := n mod 65536.
Definition lower_byte (b : N) : N := if (65 <=? b) && (b <=? 90) then b + 32 else b.

Fixpoint sumN (l : list N) : N := match l with [] => 0 | x :: r => x + sumN r end.
Definition lenN {A} (l : list A) : N := N.of_nat (length l).
