(* Canonical result values shared by every model driver and the Rust harness.
   The harness prints the implementation's observable result as a term of type [V];
   the model driver computes a [V]; [V_eqb] decides the correspondence inside Coq. *)
From Coq Require Import List NArith String Ascii Bool.
Import ListNotations.
Open Scope N_scope.

Inductive V :=
| VN (n : N)                       (* number *)
| VH (hex : string)                (* byte string, lower-case hex *)
| VT (tag : string) (args : list V)(* tagged tuple *)
| VL (items : list V).             (* list *)

Fixpoint V_eqb (a b : V) {struct a} : bool :=
  let fix go (xs ys : list V) {struct xs} : bool :=
      match xs, ys with
      | [], [] => true
      | x :: xs', y :: ys' => V_eqb x y && go xs' ys'
      | _, _ => false
      end in
  match a, b with
  | VN x, VN y => N.eqb x y
  | VH x, VH y => String.eqb x y
  | VT s xs, VT t ys => String.eqb s t && go xs ys
  | VL xs, VL ys => go xs ys
  | _, _ => false
  end.

Definition hexdigit (n : N) : ascii :=
  ascii_of_N (if n <? 10 then 48 + n else 87 + n).

Fixpoint hex_of_bytes (l : list N) : string :=
  match l with
  | [] => EmptyString
  | b :: r => String (hexdigit (b / 16)) (String (hexdigit (b mod 16)) (hex_of_bytes r))
  end.

Definition hexval_ascii (a : ascii) : N :=
  let n := N_of_ascii a in
  if (48 <=? n) && (n <=? 57) then n - 48
  else if (97 <=? n) && (n <=? 102) then n - 87
  else if (65 <=? n) && (n <=? 70) then n - 55 else 0.

(* [hx "0d0a"] = [13; 10] : the harness writes every byte string of a case this way *)
Fixpoint hx (s : string) : list N :=
  match s with
  | String a (String b r) => (hexval_ascii a * 16 + hexval_ascii b) :: hx r
  | _ => []
  end.

Definition VBytes (l : list N) : V := VH (hex_of_bytes l).
Definition VBool (b : bool) : V := VN (if b then 1 else 0).
Definition VOpt {A} (f : A -> V) (o : option A) : V :=
  match o with None => VT "none" [] | Some a => VT "some" [f a] end.
Definition VNat (n : nat) : V := VN (N.of_nat n).

(* one correspondence line: index, agreement *)
Definition chk {C} (i : N) (run : C -> V) (c : C) (expect : V) : N * bool :=
  (i, V_eqb (run c) expect).
