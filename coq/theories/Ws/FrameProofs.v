(* Proofs about Parser::parse_metadata / parse: never panics, total characterisation [pm],
   stability under appended bytes. *)
From AV Require Import Lib.Base Ws.Mask Ws.MaskProofs Ws.Frame.

Lemma lenN_nil {A} : lenN (@nil A) = 0.
Proof. reflexivity. Qed.
Lemma lenN_cons {A} (x : A) l : lenN (x :: l) = 1 + lenN l.
Proof. unfold lenN. cbn [length]. lia. Qed.
Lemma lenN_app {A} (a b : list A) : lenN (a ++ b) = lenN a + lenN b.
Proof. unfold lenN. rewrite app_length. lia. Qed.

Lemma index_nth src i : N.of_nat i < lenN src -> index src i = Val (nth i src 0).
Proof.
  unfold index, lenN. intro H. destruct (nth_error src i) eqn:E.
  - f_equal. symmetry. apply nth_error_nth. exact E.
  - apply nth_error_None in E. lia.
Qed.

Lemma take_val n : forall l, (n <= length l)%nat -> take n l = Val (firstn n l).
Proof.
  induction n as [|n IH]; intros l H; cbn [take firstn]; [reflexivity|].
  destruct l as [|x l]; [cbn in H; lia|]. rewrite IH by (cbn in H; lia). reflexivity.
Qed.

Lemma slice_val src i n : N.of_nat n + i <= lenN src ->
  slice src i n = Val (firstn n (skipn (N.to_nat i) src)).
Proof.
  intros H. unfold slice. apply take_val. rewrite skipn_length. unfold lenN in H. lia.
Qed.

(* parse_metadata with total accessors *)
Definition pm (src : bytes) (server : bool) : res (option meta) :=
  let chunk_len := lenN src in
  if chunk_len <? 2 then Ok None else
  let first := nth 0 src 0 in
  let second := nth 1 src 0 in
  let finished := negb (N.land first 128 =? 0) in
  let masked := negb (N.land second 128 =? 0) in
  if negb masked && server then Err UnmaskedFrame
  else if masked && negb server then Err MaskedFrame
  else
  let opcode := opcode_of_u8 (N.land first 15) in
  if opcode_is_bad opcode then Err (InvalidOpcode (N.land first 15))
  else
    let len := N.land second 127 in
    let lr :=
      if len =? 126 then
        if chunk_len <? 4 then None else Some (from_be (firstn 2 (skipn 2 src)), 4)
      else if len =? 127 then
        if chunk_len <? 10 then None else Some (from_be (firstn 8 (skipn 2 src)), 10)
      else Some (len, 2) in
    match lr with
    | None => Ok None
    | Some (length, idx) =>
      if server then
        if chunk_len <? idx + 4 then Ok None
        else Ok (Some (idx + 4, finished, opcode, length, Some (firstn 4 (skipn (N.to_nat idx) src))))
      else Ok (Some (idx, finished, opcode, length, None))
    end.

(* the guards of the code protect every index and slice: no panic *)
Lemma parse_metadata_pm src server : parse_metadata src server = Val (pm src server).
Proof.
  unfold parse_metadata, pm.
  destruct (lenN src <? 2) eqn:E2; [reflexivity|].
  rewrite !index_nth by (cbn; lia). cbn [rbind].
  destruct (negb (negb (N.land (nth 1 src 0) 128 =? 0)) && server); [reflexivity|].
  destruct (negb (N.land (nth 1 src 0) 128 =? 0) && negb server); [reflexivity|].
  destruct (opcode_is_bad (opcode_of_u8 (N.land (nth 0 src 0) 15))); [reflexivity|].
  destruct (N.land (nth 1 src 0) 127 =? 126) eqn:E126.
  - destruct (lenN src <? 4) eqn:E4; [reflexivity|].
    rewrite slice_val by (cbn; lia). cbn [rbind].
    destruct server; [|reflexivity].
    destruct (lenN src <? 4 + 4) eqn:E8; [reflexivity|].
    rewrite slice_val by (cbn; lia). reflexivity.
  - destruct (N.land (nth 1 src 0) 127 =? 127) eqn:E127.
    + destruct (lenN src <? 10) eqn:E10; [reflexivity|].
      rewrite slice_val by (cbn; lia). cbn [rbind].
      destruct server; [|reflexivity].
      destruct (lenN src <? 10 + 4) eqn:E14; [reflexivity|].
      rewrite slice_val by (cbn; lia). reflexivity.
    + cbn [rbind]. destruct server; [|reflexivity].
      destruct (lenN src <? 2 + 4) eqn:E6; [reflexivity|].
      rewrite slice_val by (cbn; lia). reflexivity.
Qed.

(* ---------- what a successful metadata parse guarantees ---------- *)
Lemma pm_some_bounds src server idx fin op len mask :
  pm src server = Ok (Some (idx, fin, op, len, mask)) ->
  2 <= idx /\ idx <= lenN src /\ idx <= 14 /\ opcode_is_bad op = false /\
  (server = true -> exists k, mask = Some k /\ length k = 4%nat) /\ (server = false -> mask = None).
Proof.
  unfold pm.
  destruct (lenN src <? 2) eqn:E2; [discriminate|].
  destruct (negb (negb (N.land (nth 1 src 0) 128 =? 0)) && server); [discriminate|].
  destruct (negb (N.land (nth 1 src 0) 128 =? 0) && negb server); [discriminate|].
  destruct (opcode_is_bad (opcode_of_u8 (N.land (nth 0 src 0) 15))) eqn:Eb; [discriminate|].
  assert (Hk : forall i, lenN src <? i + 4 = false -> length (firstn 4 (skipn (N.to_nat i) src)) = 4%nat).
  { intros i Hi. rewrite firstn_length, skipn_length. unfold lenN in Hi. lia. }
  destruct (N.land (nth 1 src 0) 127 =? 126) eqn:E126;
    [destruct (lenN src <? 4) eqn:E4; [discriminate|]
    |destruct (N.land (nth 1 src 0) 127 =? 127) eqn:E127;
      [destruct (lenN src <? 10) eqn:E10; [discriminate|]|]];
    (destruct server;
     [match goal with |- context [lenN src <? ?i + 4] => destruct (lenN src <? i + 4) eqn:Em; [discriminate|] end|]);
    intro H; injection H; intros; subst; repeat split; try lia; try discriminate; try assumption;
    try (intros _; reflexivity);
    try (intros _; eexists; split; [reflexivity|
         match goal with Em : (lenN src <? ?i + 4) = false |- _ => exact (Hk i Em) end]).
Qed.

(* ---------- stability under appended bytes ---------- *)
Lemma firstn_skipn_app (n i : nat) (a b : bytes) : (i + n <= length a)%nat ->
  firstn n (skipn i (a ++ b)) = firstn n (skipn i a).
Proof.
  intro H. rewrite skipn_app. rewrite firstn_app.
  replace (n - length (skipn i a))%nat with 0%nat by (rewrite skipn_length; lia).
  cbn [firstn]. apply app_nil_r.
Qed.

Lemma nth_app_l (i : nat) (a b : bytes) : N.of_nat i < lenN a -> nth i (a ++ b) 0 = nth i a 0.
Proof. intro H. apply app_nth1. unfold lenN in H. lia. Qed.

(* either the header is still incomplete, or more bytes do not change what was read *)
Lemma pm_app src more server : pm src server = Ok None \/ pm (src ++ more) server = pm src server.
Proof.
  unfold pm. rewrite lenN_app.
  destruct (lenN src <? 2) eqn:E2; [left; reflexivity|].
  replace (lenN src + lenN more <? 2) with false by lia.
  rewrite !nth_app_l by (cbn; lia).
  destruct (negb (negb (N.land (nth 1 src 0) 128 =? 0)) && server); [right; reflexivity|].
  destruct (negb (N.land (nth 1 src 0) 128 =? 0) && negb server); [right; reflexivity|].
  destruct (opcode_is_bad (opcode_of_u8 (N.land (nth 0 src 0) 15))); [right; reflexivity|].
  destruct (N.land (nth 1 src 0) 127 =? 126) eqn:E126.
  - destruct (lenN src <? 4) eqn:E4; [left; reflexivity|].
    replace (lenN src + lenN more <? 4) with false by lia.
    rewrite (firstn_skipn_app 2 2) by (unfold lenN in E4; lia).
    destruct server; [|right; reflexivity].
    destruct (lenN src <? 4 + 4) eqn:E8; [left; reflexivity|].
    replace (lenN src + lenN more <? 4 + 4) with false by lia.
    rewrite (firstn_skipn_app 4 (N.to_nat 4)) by (unfold lenN in E8; lia). right; reflexivity.
  - destruct (N.land (nth 1 src 0) 127 =? 127) eqn:E127.
    + destruct (lenN src <? 10) eqn:E10; [left; reflexivity|].
      replace (lenN src + lenN more <? 10) with false by lia.
      rewrite (firstn_skipn_app 8 2) by (unfold lenN in E10; lia).
      destruct server; [|right; reflexivity].
      destruct (lenN src <? 10 + 4) eqn:E14; [left; reflexivity|].
      replace (lenN src + lenN more <? 10 + 4) with false by lia.
      rewrite (firstn_skipn_app 4 (N.to_nat 10)) by (unfold lenN in E14; lia). right; reflexivity.
    + destruct server; [|right; reflexivity].
      destruct (lenN src <? 2 + 4) eqn:E6; [left; reflexivity|].
      replace (lenN src + lenN more <? 2 + 4) with false by lia.
      rewrite (firstn_skipn_app 4 (N.to_nat 2)) by (unfold lenN in E6; lia). right; reflexivity.
Qed.
