(* Parser::parse and Codec::decode: total characterisations (hence no panic), stability under
   appended bytes, progress, payload bound. *)
From AV Require Import Lib.Base Ws.Mask Ws.MaskProofs Ws.Frame Ws.FrameProofs Ws.Codec.

Definition unmask (mask : option bytes) (data : bytes) : bytes :=
  match mask with Some mk => apply_mask data mk | None => data end.

Definition pp (src : bytes) (server : bool) (max_size : N) : parsed :=
  match pm src server with
  | Err e => PErr e src
  | Ok None => PNone None
  | Ok (Some (idx, finished, opcode, length, mask)) =>
    match checked_add idx length with
    | None => PErr Overflow src
    | Some frame_len =>
      if lenN src <? frame_len then
        if max_size <? length then PErr Overflow src
        else match checked_add idx (N.min length max_size) with
             | None => PErr Overflow src
             | Some c => PNone (Some c)
             end
      else
        let src1 := skipn (N.to_nat idx) src in
        if max_size <? length then PErr Overflow (skipn (N.to_nat length) src1)
        else if length =? 0 then PFrame finished opcode None src1
        else
          let data := firstn (N.to_nat length) src1 in
          let src2 := skipn (N.to_nat length) src1 in
          match opcode, 125 <? length with
          | OpPing, true | OpPong, true => PErr (InvalidLength length) src2
          | OpClose, true => PFrame true OpClose None src2
          | _, _ => PFrame finished opcode (Some (unmask mask data)) src2
          end
    end
  end.

Lemma lenN_skipn (n : N) (l : bytes) : lenN (skipn (N.to_nat n) l) = lenN l - n.
Proof. unfold lenN. rewrite skipn_length. lia. Qed.

Lemma checked_add_some a b c : checked_add a b = Some c -> c = a + b.
Proof. unfold checked_add. destruct (a + b <=? usize_max); congruence. Qed.

Lemma parse_pp src server max_size : parse src server max_size = Val (pp src server max_size).
Proof.
  unfold parse, pp. rewrite parse_metadata_pm. cbn [rbind].
  destruct (pm src server) as [[m|]|e] eqn:Epm; try reflexivity.
  destruct m as ((((idx, fin), op), len), mask).
  destruct (pm_some_bounds _ _ _ _ _ _ _ Epm) as (Hi2 & Hil & _).
  destruct (checked_add idx len) as [fl|] eqn:Efl; [|reflexivity].
  apply checked_add_some in Efl. subst fl.
  destruct (lenN src <? idx + len) eqn:El.
  { destruct (max_size <? len); [reflexivity|]. destruct (checked_add idx (N.min len max_size)); reflexivity. }
  unfold advance at 1. replace (lenN src <? idx) with false by lia. cbn [rbind].
  destruct (max_size <? len) eqn:Emax.
  - unfold advance. rewrite lenN_skipn. replace (lenN src - idx <? len) with false by lia. reflexivity.
  - destruct (len =? 0) eqn:E0; [reflexivity|].
    unfold split_to. rewrite lenN_skipn. replace (lenN src - idx <? len) with false by lia.
    cbn [rbind]. destruct op, (125 <? len), mask; reflexivity.
Qed.

Theorem parse_never_panics src server max_size : parse src server max_size <> Panic.
Proof. rewrite parse_pp. discriminate. Qed.

(* ---------- progress and payload bound ---------- *)
Lemma pp_frame_facts src server max_size fin op pl rest :
  pp src server max_size = PFrame fin op pl rest ->
  lenN rest + 2 <= lenN src /\ (exists consumed, src = consumed ++ rest) /\
  match pl with Some p => lenN p <= max_size /\ 0 < lenN p | None => True end.
Proof.
  unfold pp. destruct (pm src server) as [[m|]|e] eqn:Epm; try discriminate.
  destruct m as ((((idx, f), o), len), mask).
  destruct (pm_some_bounds _ _ _ _ _ _ _ Epm) as (Hi2 & Hil & _).
  destruct (checked_add idx len) as [fl|] eqn:Efl; [|discriminate].
  apply checked_add_some in Efl. subst fl.
  destruct (lenN src <? idx + len) eqn:El.
  { destruct (max_size <? len); [discriminate|]. destruct (checked_add _ _); discriminate. }
  destruct (max_size <? len) eqn:Emax; [discriminate|].
  assert (Hsuf : forall n, exists consumed, src = consumed ++ skipn n src).
  { intro n. exists (firstn n src). symmetry. apply firstn_skipn. }
  destruct (len =? 0) eqn:E0.
  - intro H; injection H; intros; subst. rewrite lenN_skipn. repeat split; try lia. apply Hsuf.
  - assert (Hdata : lenN (unmask mask (firstn (N.to_nat len) (skipn (N.to_nat idx) src))) = len).
    { unfold unmask, apply_mask, apply_mask_fallback, lenN. destruct mask; rewrite ?fallback_at_length;
        rewrite firstn_length, skipn_length; unfold lenN in *; lia. }
    assert (Hrest : lenN (skipn (N.to_nat len) (skipn (N.to_nat idx) src)) + 2 <= lenN src)
      by (rewrite !lenN_skipn; lia).
    assert (Hs2 : exists consumed, src = consumed ++ skipn (N.to_nat len) (skipn (N.to_nat idx) src)).
    { exists (firstn (N.to_nat idx) src ++ firstn (N.to_nat len) (skipn (N.to_nat idx) src)).
      rewrite <- app_assoc, !firstn_skipn. reflexivity. }
    destruct o, (125 <? len); intro H; try discriminate; injection H; intros; subst;
      repeat split; try assumption; try (rewrite Hdata; lia).
Qed.

(* ---------- stability under appended bytes ---------- *)
Lemma skipn_app_l (n : N) (a b : bytes) : n <= lenN a -> skipn (N.to_nat n) (a ++ b) = skipn (N.to_nat n) a ++ b.
Proof.
  intro H. rewrite skipn_app. replace (N.to_nat n - length a)%nat with 0%nat by (unfold lenN in H; lia).
  reflexivity.
Qed.
Lemma firstn_app_l (n : N) (a b : bytes) : n <= lenN a -> firstn (N.to_nat n) (a ++ b) = firstn (N.to_nat n) a.
Proof.
  intro H. rewrite firstn_app. replace (N.to_nat n - length a)%nat with 0%nat by (unfold lenN in H; lia).
  cbn [firstn]. apply app_nil_r.
Qed.

Lemma pp_app src more server max_size :
  match pp src server max_size with
  | PNone _ => True
  | PFrame fin op pl rest => pp (src ++ more) server max_size = PFrame fin op pl (rest ++ more)
  | PErr e _ => exists rest', pp (src ++ more) server max_size = PErr e rest'
  end.
Proof.
  unfold pp at 1.
  destruct (pm_app src more server) as [En|Eapp]; [rewrite En; exact I|].
  destruct (pm src server) as [[m|]|e] eqn:Epm; [| exact I |].
  2:{ unfold pp. rewrite Eapp. eexists; reflexivity. }
  destruct m as ((((idx, f), o), len), mask).
  destruct (pm_some_bounds _ _ _ _ _ _ _ Epm) as (Hi2 & Hil & _).
  unfold pp. rewrite Eapp. rewrite lenN_app.
  destruct (checked_add idx len) as [fl|] eqn:Efl; [|eexists; reflexivity].
  assert (Hov : idx + len <= usize_max)
    by (unfold checked_add in Efl; destruct (idx + len <=? usize_max) eqn:E; [lia|discriminate]).
  apply checked_add_some in Efl. subst fl.
  destruct (lenN src <? idx + len) eqn:El.
  - destruct (max_size <? len) eqn:Emax.
    + destruct (lenN src + lenN more <? idx + len); eexists; reflexivity.
    + destruct (checked_add idx (N.min len max_size)) eqn:Ec; [exact I|].
      exfalso. unfold checked_add in Ec.
      destruct (idx + N.min len max_size <=? usize_max) eqn:E1; [discriminate|]. lia.
  - replace (lenN src + lenN more <? idx + len) with false by lia.
    rewrite (skipn_app_l idx) by lia.
    destruct (max_size <? len) eqn:Emax; [eexists; reflexivity|].
    destruct (len =? 0) eqn:E0; [reflexivity|].
    rewrite (skipn_app_l len) by (rewrite lenN_skipn; lia).
    rewrite (firstn_app_l len) by (rewrite lenN_skipn; lia).
    destruct o, (125 <? len); try reflexivity; eexists; reflexivity.
Qed.

(* ---------- Codec::decode ---------- *)
Definition pcp (lossy : bytes -> bytes) (payload : bytes) : option close_reason :=
  if 2 <=? lenN payload then
    Some (from_be (firstn 2 payload), if 2 <? lenN payload then Some (lossy (skipn 2 payload)) else None)
  else None.

Lemma parse_close_payload_pcp lossy payload : parse_close_payload lossy payload = Val (pcp lossy payload).
Proof.
  unfold parse_close_payload, pcp. destruct (2 <=? lenN payload) eqn:E; [|reflexivity].
  rewrite take_val by (unfold lenN in E; lia). reflexivity.
Qed.

Definition dd (lossy : bytes -> bytes) (c : codec) (src : bytes) : decoded :=
  match pp src (c_server c) (c_max c) with
  | PNone _ => DNone
  | PErr e rest => DErr e c rest
  | PFrame finished opcode payload rest =>
    if negb finished then
      match opcode with
      | OpContinue =>
          if c_cont c then DFrame (FContinuation (Continue (pl_bytes payload))) c rest
          else DErr ContinuationNotStarted c rest
      | OpBinary =>
          if negb (c_cont c) then DFrame (FContinuation (FirstBinary (pl_bytes payload))) (set_cont c true) rest
          else DErr ContinuationStarted c rest
      | OpText =>
          if negb (c_cont c) then DFrame (FContinuation (FirstText (pl_bytes payload))) (set_cont c true) rest
          else DErr ContinuationStarted c rest
      | _ => DErr (ContinuationFragment opcode) c rest
      end
    else
      match opcode with
      | OpContinue =>
          if c_cont c then DFrame (FContinuation (Last (pl_bytes payload))) (set_cont c false) rest
          else DErr ContinuationNotStarted c rest
      | OpBad => DErr BadOpCode c rest
      | OpClose =>
          match payload with
          | Some pl => DFrame (FClose (pcp lossy pl)) c rest
          | None => DFrame (FClose None) c rest
          end
      | OpPing => DFrame (FPing (pl_bytes payload)) c rest
      | OpPong => DFrame (FPong (pl_bytes payload)) c rest
      | OpBinary => if c_cont c then DErr ContinuationStarted c rest else DFrame (FBinary (pl_bytes payload)) c rest
      | OpText => if c_cont c then DErr ContinuationStarted c rest else DFrame (FText (pl_bytes payload)) c rest
      end
  end.

Lemma decode_dd lossy c src : decode lossy c src = Val (dd lossy c src).
Proof.
  unfold decode, dd. rewrite parse_pp. cbn [rbind].
  destruct (pp src (c_server c) (c_max c)) as [r|fin op pl rest|e rest]; try reflexivity.
  destruct fin, op, (c_cont c), pl; cbn [negb]; try reflexivity;
    rewrite parse_close_payload_pcp; reflexivity.
Qed.

Theorem decode_never_panics lossy c src : decode lossy c src <> Panic.
Proof. rewrite decode_dd. discriminate. Qed.

Lemma dd_app lossy c src more :
  match dd lossy c src with
  | DNone => True
  | DFrame f c' rest => dd lossy c (src ++ more) = DFrame f c' (rest ++ more)
  | DErr e c' _ => exists rest', dd lossy c (src ++ more) = DErr e c' rest'
  end.
Proof.
  unfold dd. pose proof (pp_app src more (c_server c) (c_max c)) as H.
  destruct (pp src (c_server c) (c_max c)) as [r|fin op pl rest|e rest]; [exact I| |].
  - rewrite H. destruct fin, op, (c_cont c), pl; cbn [negb]; try reflexivity; eexists; reflexivity.
  - destruct H as (rest' & H). rewrite H. eexists; reflexivity.
Qed.

Lemma dd_progress lossy c src f c' rest : dd lossy c src = DFrame f c' rest ->
  lenN rest + 2 <= lenN src /\ (exists consumed, src = consumed ++ rest) /\
  c_server c' = c_server c /\ c_max c' = c_max c.
Proof.
  unfold dd. destruct (pp src (c_server c) (c_max c)) as [r|fin op pl rest0|e rest0] eqn:Epp; try discriminate.
  destruct (pp_frame_facts _ _ _ _ _ _ _ Epp) as (Hl & Hs & _).
  destruct fin, op, (c_cont c), pl; cbn [negb]; intro H; try discriminate; injection H; intros; subst;
    repeat split; try assumption; reflexivity.
Qed.
