(* Model of ws::verify_handshake (actix-http/src/ws/mod.rs) with RequestHead::upgrade()
   (requests/head.rs) and http::HeaderValue::to_str. The request is its method and its header
   list (lower-case names, in arrival order); HeaderMap::get returns the first value of a name
   (C18). No proofs here. *)
From AV Require Import Lib.Base.

Inductive hs_err :=
| GetMethodRequired | NoWebsocketUpgrade | NoConnectionUpgrade | NoVersionHeader | UnsupportedVersion
| BadWebsocketKey.

Definition headers := list (bytes * bytes).

Fixpoint hget (name : bytes) (h : headers) : option bytes :=
  match h with
  | [] => None
  | (n, v) :: r => if bytes_eqb n name then Some v else hget name r
  end.
Definition contains_key (name : bytes) (h : headers) : bool :=
  match hget name h with Some _ => true | None => false end.

(* http::header::value::is_visible_ascii / HeaderValue::to_str *)
Definition is_visible_ascii (b : N) : bool := ((32 <=? b) && (b <? 127)) || (b =? 9).
Definition to_str (v : bytes) : option bytes := if forallb is_visible_ascii v then Some v else None.

Fixpoint is_prefix (p s : bytes) : bool :=
  match p, s with
  | [], _ => true
  | x :: p', y :: s' => (x =? y) && is_prefix p' s'
  | _ :: _, [] => false
  end.
(* str::contains *)
Fixpoint contains (needle hay : bytes) : bool :=
  is_prefix needle hay || match hay with [] => false | _ :: r => contains needle r end.

Definition to_ascii_lowercase (s : bytes) : bytes := map lower_byte s.

Definition s_get : bytes := [71; 69; 84].
Definition s_upgrade : bytes := [117; 112; 103; 114; 97; 100; 101].
Definition s_connection : bytes := [99; 111; 110; 110; 101; 99; 116; 105; 111; 110].
Definition s_websocket : bytes := [119; 101; 98; 115; 111; 99; 107; 101; 116].
Definition s_version : bytes :=   (* sec-websocket-version *)
  [115; 101; 99; 45; 119; 101; 98; 115; 111; 99; 107; 101; 116; 45; 118; 101; 114; 115; 105; 111; 110].
Definition s_key : bytes :=       (* sec-websocket-key *)
  [115; 101; 99; 45; 119; 101; 98; 115; 111; 99; 107; 101; 116; 45; 107; 101; 121].

(* hdr.to_str().map(|s| s.to_ascii_lowercase().contains(word)).unwrap_or(false) on the first value *)
Definition header_has (name word : bytes) (h : headers) : bool :=
  match hget name h with
  | Some hdr => match to_str hdr with
                | Some s => contains word (to_ascii_lowercase s)
                | None => false
                end
  | None => false
  end.

(* None = Ok(()) *)
Definition verify_handshake (method : bytes) (h : headers) : option hs_err :=
  if negb (bytes_eqb method s_get) then Some GetMethodRequired
  else if negb (header_has s_upgrade s_websocket h) then Some NoWebsocketUpgrade
  else if negb (header_has s_connection s_upgrade h) then Some NoConnectionUpgrade   (* req.upgrade() *)
  else if negb (contains_key s_version h) then Some NoVersionHeader
  else
    let supported_ver :=
      match hget s_version h with
      | Some hdr => bytes_eqb hdr [49; 51] || bytes_eqb hdr [56] || bytes_eqb hdr [55]
      | None => false
      end in
    if negb supported_ver then Some UnsupportedVersion
    else if negb (contains_key s_key h) then Some BadWebsocketKey
    else None.
