(* A frame announcing more than max_size is refused as soon as its header is complete. *)
From AV Require Import Lib.Base Ws.Mask Ws.MaskProofs Ws.Frame Ws.FrameProofs Ws.Codec Ws.ParseProofs
  Ws.FrameSpec Ws.SpecProofs Ws.HdrProofs Ws.RoundProofs.

Lemma oversize_refused lossy c h tail :
  hdr_ok h -> is_some (h_key h) = c_server c -> opcode_known (h_op h) = true ->
  c_max c < h_len h ->
  exists r, dd lossy c (hdr_bytes h ++ tail) = DErr Overflow c r.
Proof.
  intros Hok Hr Hk Hmax. pose proof Hok as (_ & Ho & _).
  unfold dd, pp. rewrite pm_hdr by assumption. unfold pm_expected.
  rewrite Hr, (known_not_bad _ Ho Hk).
  replace (negb (c_server c) && c_server c) with false by (destruct (c_server c); reflexivity).
  replace (c_server c && negb (c_server c)) with false by (destruct (c_server c); reflexivity).
  destruct (checked_add (lenN (hdr_bytes h)) (h_len h)) as [fl|]; [|eexists; reflexivity].
  replace (c_max c <? h_len h) with true by lia.
  destruct (lenN (hdr_bytes h ++ tail) <? fl); eexists; reflexivity.
Qed.
