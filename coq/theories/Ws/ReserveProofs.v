(* The parser itself never asks for more capacity than max_size plus a header. *)
From AV Require Import Lib.Base Ws.Mask Ws.Frame Ws.FrameProofs Ws.Codec Ws.ParseProofs.

Lemma reserve_bounded src server max_size c :
  pp src server max_size = PNone (Some c) -> c <= max_size + 14.
Proof.
  unfold pp. destruct (pm src server) as [[m|]|e] eqn:Epm; try discriminate.
  destruct m as ((((idx, f), o), len), mask).
  destruct (pm_some_bounds _ _ _ _ _ _ _ Epm) as (_ & _ & H14 & _).
  destruct (checked_add idx len) as [fl|]; [|discriminate].
  destruct (lenN src <? fl).
  - destruct (max_size <? len); [discriminate|].
    destruct (checked_add idx (N.min len max_size)) as [c'|] eqn:Ec; [|discriminate].
    apply checked_add_some in Ec. intro H; injection H; intros; subst. lia.
  - destruct (max_size <? len); [discriminate|]. destruct (len =? 0); [discriminate|].
    destruct o, (125 <? len); discriminate.
Qed.
