(* Proofs about ws/mask.rs: masking is an involution; the word-wise fast path equals the
   byte-wise loop for every alignment split. *)
From AV Require Import Lib.Base Ws.Mask.

Definition byte_ok (b : N) : Prop := b < 256.
Definition bytes_ok (l : bytes) : Prop := Forall byte_ok l.

(* ---------- involution (no bound on the bytes needed) ---------- *)
Lemma lxor_twice a x : N.lxor (N.lxor a x) x = a.
Proof. rewrite N.lxor_assoc, N.lxor_nilpotent, N.lxor_0_r. reflexivity. Qed.

Lemma fallback_at_involutive buf : forall i m, fallback_at i (fallback_at i buf m) m = buf.
Proof.
  induction buf as [|b r IH]; intros i m; cbn [fallback_at]; [reflexivity|].
  rewrite lxor_twice, IH. reflexivity.
Qed.

Lemma apply_mask_involutive buf m : apply_mask (apply_mask buf m) m = buf.
Proof. apply fallback_at_involutive. Qed.

Lemma fallback_at_length buf : forall i m, length (fallback_at i buf m) = length buf.
Proof. induction buf; intros; cbn [fallback_at length]; [reflexivity|]. rewrite IHbuf. reflexivity. Qed.

Lemma apply_mask_length buf m : length (apply_mask buf m) = length buf.
Proof. apply fallback_at_length. Qed.

Lemma fallback_at_app a : forall i b m,
  fallback_at i (a ++ b) m = fallback_at i a m ++ fallback_at (i + lenN a) b m.
Proof.
  induction a as [|x a IH]; intros i b m; cbn [fallback_at app].
  - unfold lenN; cbn [length]. replace (i + N.of_nat 0) with i by lia. reflexivity.
  - rewrite IH. replace (i + lenN (x :: a)) with (i + 1 + lenN a) by (unfold lenN; cbn [length]; lia).
    reflexivity.
Qed.

(* ---------- the index only matters modulo 4 ---------- *)
Lemma land3 i : N.land i 3 = i mod 4.
Proof. change 3 with (N.ones 2). rewrite N.land_ones. reflexivity. Qed.

Lemma mask_at_mod m i j : i mod 4 = j mod 4 -> mask_at m i = mask_at m j.
Proof. intro H. unfold mask_at. rewrite !land3, H. reflexivity. Qed.

Lemma fallback_at_mod buf : forall i j m, i mod 4 = j mod 4 -> fallback_at i buf m = fallback_at j buf m.
Proof.
  induction buf as [|b r IH]; intros i j m H; cbn [fallback_at]; [reflexivity|].
  rewrite (mask_at_mod m i j H). f_equal. apply IH.
  rewrite <- (N.add_mod_idemp_l i), <- (N.add_mod_idemp_l j), H by lia. reflexivity.
Qed.

(* ---------- words ---------- *)
Lemma land_lxor_distr a b c : N.land (N.lxor a b) c = N.lxor (N.land a c) (N.land b c).
Proof.
  apply N.bits_inj. intro n. rewrite N.land_spec, !N.lxor_spec, !N.land_spec.
  destruct (N.testbit a n), (N.testbit b n), (N.testbit c n); reflexivity.
Qed.

Definition byte_i (x i : N) : N := (x / 2 ^ (8 * i)) mod 2 ^ 8.

Lemma byte_i_lxor x y i : byte_i (N.lxor x y) i = N.lxor (byte_i x i) (byte_i y i).
Proof.
  unfold byte_i. rewrite <- !N.shiftr_div_pow2, <- !N.land_ones, N.shiftr_lxor, land_lxor_distr.
  reflexivity.
Qed.

Lemma u32_to_le_bytes w :
  u32_to_le w = [byte_i w 0; byte_i w 1; byte_i w 2; byte_i w 3].
Proof.
  unfold u32_to_le, byte_i. change (2 ^ (8 * 0)) with 1. change (2 ^ (8 * 1)) with 256.
  change (2 ^ (8 * 2)) with 65536. change (2 ^ (8 * 3)) with 16777216. change (2 ^ 8) with 256.
  rewrite N.div_1_r. reflexivity.
Qed.

Lemma byte_i_from_le a b c d :
  byte_ok a -> byte_ok b -> byte_ok c -> byte_ok d ->
  let w := a + 256 * (b + 256 * (c + 256 * d)) in
  byte_i w 0 = a /\ byte_i w 1 = b /\ byte_i w 2 = c /\ byte_i w 3 = d.
Proof.
  unfold byte_ok, byte_i. intros Ha Hb Hc Hd. cbv zeta.
  change (2 ^ (8 * 0)) with 1. change (2 ^ (8 * 1)) with 256. change (2 ^ (8 * 2)) with 65536.
  change (2 ^ (8 * 3)) with 16777216. change (2 ^ 8) with 256.
  repeat split; zify; Z.div_mod_to_equations; lia.
Qed.

Lemma xor_word a b c d r0 r1 r2 r3 :
  byte_ok a -> byte_ok b -> byte_ok c -> byte_ok d ->
  byte_ok r0 -> byte_ok r1 -> byte_ok r2 -> byte_ok r3 ->
  u32_to_le (N.lxor (u32_from_le [a; b; c; d]) (u32_from_le [r0; r1; r2; r3])) =
  [N.lxor a r0; N.lxor b r1; N.lxor c r2; N.lxor d r3].
Proof.
  intros. rewrite u32_to_le_bytes, !byte_i_lxor. unfold u32_from_le. cbn [nth].
  destruct (byte_i_from_le a b c d) as (A0 & A1 & A2 & A3); try assumption.
  destruct (byte_i_from_le r0 r1 r2 r3) as (B0 & B1 & B2 & B3); try assumption.
  cbv zeta in *. rewrite A0, A1, A2, A3, B0, B1, B2, B3. reflexivity.
Qed.

(* the rotated mask, as bytes *)
Definition rot (h : N) (m : bytes) : bytes :=
  [mask_at m h; mask_at m (h + 1); mask_at m (h + 2); mask_at m (h + 3)].

Lemma rot_spec m0 m1 m2 m3 h :
  byte_ok m0 -> byte_ok m1 -> byte_ok m2 -> byte_ok m3 -> h < 4 ->
  (if 0 <? h then rotr32 (u32_from_le [m0; m1; m2; m3]) (8 * h) else u32_from_le [m0; m1; m2; m3]) =
  u32_from_le (rot h [m0; m1; m2; m3]).
Proof.
  unfold byte_ok. intros H0 H1 H2 H3 Hh.
  assert (h = 0 \/ h = 1 \/ h = 2 \/ h = 3) as [E|[E|[E|E]]] by lia; subst h; unfold rot.
  - change (0 <? 0) with false. reflexivity.
  - change (0 <? 1) with true.
    change (mask_at [m0; m1; m2; m3] 1) with m1. change (mask_at [m0; m1; m2; m3] (1 + 1)) with m2.
    change (mask_at [m0; m1; m2; m3] (1 + 2)) with m3. change (mask_at [m0; m1; m2; m3] (1 + 3)) with m0.
    unfold u32_from_le, rotr32. cbn [nth].
    change (2 ^ (8 * 1)) with 256. change (2 ^ (32 - 8 * 1)) with 16777216.
    zify; Z.div_mod_to_equations; lia.
  - change (0 <? 2) with true.
    change (mask_at [m0; m1; m2; m3] 2) with m2. change (mask_at [m0; m1; m2; m3] (2 + 1)) with m3.
    change (mask_at [m0; m1; m2; m3] (2 + 2)) with m0. change (mask_at [m0; m1; m2; m3] (2 + 3)) with m1.
    unfold u32_from_le, rotr32. cbn [nth].
    change (2 ^ (8 * 2)) with 65536. change (2 ^ (32 - 8 * 2)) with 65536.
    zify; Z.div_mod_to_equations; lia.
  - change (0 <? 3) with true.
    change (mask_at [m0; m1; m2; m3] 3) with m3. change (mask_at [m0; m1; m2; m3] (3 + 1)) with m0.
    change (mask_at [m0; m1; m2; m3] (3 + 2)) with m1. change (mask_at [m0; m1; m2; m3] (3 + 3)) with m2.
    unfold u32_from_le, rotr32. cbn [nth].
    change (2 ^ (8 * 3)) with 16777216. change (2 ^ (32 - 8 * 3)) with 256.
    zify; Z.div_mod_to_equations; lia.
Qed.
