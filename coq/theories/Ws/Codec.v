(* Model of actix-http/src/ws/codec.rs: Message / Frame / Item, Codec flags, Encoder and Decoder.
   [lossy] stands for String::from_utf8_lossy (std). No proofs here. *)
From AV Require Import Lib.Base Ws.Mask Ws.Frame.

Inductive item := FirstText (b : bytes) | FirstBinary (b : bytes) | Continue (b : bytes) | Last (b : bytes).

Inductive message :=
| MsgText (b : bytes) | MsgBinary (b : bytes) | MsgContinuation (i : item) | MsgPing (b : bytes)
| MsgPong (b : bytes) | MsgClose (r : option close_reason) | MsgNop.

Inductive frame :=
| FText (b : bytes) | FBinary (b : bytes) | FContinuation (i : item) | FPing (b : bytes)
| FPong (b : bytes) | FClose (r : option close_reason).

(* Flags {SERVER, CONTINUATION, W_CONTINUATION} + max_size *)
Record codec := mkCodec { c_server : bool; c_cont : bool; c_wcont : bool; c_max : N }.

Definition codec_new : codec := mkCodec true false false 65536.
Definition with_max_size (c : codec) (n : N) : codec := mkCodec (c_server c) (c_cont c) (c_wcont c) n.
Definition client_mode (c : codec) : codec := mkCodec false (c_cont c) (c_wcont c) (c_max c).
Definition set_cont (c : codec) (v : bool) : codec := mkCodec (c_server c) v (c_wcont c) (c_max c).
Definition set_wcont (c : codec) (v : bool) : codec := mkCodec (c_server c) (c_cont c) v (c_max c).

(* Encoder::encode: new codec state and Ok(dst') / Err (dst untouched). [key]: the random mask. *)
Definition encode (c : codec) (m : message) (dst key : bytes) : codec * res bytes :=
  let mask := negb (c_server c) in
  match m with
  | MsgText b => (c, Ok (write_message dst b OpText true mask key))
  | MsgBinary b => (c, Ok (write_message dst b OpBinary true mask key))
  | MsgPing b => (c, Ok (write_message dst b OpPing true mask key))
  | MsgPong b => (c, Ok (write_message dst b OpPong true mask key))
  | MsgClose r => (c, Ok (write_close dst r mask key))
  | MsgContinuation (FirstText b) =>
      if c_wcont c then (c, Err ContinuationStarted)
      else (set_wcont c true, Ok (write_message dst b OpText false mask key))
  | MsgContinuation (FirstBinary b) =>
      if c_wcont c then (c, Err ContinuationStarted)
      else (set_wcont c true, Ok (write_message dst b OpBinary false mask key))
  | MsgContinuation (Continue b) =>
      if c_wcont c then (c, Ok (write_message dst b OpContinue false mask key))
      else (c, Err ContinuationNotStarted)
  | MsgContinuation (Last b) =>
      if c_wcont c then (set_wcont c false, Ok (write_message dst b OpContinue true mask key))
      else (c, Err ContinuationNotStarted)
  | MsgNop => (c, Ok dst)
  end.

Inductive decoded :=
| DNone                                       (* Ok(None): more bytes needed, src untouched *)
| DFrame (f : frame) (c : codec) (rest : bytes)
| DErr (e : perr) (c : codec) (rest : bytes).

(* payload.map(|pl| pl.freeze()).unwrap_or_else(Bytes::new) *)
Definition pl_bytes (p : option bytes) : bytes := match p with Some b => b | None => [] end.

Definition decode (lossy : bytes -> bytes) (c : codec) (src : bytes) : R decoded :=
  rbind (parse src (c_server c) (c_max c)) (fun p =>
  match p with
  | PNone _ => Val DNone
  | PErr e rest => Val (DErr e c rest)
  | PFrame finished opcode payload rest =>
    if negb finished then
      match opcode with
      | OpContinue =>
          if c_cont c then Val (DFrame (FContinuation (Continue (pl_bytes payload))) c rest)
          else Val (DErr ContinuationNotStarted c rest)
      | OpBinary =>
          if negb (c_cont c) then
            Val (DFrame (FContinuation (FirstBinary (pl_bytes payload))) (set_cont c true) rest)
          else Val (DErr ContinuationStarted c rest)
      | OpText =>
          if negb (c_cont c) then
            Val (DFrame (FContinuation (FirstText (pl_bytes payload))) (set_cont c true) rest)
          else Val (DErr ContinuationStarted c rest)
      | _ => Val (DErr (ContinuationFragment opcode) c rest)
      end
    else
      match opcode with
      | OpContinue =>
          if c_cont c then
            Val (DFrame (FContinuation (Last (pl_bytes payload))) (set_cont c false) rest)
          else Val (DErr ContinuationNotStarted c rest)
      | OpBad => Val (DErr BadOpCode c rest)
      | OpClose =>
          match payload with
          | Some pl => rbind (parse_close_payload lossy pl) (fun r => Val (DFrame (FClose r) c rest))
          | None => Val (DFrame (FClose None) c rest)
          end
      | OpPing => Val (DFrame (FPing (pl_bytes payload)) c rest)
      | OpPong => Val (DFrame (FPong (pl_bytes payload)) c rest)
      | OpBinary =>
          (* a new data message may not start inside a fragmented one *)
          if c_cont c then Val (DErr ContinuationStarted c rest)
          else Val (DFrame (FBinary (pl_bytes payload)) c rest)
      | OpText =>
          if c_cont c then Val (DErr ContinuationStarted c rest)
          else Val (DFrame (FText (pl_bytes payload)) c rest)
      end
  end).
