(* What parse_metadata reads from any RFC-layout header. *)
From AV Require Import Lib.Base Ws.Mask Ws.MaskProofs Ws.Frame Ws.FrameProofs Ws.Codec Ws.ParseProofs
  Ws.FrameSpec Ws.SpecProofs.

Definition pm_expected (h : fhdr) (server : bool) : res (option meta) :=
  if negb (is_some (h_key h)) && server then Err UnmaskedFrame
  else if is_some (h_key h) && negb server then Err MaskedFrame
  else if opcode_is_bad (opcode_of_u8 (h_op h)) then Err (InvalidOpcode (h_op h))
  else Ok (Some (lenN (hdr_bytes h), h_fin h, opcode_of_u8 (h_op h), h_len h, h_key h)).

Lemma first_byte fin rsv op : rsv < 8 -> op < 16 ->
  let first := 128 * b2n fin + 16 * rsv + op in
  negb (N.land first 128 =? 0) = fin /\ N.land first 15 = op.
Proof.
  intros Hr Ho first. subst first. split.
  - rewrite land128 by (destruct fin; cbn [b2n]; lia). destruct fin; cbn [b2n]; lia.
  - rewrite land15. destruct fin; cbn [b2n]; zify; Z.div_mod_to_equations; lia.
Qed.

Lemma second_byte m code : code < 128 ->
  let second := 128 * b2n m + code in
  negb (N.land second 128 =? 0) = m /\ N.land second 127 = code.
Proof.
  intros Hc second. subst second. split.
  - rewrite land128 by (destruct m; cbn [b2n]; lia). destruct m; cbn [b2n]; lia.
  - rewrite land127. destruct m; cbn [b2n]; zify; Z.div_mod_to_equations; lia.
Qed.

Lemma lenN_to_be k n : lenN (to_be k n) = N.of_nat k.
Proof. unfold lenN. rewrite to_be_length. reflexivity. Qed.

Lemma skipn_cons2 n a b (l : bytes) : skipn (S (S n)) (a :: b :: l) = skipn n l.
Proof. reflexivity. Qed.

Ltac fin_len Hk :=
  do 4 f_equal; unfold hdr_bytes, lenN;
  cbn [h_fin h_rsv h_op h_key h_lform h_len length app];
  rewrite ?app_length, ?to_be_length, ?Hk; reflexivity.

Lemma pm_hdr h tail server : hdr_ok h -> pm (hdr_bytes h ++ tail) server = pm_expected h server.
Proof.
  destruct h as [fin rsv op key lf len]. unfold hdr_ok, hdr_bytes, pm_expected.
  cbn [h_fin h_rsv h_op h_key h_lform h_len]. intros (Hr & Ho & Hk & Hl).
  pose proof (first_byte fin rsv op Hr Ho) as HF. cbv zeta in HF. destruct HF as (Ff & Fo).
  assert (Hcode : match lf with L7 => len | L16 => 126 | L64 => 127 end < 128) by (destruct lf; lia).
  pose proof (second_byte (is_some key) _ Hcode) as HS. cbv zeta in HS. destruct HS as (Sm & Sc).
  unfold pm. cbn [app nth]. rewrite Ff, Fo, Sm, Sc. rewrite !lenN_cons.
  match goal with |- context [?x <? 2] => replace (x <? 2) with false by lia end.
  destruct key as [k|], server; cbn [is_some negb andb]; try reflexivity;
    (destruct (opcode_is_bad (opcode_of_u8 op)); [reflexivity|]).
  - (* masked frame read by a server *)
    assert (Hk4 : lenN k = 4) by (unfold lenN; rewrite Hk; reflexivity).
    destruct lf.
    + replace (len =? 126) with false by lia. replace (len =? 127) with false by lia.
      cbn [app]. rewrite lenN_app, Hk4.
      replace (1 + (1 + (4 + lenN tail)) <? 2 + 4) with false by lia.
      change (N.to_nat 2) with 2%nat. cbn [skipn]. rewrite firstn_exact by congruence.
      fin_len Hk.
    + change (126 =? 126) with true. cbn match.
      rewrite <- app_assoc, !lenN_app, lenN_to_be, Hk4.
      replace (1 + (1 + (N.of_nat 2 + (4 + lenN tail))) <? 4) with false by lia.
      cbn [skipn]. rewrite firstn_exact by (rewrite to_be_length; reflexivity).
      rewrite from_be_to_be. change (256 ^ N.of_nat 2) with 65536. rewrite N.mod_small by lia.
      replace (1 + (1 + (N.of_nat 2 + (4 + lenN tail))) <? 4 + 4) with false by lia.
      change (N.to_nat 4) with (S (S 2)). rewrite skipn_cons2.
      rewrite (skipn_exact (to_be 2 len)) by (rewrite to_be_length; reflexivity).
      rewrite firstn_exact by congruence.
      fin_len Hk.
    + change (127 =? 126) with false. change (127 =? 127) with true. cbn match.
      rewrite <- app_assoc, !lenN_app, lenN_to_be, Hk4.
      replace (1 + (1 + (N.of_nat 8 + (4 + lenN tail))) <? 10) with false by lia.
      cbn [skipn]. rewrite firstn_exact by (rewrite to_be_length; reflexivity).
      rewrite from_be_to_be. change (256 ^ N.of_nat 8) with (2 ^ 64). rewrite N.mod_small by lia.
      replace (1 + (1 + (N.of_nat 8 + (4 + lenN tail))) <? 10 + 4) with false by lia.
      change (N.to_nat 10) with (S (S 8)). rewrite skipn_cons2.
      rewrite (skipn_exact (to_be 8 len)) by (rewrite to_be_length; reflexivity).
      rewrite firstn_exact by congruence.
      fin_len Hk.
  - (* unmasked frame read by a client *)
    destruct lf.
    + replace (len =? 126) with false by lia. replace (len =? 127) with false by lia. fin_len Hk.
    + change (126 =? 126) with true. cbn match.
      rewrite app_nil_r, !lenN_app, lenN_to_be.
      replace (1 + (1 + (N.of_nat 2 + lenN tail)) <? 4) with false by lia.
      cbn [skipn]. rewrite firstn_exact by (rewrite to_be_length; reflexivity).
      rewrite from_be_to_be. change (256 ^ N.of_nat 2) with 65536. rewrite N.mod_small by lia.
      fin_len Hk.
    + change (127 =? 126) with false. change (127 =? 127) with true. cbn match.
      rewrite app_nil_r, !lenN_app, lenN_to_be.
      replace (1 + (1 + (N.of_nat 8 + lenN tail)) <? 10) with false by lia.
      cbn [skipn]. rewrite firstn_exact by (rewrite to_be_length; reflexivity).
      rewrite from_be_to_be. change (256 ^ N.of_nat 8) with (2 ^ 64). rewrite N.mod_small by lia.
      fin_len Hk.
Qed.
