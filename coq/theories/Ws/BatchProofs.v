(* Several messages encoded back-to-back into ONE write buffer (what `Framed` does when messages are
   queued faster than they are flushed): encoding only appends, nothing already in the buffer is
   altered, and what is appended is exactly the concatenation of the frames each message is written
   as into an empty buffer; hence the peer decodes exactly the messages, in order. *)
From AV Require Import Lib.Base Ws.Mask Ws.MaskProofs Ws.Frame Ws.FrameProofs Ws.Codec Ws.ParseProofs
  Ws.FrameSpec Ws.SpecProofs Ws.HdrProofs Ws.RoundProofs Ws.DeliverProofs Ws.RoundTrip Ws.Stream
  Ws.StreamProofs Ws.RoundTripSeq.

(* write_message on a buffer that already holds [dst]: [dst] followed by the frame it writes into an
   empty buffer. No hypothesis: every payload, every key (of any length), every opcode. *)
Lemma write_message_app dst payload op fin mask key :
  write_message dst payload op fin mask key = dst ++ write_message [] payload op fin mask key.
Proof.
  unfold write_message. cbv zeta. rewrite !mask_from_tail. cbn [app].
  destruct (lenN payload <? 126); [|destruct (lenN payload <=? 65535)];
    destruct mask; rewrite <- ?app_assoc; cbn [app]; rewrite <- ?app_assoc; reflexivity.
Qed.

Lemma write_close_app dst r mask key : write_close dst r mask key = dst ++ write_close [] r mask key.
Proof. unfold write_close. apply write_message_app. Qed.

(* Encoder::encode into a non-empty buffer = the buffer followed by what it writes into an empty one;
   same new writer state, same refusals *)
Lemma encode_app c m dst key :
  encode c m dst key =
  (fst (encode c m [] key),
   match snd (encode c m [] key) with Ok w => Ok (dst ++ w) | Err e => Err e end).
Proof.
  destruct m as [b|b|[b|b|b|b]|b|b|r|]; cbn [encode fst snd];
    try (destruct (c_wcont c); cbn [fst snd]);
    rewrite ?(write_message_app dst), ?(write_close_app dst), ?app_nil_r; reflexivity.
Qed.

(* encoding never touches what the buffer held before: it appends or (refusal) does nothing *)
Lemma encode_only_appends c m dst key c' out :
  encode c m dst key = (c', Ok out) -> exists w, out = dst ++ w /\ encode c m [] key = (c', Ok w).
Proof.
  rewrite encode_app. destruct (encode c m [] key) as (c1, [w|e]); cbn [fst snd]; intro H; [|discriminate].
  injection H; intros; subst. exists w. split; reflexivity.
Qed.

Theorem encode_into_spec : forall ms c dst,
  fst (encode_into c ms dst) = (fst (fst (encode_all c ms)), dst ++ snd (fst (encode_all c ms))).
Proof.
  induction ms as [|[m key] r IH]; intros c dst.
  - cbn [encode_into encode_all fst snd]. rewrite app_nil_r. reflexivity.
  - cbn [encode_into encode_all]. rewrite (encode_app c m dst key).
    destruct (encode c m [] key) as (c1, out). cbn [fst snd].
    destruct out as [w|e].
    + specialize (IH c1 (dst ++ w)).
      destruct (encode_into c1 r (dst ++ w)) as ((c2, d2), outs).
      destruct (encode_all c1 r) as ((c2', bs), outs'). cbn [fst snd] in *.
      rewrite IH, <- app_assoc. reflexivity.
    + specialize (IH c1 dst).
      destruct (encode_into c1 r dst) as ((c2, d2), outs).
      destruct (encode_all c1 r) as ((c2', bs), outs'). cbn [fst snd] in *.
      exact IH.
Qed.

(* the i-th observation of a batch is a buffer that extends the previous one *)
Lemma encode_into_outs_extend : forall ms c dst,
  Forall (fun o => match o with Ok b => exists w, b = dst ++ w | Err _ => True end)
         (snd (encode_into c ms dst)).
Proof.
  induction ms as [|[m key] r IH]; intros c dst; cbn [encode_into snd]; [constructor|].
  rewrite (encode_app c m dst key).
  destruct (encode c m [] key) as (c1, [w|e]); cbn [fst snd].
  - specialize (IH c1 (dst ++ w)). destruct (encode_into c1 r (dst ++ w)) as ((c2, d2), outs).
    cbn [snd] in *. constructor; [exists w; reflexivity|].
    eapply Forall_impl; [|exact IH]. intros [b|e'] H; [|exact I].
    destruct H as (w' & ->). exists (w ++ w'). rewrite app_assoc. reflexivity.
  - specialize (IH c1 dst). destruct (encode_into c1 r dst) as ((c2, d2), outs).
    cbn [snd] in *. constructor; [exact I|exact IH].
Qed.

Section Batch.
Variable lossy : bytes -> bytes.

(* round trip of a batch: whatever the buffer held ([dst0]), after encoding [ms] behind it the buffer
   is dst0 ++ stream, and the peer decodes [stream] as exactly the accepted messages in order *)
Theorem roundtrip_batch : forall ms enc dec dst0,
  c_server dec = negb (c_server enc) -> c_cont dec = c_wcont enc ->
  all_sendable enc (c_max dec) ms ->
  exists enc' stream,
    fst (encode_into enc ms dst0) = (enc', dst0 ++ stream) /\
    run_all lossy dec stream = (expected_frames lossy enc ms, EMore (set_cont dec (c_wcont enc')) []).
Proof.
  intros ms enc dec dst0 Hrole Hst Hall.
  pose proof (roundtrip_all lossy ms enc dec Hrole Hst Hall) as H.
  pose proof (encode_into_spec ms enc dst0) as Hs.
  destruct (encode_all enc ms) as ((enc', stream), outs). cbn [fst snd] in Hs.
  exists enc', stream. split; [exact Hs|exact H].
Qed.
End Batch.
