(* Atomic frames, payload bound. *)
From AV Require Import Lib.Base Ws.Mask Ws.Frame Ws.FrameProofs Ws.Codec Ws.ParseProofs Ws.Stream
  Ws.StreamProofs.

(* a frame is delivered only when all of it is there: on every proper prefix of the bytes the
   frame occupies the decoder asks for more (and, in the model as in the code, consumes nothing) *)
Lemma partial_frame_needs_more lossy c whole fr c' rest n :
  dd lossy c whole = DFrame fr c' rest -> (n + length rest < length whole)%nat ->
  dd lossy c (firstn n whole) = DNone.
Proof.
  intros H Hn. pose proof (dd_app lossy c (firstn n whole) (skipn n whole)) as Happ.
  rewrite firstn_skipn in Happ.
  destruct (dd lossy c (firstn n whole)) as [|f1 c1 r1|e c1 r1]; [reflexivity| |].
  - rewrite H in Happ. injection Happ; intros E _ _. exfalso.
    apply (f_equal (@length N)) in E. rewrite app_length, skipn_length in E. lia.
  - destruct Happ as (r' & Happ). congruence.
Qed.

(* the bytes a frame hands to the application *)
Definition frame_data (f : frame) : option bytes :=
  match f with
  | FText b | FBinary b | FPing b | FPong b => Some b
  | FContinuation (FirstText b) | FContinuation (FirstBinary b) | FContinuation (Continue b)
  | FContinuation (Last b) => Some b
  | FClose _ => None
  end.

Lemma delivered_within_max lossy c src f c' rest b :
  dd lossy c src = DFrame f c' rest -> frame_data f = Some b -> lenN b <= c_max c.
Proof.
  unfold dd. destruct (pp src (c_server c) (c_max c)) as [r|fin op pl rest0|e rest0] eqn:Epp; try discriminate.
  destruct (pp_frame_facts _ _ _ _ _ _ _ Epp) as (_ & _ & Hp).
  assert (Hb : lenN (pl_bytes pl) <= c_max c).
  { destruct pl as [p|]; cbn [pl_bytes]; [apply Hp|rewrite lenN_nil; lia]. }
  destruct fin, op, (c_cont c); cbn [negb]; intros H Hd; try discriminate H;
    try (injection H; intros; subst; cbn [frame_data] in Hd; injection Hd; intros; subst; exact Hb);
    try (destruct pl; injection H; intros; subst; discriminate Hd).
Qed.

(* a Close frame is parsed from a payload within max_size (and within 125 bytes) *)
Lemma close_within_max src server max_size fin pl rest :
  pp src server max_size = PFrame fin OpClose (Some pl) rest -> lenN pl <= max_size /\ lenN pl <= 125.
Proof.
  intro Epp. destruct (pp_frame_facts _ _ _ _ _ _ _ Epp) as (_ & _ & Hp). split; [apply Hp|].
  revert Epp. unfold pp. destruct (pm src server) as [[m|]|e]; try discriminate.
  destruct m as ((((idx, f), o), len), mask).
  destruct (checked_add idx len); [|discriminate].
  destruct (lenN src <? n).
  { destruct (max_size <? len); [discriminate|]. destruct (checked_add _ _); discriminate. }
  destruct (max_size <? len); [discriminate|]. destruct (len =? 0); [discriminate|].
  destruct o, (125 <? len) eqn:E; try discriminate; intro H; injection H; intros; subst.
  unfold unmask, apply_mask, apply_mask_fallback, lenN.
  destruct mask; rewrite ?MaskProofs.fallback_at_length, firstn_length; lia.
Qed.
