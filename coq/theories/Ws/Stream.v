(* How a caller (tokio_util::codec::Framed, the ws dispatcher, the harness) drives the decoder:
   append what was read to the buffer, call `decode` until it asks for more; an error ends the
   stream. No proofs here. *)
From AV Require Import Lib.Base Ws.Mask Ws.Frame Ws.Codec.

Inductive ending :=
| EMore (c : codec) (rest : bytes)    (* decoder asks for more; what it holds *)
| EErr (e : perr)
| EPanic
| EFuel.

Section Stream.
Variable lossy : bytes -> bytes.

Fixpoint run (fuel : nat) (c : codec) (buf : bytes) : list frame * ending :=
  match fuel with
  | O => ([], EFuel)
  | S f =>
    match decode lossy c buf with
    | Panic => ([], EPanic)
    | Val DNone => ([], EMore c buf)
    | Val (DErr e _ _) => ([], EErr e)
    | Val (DFrame fr c' rest) => let '(fs, e) := run f c' rest in (fr :: fs, e)
    end
  end.

(* every delivered frame consumes at least two bytes, so this fuel never runs out (StreamProofs) *)
Definition run_all (c : codec) (buf : bytes) : list frame * ending := run (S (length buf)) c buf.

Fixpoint feed (c : codec) (buf : bytes) (segs : list bytes) : list frame * ending :=
  match segs with
  | [] => ([], EMore c buf)
  | s :: r =>
    match run_all c (buf ++ s) with
    | (fs, EMore c' rest) => let '(fs', e) := feed c' rest r in (fs ++ fs', e)
    | (fs, e) => (fs, e)
    end
  end.

(* the writer side: encode a list of messages (each with the mask key the RNG gave) into one
   byte stream; a refused message writes nothing *)
Fixpoint encode_all (c : codec) (ms : list (message * bytes)) : codec * bytes * list (res bytes) :=
  match ms with
  | [] => (c, [], [])
  | (m, key) :: r =>
    let '(c1, out) := encode c m [] key in
    let '(c2, bs, outs) := encode_all c1 r in
    (c2, match out with Ok b => b ++ bs | Err _ => bs end, out :: outs)
  end.
(* the writer side as `Framed` runs it: every message is encoded into the SAME write buffer, behind
   whatever it already holds (frames queued and not yet flushed); a refused message leaves the
   buffer as it was. Result: writer state, buffer, and per message the buffer after it / the error *)
Fixpoint encode_into (c : codec) (ms : list (message * bytes)) (dst : bytes) : codec * bytes * list (res bytes) :=
  match ms with
  | [] => (c, dst, [])
  | (m, key) :: r =>
    let '(c1, out) := encode c m dst key in
    let dst1 := match out with Ok b => b | Err _ => dst end in
    let '(c2, dst2, outs) := encode_into c1 r dst1 in
    (c2, dst2, out :: outs)
  end.
End Stream.
