(* Translator tie for ws::verify_handshake: Gen/WsHandshake.v (tools/gen/ws_handshake.py, regenerated
   from actix-http/src/ws/mod.rs and requests/head.rs on every check run) lists the tests of the
   function in source order, each with the HandshakeError it returns. Here the table is given its
   meaning ([verify_tbl]: run the tests in order, the first one that fails decides), the model
   [verify_handshake] is shown to be exactly that table, and "the first failing test decides the
   error" is proved for ANY table (induction over the table), then instantiated. *)
From Coq Require Import String.
From AV Require Import Lib.Base Gen.WsHandshake Ws.Handshake Ws.HandshakeProofs.
Open Scope N_scope.

Definition hs_error_of (s : string) : option hs_err :=
  if String.eqb s "GetMethodRequired" then Some GetMethodRequired
  else if String.eqb s "NoWebsocketUpgrade" then Some NoWebsocketUpgrade
  else if String.eqb s "NoConnectionUpgrade" then Some NoConnectionUpgrade
  else if String.eqb s "NoVersionHeader" then Some NoVersionHeader
  else if String.eqb s "UnsupportedVersion" then Some UnsupportedVersion
  else if String.eqb s "BadWebsocketKey" then Some BadWebsocketKey
  else None.

(* one test on a request: Some true = passes, Some false = fails, None = row of unknown shape *)
Definition run_test (kind : string) (args : list bytes) (method : bytes) (h : headers) : option bool :=
  if String.eqb kind "method_is" then
    match args with [m] => Some (bytes_eqb method m) | _ => None end
  else if String.eqb kind "header_has" then
    match args with [name; word] => Some (header_has name word h) | _ => None end
  else if String.eqb kind "present" then
    match args with [name] => Some (contains_key name h) | _ => None end
  else if String.eqb kind "value_in" then
    match args with
    | name :: vs => Some (match hget name h with Some hdr => existsb (bytes_eqb hdr) vs | None => false end)
    | [] => None
    end
  else None.

Definition hs_row := (string * list bytes * string)%type.

Inductive verdict := VAccept | VReject (e : hs_err) | VBadTable.

(* run the tests in table order; the first failing one returns its error *)
Fixpoint verify_tbl (tests : list hs_row) (method : bytes) (h : headers) : verdict :=
  match tests with
  | [] => VAccept
  | (kind, args, err) :: r =>
      match run_test kind args method h, hs_error_of err with
      | Some true, Some _ => verify_tbl r method h
      | Some false, Some e => VReject e
      | _, _ => VBadTable
      end
  end.

Definition row_passes (method : bytes) (h : headers) (t : hs_row) : Prop :=
  run_test (fst (fst t)) (snd (fst t)) method h = Some true /\ hs_error_of (snd t) <> None.
Definition row_fails_with (method : bytes) (h : headers) (t : hs_row) (e : hs_err) : Prop :=
  run_test (fst (fst t)) (snd (fst t)) method h = Some false /\ hs_error_of (snd t) = Some e.

(* ---------- for ANY table: the first failing test decides ---------- *)
Lemma verify_tbl_reject : forall tests method h e,
  verify_tbl tests method h = VReject e <->
  exists pre t post, tests = pre ++ t :: post /\ Forall (row_passes method h) pre /\
                     row_fails_with method h t e.
Proof.
  induction tests as [|[[kind args] err] r IH]; intros method h e; cbn [verify_tbl].
  - split; [discriminate|]. intros (pre & t & post & E & _). destruct pre; discriminate.
  - split.
    + destruct (run_test kind args method h) as [[|]|] eqn:Er; destruct (hs_error_of err) as [e0|] eqn:Ee;
        try discriminate.
      * intro H. apply IH in H as (pre & t & post & E & Hp & Hf).
        exists ((kind, args, err) :: pre), t, post. subst r. split; [reflexivity|]. split; [|exact Hf].
        constructor; [|exact Hp]. split; cbn [fst snd]; [exact Er|congruence].
      * intro H. injection H as ->. exists [], (kind, args, err), r. split; [reflexivity|].
        split; [constructor|]. split; cbn [fst snd]; assumption.
    + intros (pre & t & post & E & Hp & Hf). destruct pre as [|p pre].
      * cbn [app] in E. injection E; intros; subst. destruct Hf as (Hf1 & Hf2). cbn [fst snd] in *.
        rewrite Hf1, Hf2. reflexivity.
      * cbn [app] in E. injection E; intros; subst. inversion Hp as [|? ? (Hp1 & Hp2) Hp']; subst.
        cbn [fst snd] in *. rewrite Hp1. destruct (hs_error_of err) as [e0|]; [|congruence].
        apply IH. exists pre, t, post. auto.
Qed.

Lemma verify_tbl_accept : forall tests method h,
  verify_tbl tests method h = VAccept <-> Forall (row_passes method h) tests.
Proof.
  induction tests as [|[[kind args] err] r IH]; intros method h; cbn [verify_tbl].
  - split; [constructor|reflexivity].
  - split.
    + destruct (run_test kind args method h) as [[|]|] eqn:Er; destruct (hs_error_of err) as [e0|] eqn:Ee;
        try discriminate.
      intro H. apply IH in H. constructor; [|exact H]. split; cbn [fst snd]; [exact Er|congruence].
    + intro H. inversion H as [|? ? (H1 & H2) H']; subst. cbn [fst snd] in *. rewrite H1.
      destruct (hs_error_of err); [|congruence]. apply IH. exact H'.
Qed.

(* ---------- the model is the source's table ---------- *)
Theorem verify_handshake_is_source_table : forall method h,
  verify_tbl WS_HANDSHAKE_TESTS method h =
  match verify_handshake method h with None => VAccept | Some e => VReject e end.
Proof.
  intros method h. unfold verify_handshake, contains_key.
  cbv [WS_HANDSHAKE_TESTS verify_tbl run_test hs_error_of String.eqb Ascii.eqb Bool.eqb contains_key
       s_get s_upgrade s_connection s_websocket s_version s_key].
  destruct (bytes_eqb method _); cbn [negb]; [|reflexivity].
  destruct (header_has _ _ h); cbn [negb]; [|reflexivity].
  destruct (header_has _ _ h); cbn [negb]; [|reflexivity].
  destruct (hget _ h) as [hdr|]; cbn [negb]; [|reflexivity].
  cbn [existsb].
  destruct (bytes_eqb hdr [49; 51]), (bytes_eqb hdr [56]), (bytes_eqb hdr [55]); cbn [orb negb];
    try reflexivity; destruct (hget _ h); reflexivity.
Qed.

(* the source's tests, in order, with the model's reading of each *)
Theorem handshake_first_failing_test_decides : forall method h e,
  verify_handshake method h = Some e <->
  exists pre t post, WS_HANDSHAKE_TESTS = pre ++ t :: post /\ Forall (row_passes method h) pre /\
                     row_fails_with method h t e.
Proof.
  intros method h e. rewrite <- verify_tbl_reject, verify_handshake_is_source_table.
  destruct (verify_handshake method h) as [e0|]; split; intro H; try discriminate; congruence.
Qed.

Theorem handshake_accepts_iff_all_tests_pass : forall method h,
  verify_handshake method h = None <-> Forall (row_passes method h) WS_HANDSHAKE_TESTS.
Proof.
  intros method h. rewrite <- verify_tbl_accept, verify_handshake_is_source_table.
  destruct (verify_handshake method h); split; intro H; try discriminate; reflexivity.
Qed.
