(* RFC 6455 section 5.2 frame layout as a serialiser over a header record: the reference the
   parser and the writer are compared with. Every field is free (illegal values included). *)
From AV Require Import Lib.Base Ws.Frame.

Inductive lform := L7 | L16 | L64.

Record fhdr := mkHdr {
  h_fin : bool;            (* FIN *)
  h_rsv : N;               (* RSV1-3, 3 bits *)
  h_op : N;                (* opcode, 4 bits *)
  h_key : option bytes;    (* masking key (MASK bit set) *)
  h_lform : lform;         (* which of the three length encodings is used *)
  h_len : N                (* announced payload length *)
}.

Definition b2n (b : bool) : N := if b then 1 else 0.
Definition is_some {A} (o : option A) : bool := match o with Some _ => true | None => false end.

Definition hdr_ok (h : fhdr) : Prop :=
  h_rsv h < 8 /\ h_op h < 16 /\
  match h_key h with Some k => length k = 4%nat | None => True end /\
  match h_lform h with L7 => h_len h < 126 | L16 => h_len h < 65536 | L64 => h_len h < 2 ^ 64 end.

Definition hdr_bytes (h : fhdr) : bytes :=
  [128 * b2n (h_fin h) + 16 * h_rsv h + h_op h;
   128 * b2n (is_some (h_key h)) + match h_lform h with L7 => h_len h | L16 => 126 | L64 => 127 end]
  ++ match h_lform h with L7 => [] | L16 => to_be 2 (h_len h) | L64 => to_be 8 (h_len h) end
  ++ match h_key h with Some k => k | None => [] end.

(* the smallest encoding of a length, as RFC 6455 requires of a sender *)
Definition minimal_form (len : N) : lform := if len <? 126 then L7 else if len <=? 65535 then L16 else L64.

(* what the property lets through, for a receiver in state (server role?, fragmented message open?) *)
Definition is_control (op : N) : bool := 8 <=? op.
Definition opcode_known (op : N) : bool :=
  (op =? 0) || (op =? 1) || (op =? 2) || (op =? 8) || (op =? 9) || (op =? 10).

Definition frame_legal (server open : bool) (max_size : N) (h : fhdr) : bool :=
  Bool.eqb (is_some (h_key h)) server &&
  opcode_known (h_op h) &&
  (if is_control (h_op h) then h_fin h && (h_len h <=? 125)
   else if h_op h =? 0 then open else negb open) &&
  (h_len h <=? max_size).
