(* encode at one role, decode at the peer role: the same message. *)
From AV Require Import Lib.Base Ws.Mask Ws.MaskProofs Ws.Frame Ws.FrameProofs Ws.Codec Ws.ParseProofs
  Ws.FrameSpec Ws.SpecProofs Ws.HdrProofs Ws.RoundProofs Ws.DeliverProofs.

(* the frame a message arrives as (Nop writes nothing). A Close description is a Rust String; an
   empty one is not representable on the wire and arrives as "no description". *)
Definition frame_of_message (lossy : bytes -> bytes) (m : message) : option frame :=
  match m with
  | MsgText b => Some (FText b)
  | MsgBinary b => Some (FBinary b)
  | MsgPing b => Some (FPing b)
  | MsgPong b => Some (FPong b)
  | MsgContinuation i => Some (FContinuation i)
  | MsgClose None => Some (FClose None)
  | MsgClose (Some (code, d)) =>
      Some (FClose (Some (code, match d with Some (x :: r) => Some (lossy (x :: r)) | _ => None end)))
  | MsgNop => None
  end.

(* the payload the message is written with *)
Definition message_payload (m : message) : bytes :=
  match m with
  | MsgText b | MsgBinary b | MsgPing b | MsgPong b => b
  | MsgContinuation (FirstText b) | MsgContinuation (FirstBinary b)
  | MsgContinuation (Continue b) | MsgContinuation (Last b) => b
  | MsgClose None => []
  | MsgClose (Some (code, d)) => to_be 2 code ++ match d with Some d => d | None => [] end
  | MsgNop => []
  end.

(* what a sender must respect for the peer to accept the message: payload within the peer's
   max_size, control payloads at most 125 bytes, close code a u16, and no new data message while
   a fragmented one is open (RFC 6455 section 5.4) *)
Definition sendable (wopen : bool) (max_size : N) (m : message) : Prop :=
  lenN (message_payload m) <= max_size /\ lenN (message_payload m) < 2 ^ 63 /\
  match m with
  | MsgPing _ | MsgPong _ => lenN (message_payload m) <= 125
  | MsgClose r => lenN (message_payload m) <= 125 /\ match r with Some cr => fst cr < 65536 | None => True end
  | MsgText _ | MsgBinary _ => wopen = false
  | _ => True
  end.

Lemma unmask_wire (mask : bool) key payload :
  unmask (if mask then Some key else None) (if mask then apply_mask payload key else payload) = payload.
Proof. destruct mask; cbn [unmask]; [apply apply_mask_involutive|reflexivity]. Qed.

Lemma lenN_wire (mask : bool) key payload : lenN (if mask then apply_mask payload key else payload) = lenN payload.
Proof. destruct mask; [|reflexivity]. unfold lenN. rewrite apply_mask_length. reflexivity. Qed.

(* one written frame, read by the peer *)
Lemma written_frame_read lossy dec payload op fin key rest :
  let mask := c_server dec in
  let h := wire_hdr payload op fin mask key in
  lenN payload < 2 ^ 63 -> length key = 4%nat ->
  frame_legal (c_server dec) (c_cont dec) (c_max dec) h = true ->
  dd lossy dec (write_message [] payload op fin mask key ++ rest) =
  DFrame (frame_of_hdr lossy h payload) (set_cont dec (open_after h (c_cont dec))) rest.
Proof.
  intros mask h H63 Hk Hleg. subst mask.
  assert (H64 : lenN payload < 2 ^ 64).
  { change (2 ^ 63) with 9223372036854775808 in H63. change (2 ^ 64) with 18446744073709551616. lia. }
  rewrite write_message_spec by assumption. cbn [app]. rewrite <- app_assoc.
  fold h.
  rewrite (legal_frame_delivered lossy dec h); try assumption.
  - replace (h_key h) with (if c_server dec then Some key else None) by reflexivity.
    rewrite unmask_wire. reflexivity.
  - apply wire_hdr_ok; auto.
  - rewrite lenN_wire. reflexivity.
Qed.

Lemma legal_wire server open max_size payload op fin key :
  lenN payload <= max_size ->
  (if is_control (u8_of_opcode op) then fin && (lenN payload <=? 125)
   else if u8_of_opcode op =? 0 then open else negb open) = true ->
  op <> OpBad ->
  frame_legal server open max_size (wire_hdr payload op fin server key) = true.
Proof.
  intros Hmax Hst Hop. unfold frame_legal, wire_hdr. cbn [h_fin h_rsv h_op h_key h_lform h_len].
  rewrite Hst. replace (lenN payload <=? max_size) with true by lia.
  destruct server, op; cbn; try reflexivity; congruence.
Qed.

Ltac finish_rt :=
  cbn [frame_of_hdr open_after wire_hdr h_op h_fin h_len u8_of_opcode set_wcont c_wcont];
  repeat match goal with H : c_cont _ = _ |- _ => rewrite H end;
  repeat match goal with H : c_wcont _ = _ |- _ => rewrite H end;
  cbn [c_wcont set_wcont]; reflexivity.

Ltac legal_rt :=
  apply legal_wire; try assumption; try discriminate;
  repeat match goal with H : c_cont _ = _ |- _ => rewrite H end;
  repeat match goal with H : c_wcont _ = _ |- _ => rewrite H end;
  try (match goal with |- context [?a <=? 125] => replace (a <=? 125) with true by lia end);
  reflexivity.

Theorem roundtrip_one lossy enc dec m key rest enc' out :
  c_server dec = negb (c_server enc) -> c_cont dec = c_wcont enc -> length key = 4%nat ->
  sendable (c_wcont enc) (c_max dec) m ->
  encode enc m [] key = (enc', Ok out) ->
  match frame_of_message lossy m with
  | None => out = []
  | Some f => dd lossy dec (out ++ rest) = DFrame f (set_cont dec (c_wcont enc')) rest
  end.
Proof.
  intros Hrole Hst Hk (Hmax & H63 & Hm) Henc.
  assert (Hmask : negb (c_server enc) = c_server dec) by (rewrite Hrole; reflexivity).
  destruct m as [b|b|[b|b|b|b]|b|b|[[code d]|]|]; cbn [encode] in Henc; cbn [message_payload] in *;
    cbn [frame_of_message].
  - (* Text *) injection Henc; intros; subst. rewrite Hmask.
    rewrite written_frame_read; try assumption.
    + finish_rt.
    + legal_rt.
  - (* Binary *) injection Henc; intros; subst. rewrite Hmask.
    rewrite written_frame_read; try assumption.
    + finish_rt.
    + legal_rt.
  - (* FirstText *) destruct (c_wcont enc) eqn:Ew; [discriminate|]. injection Henc; intros; subst. rewrite Hmask.
    rewrite written_frame_read; try assumption.
    + finish_rt.
    + legal_rt.
  - (* FirstBinary *) destruct (c_wcont enc) eqn:Ew; [discriminate|]. injection Henc; intros; subst. rewrite Hmask.
    rewrite written_frame_read; try assumption.
    + finish_rt.
    + legal_rt.
  - (* Continue *) destruct (c_wcont enc) eqn:Ew; [|discriminate]. injection Henc; intros; subst. rewrite Hmask.
    rewrite written_frame_read; try assumption.
    + finish_rt.
    + legal_rt.
  - (* Last *) destruct (c_wcont enc) eqn:Ew; [|discriminate]. injection Henc; intros; subst. rewrite Hmask.
    rewrite written_frame_read; try assumption.
    + finish_rt.
    + legal_rt.
  - (* Ping *) injection Henc; intros; subst. rewrite Hmask.
    rewrite written_frame_read; try assumption.
    + finish_rt.
    + legal_rt.
  - (* Pong *) injection Henc; intros; subst. rewrite Hmask.
    rewrite written_frame_read; try assumption.
    + finish_rt.
    + legal_rt.
  - (* Close with reason *) injection Henc; intros; subst. unfold write_close. rewrite Hmask.
    destruct Hm as (H125 & Hcode).
    rewrite written_frame_read; try assumption.
    + unfold frame_of_hdr, open_after, wire_hdr. cbn [h_op h_fin h_len u8_of_opcode].
      rewrite <- Hst. replace (set_cont dec (c_cont dec)) with dec by (destruct dec; reflexivity).
      do 2 f_equal.
      assert (Hl : lenN (to_be 2 code ++ match d with Some d0 => d0 | None => [] end) =
                   2 + lenN (match d with Some d0 => d0 | None => [] end))
        by (rewrite lenN_app, lenN_to_be; reflexivity).
      rewrite Hl. replace (2 + _ =? 0) with false by lia.
      unfold pcp. rewrite Hl. replace (2 <=? 2 + _) with true by lia.
      rewrite firstn_exact by (rewrite to_be_length; reflexivity).
      rewrite from_be_to_be. change (256 ^ N.of_nat 2) with 65536. rewrite N.mod_small by assumption.
      rewrite skipn_exact by (rewrite to_be_length; reflexivity).
      destruct d as [[|x r]|]; try reflexivity.
      rewrite lenN_cons. replace (2 <? 2 + (1 + lenN r)) with true by lia. reflexivity.
    + legal_rt.
  - (* Close without reason *) injection Henc; intros; subst. unfold write_close. rewrite Hmask.
    rewrite written_frame_read; try assumption.
    + finish_rt.
    + legal_rt.
  - (* Nop *) injection Henc; intros; subst. reflexivity.
Qed.
