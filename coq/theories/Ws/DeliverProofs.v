(* Legal frames are delivered with their unmasked payload; the writer emits RFC-layout frames with
   the minimal length form; encode/decode round trip. *)
From AV Require Import Lib.Base Ws.Mask Ws.MaskProofs Ws.Frame Ws.FrameProofs Ws.Codec Ws.ParseProofs
  Ws.FrameSpec Ws.SpecProofs Ws.HdrProofs Ws.RoundProofs.

(* the frame and the new "fragmented message open" flag a legal header with payload [data] stands for *)
Definition frame_of_hdr (lossy : bytes -> bytes) (h : fhdr) (data : bytes) : frame :=
  match h_op h with
  | 0 => if h_fin h then FContinuation (Last data) else FContinuation (Continue data)
  | 1 => if h_fin h then FText data else FContinuation (FirstText data)
  | 2 => if h_fin h then FBinary data else FContinuation (FirstBinary data)
  | 8 => FClose (if h_len h =? 0 then None else pcp lossy data)
  | 9 => FPing data
  | _ => FPong data
  end.
Definition open_after (h : fhdr) (open : bool) : bool :=
  match h_op h with
  | 0 => if h_fin h then false else open
  | 1 | 2 => if h_fin h then open else true
  | _ => open
  end.

Theorem legal_frame_delivered lossy c h wire rest :
  hdr_ok h -> lenN wire = h_len h -> h_len h < 2 ^ 63 ->
  frame_legal (c_server c) (c_cont c) (c_max c) h = true ->
  dd lossy c (hdr_bytes h ++ wire ++ rest) =
  DFrame (frame_of_hdr lossy h (unmask (h_key h) wire)) (set_cont c (open_after h (c_cont c))) rest.
Proof.
  intros Hok Hw H63 Hleg. unfold frame_legal in Hleg.
  apply andb_true_iff in Hleg as (Hleg & Hmax). apply andb_true_iff in Hleg as (Hleg & Hst).
  apply andb_true_iff in Hleg as (Hr & Hk). apply Bool.eqb_prop in Hr.
  pose proof Hok as (_ & Ho & _).
  unfold dd. rewrite pp_frame; try assumption; [|apply known_not_bad; assumption].
  unfold pp_expected. replace (c_max c <? h_len h) with false by lia.
  unfold frame_of_hdr, open_after, set_cont.
  assert (Hw0 : h_len h =? 0 = true -> wire = []).
  { intro E. destruct wire; [reflexivity|]. rewrite lenN_cons in Hw. lia. }
  assert (Hun : forall k, unmask k [] = []) by (intros [k|]; reflexivity).
  unfold opcode_known in Hk.
  assert (Hcases : h_op h = 0 \/ h_op h = 1 \/ h_op h = 2 \/ h_op h = 8 \/ h_op h = 9 \/ h_op h = 10) by lia.
  destruct c as [sv ct wc mx]. cbn [c_server c_cont c_wcont c_max] in *.
  destruct Hcases as [E|[E|[E|[E|[E|E]]]]]; rewrite E in *;
    cbn [opcode_of_u8] in *; change (is_control _) with false in Hst || change (is_control _) with true in Hst;
    cbn match in Hst;
    destruct (h_fin h), ct, (h_len h =? 0) eqn:E0, (125 <? h_len h) eqn:E125;
    cbn [negb andb pl_bytes] in *; try discriminate; try lia;
    try (rewrite (Hw0 eq_refl), Hun); try reflexivity.
Qed.

(* ---------- the writer ---------- *)
Definition wire_hdr (payload : bytes) (op : opcode) (fin mask : bool) (key : bytes) : fhdr :=
  mkHdr fin 0 (u8_of_opcode op) (if mask then Some key else None) (minimal_form (lenN payload)) (lenN payload).

(* the in-place masking step: with `pos = dst.len() - payload_len` exactly the payload just appended
   is XOR-ed; whatever was in front of it (earlier frames, the new header and key) is untouched *)
Lemma mask_from_tail (pre payload key : bytes) :
  mask_from (pre ++ payload) (lenN (pre ++ payload) - lenN payload) key = pre ++ apply_mask payload key.
Proof.
  unfold mask_from. rewrite lenN_app.
  replace (N.to_nat (lenN pre + lenN payload - lenN payload)) with (length pre) by (unfold lenN; lia).
  rewrite firstn_exact, skipn_exact by reflexivity. reflexivity.
Qed.

Lemma write_message_spec dst payload op fin mask key : lenN payload < 2 ^ 64 ->
  write_message dst payload op fin mask key =
  dst ++ hdr_bytes (wire_hdr payload op fin mask key) ++ (if mask then apply_mask payload key else payload).
Proof.
  intro H64. unfold write_message, wire_hdr, hdr_bytes, minimal_form.
  cbv zeta. rewrite mask_from_tail.
  cbn [h_fin h_rsv h_op h_key h_lform h_len].
  assert (H1 : (if fin then N.lor 128 (u8_of_opcode op) else u8_of_opcode op) =
               128 * b2n fin + 16 * 0 + u8_of_opcode op) by (destruct fin, op; reflexivity).
  rewrite H1.
  destruct (lenN payload <? 126) eqn:E126.
  - rewrite N.mod_small by lia.
    assert (H2 : N.lor (if mask then 128 else 0) (lenN payload) = 128 * b2n (is_some (if mask then Some key else None)) + lenN payload).
    { destruct mask; cbn [is_some b2n]; [rewrite lor128 by lia; lia|rewrite N.lor_0_l; lia]. }
    rewrite H2. destruct mask; cbn [app]; rewrite <- ?app_assoc; reflexivity.
  - destruct (lenN payload <=? 65535) eqn:E16.
    + rewrite N.mod_small by lia.
      destruct mask; cbn [is_some b2n app]; rewrite <- ?app_assoc; cbn [app]; rewrite <- ?app_assoc; reflexivity.
    + rewrite N.mod_small by lia.
      destruct mask; cbn [is_some b2n app]; rewrite <- ?app_assoc; cbn [app]; rewrite <- ?app_assoc; reflexivity.
Qed.

Lemma wire_hdr_ok payload op fin mask key : lenN payload < 2 ^ 64 -> (mask = true -> length key = 4%nat) ->
  hdr_ok (wire_hdr payload op fin mask key).
Proof.
  intros H64 Hk. unfold hdr_ok, wire_hdr, minimal_form. cbn [h_fin h_rsv h_op h_key h_lform h_len].
  repeat split; try lia.
  - destruct op; cbn; lia.
  - destruct mask; auto.
  - destruct (lenN payload <? 126) eqn:E; [lia|]. destruct (lenN payload <=? 65535) eqn:E2; lia.
Qed.
