(* Model of actix-http/src/ws/frame.rs (Parser) and the OpCode conversions of ws/proto.rs.
   usize = u64 (64-bit target). Indexing / slicing / BytesMut::advance / split_to panic when out
   of range: [R]. Branch order as in the code. No proofs here. *)
From AV Require Import Lib.Base Ws.Mask.

Inductive opcode := OpContinue | OpText | OpBinary | OpClose | OpPing | OpPong | OpBad.

(* impl From<u8> for OpCode *)
Definition opcode_of_u8 (b : N) : opcode :=
  match b with
  | 0 => OpContinue | 1 => OpText | 2 => OpBinary | 8 => OpClose | 9 => OpPing | 10 => OpPong
  | _ => OpBad
  end.
(* impl From<OpCode> for u8 *)
Definition u8_of_opcode (o : opcode) : N :=
  match o with
  | OpContinue => 0 | OpText => 1 | OpBinary => 2 | OpClose => 8 | OpPing => 9 | OpPong => 10
  | OpBad => 8
  end.

(* if let OpCode::Bad = opcode *)
Definition opcode_is_bad (o : opcode) : bool := match o with OpBad => true | _ => false end.

Inductive perr :=
| UnmaskedFrame | MaskedFrame | InvalidOpcode (b : N) | InvalidLength (n : N) | BadOpCode | Overflow
| ContinuationNotStarted | ContinuationStarted | ContinuationFragment (o : opcode).

Inductive res (A : Type) := Ok (a : A) | Err (e : perr).
Arguments Ok {A}. Arguments Err {A}.

Definition usize_max : N := u64_max.
Definition checked_add (a b : N) : option N := if a + b <=? usize_max then Some (a + b) else None.

(* src[i] *)
Definition index (src : bytes) (i : nat) : R N :=
  match nth_error src i with Some b => Val b | None => Panic end.
(* exactly n leading elements *)
Fixpoint take (n : nat) (l : bytes) : R bytes :=
  match n with
  | O => Val []
  | S n' => match l with [] => Panic | x :: l' => rbind (take n' l') (fun t => Val (x :: t)) end
  end.
(* &src[i..i+n] *)
Definition slice (src : bytes) (i : N) (n : nat) : R bytes := take n (skipn (N.to_nat i) src).

(* u16::from_be_bytes / u64::from_be_bytes *)
Definition from_be (l : bytes) : N := fold_left (fun acc b => acc * 256 + b) l 0.
(* to_be_bytes of a k-byte integer *)
Fixpoint to_be (k : nat) (n : N) : bytes :=
  match k with O => [] | S k' => (n / 256 ^ N.of_nat k') mod 256 :: to_be k' n end.

(* (idx, finished, opcode, length, mask) *)
Definition meta := (N * bool * opcode * N * option bytes)%type.

Definition parse_metadata (src : bytes) (server : bool) : R (res (option meta)) :=
  let chunk_len := lenN src in
  if chunk_len <? 2 then Val (Ok None) else
  rbind (index src 0) (fun first =>
  rbind (index src 1) (fun second =>
  let finished := negb (N.land first 128 =? 0) in
  let masked := negb (N.land second 128 =? 0) in
  if negb masked && server then Val (Err UnmaskedFrame)
  else if masked && negb server then Val (Err MaskedFrame)
  else
  let opcode := opcode_of_u8 (N.land first 15) in
  if opcode_is_bad opcode then Val (Err (InvalidOpcode (N.land first 15)))
  else
    let len := N.land second 127 in
    (* None = return Ok(None); Some (length, idx) *)
    let lr : R (option (N * N)) :=
      if len =? 126 then
        if chunk_len <? 4 then Val None
        else rbind (slice src 2 2) (fun s => Val (Some (from_be s, 4)))
      else if len =? 127 then
        if chunk_len <? 10 then Val None
        else rbind (slice src 2 8) (fun s => Val (Some (from_be s, 10)))  (* u64 as usize: identity *)
      else Val (Some (len, 2)) in
    rbind lr (fun l =>
    match l with
    | None => Val (Ok None)
    | Some (length, idx) =>
      if server then
        if chunk_len <? idx + 4 then Val (Ok None)
        else rbind (slice src idx 4) (fun mask =>
             Val (Ok (Some (idx + 4, finished, opcode, length, Some mask))))
      else Val (Ok (Some (idx, finished, opcode, length, None)))
    end))).

(* BytesMut::advance(cnt) / split_to(at): panic when cnt > len *)
Definition advance (src : bytes) (cnt : N) : R bytes :=
  if lenN src <? cnt then Panic else Val (skipn (N.to_nat cnt) src).
Definition split_to (src : bytes) (at_ : N) : R (bytes * bytes) :=
  if lenN src <? at_ then Panic else Val (firstn (N.to_nat at_) src, skipn (N.to_nat at_) src).

(* outcome of Parser::parse together with what is left in `src` *)
Inductive parsed :=
| PNone (required_cap : option N)     (* Ok(None); Some c: capacity of at least c was requested *)
| PFrame (finished : bool) (op : opcode) (payload : option bytes) (rest : bytes)
| PErr (e : perr) (rest : bytes).

Definition parse (src : bytes) (server : bool) (max_size : N) : R parsed :=
  rbind (parse_metadata src server) (fun m =>
  match m with
  | Err e => Val (PErr e src)
  | Ok None => Val (PNone None)
  | Ok (Some (idx, finished, opcode, length, mask)) =>
    match checked_add idx length with
    | None => Val (PErr Overflow src)
    | Some frame_len =>
      if lenN src <? frame_len then
        (* not enough data *)
        if max_size <? length then Val (PErr Overflow src)   (* refused before it is buffered *)
        else
        let min_length := N.min length max_size in
        match checked_add idx min_length with
        | None => Val (PErr Overflow src)
        | Some required_cap => Val (PNone (Some required_cap))
        end
      else
        rbind (advance src idx) (fun src1 =>
        if max_size <? length then
          (* drop the payload *)
          rbind (advance src1 length) (fun src2 => Val (PErr Overflow src2))
        else if length =? 0 then Val (PFrame finished opcode None src1)
        else
          rbind (split_to src1 length) (fun ds =>
          let '(data, src2) := ds in
          let long := 125 <? length in
          match opcode, long with
          | OpPing, true | OpPong, true => Val (PErr (InvalidLength length) src2)
          | OpClose, true => Val (PFrame true OpClose None src2)
          | _, _ =>
            let data' := match mask with Some mk => apply_mask data mk | None => data end in
            Val (PFrame finished opcode (Some data') src2)
          end))
    end
  end).

(* Parser::parse_close_payload; [lossy] stands for String::from_utf8_lossy *)
Definition close_reason := (N * option bytes)%type.
Definition parse_close_payload (lossy : bytes -> bytes) (payload : bytes) : R (option close_reason) :=
  if 2 <=? lenN payload then
    rbind (take 2 payload) (fun c =>
    let code := from_be c in   (* CloseCode::from(u16) and back is the identity on the number *)
    let description := if 2 <? lenN payload then Some (lossy (skipn 2 payload)) else None in
    Val (Some (code, description)))
  else Val None.

(* apply_mask(&mut dst[pos..], mask): the bytes of [dst] from absolute index [pos] on are XOR-ed in
   place, everything in front of [pos] is left alone *)
Definition mask_from (dst : bytes) (pos : N) (key : bytes) : bytes :=
  firstn (N.to_nat pos) dst ++ apply_mask (skipn (N.to_nat pos) dst) key.

(* Parser::write_message; [key] is the value of rand::random::<[u8; 4]>(). [dst] is the caller's
   write buffer WITH whatever it already holds (earlier frames that were not flushed yet): every
   put_* appends, and the masking step works on the buffer in place from
   `pos = dst.len() - payload_len` (an index into the whole buffer, not into the new frame). *)
Definition write_message (dst payload : bytes) (op : opcode) (fin mask : bool) (key : bytes) : bytes :=
  let one := if fin then N.lor 128 (u8_of_opcode op) else u8_of_opcode op in
  let payload_len := lenN payload in
  let two := if mask then 128 else 0 in
  let dst1 :=
    if payload_len <? 126 then dst ++ [one; N.lor two (payload_len mod 256)]
    else if payload_len <=? 65535 then dst ++ [one; N.lor two 126] ++ to_be 2 (payload_len mod 65536)
    else dst ++ [one; N.lor two 127] ++ to_be 8 (payload_len mod 2 ^ 64) in
  if mask then
    let dst2 := dst1 ++ key in           (* dst.put_slice(mask.as_ref()) *)
    let dst3 := dst2 ++ payload in       (* dst.put_slice(payload.as_ref()) *)
    let pos := lenN dst3 - payload_len in
    mask_from dst3 pos key
  else dst1 ++ payload.

(* Parser::write_close *)
Definition write_close (dst : bytes) (reason : option close_reason) (mask : bool) (key : bytes) : bytes :=
  let payload :=
    match reason with
    | None => []
    | Some (code, description) =>
        to_be 2 code ++ match description with Some d => d | None => [] end
    end in
  write_message dst payload OpClose true mask key.
