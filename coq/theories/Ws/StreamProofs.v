(* Segmentation independence of the decoder: feeding any split of the bytes gives the frames,
   the final error or the held residue of decoding the whole. *)
From AV Require Import Lib.Base Ws.Mask Ws.Frame Ws.FrameProofs Ws.Codec Ws.ParseProofs Ws.Stream.

Section S.
Variable lossy : bytes -> bytes.

Lemma run_step f c buf :
  run lossy (S f) c buf =
  match dd lossy c buf with
  | DNone => ([], EMore c buf)
  | DErr e _ _ => ([], EErr e)
  | DFrame fr c' rest => let '(fs, e) := run lossy f c' rest in (fr :: fs, e)
  end.
Proof. cbn [run]. rewrite decode_dd. reflexivity. Qed.

Lemma dd_shrinks c buf fr c' rest : dd lossy c buf = DFrame fr c' rest -> (length rest < length buf)%nat.
Proof. intro H. apply dd_progress in H as (H & _). unfold lenN in H. lia. Qed.

(* enough fuel: the amount does not matter *)
Lemma run_fuel f1 : forall f2 c buf, (length buf < f1)%nat -> (length buf < f2)%nat ->
  run lossy f1 c buf = run lossy f2 c buf.
Proof.
  induction f1 as [|f1 IH]; intros f2 c buf H1 H2; [lia|].
  destruct f2 as [|f2]; [lia|]. rewrite !run_step.
  destruct (dd lossy c buf) as [|fr c' rest|e c' rest] eqn:D; try reflexivity.
  apply dd_shrinks in D. rewrite (IH f2) by lia. reflexivity.
Qed.

Lemma run_all_step c buf :
  run_all lossy c buf =
  match dd lossy c buf with
  | DNone => ([], EMore c buf)
  | DErr e _ _ => ([], EErr e)
  | DFrame fr c' rest => let '(fs, e) := run_all lossy c' rest in (fr :: fs, e)
  end.
Proof.
  unfold run_all. rewrite run_step.
  destruct (dd lossy c buf) as [|fr c' rest|e c' rest] eqn:D; try reflexivity.
  apply dd_shrinks in D. rewrite (run_fuel (length buf) (S (length rest))) by lia. reflexivity.
Qed.

(* the fuel never runs out and nothing panics *)
Lemma run_all_ends n : forall c buf, (length buf < n)%nat ->
  match snd (run_all lossy c buf) with EMore _ _ | EErr _ => True | _ => False end.
Proof.
  induction n as [|n IH]; intros c buf H; [lia|]. rewrite run_all_step.
  destruct (dd lossy c buf) as [|fr c' rest|e c' rest] eqn:D; cbn [snd]; try exact I.
  apply dd_shrinks in D. specialize (IH c' rest ltac:(lia)).
  destruct (run_all lossy c' rest) as (fs, e). exact IH.
Qed.

(* what is held when the decoder asks for more is quiescent *)
Lemma run_all_quiescent n : forall c buf fs c' rest, (length buf < n)%nat ->
  run_all lossy c buf = (fs, EMore c' rest) -> dd lossy c' rest = DNone.
Proof.
  induction n as [|n IH]; intros c buf fs c' rest H; [lia|]. rewrite run_all_step.
  destruct (dd lossy c buf) as [|fr c1 rest1|e c1 rest1] eqn:D.
  - intro E; injection E; intros; subst. exact D.
  - apply dd_shrinks in D.
    destruct (run_all lossy c1 rest1) as (fs1, e1) eqn:R. intro E; injection E; intros; subst.
    eapply (IH c1 rest1); [lia|exact R].
  - discriminate.
Qed.

(* continuation law: decoding b1 ++ b2 = decoding b1, then going on with what was held ++ b2 *)
Lemma run_all_app n : forall c b1 b2, (length b1 < n)%nat ->
  match run_all lossy c b1 with
  | (fs, EMore c' r) =>
      run_all lossy c (b1 ++ b2) = let '(fs', e') := run_all lossy c' (r ++ b2) in (fs ++ fs', e')
  | (fs, EErr e) => run_all lossy c (b1 ++ b2) = (fs, EErr e)
  | _ => True
  end.
Proof.
  induction n as [|n IH]; intros c b1 b2 H; [lia|].
  rewrite (run_all_step c b1). pose proof (dd_app lossy c b1 b2) as Happ.
  destruct (dd lossy c b1) as [|fr c1 rest|e c1 rest] eqn:D.
  - destruct (run_all lossy c (b1 ++ b2)) as (fs', e'). reflexivity.
  - pose proof (dd_shrinks _ _ _ _ _ D) as Hs.
    specialize (IH c1 rest b2 ltac:(lia)).
    rewrite (run_all_step c (b1 ++ b2)), Happ.
    destruct (run_all lossy c1 rest) as (fs1, [c2 r2|e2| |]) eqn:R; try exact I.
    + rewrite IH. destruct (run_all lossy c2 (r2 ++ b2)) as (fs', e'). reflexivity.
    + rewrite IH. reflexivity.
  - destruct Happ as (rest' & Happ). rewrite (run_all_step c (b1 ++ b2)), Happ. reflexivity.
Qed.

Theorem feed_eq_run_all : forall segs c buf, dd lossy c buf = DNone ->
  feed lossy c buf segs = run_all lossy c (buf ++ concat segs).
Proof.
  induction segs as [|s r IH]; intros c buf Hq.
  - cbn [feed concat]. rewrite app_nil_r, run_all_step, Hq. reflexivity.
  - cbn [feed concat]. rewrite app_assoc.
    pose proof (run_all_app (S (length (buf ++ s))) c (buf ++ s) (concat r) ltac:(lia)) as Happ.
    pose proof (run_all_ends (S (length (buf ++ s))) c (buf ++ s) ltac:(lia)) as Hend.
    destruct (run_all lossy c (buf ++ s)) as (fs, [c' rest|e| |]) eqn:R; cbn [snd] in Hend; try contradiction.
    + rewrite Happ. rewrite (IH c' rest); [reflexivity|].
      eapply (run_all_quiescent (S (length (buf ++ s)))); [|exact R]. lia.
    + rewrite Happ. reflexivity.
Qed.

Lemma dd_nil c : dd lossy c [] = DNone.
Proof. reflexivity. Qed.

Theorem segmentation_independent : forall (c : codec) (segs : list bytes),
  feed lossy c [] segs = run_all lossy c (concat segs).
Proof. intros. apply (feed_eq_run_all segs c []). apply dd_nil. Qed.

End S.
