(* Model of actix-http/src/ws/mask.rs (little-endian target, as on x86_64 / aarch64).
   [apply_mask_fallback] is the byte-wise loop; [apply_mask_fast32] is the word-wise variant,
   parameterised by what `align_to_mut::<u32>()` returned: the length [p] of the unaligned prefix
   and the number [k] of aligned 32-bit words (the rest is the suffix). No proofs here. *)
From AV Require Import Lib.Base.

(* mask[i & 3]; the mask is a [u8; 4], so the index is always in range *)
Definition mask_at (mask : bytes) (i : N) : N := nth (N.to_nat (N.land i 3)) mask 0.

(* for (i, byte) in buf.iter_mut().enumerate() { *byte ^= mask[i & 3] }, started at index i *)
Fixpoint fallback_at (i : N) (buf mask : bytes) : bytes :=
  match buf with
  | [] => []
  | b :: r => N.lxor b (mask_at mask i) :: fallback_at (i + 1) r mask
  end.
Definition apply_mask_fallback (buf mask : bytes) : bytes := fallback_at 0 buf mask.

(* u32::from_ne_bytes / to_ne_bytes on a little-endian target *)
Definition u32_from_le (m : bytes) : N :=
  nth 0 m 0 + 256 * (nth 1 m 0 + 256 * (nth 2 m 0 + 256 * nth 3 m 0)).
Definition u32_to_le (w : N) : bytes :=
  [w mod 256; (w / 256) mod 256; (w / 65536) mod 256; (w / 16777216) mod 256].

(* u32::rotate_right(n), 0 < n < 32: the low n bits move to the top *)
Definition rotr32 (x n : N) : N := x / 2 ^ n + (x mod 2 ^ n) * 2 ^ (32 - n).

(* for word in words.iter_mut() { *word ^= mask_u32 } over the 4-byte groups of [ws] *)
Fixpoint xor_words (k : nat) (ws : bytes) (mask_u32 : N) : bytes :=
  match k with
  | O => []
  | S k' => u32_to_le (N.lxor (u32_from_le (firstn 4 ws)) mask_u32) ++ xor_words k' (skipn 4 ws) mask_u32
  end.

Definition apply_mask_fast32 (p k : nat) (buf mask : bytes) : bytes :=
  let mask_u32 := u32_from_le mask in
  let prefix := firstn p buf in
  let rest := skipn p buf in
  let words := firstn (4 * k) rest in
  let suffix := skipn (4 * k) rest in
  let prefix' := apply_mask_fallback prefix mask in
  let head := N.land (lenN prefix) 3 in
  let mask_u32' := if 0 <? head then rotr32 mask_u32 (8 * head) else mask_u32 in
  prefix' ++ xor_words k words mask_u32' ++ apply_mask_fallback suffix (u32_to_le mask_u32').

(* apply_mask = apply_mask_fast32 with the split chosen by the allocator's alignment; by
   [MaskProofs.fast32_eq_fallback] the result is the byte-wise one for every split, so the frame
   model uses the byte-wise function. *)
Definition apply_mask (buf mask : bytes) : bytes := apply_mask_fallback buf mask.
