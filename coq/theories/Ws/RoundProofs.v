(* The parser / decoder on complete RFC-layout frames: strictness and delivery. *)
From AV Require Import Lib.Base Ws.Mask Ws.MaskProofs Ws.Frame Ws.FrameProofs Ws.Codec Ws.ParseProofs
  Ws.FrameSpec Ws.SpecProofs Ws.HdrProofs.

Lemma hdr_len_bounds h : hdr_ok h -> 2 <= lenN (hdr_bytes h) /\ lenN (hdr_bytes h) <= 14.
Proof.
  intros (_ & _ & Hk & _). destruct h as [fin rsv op key lf len]. unfold hdr_bytes, lenN.
  cbn [h_fin h_rsv h_op h_key h_lform h_len] in *. cbn [app length].
  rewrite app_length. destruct lf, key as [k|]; rewrite ?to_be_length, ?Hk; cbn [length]; lia.
Qed.

Definition pp_expected (fin : bool) (opc : opcode) (len : N) (key : option bytes) (wire rest : bytes)
  (max_size : N) : parsed :=
  if max_size <? len then PErr Overflow rest
  else if len =? 0 then PFrame fin opc None rest
  else match opc, 125 <? len with
       | OpPing, true | OpPong, true => PErr (InvalidLength len) rest
       | OpClose, true => PFrame true OpClose None rest
       | _, _ => PFrame fin opc (Some (unmask key wire)) rest
       end.

(* a complete frame whose masking fits the role and whose opcode is known *)
Lemma pp_frame h wire rest server max_size :
  hdr_ok h -> lenN wire = h_len h -> h_len h < 2 ^ 63 ->
  is_some (h_key h) = server -> opcode_is_bad (opcode_of_u8 (h_op h)) = false ->
  pp (hdr_bytes h ++ wire ++ rest) server max_size =
  pp_expected (h_fin h) (opcode_of_u8 (h_op h)) (h_len h) (h_key h) wire rest max_size.
Proof.
  intros Hok Hw H63 Hrole Hop. unfold pp, pp_expected. rewrite pm_hdr by assumption.
  unfold pm_expected. rewrite Hrole, Hop.
  replace (negb server && server) with false by (destruct server; reflexivity).
  replace (server && negb server) with false by (destruct server; reflexivity).
  destruct (hdr_len_bounds h Hok) as (H2 & H14).
  change (2 ^ 63) with 9223372036854775808 in H63.
  unfold checked_add, usize_max, u64_max.
  replace (lenN (hdr_bytes h) + h_len h <=? 18446744073709551615) with true by lia.
  rewrite !lenN_app, Hw.
  replace (lenN (hdr_bytes h) + (h_len h + lenN rest) <? lenN (hdr_bytes h) + h_len h) with false by lia.
  rewrite (skipn_exact (hdr_bytes h)) by (unfold lenN; lia).
  destruct (max_size <? h_len h) eqn:Emax.
  - rewrite (skipn_exact wire) by (unfold lenN in Hw; lia). reflexivity.
  - destruct (h_len h =? 0) eqn:E0.
    + destruct wire; [reflexivity|]. rewrite lenN_cons in Hw. lia.
    + rewrite (skipn_exact wire) by (unfold lenN in Hw; lia).
      rewrite (firstn_exact wire) by (unfold lenN in Hw; lia). reflexivity.
Qed.

(* masking wrong for the role: refused from the first two bytes on *)
Lemma dd_wrong_mask lossy c h tail : hdr_ok h -> is_some (h_key h) <> c_server c ->
  dd lossy c (hdr_bytes h ++ tail) =
  DErr (if c_server c then UnmaskedFrame else MaskedFrame) c (hdr_bytes h ++ tail).
Proof.
  intros Hok Hr. unfold dd, pp. rewrite pm_hdr by assumption. unfold pm_expected.
  destruct (is_some (h_key h)), (c_server c); cbn [negb andb]; try reflexivity; congruence.
Qed.

(* reserved opcode *)
Lemma dd_bad_opcode lossy c h tail : hdr_ok h -> is_some (h_key h) = c_server c ->
  opcode_known (h_op h) = false ->
  dd lossy c (hdr_bytes h ++ tail) = DErr (InvalidOpcode (h_op h)) c (hdr_bytes h ++ tail).
Proof.
  intros Hok Hr Hop. unfold dd, pp. rewrite pm_hdr by assumption. unfold pm_expected. rewrite Hr.
  replace (negb (c_server c) && c_server c) with false by (destruct (c_server c); reflexivity).
  replace (c_server c && negb (c_server c)) with false by (destruct (c_server c); reflexivity).
  assert (Hb : opcode_is_bad (opcode_of_u8 (h_op h)) = true).
  { destruct Hok as (_ & Ho & _).
    apply (sweep (fun o => opcode_known o || opcode_is_bad (opcode_of_u8 o)) 16) in Ho; [|vm_compute; reflexivity].
    rewrite Hop in Ho. exact Ho. }
  rewrite Hb. reflexivity.
Qed.

Lemma known_not_bad op : op < 16 -> opcode_known op = true -> opcode_is_bad (opcode_of_u8 op) = false.
Proof.
  intros Ho Hk.
  apply (sweep (fun o => negb (opcode_known o) || negb (opcode_is_bad (opcode_of_u8 o))) 16) in Ho; [|vm_compute; reflexivity].
  rewrite Hk in Ho. cbn [negb orb] in Ho. destruct (opcode_is_bad _); [discriminate|reflexivity].
Qed.

(* the known class F6b: a Close frame announcing more than 125 bytes *)
Definition close_overlong (h : fhdr) : bool := (h_op h =? 8) && (125 <? h_len h).

(* strictness: a complete frame that the property does not let through is refused *)
Theorem illegal_frame_refused lossy c h wire rest :
  hdr_ok h -> lenN wire = h_len h -> h_len h < 2 ^ 63 ->
  frame_legal (c_server c) (c_cont c) (c_max c) h = false -> close_overlong h = false ->
  exists e c' r, dd lossy c (hdr_bytes h ++ wire ++ rest) = DErr e c' r.
Proof.
  intros Hok Hw H63 Hleg Hcl.
  destruct (Bool.eqb (is_some (h_key h)) (c_server c)) eqn:Er.
  2:{ rewrite dd_wrong_mask; [do 3 eexists; reflexivity|assumption|].
      intro E. rewrite E in Er. rewrite Bool.eqb_reflx in Er. discriminate. }
  apply Bool.eqb_prop in Er.
  destruct (opcode_known (h_op h)) eqn:Ek.
  2:{ rewrite dd_bad_opcode by assumption. do 3 eexists; reflexivity. }
  pose proof Hok as (_ & Ho & _).
  unfold dd. rewrite pp_frame; try assumption; [|apply known_not_bad; assumption].
  unfold frame_legal in Hleg. rewrite Er, Bool.eqb_reflx, Ek in Hleg. cbn [andb] in Hleg.
  unfold close_overlong in Hcl. unfold pp_expected.
  destruct (c_max c <? h_len h) eqn:Emax; [do 3 eexists; reflexivity|].
  replace (h_len h <=? c_max c) with true in Hleg by lia. rewrite andb_true_r in Hleg.
  unfold opcode_known in Ek.
  assert (Hcases : h_op h = 0 \/ h_op h = 1 \/ h_op h = 2 \/ h_op h = 8 \/ h_op h = 9 \/ h_op h = 10) by lia.
  destruct Hcases as [E|[E|[E|[E|[E|E]]]]]; rewrite E in *;
    cbn [opcode_of_u8] in *; change (is_control _) with false in Hleg || change (is_control _) with true in Hleg;
    cbn match in Hleg;
    destruct (h_fin h), (c_cont c), (h_len h =? 0) eqn:E0, (125 <? h_len h) eqn:E125;
    cbn [negb andb] in *; try discriminate; try lia;
    try (do 3 eexists; reflexivity).
Qed.
