(* Round trip of a whole conversation: the messages one role encodes, concatenated, are decoded by
   the peer role as exactly those messages, in order, with nothing left over. *)
From AV Require Import Lib.Base Ws.Mask Ws.MaskProofs Ws.Frame Ws.FrameProofs Ws.Codec Ws.ParseProofs
  Ws.FrameSpec Ws.SpecProofs Ws.HdrProofs Ws.RoundProofs Ws.DeliverProofs Ws.RoundTrip Ws.Stream
  Ws.StreamProofs.

Section Seq.
Variable lossy : bytes -> bytes.

(* every message is sendable in the writer state it meets *)
Fixpoint all_sendable (enc : codec) (max_size : N) (ms : list (message * bytes)) : Prop :=
  match ms with
  | [] => True
  | (m, key) :: r =>
      length key = 4%nat /\ sendable (c_wcont enc) max_size m /\
      all_sendable (fst (encode enc m [] key)) max_size r
  end.

(* the frames the peer must see: one per message the encoder accepted (Nop writes nothing) *)
Fixpoint expected_frames (enc : codec) (ms : list (message * bytes)) : list frame :=
  match ms with
  | [] => []
  | (m, key) :: r =>
      let '(enc1, out) := encode enc m [] key in
      match out, frame_of_message lossy m with
      | Ok _, Some f => f :: expected_frames enc1 r
      | _, _ => expected_frames enc1 r
      end
  end.

Lemma encode_server enc m dst key : c_server (fst (encode enc m dst key)) = c_server enc.
Proof.
  destruct m as [b|b|[b|b|b|b]|b|b|r|]; cbn [encode]; try reflexivity; destruct (c_wcont enc); reflexivity.
Qed.

Lemma encode_err enc m dst key enc1 e : encode enc m dst key = (enc1, Err e) -> enc1 = enc.
Proof.
  destruct m as [b|b|[b|b|b|b]|b|b|r|]; cbn [encode]; try discriminate;
    destruct (c_wcont enc); intro H; try discriminate; injection H; intros; subst; reflexivity.
Qed.

Theorem roundtrip_all : forall ms enc dec,
  c_server dec = negb (c_server enc) -> c_cont dec = c_wcont enc ->
  all_sendable enc (c_max dec) ms ->
  let '(enc', stream, _) := encode_all enc ms in
  run_all lossy dec stream = (expected_frames enc ms, EMore (set_cont dec (c_wcont enc')) []).
Proof.
  induction ms as [|[m key] r IH]; intros enc dec Hrole Hst Hall.
  - cbn [encode_all expected_frames]. rewrite run_all_step. cbn.
    rewrite <- Hst. destruct dec; reflexivity.
  - cbn [all_sendable] in Hall. destruct Hall as (Hk & Hs & Hall).
    cbn [encode_all expected_frames].
    destruct (encode enc m [] key) as (enc1, out) eqn:Eenc. cbn [fst] in Hall.
    pose proof (encode_server enc m [] key) as Hsrv. rewrite Eenc in Hsrv. cbn [fst] in Hsrv.
    destruct out as [b|e].
    + pose proof (roundtrip_one lossy enc dec m key) as Hone.
      destruct (frame_of_message lossy m) as [f|] eqn:Ef.
      * specialize (IH enc1 (set_cont dec (c_wcont enc1))).
        destruct (encode_all enc1 r) as ((enc', bs), outs) eqn:Eall.
        specialize (Hone bs enc1 b Hrole Hst Hk Hs Eenc).
        rewrite run_all_step, Hone.
        rewrite IH; [destruct dec; reflexivity| | |].
        -- destruct dec; cbn in *. congruence.
        -- destruct dec; reflexivity.
        -- destruct dec; exact Hall.
      * (* Nop: nothing written, state unchanged *)
        specialize (Hone [] enc1 b Hrole Hst Hk Hs Eenc). subst b.
        destruct m as [?|?|[?|?|?|?]|?|?|[[? ?]|]|]; try discriminate Ef.
        cbn [encode] in Eenc. injection Eenc; intros; subst enc1.
        specialize (IH enc dec Hrole Hst Hall).
        destruct (encode_all enc r) as ((enc', bs), outs). exact IH.
    + apply encode_err in Eenc. subst enc1.
      specialize (IH enc dec Hrole Hst Hall).
      destruct (encode_all enc r) as ((enc', bs), outs). exact IH.
Qed.
End Seq.
