(* hash_key: always 28 base64 characters ending in '=', never a panic; base64 round trip;
   the handshake answers with the accept key of the request's key. *)
From AV Require Import Lib.Base Ws.Frame Ws.FrameProofs Ws.SpecProofs Ws.MaskProofs Ws.Sha1 Ws.Base64
  Ws.Handshake Ws.HandshakeProofs Ws.HashKey.

Lemma sha1_length msg : length (sha1 msg) = 20%nat.
Proof.
  unfold sha1. destruct (blocks _ _ _) as ((((h0, h1), h2), h3), h4).
  rewrite !app_length, !to_be_length. reflexivity.
Qed.

(* ---------- alphabet ---------- *)
Lemma b64char_ok i : is_b64char (b64char i) = true.
Proof.
  unfold b64char. assert (H : i mod 64 < N.of_nat 64) by (apply N.mod_lt; lia).
  revert H. generalize (i mod 64). intros j H.
  apply (sweep (fun j => is_b64char (if j <? 26 then 65 + j else if j <? 52 then 71 + j
                          else if j <? 62 then j - 4 else if j =? 62 then 43 else 47)) 64);
    [vm_compute; reflexivity|exact H].
Qed.

Lemma b64char_not_pad i : (b64char i =? pad_char) = false.
Proof.
  unfold b64char. assert (H : i mod 64 < N.of_nat 64) by (apply N.mod_lt; lia).
  revert H. generalize (i mod 64). intros j H.
  apply (sweep (fun j => negb ((if j <? 26 then 65 + j else if j <? 52 then 71 + j
                          else if j <? 62 then j - 4 else if j =? 62 then 43 else 47) =? pad_char)) 64) in H;
    [|vm_compute; reflexivity].
  destruct (_ =? pad_char); [discriminate|reflexivity].
Qed.

Lemma b64val_char i : b64val (b64char i) = i mod 64.
Proof.
  unfold b64char. assert (H : i mod 64 < N.of_nat 64) by (apply N.mod_lt; lia).
  revert H. generalize (i mod 64). intros j H.
  apply (sweep (fun j => b64val (if j <? 26 then 65 + j else if j <? 52 then 71 + j
                          else if j <? 62 then j - 4 else if j =? 62 then 43 else 47) =? j) 64) in H;
    [|vm_compute; reflexivity].
  apply N.eqb_eq in H. exact H.
Qed.

(* ---------- 20 bytes encode to 27 alphabet characters and one '=' ---------- *)
Lemma base64_20 l : length l = 20%nat ->
  exists body, base64 l = body ++ [pad_char] /\ length body = 27%nat /\ forallb is_b64char body = true.
Proof.
  intro H. do 20 (destruct l as [|? l]; [discriminate H|]). destruct l; [|discriminate H].
  cbn [base64]. eexists (_ :: _ :: _ :: _ :: _ :: _ :: _ :: _ :: _ :: _ :: _ :: _ :: _ :: _ :: _ :: _
                        :: _ :: _ :: _ :: _ :: _ :: _ :: _ :: _ :: _ :: _ :: [_]).
  split; [cbn [app]; reflexivity|]. split; [reflexivity|].
  cbn [forallb]. rewrite !b64char_ok. reflexivity.
Qed.

Theorem hash_key_shape key :
  exists body, hash_key key = Val (body ++ [pad_char]) /\ length body = 27%nat /\
               forallb is_b64char body = true.
Proof.
  destruct (base64_20 (key_digest key)) as (body & E & Hl & Ha); [apply sha1_length|].
  exists body. unfold hash_key. rewrite E. unfold lenN. rewrite app_length, Hl. cbn [length].
  repeat split; assumption.
Qed.

Theorem hash_key_val key : hash_key key = Val (base64 (sha1 (key ++ ws_guid))).
Proof.
  destruct (base64_20 (key_digest key)) as (body & E & Hl & Ha); [apply sha1_length|].
  unfold hash_key. fold (key_digest key). rewrite E. unfold lenN. rewrite app_length, Hl. reflexivity.
Qed.

(* ---------- base64 round trip ---------- *)
Lemma base64_roundtrip_n n : forall l, (length l <= n)%nat -> bytes_ok l -> base64_decode (base64 l) = l.
Proof.
  induction n as [|n IH]; intros l Hn Hok.
  - destruct l; [reflexivity|cbn in Hn; lia].
  - destruct l as [|a [|b [|c r]]]; [reflexivity| | |].
    + inversion Hok as [|? ? Ha _]; subst. unfold byte_ok in Ha.
      cbn [base64 base64_decode]. rewrite N.eqb_refl, !b64val_char.
      f_equal. zify; Z.div_mod_to_equations; lia.
    + inversion Hok as [|? ? Ha Hok1]; subst. inversion Hok1 as [|? ? Hb _]; subst. unfold byte_ok in *.
      cbn [base64 base64_decode]. rewrite b64char_not_pad, N.eqb_refl, !b64val_char.
      f_equal; [|f_equal]; zify; Z.div_mod_to_equations; lia.
    + inversion Hok as [|? ? Ha Hok1]; subst. inversion Hok1 as [|? ? Hb Hok2]; subst.
      inversion Hok2 as [|? ? Hc Hok3]; subst. unfold byte_ok in *.
      cbn [base64 base64_decode]. rewrite !b64char_not_pad, !b64val_char.
      rewrite (IH r) by (try assumption; cbn in Hn; lia).
      f_equal; [|f_equal; [|f_equal]]; zify; Z.div_mod_to_equations; lia.
Qed.

Theorem base64_roundtrip l : bytes_ok l -> base64_decode (base64 l) = l.
Proof. apply (base64_roundtrip_n (length l)). lia. Qed.

(* ---------- handshake ---------- *)
Theorem handshake_accept_key method h : wellformed method h ->
  exists key, hget s_key h = Some key /\
              handshake method h = Val (HsOk (base64 (sha1 (key ++ ws_guid)))).
Proof.
  intro Hw. pose proof Hw as (_ & _ & _ & _ & (key & Hk)).
  apply handshake_ok_iff in Hw. exists key. split; [exact Hk|].
  unfold handshake. rewrite Hw, Hk, hash_key_val. reflexivity.
Qed.

Theorem handshake_total method h :
  match verify_handshake method h with
  | Some e => handshake method h = Val (HsErr e)
  | None => exists a, handshake method h = Val (HsOk a)
  end.
Proof.
  destruct (verify_handshake method h) as [e|] eqn:E.
  - unfold handshake. rewrite E. reflexivity.
  - apply handshake_ok_iff in E. destruct (handshake_accept_key method h E) as (k & _ & H). eauto.
Qed.
