(* SHA-1 (RFC 3174 / FIPS 180-4) over byte lists. 32-bit words are N with explicit mod 2^32. *)
From AV Require Import Lib.Base Ws.Frame.

Definition w32 : N := 4294967296.
Definition add32 (a b : N) : N := (a + b) mod w32.
(* u32::rotate_left(n), 0 < n < 32 *)
Definition rotl32 (x n : N) : N := N.lor (N.shiftl x n mod w32) (N.shiftr x (32 - n)).
Definition not32 (x : N) : N := N.lxor x 4294967295.

(* message ++ 0x80 ++ zeros ++ 64-bit big-endian bit length; total length a multiple of 64 *)
Definition sha1_pad (msg : bytes) : bytes :=
  let len := lenN msg in
  let k := (119 - len mod 64) mod 64 in
  msg ++ [128] ++ repeat 0 (N.to_nat k) ++ to_be 8 ((8 * len) mod 2 ^ 64).

(* big-endian 32-bit words of a block *)
Fixpoint words_of (n : nat) (l : bytes) : list N :=
  match n with
  | O => []
  | S n' => from_be (firstn 4 l) :: words_of n' (skipn 4 l)
  end.

(* message schedule: w[i] = rotl1 (w[i-3] ^ w[i-8] ^ w[i-14] ^ w[i-16]); [w] grows at the end *)
Fixpoint extend (n : nat) (w : list N) : list N :=
  match n with
  | O => w
  | S n' =>
    let i := length w in
    let g k := nth (i - k) w 0 in
    extend n' (w ++ [rotl32 (N.lxor (N.lxor (g 3%nat) (g 8%nat)) (N.lxor (g 14%nat) (g 16%nat))) 1])
  end.

Definition st := (N * N * N * N * N)%type.

Definition round (i : nat) (s : st) (wi : N) : st :=
  let '(a, b, c, d, e) := s in
  let '(f, k) :=
    if (i <? 20)%nat then (N.lor (N.land b c) (N.land (not32 b) d), 1518500249)
    else if (i <? 40)%nat then (N.lxor (N.lxor b c) d, 1859775393)
    else if (i <? 60)%nat then (N.lor (N.lor (N.land b c) (N.land b d)) (N.land c d), 2400959708)
    else (N.lxor (N.lxor b c) d, 3395469782) in
  let t := add32 (add32 (add32 (add32 (rotl32 a 5) f) e) k) wi in
  (t, a, rotl32 b 30, c, d).

Fixpoint rounds (i : nat) (w : list N) (s : st) : st :=
  match w with
  | [] => s
  | wi :: r => rounds (S i) r (round i s wi)
  end.

Definition compress (h : st) (block : bytes) : st :=
  let w := extend 64 (words_of 16 block) in
  let '(a, b, c, d, e) := rounds 0 w h in
  let '(h0, h1, h2, h3, h4) := h in
  (add32 h0 a, add32 h1 b, add32 h2 c, add32 h3 d, add32 h4 e).

Fixpoint blocks (fuel : nat) (h : st) (l : bytes) : st :=
  match fuel with
  | O => h
  | S f => match l with [] => h | _ => blocks f (compress h (firstn 64 l)) (skipn 64 l) end
  end.

Definition sha1_init : st := (1732584193, 4023233417, 2562383102, 271733878, 3285377520).

Definition sha1 (msg : bytes) : bytes :=
  let p := sha1_pad msg in
  let '(h0, h1, h2, h3, h4) := blocks (S (length p / 64)) sha1_init p in
  to_be 4 h0 ++ to_be 4 h1 ++ to_be 4 h2 ++ to_be 4 h3 ++ to_be 4 h4.
