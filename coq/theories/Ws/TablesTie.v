(* Translator tie for C14: the literals of the WebSocket model are exactly the ones
   tools/extract_consts.py (extract_ws_tables) reads from actix-http/src/ws/{frame,proto,mod}.rs
   on every check run (Gen/WsTables.v). Each model function is restated with the generated
   constants in place of its literals and shown equal by conversion / finite case analysis, so a
   changed literal in the Rust source regenerates Gen/WsTables.v and breaks this file (and with it
   Props/C14.v), in addition to the correspondence. *)
From Coq Require Import String.
From AV Require Import Lib.Base Gen.WsTables Ws.Mask Ws.Frame Ws.Codec Ws.Handshake Ws.FrameSpec
  Ws.SpecProofs Ws.Sha1 Ws.Base64 Ws.HashKey.
Open Scope N_scope.

(* ---------- Parser::parse_metadata ---------- *)
Definition parse_metadata_gen (src : bytes) (server : bool) : R (res (option meta)) :=
  let chunk_len := lenN src in
  if chunk_len <? WS_P_HDR_MIN then Val (Ok None) else
  rbind (index src 0) (fun first =>
  rbind (index src 1) (fun second =>
  let finished := negb (N.land first WS_P_FIN_BIT =? 0) in
  let masked := negb (N.land second WS_P_MASK_BIT =? 0) in
  if negb masked && server then Val (Err UnmaskedFrame)
  else if masked && negb server then Val (Err MaskedFrame)
  else
  let opcode := opcode_of_u8 (N.land first WS_P_OPCODE_MASK) in
  if opcode_is_bad opcode then Val (Err (InvalidOpcode (N.land first WS_P_OPCODE_MASK)))
  else
    let len := N.land second WS_P_LEN7_MASK in
    let lr : R (option (N * N)) :=
      if len =? WS_P_LEN16_MARKER then
        if chunk_len <? WS_P_HDR16 then Val None
        else rbind (slice src WS_P_HDR_MIN (N.to_nat WS_P_EXT16_BYTES))
               (fun s => Val (Some (from_be s, WS_P_HDR_MIN + WS_P_EXT16_BYTES)))
      else if len =? WS_P_LEN64_MARKER then
        if chunk_len <? WS_P_HDR64 then Val None
        else rbind (slice src WS_P_HDR_MIN (N.to_nat WS_P_EXT64_BYTES))
               (fun s => Val (Some (from_be s, WS_P_HDR_MIN + WS_P_EXT64_BYTES)))
      else Val (Some (len, WS_P_HDR_MIN)) in
    rbind lr (fun l =>
    match l with
    | None => Val (Ok None)
    | Some (length, idx) =>
      if server then
        if chunk_len <? idx + WS_P_MASK_BYTES then Val (Ok None)
        else rbind (slice src idx (N.to_nat WS_P_MASK_BYTES)) (fun mask =>
             Val (Ok (Some (idx + WS_P_MASK_BYTES, finished, opcode, length, Some mask))))
      else Val (Ok (Some (idx, finished, opcode, length, None)))
    end))).

Lemma parse_metadata_tie : forall src server, parse_metadata src server = parse_metadata_gen src server.
Proof. intros. reflexivity. Qed.

(* the complete-header sizes the model waits for are start + extension bytes *)
Lemma header_sizes_tie :
  WS_P_HDR16 = WS_P_HDR_MIN + WS_P_EXT16_BYTES /\ WS_P_HDR64 = WS_P_HDR_MIN + WS_P_EXT64_BYTES.
Proof. split; reflexivity. Qed.

(* ---------- Parser::parse: the control-frame limit ---------- *)
Definition control_arm_gen (opcode : opcode) (length : N) : option (option perr) :=
  match opcode, WS_CONTROL_MAX <? length with
  | OpPing, true | OpPong, true => Some (Some (InvalidLength length))
  | OpClose, true => Some None
  | _, _ => None
  end.

(* what parse does with a complete, in-size, non-empty frame, restated with the generated limit *)
Lemma parse_control_limit_tie : forall src server max_size idx fin op len mask,
  parse_metadata src server = Val (Ok (Some (idx, fin, op, len, mask))) ->
  checked_add idx len = Some (idx + len) -> (lenN src <? idx + len) = false ->
  (max_size <? len) = false -> (len =? 0) = false ->
  parse src server max_size =
  rbind (advance src idx) (fun src1 => rbind (split_to src1 len) (fun ds =>
    let '(data, src2) := ds in
    match control_arm_gen op len with
    | Some (Some e) => Val (PErr e src2)
    | Some None => Val (PFrame true OpClose None src2)
    | None => Val (PFrame fin op (Some (match mask with Some mk => apply_mask data mk | None => data end)) src2)
    end)).
Proof.
  intros src server max_size idx fin op len mask Hm Hc Hl Hmax H0.
  unfold parse. rewrite Hm. cbn [rbind]. rewrite Hc, Hl.
  destruct (advance src idx) as [src1|]; [|reflexivity]. cbn [rbind]. rewrite Hmax, H0.
  destruct (split_to src1 len) as [[data src2]|]; [|reflexivity]. cbn [rbind].
  unfold control_arm_gen. change WS_CONTROL_MAX with 125.
  destruct op, (125 <? len); reflexivity.
Qed.

Lemma frame_legal_limit_tie : forall server open max_size h,
  frame_legal server open max_size h =
  Bool.eqb (is_some (h_key h)) server && opcode_known (h_op h) &&
  (if is_control (h_op h) then h_fin h && (h_len h <=? WS_CONTROL_MAX)
   else if h_op h =? 0 then open else negb open) && (h_len h <=? max_size).
Proof. intros. reflexivity. Qed.

(* ---------- Parser::write_message ---------- *)
Definition write_message_gen (dst payload : bytes) (op : opcode) (fin mask : bool) (key : bytes) : bytes :=
  let one := if fin then N.lor WS_W_FIN_BIT (u8_of_opcode op) else u8_of_opcode op in
  let payload_len := lenN payload in
  let two := if mask then WS_W_MASK_BIT else 0 in
  let dst1 :=
    if payload_len <? WS_W_LEN7_LIMIT then dst ++ [one; N.lor two (payload_len mod 256)]
    else if payload_len <=? WS_W_LEN16_MAX then
      dst ++ [one; N.lor two WS_W_LEN16_MARKER] ++ to_be 2 (payload_len mod 65536)
    else dst ++ [one; N.lor two WS_W_LEN64_MARKER] ++ to_be 8 (payload_len mod 2 ^ 64) in
  if mask then
    let dst3 := (dst1 ++ key) ++ payload in
    mask_from dst3 (lenN dst3 - payload_len) key
  else dst1 ++ payload.

Lemma write_message_tie : forall dst payload op fin mask key,
  write_message dst payload op fin mask key = write_message_gen dst payload op fin mask key.
Proof. intros. reflexivity. Qed.

(* writer and parser agree on every literal they share, and the spec's minimal form switches at
   the writer's limits *)
Lemma writer_parser_literals_agree :
  WS_W_FIN_BIT = WS_P_FIN_BIT /\ WS_W_MASK_BIT = WS_P_MASK_BIT /\ WS_W_MASK_BYTES = WS_P_MASK_BYTES /\
  WS_W_LEN16_MARKER = WS_P_LEN16_MARKER /\ WS_W_LEN64_MARKER = WS_P_LEN64_MARKER /\
  WS_W_LEN7_LIMIT = WS_P_LEN16_MARKER /\ WS_W_LEN16_MAX + 1 = 256 ^ WS_P_EXT16_BYTES /\
  WS_P_LEN7_MASK = WS_P_MASK_BIT - 1 /\ WS_P_LEN64_MARKER = WS_P_LEN7_MASK.
Proof. repeat split; reflexivity. Qed.

Lemma minimal_form_tie : forall len,
  minimal_form len = if len <? WS_W_LEN7_LIMIT then L7 else if len <=? WS_W_LEN16_MAX then L16 else L64.
Proof. intros. reflexivity. Qed.

(* ---------- OpCode <-> u8 ---------- *)
Definition opcode_name (o : opcode) : string :=
  match o with
  | OpContinue => "Continue" | OpText => "Text" | OpBinary => "Binary" | OpClose => "Close"
  | OpPing => "Ping" | OpPong => "Pong" | OpBad => "Bad"
  end.

Fixpoint lookup_n (k : N) (t : list (N * string)) (d : string) : string :=
  match t with [] => d | (k', v) :: r => if k =? k' then v else lookup_n k r d end.
Fixpoint lookup_s (k : string) (t : list (string * N)) : option N :=
  match t with [] => None | (k', v) :: r => if String.eqb k k' then Some v else lookup_s k r end.

(* impl From<u8> for OpCode, on every u8 *)
Lemma opcode_of_u8_tie : forall b, b < 256 ->
  opcode_name (opcode_of_u8 b) = lookup_n b WS_OPCODE_FROM_U8 WS_OPCODE_FROM_U8_DEFAULT.
Proof.
  intros b H.
  apply (sweep (fun b => String.eqb (opcode_name (opcode_of_u8 b))
                           (lookup_n b WS_OPCODE_FROM_U8 WS_OPCODE_FROM_U8_DEFAULT)) 256) in H;
    [|vm_compute; reflexivity].
  apply String.eqb_eq in H. exact H.
Qed.

(* impl From<OpCode> for u8, on every variant *)
Lemma u8_of_opcode_tie : forall o, lookup_s (opcode_name o) WS_OPCODE_TO_U8 = Some (u8_of_opcode o).
Proof. intros []; reflexivity. Qed.

(* the 4-bit opcodes the spec calls known are the keys of the table *)
Lemma opcode_known_tie : forall op, op < 16 ->
  opcode_known op = existsb (fun kv => op =? fst kv) WS_OPCODE_FROM_U8.
Proof.
  intros op H.
  apply (sweep (fun op => Bool.eqb (opcode_known op) (existsb (fun kv => op =? fst kv) WS_OPCODE_FROM_U8)) 16) in H;
    [|vm_compute; reflexivity].
  apply Bool.eqb_prop in H. exact H.
Qed.

(* ---------- CloseCode <-> u16: the model keeps the number ---------- *)
(* From<CloseCode> for u16 and From<u16> for CloseCode are inverse tables with the catch-all
   `Other(code)` both ways, so converting the received number to a CloseCode and back (what the
   codec and every observer do) is the identity on every value *)
Definition close_to_u16 (name : string) (other : N) : N :=
  match lookup_s name WS_CLOSE_TO_U16 with Some n => n | None => other end.
Definition close_roundtrip (code : N) : N :=
  close_to_u16 (lookup_n code WS_CLOSE_FROM_U16 WS_CLOSE_FROM_U16_DEFAULT) code.

Lemma close_code_tie : forall code, close_roundtrip code = code.
Proof.
  intro code. unfold close_roundtrip, WS_CLOSE_FROM_U16. cbn [lookup_n].
  repeat match goal with
         | |- context [code =? ?k] =>
             destruct (code =? k) eqn:E; [apply N.eqb_eq in E; subst code; reflexivity|clear E]
         end.
  reflexivity.
Qed.

Lemma close_tables_inverse :
  forallb (fun kv => match lookup_s (snd kv) WS_CLOSE_TO_U16 with Some n => n =? fst kv | None => false end)
          WS_CLOSE_FROM_U16 = true /\
  forallb (fun kv => String.eqb (lookup_n (snd kv) WS_CLOSE_FROM_U16 WS_CLOSE_FROM_U16_DEFAULT) (fst kv))
          WS_CLOSE_TO_U16 = true /\
  WS_CLOSE_FROM_U16_DEFAULT = "Other"%string.
Proof. vm_compute. repeat split; reflexivity. Qed.

(* ---------- handshake versions, GUID, accept-key length ---------- *)
Lemma versions_tie : forall hdr,
  (bytes_eqb hdr [49; 51] || bytes_eqb hdr [56] || bytes_eqb hdr [55]) = existsb (bytes_eqb hdr) WS_VERSIONS.
Proof.
  intro hdr. cbn [existsb WS_VERSIONS].
  destruct (bytes_eqb hdr [49; 51]), (bytes_eqb hdr [56]), (bytes_eqb hdr [55]); reflexivity.
Qed.

Definition verify_handshake_gen (method : bytes) (h : headers) : option hs_err :=
  if negb (bytes_eqb method s_get) then Some GetMethodRequired
  else if negb (header_has s_upgrade s_websocket h) then Some NoWebsocketUpgrade
  else if negb (header_has s_connection s_upgrade h) then Some NoConnectionUpgrade
  else if negb (contains_key s_version h) then Some NoVersionHeader
  else
    let supported_ver :=
      match hget s_version h with Some hdr => existsb (bytes_eqb hdr) WS_VERSIONS | None => false end in
    if negb supported_ver then Some UnsupportedVersion
    else if negb (contains_key s_key h) then Some BadWebsocketKey
    else None.

Lemma verify_handshake_tie : forall method h, verify_handshake method h = verify_handshake_gen method h.
Proof.
  intros. unfold verify_handshake, verify_handshake_gen.
  destruct (hget s_version h) as [hdr|]; [rewrite versions_tie|]; reflexivity.
Qed.

Lemma guid_tie : ws_guid = WS_GUID.
Proof. reflexivity. Qed.

Definition hash_key_gen (key : bytes) : R bytes :=
  let out := base64 (sha1 (key ++ WS_GUID)) in
  if WS_ACCEPT_LEN <? lenN out then Panic
  else if lenN out =? WS_ACCEPT_LEN then Val out
  else Panic.

Lemma hash_key_tie : forall key, hash_key key = hash_key_gen key.
Proof. intros. reflexivity. Qed.

(* the RFC 6455 section 1.3 example computed with the GUID read from the source *)
Lemma rfc6455_sample_with_source_guid :
  hash_key_gen [100; 71; 104; 108; 73; 72; 78; 104; 98; 88; 66; 115; 90; 83; 66; 117; 98; 50; 53; 106; 90; 81; 61; 61] =
  Val [115; 51; 112; 80; 76; 77; 66; 105; 84; 120; 97; 81; 57; 107; 89; 71; 122; 122; 104; 90; 82; 98; 75; 43; 120; 79; 111; 61].
Proof. vm_compute. reflexivity. Qed.
