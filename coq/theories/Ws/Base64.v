(* Base64, standard alphabet with padding (RFC 4648 section 4): encoder and decoder. *)
From AV Require Import Lib.Base.

(* the character of a 6-bit value *)
Definition b64char (i : N) : N :=
  let i := i mod 64 in
  if i <? 26 then 65 + i            (* A-Z *)
  else if i <? 52 then 71 + i       (* a-z *)
  else if i <? 62 then i - 4        (* 0-9 *)
  else if i =? 62 then 43           (* + *)
  else 47.                          (* / *)

Definition pad_char : N := 61.      (* = *)

Fixpoint base64 (l : bytes) : bytes :=
  match l with
  | [] => []
  | [a] => [b64char (a / 4); b64char ((a mod 4) * 16); pad_char; pad_char]
  | [a; b] => [b64char (a / 4); b64char ((a mod 4) * 16 + b / 16); b64char ((b mod 16) * 4); pad_char]
  | a :: b :: c :: r =>
      b64char (a / 4) :: b64char ((a mod 4) * 16 + b / 16) :: b64char ((b mod 16) * 4 + c / 64)
      :: b64char (c mod 64) :: base64 r
  end.

Definition is_b64char (c : N) : bool :=
  ((65 <=? c) && (c <=? 90)) || ((97 <=? c) && (c <=? 122)) || ((48 <=? c) && (c <=? 57))
  || (c =? 43) || (c =? 47).

(* the 6-bit value of a character (0 for anything else) *)
Definition b64val (c : N) : N :=
  if (65 <=? c) && (c <=? 90) then c - 65
  else if (97 <=? c) && (c <=? 122) then c - 71
  else if (48 <=? c) && (c <=? 57) then c + 4
  else if c =? 43 then 62 else 63.

Fixpoint base64_decode (l : bytes) : bytes :=
  match l with
  | c0 :: c1 :: c2 :: c3 :: r =>
      let v0 := b64val c0 in let v1 := b64val c1 in let v2 := b64val c2 in let v3 := b64val c3 in
      if c2 =? pad_char then [v0 * 4 + v1 / 16]
      else if c3 =? pad_char then [v0 * 4 + v1 / 16; (v1 mod 16) * 16 + v2 / 4]
      else v0 * 4 + v1 / 16 :: (v1 mod 16) * 16 + v2 / 4 :: (v2 mod 4) * 64 + v3 :: base64_decode r
  | _ => []
  end.
