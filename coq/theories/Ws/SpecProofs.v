(* The parser on RFC-layout frames: what it reads from any header, strictness, what the writer
   emits, round trip. *)
From AV Require Import Lib.Base Ws.Mask Ws.MaskProofs Ws.Frame Ws.FrameProofs Ws.Codec Ws.ParseProofs
  Ws.FrameSpec.

(* ---------- big-endian integers ---------- *)
Lemma to_be_length k n : length (to_be k n) = k.
Proof. induction k; cbn [to_be length]; congruence. Qed.

Lemma fold_be_acc l : forall acc, fold_left (fun a b => a * 256 + b) l acc =
  acc * 256 ^ lenN l + fold_left (fun a b => a * 256 + b) l 0.
Proof.
  induction l as [|x l IH]; intro acc; cbn [fold_left].
  - rewrite lenN_nil. change (256 ^ 0) with 1. lia.
  - rewrite IH, (IH (0 * 256 + x)). rewrite lenN_cons.
    replace (256 ^ (1 + lenN l)) with (256 * 256 ^ lenN l) by (rewrite N.pow_add_r; reflexivity). lia.
Qed.

Lemma from_be_to_be k : forall n, from_be (to_be k n) = n mod 256 ^ N.of_nat k.
Proof.
  induction k as [|k IH]; intro n.
  - cbn. rewrite N.mod_1_r. reflexivity.
  - unfold from_be in *. cbn [to_be fold_left]. rewrite fold_be_acc, IH.
    unfold lenN. rewrite to_be_length.
    replace (N.of_nat (S k)) with (N.of_nat k + 1) by lia.
    rewrite N.pow_add_r. change (256 ^ 1) with 256.
    rewrite (N.mod_mul_r n (256 ^ N.of_nat k) 256) by (try apply N.pow_nonzero; lia). lia.
Qed.

Lemma firstn_exact (a b : bytes) n : n = length a -> firstn n (a ++ b) = a.
Proof. intro H. subst. rewrite firstn_app, Nat.sub_diag, firstn_all. cbn [firstn]. apply app_nil_r. Qed.
Lemma skipn_exact (a b : bytes) n : n = length a -> skipn n (a ++ b) = b.
Proof. intro H. subst. rewrite skipn_app, Nat.sub_diag, skipn_all. reflexivity. Qed.

(* ---------- bit tests on bytes: finite sweep ---------- *)
Lemma sweep (P : N -> bool) (k : nat) :
  forallb P (map N.of_nat (seq 0 k)) = true -> forall b, b < N.of_nat k -> P b = true.
Proof.
  intros H b Hb. rewrite forallb_forall in H. apply H. apply in_map_iff.
  exists (N.to_nat b). split; [lia|]. apply in_seq. lia.
Qed.

Lemma land128 b : b < 256 -> (N.land b 128 =? 0) = (b <? 128).
Proof.
  intro H.
  apply (sweep (fun b => Bool.eqb (N.land b 128 =? 0) (b <? 128)) 256) in H; [|vm_compute; reflexivity].
  apply Bool.eqb_prop in H. exact H.
Qed.
Lemma land15 b : N.land b 15 = b mod 16.
Proof. change 15 with (N.ones 4). apply N.land_ones. Qed.
Lemma land127 b : N.land b 127 = b mod 128.
Proof. change 127 with (N.ones 7). apply N.land_ones. Qed.
Lemma lor128 x : x < 128 -> N.lor 128 x = 128 + x.
Proof.
  intro H. apply N.eqb_eq.
  apply (sweep (fun x => N.lor 128 x =? 128 + x) 128) in H; [exact H|vm_compute; reflexivity].
Qed.
