(* apply_mask_fast32 = apply_mask_fallback for every alignment split (continuation of MaskProofs). *)
From AV Require Import Lib.Base Ws.Mask Ws.MaskProofs.

Lemma u32_le_roundtrip a b c d :
  byte_ok a -> byte_ok b -> byte_ok c -> byte_ok d ->
  u32_to_le (u32_from_le [a; b; c; d]) = [a; b; c; d].
Proof.
  intros. rewrite u32_to_le_bytes. unfold u32_from_le. cbn [nth].
  destruct (byte_i_from_le a b c d) as (A0 & A1 & A2 & A3); try assumption.
  cbv zeta in *. rewrite A0, A1, A2, A3. reflexivity.
Qed.

Lemma mask_at_ok m0 m1 m2 m3 i :
  byte_ok m0 -> byte_ok m1 -> byte_ok m2 -> byte_ok m3 -> byte_ok (mask_at [m0; m1; m2; m3] i).
Proof.
  intros. unfold mask_at. rewrite land3.
  assert (i mod 4 < 4) by (apply N.mod_lt; lia).
  assert (i mod 4 = 0 \/ i mod 4 = 1 \/ i mod 4 = 2 \/ i mod 4 = 3) as [E|[E|[E|E]]] by lia;
    rewrite E; assumption.
Qed.

Lemma mask_at_rot m h j : mask_at (rot h m) j = mask_at m (h + j).
Proof.
  unfold mask_at at 1. rewrite land3.
  assert (j mod 4 < 4) by (apply N.mod_lt; lia).
  assert (forall r, j mod 4 = r -> mask_at m (h + r) = mask_at m (h + j)) as Hm.
  { intros r Hr. apply mask_at_mod. rewrite <- Hr. rewrite N.add_mod_idemp_r by lia. reflexivity. }
  assert (j mod 4 = 0 \/ j mod 4 = 1 \/ j mod 4 = 2 \/ j mod 4 = 3) as [E|[E|[E|E]]] by lia;
    rewrite E; unfold rot; cbn [N.to_nat Pos.to_nat Pos.iter_op Nat.add nth]; rewrite <- (Hm _ E);
    try reflexivity.
  replace (h + 0) with h by lia. reflexivity.
Qed.

Lemma fallback_at_rot buf : forall j h m, fallback_at j buf (rot h m) = fallback_at (h + j) buf m.
Proof.
  induction buf as [|b r IH]; intros j h m; cbn [fallback_at]; [reflexivity|].
  rewrite mask_at_rot, IH. replace (h + (j + 1)) with (h + j + 1) by lia. reflexivity.
Qed.

Lemma xor_words_fallback k : forall ws r0 r1 r2 r3,
  byte_ok r0 -> byte_ok r1 -> byte_ok r2 -> byte_ok r3 -> bytes_ok ws -> length ws = (4 * k)%nat ->
  xor_words k ws (u32_from_le [r0; r1; r2; r3]) = fallback_at 0 ws [r0; r1; r2; r3].
Proof.
  induction k as [|k IH]; intros ws r0 r1 r2 r3 H0 H1 H2 H3 Hok Hlen.
  - destruct ws; [reflexivity|discriminate].
  - destruct ws as [|a [|b [|c [|d rest]]]]; try (cbn in Hlen; lia).
    inversion Hok as [|? ? Ha Hok1]; subst. inversion Hok1 as [|? ? Hb Hok2]; subst.
    inversion Hok2 as [|? ? Hc Hok3]; subst. inversion Hok3 as [|? ? Hd Hok4]; subst.
    cbn [xor_words firstn skipn]. rewrite xor_word by assumption.
    rewrite IH; try assumption; [|cbn in Hlen; lia].
    cbn [fallback_at app].
    change (mask_at [r0; r1; r2; r3] 0) with r0. change (mask_at [r0; r1; r2; r3] (0 + 1)) with r1.
    change (mask_at [r0; r1; r2; r3] (0 + 1 + 1)) with r2.
    change (mask_at [r0; r1; r2; r3] (0 + 1 + 1 + 1)) with r3.
    do 4 f_equal. apply fallback_at_mod. reflexivity.
Qed.

Lemma bytes_ok_firstn n l : bytes_ok l -> bytes_ok (firstn n l).
Proof.
  unfold bytes_ok. revert l; induction n; intros l H; cbn [firstn]; [constructor|].
  destruct l; [constructor|]. inversion H; subst. constructor; auto.
Qed.
Lemma bytes_ok_skipn n l : bytes_ok l -> bytes_ok (skipn n l).
Proof.
  unfold bytes_ok. revert l; induction n; intros l H; cbn [skipn]; [assumption|].
  destruct l; [constructor|]. inversion H; subst. auto.
Qed.

Theorem fast32_eq_fallback : forall (p k : nat) (buf : bytes) (m0 m1 m2 m3 : N),
  byte_ok m0 -> byte_ok m1 -> byte_ok m2 -> byte_ok m3 -> bytes_ok buf ->
  (p + 4 * k <= length buf)%nat ->
  apply_mask_fast32 p k buf [m0; m1; m2; m3] = apply_mask_fallback buf [m0; m1; m2; m3].
Proof.
  intros p k buf m0 m1 m2 m3 H0 H1 H2 H3 Hok Hlen.
  unfold apply_mask_fast32, apply_mask_fallback.
  set (m := [m0; m1; m2; m3]).
  set (prefix := firstn p buf). set (rest := skipn p buf).
  set (words := firstn (4 * k) rest). set (suffix := skipn (4 * k) rest).
  assert (Hbuf : buf = prefix ++ words ++ suffix).
  { unfold prefix, words, suffix, rest. rewrite firstn_skipn, firstn_skipn. reflexivity. }
  assert (Hp : length prefix = p) by (unfold prefix; rewrite firstn_length; lia).
  assert (Hw : length words = (4 * k)%nat).
  { unfold words, rest. rewrite firstn_length, skipn_length. lia. }
  set (h := N.land (lenN prefix) 3).
  assert (Hh : h = lenN prefix mod 4) by apply land3.
  assert (Hh4 : h < 4) by (rewrite Hh; apply N.mod_lt; lia).
  assert (E : (if 0 <? h then rotr32 (u32_from_le m) (8 * h) else u32_from_le m) = u32_from_le (rot h m))
    by (apply rot_spec; assumption).
  rewrite !E.
  assert (Hrot : rot h m = [mask_at m h; mask_at m (h + 1); mask_at m (h + 2); mask_at m (h + 3)]) by reflexivity.
  rewrite Hrot.
  rewrite u32_le_roundtrip by (apply mask_at_ok; assumption).
  rewrite xor_words_fallback; try (apply mask_at_ok; assumption); try assumption;
    [|unfold words, rest; apply bytes_ok_firstn, bytes_ok_skipn; assumption].
  rewrite <- Hrot. rewrite !fallback_at_rot.
  rewrite Hbuf at 1. rewrite !fallback_at_app. f_equal. f_equal.
  - apply fallback_at_mod. rewrite Hh. rewrite N.add_0_r, N.add_0_l. apply N.mod_mod. lia.
  - apply fallback_at_mod. rewrite Hh, N.add_0_r, N.add_0_l.
    unfold lenN at 3. rewrite Hw. rewrite Nat2N.inj_mul. change (N.of_nat 4) with 4.
    rewrite N.mod_mod by lia. rewrite N.mul_comm, N.mod_add by lia. reflexivity.
Qed.
