(* The fragmentation state machine of Codec::decode and Codec::encode over WHOLE SEQUENCES of frames /
   messages, control frames interleaved anywhere. The reference is a one-bit automaton ("a fragmented
   message is open") written from RFC 6455 section 5.4; the theorems are by induction over the
   sequence, for every codec state, role, max_size and every read segmentation. *)
From AV Require Import Lib.Base Ws.Mask Ws.MaskProofs Ws.Frame Ws.FrameProofs Ws.Codec Ws.ParseProofs
  Ws.FrameSpec Ws.SpecProofs Ws.HdrProofs Ws.RoundProofs Ws.DeliverProofs Ws.Stream Ws.StreamProofs.

(* ---------------- receiver ---------------- *)

(* a frame on the wire: RFC-layout header record (every field free) + the bytes that follow it *)
Notation wframe := (fhdr * bytes)%type (only parsing).
Definition wframe_ok (f : wframe) : Prop :=
  hdr_ok (fst f) /\ lenN (snd f) = h_len (fst f) /\ h_len (fst f) < 2 ^ 63.
Definition wframe_bytes (f : wframe) : bytes := hdr_bytes (fst f) ++ snd f.

(* the reference receiver: walks the frames, delivers while [frame_legal] holds in the current
   state, moves the one-bit state with [open_after] (control frames leave it alone, a non-FIN
   Text/Binary opens, a FIN Continue closes), stops at the first illegal frame.
   Result: delivered frames, the state after them, the frame it stopped at (if any). *)
Fixpoint ref_recv (lossy : bytes -> bytes) (server open : bool) (max_size : N) (fs : list wframe)
  : list frame * bool * option fhdr :=
  match fs with
  | [] => ([], open, None)
  | (h, w) :: r =>
      if frame_legal server open max_size h then
        let '(out, o, bad) := ref_recv lossy server (open_after h open) max_size r in
        (frame_of_hdr lossy h (unmask (h_key h) w) :: out, o, bad)
      else ([], open, Some h)
  end.

Lemma set_cont_set_cont c a b : set_cont (set_cont c a) b = set_cont c b.
Proof. reflexivity. Qed.
Lemma set_cont_same c : set_cont c (c_cont c) = c.
Proof. destruct c; reflexivity. Qed.

Section Recv.
Variable lossy : bytes -> bytes.

(* The decoder run over the concatenated frames (followed by any bytes [tail] when it stops early)
   delivers exactly what the reference receiver delivers, ends in the reference's state asking for
   more with nothing held when every frame is legal, and ends with a protocol error at the first
   illegal frame otherwise (known class F6b excepted: over-long Close). *)
Theorem decode_follows_reference : forall (fs : list wframe) (c : codec),
  Forall wframe_ok fs -> Forall (fun f => close_overlong (fst f) = false) fs ->
  let '(out, o, bad) := ref_recv lossy (c_server c) (c_cont c) (c_max c) fs in
  match bad with
  | None => run_all lossy c (concat (map wframe_bytes fs)) = (out, EMore (set_cont c o) [])
  | Some _ => exists e, run_all lossy c (concat (map wframe_bytes fs)) = (out, EErr e)
  end.
Proof.
  induction fs as [|[h w] r IH]; intros c Hok Hcl.
  - cbn [ref_recv concat map]. rewrite run_all_step. cbn. rewrite set_cont_same. reflexivity.
  - inversion Hok as [|? ? (H1 & H2 & H3) Hok']; subst. inversion Hcl as [|? ? Hc Hcl']; subst.
    cbn [fst snd] in *. cbn [ref_recv].
    assert (Hb : concat (map wframe_bytes ((h, w) :: r)) = hdr_bytes h ++ w ++ concat (map wframe_bytes r)).
    { cbn [concat map]. unfold wframe_bytes at 1. cbn [fst snd]. rewrite <- app_assoc. reflexivity. }
    destruct (frame_legal (c_server c) (c_cont c) (c_max c) h) eqn:Hleg.
    + specialize (IH (set_cont c (open_after h (c_cont c))) Hok' Hcl').
      cbn [c_server c_cont c_max set_cont] in IH.
      destruct (ref_recv lossy (c_server c) (open_after h (c_cont c)) (c_max c) r) as ((out, o), bad).
      destruct bad as [hb|].
      * destruct IH as (e & IH). exists e.
        rewrite Hb, run_all_step, (legal_frame_delivered lossy c h w _ H1 H2 H3 Hleg), IH. reflexivity.
      * rewrite Hb, run_all_step, (legal_frame_delivered lossy c h w _ H1 H2 H3 Hleg), IH.
        rewrite set_cont_set_cont. reflexivity.
    + destruct (illegal_frame_refused lossy c h w (concat (map wframe_bytes r)) H1 H2 H3 Hleg Hc)
        as (e & c' & r' & E).
      exists e. rewrite Hb, run_all_step, E. reflexivity.
Qed.

(* the same under ANY split of the bytes across reads *)
Corollary feed_follows_reference : forall (fs : list wframe) (c : codec) (segs : list bytes),
  Forall wframe_ok fs -> Forall (fun f => close_overlong (fst f) = false) fs ->
  concat segs = concat (map wframe_bytes fs) ->
  let '(out, o, bad) := ref_recv lossy (c_server c) (c_cont c) (c_max c) fs in
  match bad with
  | None => feed lossy c [] segs = (out, EMore (set_cont c o) [])
  | Some _ => exists e, feed lossy c [] segs = (out, EErr e)
  end.
Proof.
  intros fs c segs Hok Hcl Hc. rewrite segmentation_independent, Hc.
  exact (decode_follows_reference fs c Hok Hcl).
Qed.
End Recv.

(* control frames never move the state: they may be interleaved anywhere in a fragmented message *)
Lemma control_keeps_state h open : is_control (h_op h) = true -> opcode_known (h_op h) = true ->
  open_after h open = open.
Proof.
  unfold is_control, opcode_known, open_after. intros H1 H2.
  assert (E : h_op h = 8 \/ h_op h = 9 \/ h_op h = 10) by lia.
  destruct E as [E|[E|E]]; rewrite E; reflexivity.
Qed.

(* and whether a control frame is legal does not depend on the state *)
Lemma control_legal_any_state server o1 o2 max_size h : is_control (h_op h) = true ->
  frame_legal server o1 max_size h = frame_legal server o2 max_size h.
Proof. unfold frame_legal. intros ->. reflexivity. Qed.

(* ---------------- sender ---------------- *)

(* the writer automaton of Encoder::encode as the code is: Continuation items are checked against
   W_CONTINUATION; everything else (Text/Binary included) is always written *)
Definition w_legal (open : bool) (m : message) : bool :=
  match m with
  | MsgContinuation (FirstText _) | MsgContinuation (FirstBinary _) => negb open
  | MsgContinuation (Continue _) | MsgContinuation (Last _) => open
  | _ => true
  end.
Definition w_after (open : bool) (m : message) : bool :=
  match m with
  | MsgContinuation (FirstText _) | MsgContinuation (FirstBinary _) => true
  | MsgContinuation (Last _) => false
  | _ => open
  end.
Definition is_ok {A} (r : res A) : bool := match r with Ok _ => true | Err _ => false end.

Lemma encode_step c m dst key :
  let '(c', out) := encode c m dst key in
  is_ok out = w_legal (c_wcont c) m /\
  c' = (if w_legal (c_wcont c) m then set_wcont c (w_after (c_wcont c) m) else c) /\
  (is_ok out = false -> out = Err (if c_wcont c then ContinuationStarted else ContinuationNotStarted)).
Proof.
  destruct c as [sv ct wc mx].
  destruct m as [b|b|[b|b|b|b]|b|b|r|]; cbn [encode w_legal w_after c_wcont is_ok];
    try (destruct wc; cbn [negb is_ok set_wcont c_server c_cont c_wcont c_max]);
    repeat split; try reflexivity; try discriminate.
Qed.

(* reference writer: which messages of a sequence are written, and the state afterwards *)
Fixpoint ref_send (open : bool) (ms : list message) : list bool * bool :=
  match ms with
  | [] => ([], open)
  | m :: r =>
      if w_legal open m then let '(l, o) := ref_send (w_after open m) r in (true :: l, o)
      else let '(l, o) := ref_send open r in (false :: l, o)
  end.

Theorem encode_follows_reference : forall (ms : list (message * bytes)) (c : codec),
  let '(c', _, outs) := encode_all c ms in
  map is_ok outs = fst (ref_send (c_wcont c) (map fst ms)) /\
  c' = set_wcont c (snd (ref_send (c_wcont c) (map fst ms))).
Proof.
  induction ms as [|[m key] r IH]; intros c.
  - cbn. destruct c; split; reflexivity.
  - cbn [encode_all map fst ref_send].
    pose proof (encode_step c m [] key) as Hs.
    destruct (encode c m [] key) as (c1, out). destruct Hs as (Hok & Hc & _).
    specialize (IH c1).
    destruct (encode_all c1 r) as ((c2, bs), outs). destruct IH as (IH1 & IH2).
    destruct (w_legal (c_wcont c) m) eqn:Hl; subst c1; cbn [c_wcont set_wcont] in *.
    + destruct (ref_send (w_after (c_wcont c) m) (map fst r)) as (l, o). cbn [fst snd map] in *.
      rewrite Hok, IH1, IH2. split; reflexivity.
    + destruct (ref_send (c_wcont c) (map fst r)) as (l, o). cbn [fst snd map] in *.
      rewrite Hok, IH1, IH2. split; reflexivity.
Qed.

(* ---------------- the known class F6b, exactly ---------------- *)
(* What the code does with a Close frame announcing more than 125 bytes (within max_size, masking
   right for the role), whatever its FIN bit: the payload is dropped, `Close(None)` is delivered, the
   fragmentation state is untouched and exactly the frame's bytes are consumed. Together with
   [illegal_frame_refused] (every other illegal frame is refused) this is the whole deviation. *)
Theorem close_overlong_delivered lossy c h wire rest :
  hdr_ok h -> lenN wire = h_len h -> h_len h < 2 ^ 63 ->
  is_some (h_key h) = c_server c -> close_overlong h = true -> h_len h <= c_max c ->
  dd lossy c (hdr_bytes h ++ wire ++ rest) = DFrame (FClose None) c rest.
Proof.
  intros Hok Hw H63 Hr Hcl Hmax. unfold close_overlong in Hcl.
  apply andb_true_iff in Hcl as (Hop & Hlen). apply N.eqb_eq in Hop.
  unfold dd. rewrite pp_frame; try assumption; [|rewrite Hop; reflexivity].
  unfold pp_expected. rewrite Hop. cbn [opcode_of_u8].
  replace (c_max c <? h_len h) with false by lia.
  replace (h_len h =? 0) with false by lia. rewrite Hlen. reflexivity.
Qed.
