(* verify_handshake accepts exactly the well-formed upgrade requests. *)
From AV Require Import Lib.Base Ws.Handshake.

(* the first value of header [name] is visible ASCII and contains [word] case-insensitively *)
Definition first_value_has (name word : bytes) (h : headers) : Prop :=
  exists v, hget name h = Some v /\ forallb is_visible_ascii v = true /\
            contains word (to_ascii_lowercase v) = true.

Definition wellformed (method : bytes) (h : headers) : Prop :=
  method = s_get /\
  first_value_has s_upgrade s_websocket h /\
  first_value_has s_connection s_upgrade h /\
  (exists v, hget s_version h = Some v /\ (v = [49; 51] \/ v = [56] \/ v = [55])) /\
  (exists k, hget s_key h = Some k).

Lemma header_has_iff name word h : header_has name word h = true <-> first_value_has name word h.
Proof.
  unfold header_has, first_value_has, to_str. split.
  - destruct (hget name h) as [v|]; [|discriminate].
    destruct (forallb is_visible_ascii v) eqn:E; [|discriminate]. intro H. exists v. auto.
  - intros (v & Hg & Hv & Hc). rewrite Hg, Hv. exact Hc.
Qed.

Lemma handshake_ok_iff method h : verify_handshake method h = None <-> wellformed method h.
Proof.
  unfold verify_handshake, wellformed, contains_key. split.
  - destruct (bytes_eqb method s_get) eqn:Em; cbn [negb]; [|discriminate].
    destruct (header_has s_upgrade s_websocket h) eqn:Eu; cbn [negb]; [|discriminate].
    destruct (header_has s_connection s_upgrade h) eqn:Ec; cbn [negb]; [|discriminate].
    destruct (hget s_version h) as [v|] eqn:Ev; cbn [negb]; [|discriminate].
    destruct (bytes_eqb v [49; 51] || bytes_eqb v [56] || bytes_eqb v [55]) eqn:Es; cbn [negb]; [|discriminate].
    destruct (hget s_key h) as [k|] eqn:Ek; cbn [negb]; [|discriminate].
    intros _. apply bytes_eqb_eq in Em. apply header_has_iff in Eu. apply header_has_iff in Ec.
    repeat split; auto.
    + exists v. split; [reflexivity|].
      apply orb_true_iff in Es as [Es|Es]; [apply orb_true_iff in Es as [Es|Es]|];
        apply bytes_eqb_eq in Es; auto.
    + exists k. reflexivity.
  - intros (Hm & Hu & Hc & (v & Hv & Hs) & (k & Hk)).
    apply header_has_iff in Hu. apply header_has_iff in Hc. subst method.
    rewrite bytes_eqb_refl, Hu, Hc, Hv, Hk. cbn [negb].
    destruct Hs as [E|[E|E]]; subst v; reflexivity.
Qed.

(* the error names the first missing part, in the order method, upgrade, connection, version, key *)
Lemma handshake_err_order method h e : verify_handshake method h = Some e ->
  match e with
  | GetMethodRequired => method <> s_get
  | NoWebsocketUpgrade => method = s_get /\ ~ first_value_has s_upgrade s_websocket h
  | NoConnectionUpgrade => first_value_has s_upgrade s_websocket h /\ ~ first_value_has s_connection s_upgrade h
  | NoVersionHeader => first_value_has s_connection s_upgrade h /\ hget s_version h = None
  | UnsupportedVersion => exists v, hget s_version h = Some v /\ v <> [49; 51] /\ v <> [56] /\ v <> [55]
  | BadWebsocketKey => hget s_key h = None
  end.
Proof.
  unfold verify_handshake, contains_key.
  destruct (bytes_eqb method s_get) eqn:Em; cbn [negb].
  2:{ intro H; inversion H; subst. apply bytes_eqb_neq. exact Em. }
  apply bytes_eqb_eq in Em.
  destruct (header_has s_upgrade s_websocket h) eqn:Eu; cbn [negb].
  2:{ intro H; inversion H; subst. split; [auto|]. intro C. apply header_has_iff in C. congruence. }
  apply header_has_iff in Eu.
  destruct (header_has s_connection s_upgrade h) eqn:Ec; cbn [negb].
  2:{ intro H; inversion H; subst. split; [auto|]. intro C. apply header_has_iff in C. congruence. }
  apply header_has_iff in Ec.
  destruct (hget s_version h) as [v|] eqn:Ev; cbn [negb].
  2:{ intro H; inversion H; subst. auto. }
  destruct (bytes_eqb v [49; 51] || bytes_eqb v [56] || bytes_eqb v [55]) eqn:Es; cbn [negb].
  2:{ intro H; inversion H; subst. exists v. split; [reflexivity|].
      apply orb_false_iff in Es as [Es E3]. apply orb_false_iff in Es as [E1 E2].
      apply bytes_eqb_neq in E1, E2, E3. auto. }
  destruct (hget s_key h) as [k|] eqn:Ek; cbn [negb]; [discriminate|].
  intro H; inversion H; subst. reflexivity.
Qed.

(* ---------- the RFC's reading: `Upgrade` / `Connection` are comma-separated token lists ---------- *)
(* RFC 6455 section 4.2.1 asks for an Upgrade header field "containing the value websocket" and a
   Connection header field "that includes the token Upgrade", both case-insensitively, and
   Sec-WebSocket-Version 13. [has_token word v]: [word] is an element of the list [v] (elements are
   separated by commas and optional SP / HTAB), compared case-insensitively. *)
Definition is_delim (b : N) : bool := (b =? 44) || (b =? 32) || (b =? 9).
Definition has_token (word v : bytes) : Prop :=
  exists a t b, v = a ++ t ++ b /\ to_ascii_lowercase t = word /\
    (a = [] \/ exists a' x, a = a' ++ [x] /\ is_delim x = true) /\
    (b = [] \/ exists x b', b = x :: b' /\ is_delim x = true).

Definition rfc_wellformed (method : bytes) (h : headers) : Prop :=
  method = s_get /\
  (exists v, hget s_upgrade h = Some v /\ forallb is_visible_ascii v = true /\ has_token s_websocket v) /\
  (exists v, hget s_connection h = Some v /\ forallb is_visible_ascii v = true /\ has_token s_upgrade v) /\
  hget s_version h = Some [49; 51] /\
  (exists k, hget s_key h = Some k).

Lemma is_prefix_app n b : is_prefix n (n ++ b) = true.
Proof. induction n as [|x n IH]; cbn [is_prefix app]; [reflexivity|]. rewrite N.eqb_refl, IH. reflexivity. Qed.

Lemma contains_app n : forall a b, contains n (a ++ n ++ b) = true.
Proof.
  induction a as [|x a IH]; intro b; cbn [app].
  - destruct (n ++ b) eqn:E; cbn [contains]; rewrite <- ?E, is_prefix_app; reflexivity.
  - cbn [contains]. rewrite IH. apply orb_true_r.
Qed.

Lemma has_token_contains word v : has_token word v -> contains word (to_ascii_lowercase v) = true.
Proof.
  intros (a & t & b & -> & <- & _). unfold to_ascii_lowercase. rewrite !map_app. apply contains_app.
Qed.

(* every request that is well-formed in the RFC's sense is accepted (completeness). The converse is
   false of the code, which tests for a SUBSTRING: see [rfc_converse_witness]. *)
Theorem rfc_wellformed_accepted method h : rfc_wellformed method h -> verify_handshake method h = None.
Proof.
  intros (Hm & (u & Hu & Hvu & Htu) & (c & Hc & Hvc & Htc) & Hv & Hk).
  apply handshake_ok_iff. split; [exact Hm|]. split; [|split; [|split]].
  - exists u. repeat split; try assumption. apply has_token_contains. exact Htu.
  - exists c. repeat split; try assumption. apply has_token_contains. exact Htc.
  - exists [49; 51]. split; [exact Hv|]. left. reflexivity.
  - exact Hk.
Qed.

(* `Upgrade: xwebsocketx`, `Connection: upgraded`, version 8: accepted, not RFC-well-formed *)
Definition lenient_request : headers :=
  [(s_upgrade, [120] ++ s_websocket ++ [120]); (s_connection, s_upgrade ++ [100]);
   (s_version, [56]); (s_key, [120])].
Lemma rfc_converse_witness :
  verify_handshake s_get lenient_request = None /\ ~ rfc_wellformed s_get lenient_request.
Proof.
  split; [vm_compute; reflexivity|].
  intros (_ & _ & _ & Hv & _). vm_compute in Hv. discriminate.
Qed.
