(* verify_handshake accepts exactly the well-formed upgrade requests. *)
From AV Require Import Lib.Base Ws.Handshake.

(* the first value of header [name] is visible ASCII and contains [word] case-insensitively *)
Definition first_value_has (name word : bytes) (h : headers) : Prop :=
  exists v, hget name h = Some v /\ forallb is_visible_ascii v = true /\
            contains word (to_ascii_lowercase v) = true.

Definition wellformed (method : bytes) (h : headers) : Prop :=
  method = s_get /\
  first_value_has s_upgrade s_websocket h /\
  first_value_has s_connection s_upgrade h /\
  (exists v, hget s_version h = Some v /\ (v = [49; 51] \/ v = [56] \/ v = [55])) /\
  (exists k, hget s_key h = Some k).

Lemma header_has_iff name word h : header_has name word h = true <-> first_value_has name word h.
Proof.
  unfold header_has, first_value_has, to_str. split.
  - destruct (hget name h) as [v|]; [|discriminate].
    destruct (forallb is_visible_ascii v) eqn:E; [|discriminate]. intro H. exists v. auto.
  - intros (v & Hg & Hv & Hc). rewrite Hg, Hv. exact Hc.
Qed.

Lemma handshake_ok_iff method h : verify_handshake method h = None <-> wellformed method h.
Proof.
  unfold verify_handshake, wellformed, contains_key. split.
  - destruct (bytes_eqb method s_get) eqn:Em; cbn [negb]; [|discriminate].
    destruct (header_has s_upgrade s_websocket h) eqn:Eu; cbn [negb]; [|discriminate].
    destruct (header_has s_connection s_upgrade h) eqn:Ec; cbn [negb]; [|discriminate].
    destruct (hget s_version h) as [v|] eqn:Ev; cbn [negb]; [|discriminate].
    destruct (bytes_eqb v [49; 51] || bytes_eqb v [56] || bytes_eqb v [55]) eqn:Es; cbn [negb]; [|discriminate].
    destruct (hget s_key h) as [k|] eqn:Ek; cbn [negb]; [|discriminate].
    intros _. apply bytes_eqb_eq in Em. apply header_has_iff in Eu. apply header_has_iff in Ec.
    repeat split; auto.
    + exists v. split; [reflexivity|].
      apply orb_true_iff in Es as [Es|Es]; [apply orb_true_iff in Es as [Es|Es]|];
        apply bytes_eqb_eq in Es; auto.
    + exists k. reflexivity.
  - intros (Hm & Hu & Hc & (v & Hv & Hs) & (k & Hk)).
    apply header_has_iff in Hu. apply header_has_iff in Hc. subst method.
    rewrite bytes_eqb_refl, Hu, Hc, Hv, Hk. cbn [negb].
    destruct Hs as [E|[E|E]]; subst v; reflexivity.
Qed.

(* the error names the first missing part, in the order method, upgrade, connection, version, key *)
Lemma handshake_err_order method h e : verify_handshake method h = Some e ->
  match e with
  | GetMethodRequired => method <> s_get
  | NoWebsocketUpgrade => method = s_get /\ ~ first_value_has s_upgrade s_websocket h
  | NoConnectionUpgrade => first_value_has s_upgrade s_websocket h /\ ~ first_value_has s_connection s_upgrade h
  | NoVersionHeader => first_value_has s_connection s_upgrade h /\ hget s_version h = None
  | UnsupportedVersion => exists v, hget s_version h = Some v /\ v <> [49; 51] /\ v <> [56] /\ v <> [55]
  | BadWebsocketKey => hget s_key h = None
  end.
Proof.
  unfold verify_handshake, contains_key.
  destruct (bytes_eqb method s_get) eqn:Em; cbn [negb].
  2:{ intro H; inversion H; subst. apply bytes_eqb_neq. exact Em. }
  apply bytes_eqb_eq in Em.
  destruct (header_has s_upgrade s_websocket h) eqn:Eu; cbn [negb].
  2:{ intro H; inversion H; subst. split; [auto|]. intro C. apply header_has_iff in C. congruence. }
  apply header_has_iff in Eu.
  destruct (header_has s_connection s_upgrade h) eqn:Ec; cbn [negb].
  2:{ intro H; inversion H; subst. split; [auto|]. intro C. apply header_has_iff in C. congruence. }
  apply header_has_iff in Ec.
  destruct (hget s_version h) as [v|] eqn:Ev; cbn [negb].
  2:{ intro H; inversion H; subst. auto. }
  destruct (bytes_eqb v [49; 51] || bytes_eqb v [56] || bytes_eqb v [55]) eqn:Es; cbn [negb].
  2:{ intro H; inversion H; subst. exists v. split; [reflexivity|].
      apply orb_false_iff in Es as [Es E3]. apply orb_false_iff in Es as [E1 E2].
      apply bytes_eqb_neq in E1, E2, E3. auto. }
  destruct (hget s_key h) as [k|] eqn:Ek; cbn [negb]; [discriminate|].
  intro H; inversion H; subst. reflexivity.
Qed.
