(* Model of ws::hash_key (proto.rs) and of ws::handshake / handshake_response (mod.rs). *)
From AV Require Import Lib.Base Ws.Frame Ws.Sha1 Ws.Base64 Ws.Handshake.

(* b"258EAFA5-E914-47DA-95CA-C5AB0DC85B11" *)
Definition ws_guid : bytes :=
  [50; 53; 56; 69; 65; 70; 65; 53; 45; 69; 57; 49; 52; 45; 52; 55; 68; 65; 45; 57; 53; 67; 65; 45;
   67; 53; 65; 66; 48; 68; 67; 56; 53; 66; 49; 49].

(* hasher.update(key); hasher.update(WS_GUID); finalize  (sha1 crate: digest of the concatenation) *)
Definition key_digest (key : bytes) : bytes := sha1 (key ++ ws_guid).

(* BASE64_STANDARD.encode_slice(hash, &mut [0; 28]).unwrap() fails when the output does not fit
   28 bytes; assert_eq!(n, 28) fails when it is shorter *)
Definition hash_key (key : bytes) : R bytes :=
  let out := base64 (key_digest key) in
  if 28 <? lenN out then Panic          (* encode_slice: OutputSliceTooSmall, unwrap *)
  else if lenN out =? 28 then Val out
  else Panic.                           (* assert_eq!(n, 28) *)

Inductive hs_res := HsOk (accept : bytes) | HsErr (e : hs_err).

(* ws::handshake: verify_handshake(req)?; handshake_response(req) with
   key = req.headers().get(SEC_WEBSOCKET_KEY).unwrap(); the value of Sec-WebSocket-Accept *)
Definition handshake (method : bytes) (h : headers) : R hs_res :=
  match verify_handshake method h with
  | Some e => Val (HsErr e)
  | None =>
    match hget s_key h with
    | None => Panic
    | Some key => rbind (hash_key key) (fun a => Val (HsOk a))
    end
  end.
