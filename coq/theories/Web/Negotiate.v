(* C13 model, part 2 — content-coding negotiation and the decision to encode:
     actix-web/src/http/header/accept_encoding.rs   ranked_items, encoding_rank,
                                                    is_identity_acceptable, AcceptEncoding::negotiate
     actix-web/src/middleware/compress.rs           CompressMiddleware::call, CompressResponse::poll
     actix-http/src/encoding/encoder.rs             Encoder::response, update_head, Encoder::size
   The input is the PARSED Accept-Encoding header (a list of quality items); parsing itself
   (QualityItem / Preference / Encoding FromStr) is not modelled.  No proofs here.

   [is_identity_acceptable] is the code AFTER the repair of finding F4 (fixes/F4.patch);
   [is_identity_acceptable_orig] is the code before it, kept to state what was wrong. *)
From AV Require Import Lib.Base.

(* Encoding::Known(ContentEncoding::_) | Encoding::Unknown(String) (the string as an opaque id) *)
Inductive coding := Identity | Brotli | Deflate | Gzip | Zstd | Unknown (id : N).
(* Preference::Any | Preference::Specific(enc) *)
Inductive pref := PAny | PSpec (c : coding).
(* QualityItem { item, quality }: quality in thousandths, 0..=1000 *)
Definition qitem := (pref * N)%type.

Definition coding_eqb (a b : coding) : bool :=
  match a, b with
  | Identity, Identity | Brotli, Brotli | Deflate, Deflate | Gzip, Gzip | Zstd, Zstd => true
  | Unknown x, Unknown y => x =? y
  | _, _ => false
  end.
Definition mem (c : coding) (l : list coding) : bool := existsb (coding_eqb c) l.

(* encoding_rank *)
Definition encoding_rank (qv : qitem) : N :=
  if snd qv =? 0 then 0 else
  match fst qv with
  | PSpec Brotli => 5
  | PSpec Zstd => 4
  | PSpec Gzip => 3
  | PSpec Deflate => 2
  | PAny => 0
  | PSpec Identity => 0
  | PSpec (Unknown _) => 1
  end.

(* the comparator of `types.sort_by(..)`: a sorts before b iff (q a, rank a) > (q b, rank b) *)
Definition before (a b : qitem) : bool :=
  (snd b <? snd a) || ((snd b =? snd a) && (encoding_rank b <? encoding_rank a)).

(* stable sort: an item is placed behind everything that does not sort after it *)
Fixpoint insert_ranked (x : qitem) (l : list qitem) : list qitem :=
  match l with
  | [] => [x]
  | e :: r => if before x e then x :: l else e :: insert_ranked x r
  end.
(* ranked_items (the empty header short-cut gives the same empty list) *)
Definition ranked_items (h : list qitem) : list qitem :=
  fold_left (fun acc x => insert_ranked x acc) h [].
(* AcceptEncoding::ranked *)
Definition ranked (h : list qitem) : list pref := map fst (ranked_items h).

Definition is_identity_item (q : qitem) : bool :=
  match fst q with PSpec Identity => true | _ => false end.
Definition is_any_item (q : qitem) : bool :=
  match fst q with PAny => true | _ => false end.

(* BEFORE the repair: the first "identity" OR "*" item in ranked order decides *)
Fixpoint is_identity_acceptable_orig (items : list qitem) : bool :=
  match items with
  | [] => true                                 (* empty list / loop fell through: implicit identity *)
  | q :: r => if is_identity_item q || is_any_item q then 0 <? snd q
              else is_identity_acceptable_orig r
  end.

(* AFTER the repair: an explicit "identity" item takes precedence over "*" *)
Definition is_identity_acceptable (items : list qitem) : bool :=
  match find is_identity_item items with
  | Some q => 0 <? snd q
  | None => match find is_any_item items with
            | Some q => 0 <? snd q
            | None => true
            end
  end.

Fixpoint dedup (l : list coding) : list coding :=
  match l with [] => [] | c :: r => if mem c r then dedup r else c :: dedup r end.

(* AcceptEncoding::negotiate, parametrised by the identity test *)
Definition negotiate_with (ia : list qitem -> bool) (h : list qitem) (supported : list coding) : option coding :=
  match supported with
  | [] => None
  | _ =>
      match h with
      | [] => Some Identity
      | _ =>
          let items := ranked_items h in
          let identity_acceptable := ia items in
          let identity_supported := mem Identity supported in
          if identity_acceptable && identity_supported && (lenN (dedup supported) =? 1) then Some Identity
          else
            match find (fun q => match fst q with PSpec e => mem e supported | PAny => false end)
                       (filter (fun q => 0 <? snd q) items) with
            | Some (PSpec e, _) => Some e
            | _ => if identity_acceptable then Some Identity else None
            end
      end
  end.
Definition negotiate := negotiate_with is_identity_acceptable.
Definition negotiate_orig := negotiate_with is_identity_acceptable_orig.

(* SUPPORTED_ENCODINGS with all compress features enabled *)
Definition supported_encodings : list coding := [Identity; Brotli; Gzip; Deflate; Zstd].

(* ---------------------------------------------------------------- Encoder::response *)

Inductive bsize := SzNone | SzSized (n : N) | SzStream.

(* the parts of ResponseHead the decision reads and writes *)
Record head := { h_status : N; h_content_encoding : option bytes; h_vary : list bytes;
                 h_no_chunking : bool;
                 h_content_length : option bytes (* a Content-Length header put there by the handler *) }.

Definition coding_name (c : coding) : bytes :=
  match c with
  | Identity => [105; 100; 101; 110; 116; 105; 116; 121]
  | Brotli => [98; 114]
  | Deflate => [100; 101; 102; 108; 97; 116; 101]
  | Gzip => [103; 122; 105; 112]
  | Zstd => [122; 115; 116; 100]
  | Unknown _ => []
  end.
Definition vary_accept_encoding : bytes := (* "accept-encoding" *)
  [97; 99; 99; 101; 112; 116; 45; 101; 110; 99; 111; 100; 105; 110; 103].

(* ContentEncoder::select with every codec feature enabled *)
Definition selectable (c : coding) : bool :=
  match c with Brotli | Deflate | Gzip | Zstd => true | _ => false end.

(* what Encoder::response does with the body *)
Inductive body_action :=
| BNone          (* Encoder::none(): body::None, eof *)
| BEmpty         (* Encoder::empty(): zero-length body, eof *)
| BPass          (* encoder: None — chunks pass through unchanged *)
| BEncode (c : coding).

(* update_head (after the repair F29: the handler's Content-Length, which describes the unencoded
   body, is removed) *)
Definition update_head (c : coding) (h : head) : head :=
  {| h_status := h_status h; h_content_encoding := Some (coding_name c);
     h_vary := h_vary h ++ [vary_accept_encoding]; h_no_chunking := false;
     h_content_length := None |}.
(* update_head before F29: the header stayed *)
Definition update_head_before_F29 (c : coding) (h : head) : head :=
  {| h_status := h_status h; h_content_encoding := Some (coding_name c);
     h_vary := h_vary h ++ [vary_accept_encoding]; h_no_chunking := false;
     h_content_length := h_content_length h |}.

Definition encoder_response (enc : coding) (h : head) (size : bsize) : body_action * head :=
  match size with
  | SzNone => (BNone, h)
  | SzSized 0 => (BEmpty, h)
  | _ =>
      let should_encode :=
          negb (match h_content_encoding h with Some _ => true | None => false end
                || (h_status h =? 101) || (h_status h =? 204) || (h_status h =? 206)
                || coding_eqb enc Identity) in
      if should_encode && selectable enc then (BEncode enc, update_head enc h) else (BPass, h)
  end.

(* Encoder::size *)
Definition encoder_size (a : body_action) (size : bsize) : bsize :=
  match a with BEncode _ => SzStream | BNone => SzNone | BEmpty => SzSized 0 | BPass => size end.

(* ---------------------------------------------------------------- Compress middleware *)

Inductive compress_out :=
| NotAcceptable                                   (* 406 with Vary: Accept-Encoding *)
| Responded (a : body_action) (h : head) (size : bsize).

(* [ae] = req.get_header::<AcceptEncoding>(): None when the header is missing or does not parse;
   [compressible] = default_compress_predicate(content-type) *)
Definition compress (ae : option (list qitem)) (compressible : bool) (h : head) (size : bsize) : compress_out :=
  let respond (e : coding) :=
      let enc := if compressible then e else Identity in
      let '(a, h') := encoder_response enc h size in
      Responded a h' (encoder_size a size) in
  match ae with
  | None => respond Identity
  | Some items =>
      match negotiate items supported_encodings with
      | None => NotAcceptable
      | Some e => respond e
      end
  end.
