(* C13 proofs, part 1: the Encoder / Decoder state machines are lossless for every chunk list and
   every Pending pattern, relative to the laws of the abstract codec; they terminate. *)
From AV Require Import Lib.Base Web.ContentCoding.

Lemma nonempty_false b : nonempty b = false -> b = [].
Proof. destruct b; [reflexivity|discriminate]. Qed.

Lemma ask_length o : forall b o', ask o = (b, o') -> (length o' <= length o)%nat /\ (b = false -> (length o' < length o)%nat).
Proof. destruct o as [|x r]; cbn; intros b o' H; inversion H; subst; cbn; split; try lia; discriminate. Qed.

Section EncoderProofs.
  Variable E : Type.
  Variable enc_write : E -> bytes -> E.
  Variable enc_take : E -> bytes * E.
  Variable enc_finish : E -> bytes.
  Variable max_enc_in_place : N.

  Notation enc_poll := (enc_poll E enc_write enc_take enc_finish max_enc_in_place).
  Notation enc_drive := (enc_drive E enc_write enc_take enc_finish max_enc_in_place).
  Notation enc_st := (enc_st E).

  (* ================================================================ Encoder *)

  (* everything the encoder will still emit from state e with the chunks [body] to come:
     write, take, ..., finish *)
  Fixpoint enc_stream (e : E) (body : list bytes) : bytes :=
    match body with
    | [] => enc_finish e
    | c :: r => let '(t, e1) := enc_take (enc_write e c) in t ++ enc_stream e1 r
    end.

  (* what a state in encoding mode still owes its consumer *)
  Definition rem (s : enc_st) : bytes :=
    if e_eof E s then [] else
    match e_fut E s, e_encoder E s with
    | Some e', _ => let '(t, e1) := enc_take e' in t ++ enc_stream e1 (e_body E s)
    | None, Some e => enc_stream e (e_body E s)
    | None, None => []
    end.

  (* states reachable when an encoder was selected *)
  Definition enc_mode (s : enc_st) : Prop :=
    (e_fut E s <> None /\ e_encoder E s = None) \/
    (e_fut E s = None /\ e_encoder E s <> None) \/
    (e_fut E s = None /\ e_encoder E s = None /\ e_body E s = []).

  Definition terminal (s : enc_st) : Prop :=
    e_eof E s = true \/ (e_fut E s = None /\ e_encoder E s = None /\ e_body E s = []).

  Definition mu (s : enc_st) (o : list bool) : nat :=
    (length o + 2 * length (e_body E s)
     + (match e_fut E s with Some _ => 1 | None => 0 end)
     + (match e_fut E s, e_encoder E s with None, None => 0 | _, _ => 1 end))%nat.

  (* the part of one loop iteration after the `fut` block *)
  Definition enc_body_step (fuel : nat) (s1 : enc_st) (o1 : list bool) : poll (option bytes) * enc_st * list bool :=
    let '(rdy, o2) := ask o1 in
    if negb rdy then (Pending, s1, o2) else
    match e_body E s1 with
    | c :: rest =>
        match e_encoder E s1 with
        | Some e =>
            if lenN c <? max_enc_in_place then
              let '(chunk, e2) := enc_take (enc_write e c) in
              let s2 := {| e_body := rest; e_encoder := Some e2; e_fut := None; e_eof := false |} in
              if nonempty chunk then (Ready (Some chunk), s2, o2) else enc_poll fuel s2 o2
            else
              enc_poll fuel {| e_body := rest; e_encoder := None;
                               e_fut := Some (enc_write e c); e_eof := false |} o2
        | None =>
            (Ready (Some c), {| e_body := rest; e_encoder := None; e_fut := e_fut E s1; e_eof := false |}, o2)
        end
    | [] =>
        match e_encoder E s1 with
        | Some e =>
            let chunk := enc_finish e in
            if nonempty chunk
            then (Ready (Some chunk), {| e_body := []; e_encoder := None; e_fut := e_fut E s1; e_eof := true |}, o2)
            else (Ready None, {| e_body := []; e_encoder := None; e_fut := e_fut E s1; e_eof := false |}, o2)
        | None => (Ready None, s1, o2)
        end
    end.

  Lemma enc_poll_S fuel s o :
    enc_poll (S fuel) s o =
    if e_eof E s then (Ready None, s, o) else
    match e_fut E s with
    | Some e' =>
        let '(rdy, o1) := ask o in
        if negb rdy then (Pending, s, o1) else
        let '(chunk, e2) := enc_take e' in
        let s1 := {| e_body := e_body E s; e_encoder := Some e2; e_fut := None; e_eof := false |} in
        if nonempty chunk then (Ready (Some chunk), s1, o1) else enc_body_step fuel s1 o1
    | None => enc_body_step fuel s o
    end.
  Proof. reflexivity. Qed.

  (* what one poll does, in encoding mode *)
  Definition poll_post (s : enc_st) (o : list bool) (res : poll (option bytes) * enc_st * list bool) : Prop :=
    let '(r, s', o') := res in
    enc_mode s' /\
    match r with
    | Pending => rem s' = rem s /\ (mu s' o' < mu s o)%nat
    | Ready (Some c) => c ++ rem s' = rem s /\ (mu s' o' < mu s o)%nat /\ nonempty c = true
    | Ready None => rem s = [] /\ terminal s'
    end.

  Lemma enc_poll_spec : forall fuel s o,
    enc_mode s -> (length (e_body E s) < fuel)%nat -> poll_post s o (enc_poll fuel s o).
  Proof.
    induction fuel as [|fuel IH]; intros s o Hm Hf; [lia|].
    (* the body step, for states without a task in flight *)
    assert (Hbody : forall s1 o1, e_fut E s1 = None -> e_eof E s1 = false -> enc_mode s1 ->
                    (length (e_body E s1) <= fuel)%nat -> poll_post s1 o1 (enc_body_step fuel s1 o1)).
    { intros s1 o1 Hfut Heof Hm1 Hl. unfold enc_body_step.
      destruct (ask o1) as [rdy o2] eqn:Ea. destruct (ask_length _ _ _ Ea) as [Ho Ho'].
      destruct rdy; cbn [negb].
      2:{ unfold poll_post. split; [exact Hm1|]. split; [reflexivity|]. unfold mu. specialize (Ho' eq_refl). lia. }
      destruct s1 as [body enc fut eof]. cbn [e_body e_encoder e_fut e_eof] in *. subst fut eof.
      destruct body as [|c rest].
      - destruct enc as [e|].
        + destruct (nonempty (enc_finish e)) eqn:En.
          * unfold poll_post. split; [right; right; cbn; repeat split; reflexivity|].
            unfold rem, mu. cbn [e_body e_encoder e_fut e_eof enc_stream length].
            rewrite app_nil_r. repeat split; try reflexivity; try lia; try exact En.
          * unfold poll_post. split; [right; right; cbn; repeat split; reflexivity|].
            unfold rem. cbn [e_body e_encoder e_fut e_eof enc_stream].
            split; [apply nonempty_false; exact En|]. right. cbn. repeat split; reflexivity.
        + unfold poll_post. split; [exact Hm1|]. unfold rem. cbn. split; [reflexivity|].
          right. repeat split; reflexivity.
      - cbn [length] in Hl. destruct enc as [e|].
        + destruct (lenN c <? max_enc_in_place).
          * destruct (enc_take (enc_write e c)) as [chunk e2] eqn:Et.
            destruct (nonempty chunk) eqn:En.
            -- unfold poll_post. split; [right; left; cbn; split; [reflexivity|discriminate]|].
               unfold rem, mu. cbn [e_body e_encoder e_fut e_eof enc_stream length]. rewrite Et.
               repeat split; try reflexivity; try lia; try exact En.
            -- pose proof (IH {| e_body := rest; e_encoder := Some e2; e_fut := None; e_eof := false |} o2) as H.
               unfold poll_post in *.
               destruct (enc_poll fuel _ o2) as [[r s'] o'].
               destruct H as [Hm' Hr]; [right; left; cbn; split; [reflexivity|discriminate]|cbn; lia|].
               split; [exact Hm'|].
               assert (Erem : rem {| e_body := c :: rest; e_encoder := Some e; e_fut := None; e_eof := false |}
                              = rem {| e_body := rest; e_encoder := Some e2; e_fut := None; e_eof := false |}).
               { unfold rem. cbn [e_body e_encoder e_fut e_eof enc_stream]. rewrite Et.
                 rewrite (nonempty_false _ En). reflexivity. }
               rewrite Erem. unfold mu in *. cbn [e_body e_encoder e_fut e_eof length] in *.
               destruct r as [|[c0|]].
               ++ destruct Hr as [H1 H2]. split; [exact H1|lia].
               ++ destruct Hr as [H1 [H2 H3]]. repeat split; [exact H1|lia|exact H3].
               ++ exact Hr.
          * pose proof (IH {| e_body := rest; e_encoder := None; e_fut := Some (enc_write e c); e_eof := false |} o2) as H.
            unfold poll_post in *.
            destruct (enc_poll fuel _ o2) as [[r s'] o'].
            destruct H as [Hm' Hr]; [left; cbn; split; [discriminate|reflexivity]|cbn; lia|].
            split; [exact Hm'|].
            assert (Erem : rem {| e_body := c :: rest; e_encoder := Some e; e_fut := None; e_eof := false |}
                           = rem {| e_body := rest; e_encoder := None; e_fut := Some (enc_write e c); e_eof := false |}).
            { unfold rem. cbn [e_body e_encoder e_fut e_eof enc_stream]. reflexivity. }
            rewrite Erem. unfold mu in *. cbn [e_body e_encoder e_fut e_eof length] in *.
            destruct r as [|[c0|]].
            -- destruct Hr as [H1 H2]. split; [exact H1|lia].
            -- destruct Hr as [H1 [H2 H3]]. repeat split; [exact H1|lia|exact H3].
            -- exact Hr.
        + exfalso. destruct Hm1 as [[H _]|[[_ H]|[_ [_ H]]]]; cbn in H; congruence. }
    rewrite enc_poll_S.
    destruct (e_eof E s) eqn:Heof.
    - unfold poll_post. split; [exact Hm|]. unfold rem. rewrite Heof. split; [reflexivity|left; exact Heof].
    - destruct (e_fut E s) as [e'|] eqn:Hfut.
      + destruct (ask o) as [rdy o1] eqn:Ea. destruct (ask_length _ _ _ Ea) as [Ho Ho'].
        destruct rdy; cbn [negb].
        2:{ unfold poll_post. split; [exact Hm|]. split; [reflexivity|]. unfold mu. specialize (Ho' eq_refl). lia. }
        destruct (enc_take e') as [chunk e2] eqn:Et.
        set (s1 := {| e_body := e_body E s; e_encoder := Some e2; e_fut := None; e_eof := false |}).
        assert (Hm1 : enc_mode s1) by (right; left; cbn; split; [reflexivity|discriminate]).
        assert (Erem : rem s = chunk ++ rem s1).
        { unfold rem. rewrite Heof, Hfut, Et. cbn [s1 e_body e_encoder e_fut e_eof]. reflexivity. }
        assert (Emu : forall o', (length o' <= length o1)%nat -> (mu s1 o' < mu s o)%nat).
        { intros o' Hl. unfold mu. rewrite Hfut. cbn [s1 e_body e_encoder e_fut e_eof]. lia. }
        destruct (nonempty chunk) eqn:En.
        * unfold poll_post. split; [exact Hm1|]. rewrite Erem. repeat split; [apply Emu; lia|exact En].
        * pose proof (Hbody s1 o1 eq_refl eq_refl Hm1) as H. unfold poll_post in *.
          destruct (enc_body_step fuel s1 o1) as [[r s'] o'].
          destruct H as [Hm' Hr]; [cbn [s1 e_body]; lia|]. split; [exact Hm'|].
          rewrite Erem, (nonempty_false _ En). cbn [app].
          pose proof (Emu o1 (le_n _)) as Hlt.
          destruct r as [|[c0|]].
          -- destruct Hr as [H1 H2]. split; [exact H1|lia].
          -- destruct Hr as [H1 [H2 H3]]. repeat split; [exact H1|lia|exact H3].
          -- exact Hr.
      + apply Hbody; try assumption. lia.
  Qed.

  (* the consumer receives exactly what the state owed *)
  Lemma enc_drive_spec : forall n s o,
    enc_mode s -> (mu s o < n)%nat ->
    let '(outs, s', fin) := enc_drive n s o in
    concat outs = rem s /\ fin = true /\ terminal s' /\ Forall (fun c => nonempty c = true) outs.
  Proof.
    induction n as [|n IH]; intros s o Hm Hn; [lia|]. cbn [ContentCoding.enc_drive].
    pose proof (enc_poll_spec (enc_fuel E s) s o Hm) as H. unfold poll_post in H.
    destruct (enc_poll (enc_fuel E s) s o) as [[r s1] o1].
    destruct H as [Hm1 Hr]; [unfold enc_fuel; lia|].
    destruct r as [|[c|]].
    - destruct Hr as [H1 H2]. specialize (IH s1 o1 Hm1 ltac:(lia)).
      destruct (enc_drive n s1 o1) as [[outs sf] fin]. rewrite <- H1. exact IH.
    - destruct Hr as [H1 [H2 H3]]. specialize (IH s1 o1 Hm1 ltac:(lia)).
      destruct (enc_drive n s1 o1) as [[outs sf] fin]. destruct IH as [I1 [I2 [I3 I4]]].
      cbn [concat]. rewrite I1. repeat split; try assumption. constructor; assumption.
    - destruct Hr as [H1 H2]. cbn [concat]. repeat split; [symmetry; exact H1|exact H2|constructor].
  Qed.

  (* ---- the codec law: writes interleaved with takes, then finish, decode to what was written *)
  Variable e0 : E.
  Variable whole_dec : bytes -> option bytes.

  Inductive cop := CW (b : bytes) | CT.
  Fixpoint crun (e : E) (ops : list cop) : bytes * E :=
    match ops with
    | [] => ([], e)
    | CW b :: r => crun (enc_write e b) r
    | CT :: r => let '(t, e1) := enc_take e in let '(out, e2) := crun e1 r in (t ++ out, e2)
    end.
  Fixpoint written (ops : list cop) : bytes :=
    match ops with [] => [] | CW b :: r => b ++ written r | CT :: r => written r end.

  Definition codec_law : Prop :=
    forall ops, let '(out, e) := crun e0 ops in whole_dec (out ++ enc_finish e) = Some (written ops).

  Definition ops_of (body : list bytes) : list cop := flat_map (fun c => [CW c; CT]) body.

  Lemma enc_stream_crun body : forall e,
    enc_stream e body = (let '(out, e') := crun e (ops_of body) in out ++ enc_finish e').
  Proof.
    induction body as [|c r IH]; intro e; cbn [enc_stream ops_of flat_map app crun].
    - reflexivity.
    - destruct (enc_take (enc_write e c)) as [t e1]. fold (ops_of r). rewrite IH.
      destruct (crun e1 (ops_of r)) as [out e2]. rewrite app_assoc. reflexivity.
  Qed.

  Lemma written_ops_of body : written (ops_of body) = concat body.
  Proof. induction body as [|c r IH]; cbn [ops_of flat_map app written concat]; [reflexivity|].
    fold (ops_of r). rewrite IH. reflexivity. Qed.

  (* LOSSLESS: whatever the chunking of the body and whatever the Pending pattern of the body
     stream and of the blocking pool, the consumer sees the end of the stream, and what it
     received decodes to the body *)
  Theorem encoder_lossless : codec_law -> forall (body : list bytes) (o : list bool),
    let '(outs, s', fin) := enc_drive (enc_budget body o) (enc_init E (Some e0) body) o in
    fin = true /\ whole_dec (concat outs) = Some (concat body) /\
    Forall (fun c => nonempty c = true) outs.
  Proof.
    intros Hlaw body o.
    pose proof (enc_drive_spec (enc_budget body o) (enc_init E (Some e0) body) o) as H.
    destruct (enc_drive _ _ o) as [[outs s'] fin].
    destruct H as [H1 [H2 [H3 H4]]].
    - right; left; cbn; split; [reflexivity|discriminate].
    - unfold mu, enc_budget, enc_init. cbn [e_body e_encoder e_fut e_eof]. lia.
    - split; [exact H2|]. split; [|exact H4]. rewrite H1. unfold rem, enc_init.
      cbn [e_body e_encoder e_fut e_eof]. rewrite enc_stream_crun.
      specialize (Hlaw (ops_of body)). destruct (crun e0 (ops_of body)) as [out e'].
      rewrite Hlaw, written_ops_of. reflexivity.
  Qed.

  (* the emitted byte stream does not depend on the Pending pattern at all *)
  Theorem encoder_schedule_independent : forall (body : list bytes) (o1 o2 : list bool),
    concat (fst (fst (enc_drive (enc_budget body o1) (enc_init E (Some e0) body) o1))) =
    concat (fst (fst (enc_drive (enc_budget body o2) (enc_init E (Some e0) body) o2))).
  Proof.
    intros body o1 o2.
    assert (H : forall o, concat (fst (fst (enc_drive (enc_budget body o) (enc_init E (Some e0) body) o)))
                          = rem (enc_init E (Some e0) body)).
    { intro o. pose proof (enc_drive_spec (enc_budget body o) (enc_init E (Some e0) body) o) as H.
      destruct (enc_drive _ _ o) as [[outs s'] fin]. cbn [fst].
      destruct H as [H1 _]; [right; left; cbn; split; [reflexivity|discriminate]| |exact H1].
      unfold mu, enc_budget, enc_init. cbn [e_body e_encoder e_fut e_eof]. lia. }
    rewrite !H. reflexivity.
  Qed.

  (* TERMINATION: once the end has been reported no poll ever yields a chunk again *)
  Theorem encoder_end_is_final : forall s fuel o,
    terminal s -> (0 < fuel)%nat ->
    match fst (fst (enc_poll fuel s o)) with Ready (Some _) => False | _ => True end /\
    terminal (snd (fst (enc_poll fuel s o))).
  Proof.
    intros s fuel o Ht Hf. destruct fuel as [|fuel]; [lia|]. rewrite enc_poll_S.
    destruct (e_eof E s) eqn:Heof; [cbn; split; [exact I|left; exact Heof]|].
    destruct Ht as [Ht|[H1 [H2 H3]]]; [congruence|]. rewrite H1. unfold enc_body_step.
    destruct (ask o) as [[|] o2]; cbn [negb]; rewrite ?H3, ?H2; cbn; (split; [exact I|right; repeat split; assumption]).
  Qed.

  (* after the body's end: at most one more chunk (the codec's finish), then the end *)
  Theorem encoder_after_body_end : forall (e : E) (o : list bool) fuel, (0 < fuel)%nat ->
    let s := {| e_body := []; e_encoder := Some e; e_fut := None; e_eof := false |} in
    match enc_poll fuel s o with
    | (Pending, s', _) => s' = s
    | (Ready (Some c), s', _) => c = enc_finish e /\ e_eof E s' = true
    | (Ready None, s', _) => enc_finish e = [] /\ terminal s'
    end.
  Proof.
    intros e o fuel Hf s. destruct fuel as [|fuel]; [lia|]. rewrite enc_poll_S. cbn [s e_eof e_fut].
    unfold enc_body_step. destruct (ask o) as [[|] o2]; cbn [negb e_body e_encoder s]; [|reflexivity].
    destruct (nonempty (enc_finish e)) eqn:En.
    - split; reflexivity.
    - split; [apply nonempty_false; exact En|right; cbn; repeat split; reflexivity].
  Qed.

  (* PASS-THROUGH: without an encoder the chunks are handed on unchanged, one by one *)
  Theorem encoder_passthrough : forall (body : list bytes) (o : list bool) n,
    (length o + length body < n)%nat ->
    let '(outs, s', fin) := enc_drive n (enc_init E None body) o in outs = body /\ fin = true.
  Proof.
    intros body o n. revert body o. induction n as [|n IH]; intros body o Hn; [lia|].
    cbn [ContentCoding.enc_drive]. unfold enc_fuel, enc_init. cbn [e_body]. rewrite enc_poll_S.
    cbn [e_eof e_fut]. unfold enc_body_step.
    destruct (ask o) as [rdy o2] eqn:Ea. destruct (ask_length _ _ _ Ea) as [Ho Ho'].
    destruct rdy; cbn [negb e_body e_encoder e_fut].
    - destruct body as [|c rest].
      + split; reflexivity.
      + specialize (IH rest o2). unfold enc_init in IH. cbn [length] in Hn.
        destruct (enc_drive n _ o2) as [[outs sf] fin]. destruct IH as [I1 I2]; [lia|].
        split; [f_equal; exact I1|exact I2].
    - specialize (IH body o2). unfold enc_init in IH. specialize (Ho' eq_refl).
      destruct (enc_drive n _ o2) as [[outs sf] fin]. apply IH. lia.
  Qed.
End EncoderProofs.

Section DecoderProofs.
  Variable D : Type.
  Variable dec_feed : D -> bytes -> option (bytes * D).
  Variable dec_eof : D -> option bytes.
  Variable max_dec_in_place : N.
  Variable whole_dec : bytes -> option bytes.

  Notation dec_poll := (dec_poll D dec_feed dec_eof max_dec_in_place).
  Notation dec_drive := (dec_drive D dec_feed dec_eof max_dec_in_place).
  Notation dec_st := (dec_st D).

  (* ================================================================ Decoder *)

  (* what the decoder will still deliver from state d with the wire chunks [wire] to come;
     None = some feed / the final feed_eof fails *)
  Fixpoint dec_stream (d : D) (wire : list bytes) : option bytes :=
    match wire with
    | [] => dec_eof d
    | c :: r =>
        match dec_feed d c with
        | None => None
        | Some (out, d') => match dec_stream d' r with Some rest => Some (out ++ rest) | None => None end
        end
    end.

  Definition drem (s : dec_st) : option bytes :=
    match d_fut D s with
    | Some None => None
    | Some (Some (out, d2)) =>
        match dec_stream d2 (d_in D s) with Some rest => Some (out ++ rest) | None => None end
    | None =>
        if d_eof D s then Some [] else
        match d_decoder D s with Some d => dec_stream d (d_in D s) | None => Some [] end
    end.

  Definition dec_mode (s : dec_st) : Prop :=
    (d_fut D s <> None /\ d_decoder D s = None /\ d_eof D s = false) \/
    (d_fut D s = None /\ d_decoder D s <> None /\ d_eof D s = false) \/
    (d_fut D s = None /\ d_eof D s = true).

  Definition dmu (s : dec_st) (o : list bool) : nat :=
    (length o + 2 * length (d_in D s)
     + (match d_fut D s with Some _ => 1 | None => 0 end)
     + (if d_eof D s then 0 else 1))%nat.

  Definition dec_after_fut (fuel : nat) (s1 : dec_st) (o1 : list bool) : poll (option ditem) * dec_st * list bool :=
    if d_eof D s1 then (Ready None, s1, o1) else
    let '(rdy, o2) := ask o1 in
    if negb rdy then (Pending, s1, o2) else
    match d_in D s1 with
    | c :: rest =>
        match d_decoder D s1 with
        | Some d =>
            if lenN c <? max_dec_in_place then
              match dec_feed d c with
              | None =>
                  (Ready (Some DErr), {| d_in := rest; d_decoder := None; d_fut := None; d_eof := false |}, o2)
              | Some (out, d2) =>
                  let s2 := {| d_in := rest; d_decoder := Some d2; d_fut := None; d_eof := false |} in
                  if nonempty out then (Ready (Some (DChunk out)), s2, o2) else dec_poll fuel s2 o2
              end
            else
              dec_poll fuel {| d_in := rest; d_decoder := None; d_fut := Some (dec_feed d c);
                               d_eof := false |} o2
        | None => (Ready (Some (DChunk c)), {| d_in := rest; d_decoder := None; d_fut := None; d_eof := false |}, o2)
        end
    | [] =>
        let s2 := {| d_in := []; d_decoder := None; d_fut := None; d_eof := true |} in
        match d_decoder D s1 with
        | Some d =>
            match dec_eof d with
            | Some out => if nonempty out then (Ready (Some (DChunk out)), s2, o2) else (Ready None, s2, o2)
            | None => (Ready (Some DErr), s2, o2)
            end
        | None => (Ready None, s2, o2)
        end
    end.

  Lemma dec_poll_S fuel s o :
    dec_poll (S fuel) s o =
    match d_fut D s with
    | Some r =>
        let '(rdy, o1) := ask o in
        if negb rdy then (Pending, s, o1) else
        match r with
        | None => (Ready (Some DErr), s, o1)
        | Some (out, d2) =>
            let s1 := {| d_in := d_in D s; d_decoder := Some d2; d_fut := None; d_eof := d_eof D s |} in
            if nonempty out then (Ready (Some (DChunk out)), s1, o1) else dec_after_fut fuel s1 o1
        end
    | None => dec_after_fut fuel s o
    end.
  Proof. reflexivity. Qed.

  Definition dpoll_post (p : bytes) (s : dec_st) (o : list bool)
             (res : poll (option ditem) * dec_st * list bool) : Prop :=
    let '(r, s', o') := res in
    dec_mode s' /\
    match r with
    | Pending => drem s' = Some p /\ (dmu s' o' < dmu s o)%nat
    | Ready (Some (DChunk c)) =>
        exists p', drem s' = Some p' /\ c ++ p' = p /\ (dmu s' o' < dmu s o)%nat /\ nonempty c = true
    | Ready (Some DErr) => False
    | Ready None => p = [] /\ d_eof D s' = true /\ d_fut D s' = None
    end.

  Lemma dec_poll_spec : forall fuel s o p,
    dec_mode s -> drem s = Some p -> (length (d_in D s) < fuel)%nat -> dpoll_post p s o (dec_poll fuel s o).
  Proof.
    induction fuel as [|fuel IH]; intros s o p Hm Hp Hf; [lia|].
    assert (Hafter : forall s1 o1 p1, d_fut D s1 = None -> dec_mode s1 -> drem s1 = Some p1 ->
                     (length (d_in D s1) <= fuel)%nat -> dpoll_post p1 s1 o1 (dec_after_fut fuel s1 o1)).
    { intros s1 o1 p1 Hfut Hm1 Hp1 Hl. unfold dec_after_fut.
      destruct s1 as [win dcd fut eof]. cbn [d_in d_decoder d_fut d_eof] in *. subst fut.
      destruct eof.
      { unfold dpoll_post. split; [exact Hm1|]. unfold drem in Hp1. cbn in Hp1. inversion Hp1; subst.
        repeat split; reflexivity. }
      destruct (ask o1) as [rdy o2] eqn:Ea. destruct (ask_length _ _ _ Ea) as [Ho Ho'].
      destruct rdy; cbn [negb].
      2:{ unfold dpoll_post. split; [exact Hm1|]. split; [exact Hp1|]. unfold dmu. specialize (Ho' eq_refl). cbn. lia. }
      assert (Hd : dcd <> None).
      { destruct Hm1 as [[H _]|[[_ [H _]]|[_ H]]]; cbn in H; congruence. }
      destruct dcd as [d|]; [clear Hd|congruence].
      unfold drem in Hp1. cbn [d_in d_decoder d_fut d_eof] in Hp1.
      destruct win as [|c rest].
      - cbn [dec_stream] in Hp1. rewrite Hp1.
        assert (Hm2 : dec_mode {| d_in := []; d_decoder := None; d_fut := None; d_eof := true |})
          by (right; right; cbn; split; reflexivity).
        destruct (nonempty p1) eqn:En.
        + unfold dpoll_post. split; [exact Hm2|]. exists []. unfold drem, dmu. cbn.
          rewrite app_nil_r. repeat split; try reflexivity; try lia; try exact En.
        + unfold dpoll_post. split; [exact Hm2|]. repeat split; try reflexivity.
          apply nonempty_false; exact En.
      - cbn [dec_stream] in Hp1. cbn [length] in Hl.
        destruct (dec_feed d c) as [[out d2]|] eqn:Ef; [|discriminate].
        destruct (dec_stream d2 rest) as [rest_p|] eqn:Es; [|discriminate]. inversion Hp1; subst p1. clear Hp1.
        destruct (lenN c <? max_dec_in_place).
        + assert (Hm2 : dec_mode {| d_in := rest; d_decoder := Some d2; d_fut := None; d_eof := false |})
            by (right; left; cbn; repeat split; [discriminate]).
          assert (Hp2 : drem {| d_in := rest; d_decoder := Some d2; d_fut := None; d_eof := false |} = Some rest_p)
            by (unfold drem; cbn; exact Es).
          destruct (nonempty out) eqn:En.
          * unfold dpoll_post. split; [exact Hm2|]. exists rest_p. unfold dmu. cbn.
            repeat split; try reflexivity; try lia; try exact En; try exact Hp2.
          * pose proof (IH _ o2 rest_p Hm2 Hp2) as H. unfold dpoll_post in *.
            destruct (dec_poll fuel _ o2) as [[r s'] o'].
            destruct H as [Hm' Hr]; [cbn; lia|]. split; [exact Hm'|].
            rewrite (nonempty_false _ En). cbn [app].
            unfold dmu in *. cbn [d_in d_decoder d_fut d_eof length] in *.
            destruct r as [|[[c0|]|]].
            -- destruct Hr as [H1 H2]. split; [exact H1|lia].
            -- destruct Hr as [p' [H1 [H2 [H3 H4]]]]. exists p'. repeat split; try assumption. lia.
            -- exact Hr.
            -- exact Hr.
        + assert (Hm2 : dec_mode {| d_in := rest; d_decoder := None; d_fut := Some (Some (out, d2)); d_eof := false |})
            by (left; cbn; repeat split; [discriminate]).
          assert (Hp2 : drem {| d_in := rest; d_decoder := None; d_fut := Some (Some (out, d2)); d_eof := false |}
                        = Some (out ++ rest_p))
            by (unfold drem; cbn; rewrite Es; reflexivity).
          pose proof (IH _ o2 _ Hm2 Hp2) as H. unfold dpoll_post in *.
          destruct (dec_poll fuel _ o2) as [[r s'] o'].
          destruct H as [Hm' Hr]; [cbn; lia|]. split; [exact Hm'|].
          unfold dmu in *. cbn [d_in d_decoder d_fut d_eof length] in *.
          destruct r as [|[[c0|]|]].
          * destruct Hr as [H1 H2]. split; [exact H1|lia].
          * destruct Hr as [p' [H1 [H2 [H3 H4]]]]. exists p'. repeat split; try assumption. lia.
          * exact Hr.
          * exact Hr. }
    rewrite dec_poll_S.
    destruct (d_fut D s) as [r|] eqn:Hfut.
    - destruct (ask o) as [rdy o1] eqn:Ea. destruct (ask_length _ _ _ Ea) as [Ho Ho'].
      destruct rdy; cbn [negb].
      2:{ unfold dpoll_post. split; [exact Hm|]. split; [exact Hp|]. unfold dmu. specialize (Ho' eq_refl). lia. }
      assert (Heof : d_eof D s = false).
      { destruct Hm as [[_ [_ H]]|[[H _]|[H _]]]; [exact H|congruence|congruence]. }
      unfold drem in Hp. rewrite Hfut in Hp.
      destruct r as [[out d2]|]; [|discriminate].
      destruct (dec_stream d2 (d_in D s)) as [rest_p|] eqn:Es; [|discriminate]. inversion Hp; subst p. clear Hp.
      rewrite Heof.
      set (s1 := {| d_in := d_in D s; d_decoder := Some d2; d_fut := None; d_eof := false |}).
      assert (Hm1 : dec_mode s1) by (right; left; cbn; repeat split; [discriminate]).
      assert (Hp1 : drem s1 = Some rest_p) by (unfold drem; cbn; exact Es).
      assert (Emu : forall o', (length o' <= length o1)%nat -> (dmu s1 o' < dmu s o)%nat).
      { intros o' Hl. unfold dmu. rewrite Hfut, Heof. cbn [s1 d_in d_decoder d_fut d_eof]. lia. }
      destruct (nonempty out) eqn:En.
      + unfold dpoll_post. split; [exact Hm1|]. exists rest_p.
        repeat split; try reflexivity; try exact Hp1; try exact En. apply Emu. lia.
      + pose proof (Hafter s1 o1 rest_p eq_refl Hm1 Hp1) as H. unfold dpoll_post in *.
        destruct (dec_after_fut fuel s1 o1) as [[r s'] o'].
        destruct H as [Hm' Hr]; [cbn [s1 d_in]; lia|]. split; [exact Hm'|].
        rewrite (nonempty_false _ En). cbn [app].
        pose proof (Emu o1 (le_n _)) as Hlt.
        destruct r as [|[[c0|]|]].
        * destruct Hr as [H1 H2]. split; [exact H1|lia].
        * destruct Hr as [p' [H1 [H2 [H3 H4]]]]. exists p'. repeat split; try assumption. lia.
        * exact Hr.
        * exact Hr.
    - apply Hafter; try assumption. lia.
  Qed.

  Definition only_chunks (items : list ditem) : list bytes :=
    flat_map (fun i => match i with DChunk c => [c] | DErr => [] end) items.

  Lemma dec_drive_spec : forall n s o p,
    dec_mode s -> drem s = Some p -> (dmu s o < n)%nat ->
    let '(outs, s', fin) := dec_drive n s o in
    fin = true /\ ~ In DErr outs /\ concat (only_chunks outs) = p /\ d_eof D s' = true.
  Proof.
    induction n as [|n IH]; intros s o p Hm Hp Hn; [lia|]. cbn [ContentCoding.dec_drive].
    pose proof (dec_poll_spec (dec_fuel D s) s o p Hm Hp) as H. unfold dpoll_post in H.
    destruct (dec_poll (dec_fuel D s) s o) as [[r s1] o1].
    destruct H as [Hm1 Hr]; [unfold dec_fuel; lia|].
    destruct r as [|[[c|]|]].
    - destruct Hr as [H1 H2]. specialize (IH s1 o1 p Hm1 H1 ltac:(lia)).
      destruct (dec_drive n s1 o1) as [[outs sf] fin]. exact IH.
    - destruct Hr as [p' [H1 [H2 [H3 H4]]]]. specialize (IH s1 o1 p' Hm1 H1 ltac:(lia)).
      destruct (dec_drive n s1 o1) as [[outs sf] fin]. destruct IH as [I1 [I2 [I3 I4]]].
      repeat split; try assumption.
      + intros [Hin|Hin]; [discriminate|exact (I2 Hin)].
      + cbn [only_chunks flat_map app concat]. fold (only_chunks outs). rewrite I3. exact H2.
    - destruct Hr.
    - destruct Hr as [H1 [H2 H3]]. repeat split; try assumption.
      + intros [].
      + cbn. symmetry. exact H1.
  Qed.

  (* ---- the decoder law: streaming decode of any segmentation = whole decode *)
  Variable d0 : D.
  Definition decoder_law : Prop :=
    forall (wire : list bytes) (plain : bytes),
      whole_dec (concat wire) = Some plain -> dec_stream d0 wire = Some plain.

  (* LOSSLESS (request side): a body that is a valid encoding of [plain], cut into wire chunks in
     any way, polled under any Pending pattern, is delivered as chunks whose concatenation is
     [plain], without an error item, and the end of the stream is reported *)
  Theorem decoder_lossless : decoder_law -> forall (wire : list bytes) (plain : bytes) (o : list bool),
    whole_dec (concat wire) = Some plain ->
    let '(outs, s', fin) := dec_drive (dec_budget wire o) (dec_init D (Some d0) wire) o in
    fin = true /\ ~ In DErr outs /\ concat (only_chunks outs) = plain.
  Proof.
    intros Hlaw wire plain o Hw.
    pose proof (dec_drive_spec (dec_budget wire o) (dec_init D (Some d0) wire) o plain) as H.
    destruct (dec_drive _ _ o) as [[outs s'] fin].
    destruct H as [H1 [H2 [H3 H4]]].
    - right; left; cbn; repeat split; discriminate.
    - unfold drem, dec_init. cbn. apply Hlaw. exact Hw.
    - unfold dmu, dec_budget, dec_init. cbn [d_in d_decoder d_fut d_eof]. lia.
    - repeat split; assumption.
  Qed.

  (* TERMINATION: after the end has been reported, every poll reports the end *)
  Theorem decoder_end_is_final : forall s fuel o,
    d_eof D s = true -> d_fut D s = None -> (0 < fuel)%nat ->
    dec_poll fuel s o = (Ready None, s, o).
  Proof.
    intros s fuel o He Hf Hfuel. destruct fuel as [|fuel]; [lia|]. rewrite dec_poll_S, Hf.
    unfold dec_after_fut. rewrite He. reflexivity.
  Qed.

  (* PASS-THROUGH: identity / unknown content-encoding: chunks handed on unchanged *)
  Theorem decoder_passthrough : forall (wire : list bytes) (o : list bool) n,
    (length o + length wire < n)%nat ->
    let '(outs, s', fin) := dec_drive n (dec_init D None wire) o in outs = map DChunk wire /\ fin = true.
  Proof.
    intros wire o n. revert wire o. induction n as [|n IH]; intros wire o Hn; [lia|].
    cbn [ContentCoding.dec_drive]. unfold dec_fuel, dec_init. cbn [d_in]. rewrite dec_poll_S.
    cbn [d_fut]. unfold dec_after_fut. cbn [d_eof].
    destruct (ask o) as [rdy o2] eqn:Ea. destruct (ask_length _ _ _ Ea) as [Ho Ho'].
    destruct rdy; cbn [negb d_in d_decoder d_fut].
    - destruct wire as [|c rest].
      + split; reflexivity.
      + specialize (IH rest o2). unfold dec_init in IH. cbn [length] in Hn.
        destruct (dec_drive n _ o2) as [[outs sf] fin]. destruct IH as [I1 I2]; [lia|].
        split; [cbn [map]; f_equal; exact I1|exact I2].
    - specialize (IH wire o2). unfold dec_init in IH. specialize (Ho' eq_refl).
      destruct (dec_drive n _ o2) as [[outs sf] fin]. apply IH. lia.
  Qed.
End DecoderProofs.

Section Roundtrip.
  Variable E : Type.
  Variable enc_write : E -> bytes -> E.
  Variable enc_take : E -> bytes * E.
  Variable enc_finish : E -> bytes.
  Variable D : Type.
  Variable dec_feed : D -> bytes -> option (bytes * D).
  Variable dec_eof : D -> option bytes.
  Variable max_enc_in_place max_dec_in_place : N.
  Variable e0 : E.
  Variable d0 : D.
  Variable whole_dec : bytes -> option bytes.

  (* response encoder composed with request decoder of the same coding: end to end identity *)
  Theorem roundtrip_lossless :
    codec_law E enc_write enc_take enc_finish e0 whole_dec -> decoder_law D dec_feed dec_eof whole_dec d0 ->
    forall (body : list bytes) (o1 : list bool) (wire : list bytes) (o2 : list bool),
    concat wire = concat (fst (fst (enc_drive E enc_write enc_take enc_finish max_enc_in_place
                                      (enc_budget body o1) (enc_init E (Some e0) body) o1))) ->
    let '(outs, _, fin) := dec_drive D dec_feed dec_eof max_dec_in_place (dec_budget wire o2) (dec_init D (Some d0) wire) o2 in
    fin = true /\ ~ In DErr outs /\ concat (only_chunks outs) = concat body.
  Proof.
    intros Hc Hd body o1 wire o2 Hw.
    pose proof (encoder_lossless E enc_write enc_take enc_finish max_enc_in_place e0 whole_dec Hc body o1) as He.
    destruct (enc_drive _ _ _ _ _ _ _ o1) as [[eouts es] efin]. cbn [fst] in Hw. destruct He as [_ [He _]].
    apply (decoder_lossless D dec_feed dec_eof max_dec_in_place whole_dec d0 Hd). rewrite Hw. exact He.
  Qed.
End Roundtrip.
