(* C13 proofs, part 4 — a request body sent with a supported Content-Encoding token, in ANY
   letter case and with ANY optional whitespace (space / tab) around it, selects the decoder of that
   coding (Decoder::from_headers + ContentEncoding::from_str). *)
From AV Require Import Lib.Base Web.Negotiate Web.ContentCodingSelect.
Open Scope N_scope.

Definition ows (b : N) : bool := (b =? 32) || (b =? 9).
Definition lower_letter (b : N) : bool := (97 <=? b) && (b <=? 122).

Lemma trim_start_ws : forall pre x, forallb is_ws pre = true -> trim_start (pre ++ x) = trim_start x.
Proof.
  induction pre as [|b pre IH]; intros x H; [reflexivity|].
  cbn [forallb] in H. apply andb_true_iff in H as [Hb Hp].
  cbn [app trim_start]. rewrite Hb. apply IH. exact Hp.
Qed.

Lemma trim_start_nonws : forall b r, is_ws b = false -> trim_start (b :: r) = b :: r.
Proof. intros b r H. cbn [trim_start]. rewrite H. reflexivity. Qed.

Lemma forallb_rev {A} (f : A -> bool) l : forallb f (rev l) = forallb f l.
Proof.
  induction l as [|a l IH]; [reflexivity|].
  cbn [rev forallb]. rewrite forallb_app, IH. cbn [forallb]. rewrite andb_true_r. apply andb_comm.
Qed.

(* trimming removes exactly the surrounding whitespace of a token without whitespace *)
Lemma trim_surrounded : forall pre tok post,
  forallb is_ws pre = true -> forallb is_ws post = true ->
  tok <> [] -> forallb (fun b => negb (is_ws b)) tok = true ->
  trim (pre ++ tok ++ post) = tok.
Proof.
  intros pre tok post Hpre Hpost Hne Htok. unfold trim.
  rewrite trim_start_ws by exact Hpre.
  destruct tok as [|b r]; [contradiction|].
  pose proof Htok as Htok0. cbn [forallb] in Htok. apply andb_true_iff in Htok as [Hb _].
  apply negb_true_iff in Hb.
  change ((b :: r) ++ post) with (b :: (r ++ post)). rewrite trim_start_nonws by exact Hb.
  change (b :: r ++ post) with ((b :: r) ++ post). rewrite rev_app_distr.
  rewrite trim_start_ws by (rewrite forallb_rev; exact Hpost).
  assert (Hr : forallb (fun b => negb (is_ws b)) (rev (b :: r)) = true) by (rewrite forallb_rev; exact Htok0).
  destruct (rev (b :: r)) as [|x t] eqn:Er.
  { apply (f_equal (@length N)) in Er. rewrite rev_length in Er. discriminate. }
  cbn [forallb] in Hr. apply andb_true_iff in Hr as [Hx _]. apply negb_true_iff in Hx.
  rewrite trim_start_nonws by exact Hx. rewrite <- Er. apply rev_involutive.
Qed.

Lemma eq_ignore_ascii_case_spec : forall a b,
  eq_ignore_ascii_case a b = true <-> map to_lower a = map to_lower b.
Proof.
  induction a as [|x a IH]; intros [|y b]; cbn [eq_ignore_ascii_case map]; split; intro H;
    try reflexivity; try discriminate.
  - apply andb_true_iff in H as [H1 H2]. apply N.eqb_eq in H1. apply IH in H2. congruence.
  - injection H as H1 H2. apply andb_true_iff. split; [apply N.eqb_eq; exact H1|apply IH; exact H2].
Qed.

Lemma map_forallb {A B} (f : A -> B) (P : B -> bool) : forall l l',
  map f l = l' -> forallb P l' = true -> forallb (fun a => P (f a)) l = true.
Proof.
  intros l l' H. subst l'. induction l as [|a l IH]; [reflexivity|]. cbn [map forallb]. intro H.
  apply andb_true_iff in H as [H1 H2]. rewrite H1, (IH H2). reflexivity.
Qed.

Lemma letter_facts b : lower_letter (to_lower b) = true ->
  negb (is_ws b) = true /\ ((b =? 9) || ((32 <=? b) && (b <? 127))) = true.
Proof. unfold lower_letter, to_lower, is_ws. destruct ((65 <=? b) && (b <=? 90)) eqn:E; lia. Qed.

Lemma ows_facts b : ows b = true -> is_ws b = true /\ ((b =? 9) || ((32 <=? b) && (b <? 127))) = true.
Proof. unfold ows, is_ws. lia. Qed.

Lemma forallb_impl {A} (P Q : A -> bool) l : (forall a, P a = true -> Q a = true) ->
  forallb P l = true -> forallb Q l = true.
Proof.
  intro H. induction l as [|a l IH]; [reflexivity|]. cbn [forallb]. intro H1.
  apply andb_true_iff in H1 as [H2 H3]. rewrite (H _ H2), (IH H3). reflexivity.
Qed.

(* every coding that ContentEncoding::from_str knows: a case variant of its token, surrounded by
   optional whitespace, parses to it *)
Lemma from_str_case_ows : forall (c : coding) (pre tok post : bytes),
  c = Brotli \/ c = Gzip \/ c = Deflate \/ c = Identity \/ c = Zstd ->
  forallb ows pre = true -> forallb ows post = true ->
  map to_lower tok = coding_name c ->
  to_str_ok (pre ++ tok ++ post) = true /\
  content_encoding_from_str (pre ++ tok ++ post) = Some c.
Proof.
  intros c pre tok post Hc Hpre Hpost Htok.
  assert (Hlet : forallb lower_letter (coding_name c) = true)
    by (destruct Hc as [H|[H|[H|[H|H]]]]; subst c; reflexivity).
  pose proof (map_forallb to_lower lower_letter tok _ Htok Hlet) as Hall.
  assert (Hne : tok <> []).
  { intro E. subst tok. destruct Hc as [H|[H|[H|[H|H]]]]; subst c; discriminate. }
  split.
  - unfold to_str_ok. rewrite !forallb_app.
    rewrite (forallb_impl _ _ pre (fun a H => proj2 (ows_facts a H)) Hpre).
    rewrite (forallb_impl _ _ post (fun a H => proj2 (ows_facts a H)) Hpost).
    rewrite (forallb_impl _ _ tok (fun a H => proj2 (letter_facts a H)) Hall). reflexivity.
  - unfold content_encoding_from_str.
    rewrite (trim_surrounded pre tok post
               (forallb_impl _ _ pre (fun a H => proj1 (ows_facts a H)) Hpre)
               (forallb_impl _ _ post (fun a H => proj1 (ows_facts a H)) Hpost)
               Hne
               (forallb_impl _ _ tok (fun a H => proj1 (letter_facts a H)) Hall)).
    cbv zeta.
    repeat match goal with
    | |- context [eq_ignore_ascii_case tok ?lit] =>
        let He := fresh "He" in
        destruct (eq_ignore_ascii_case tok lit) eqn:He;
        [ apply eq_ignore_ascii_case_spec in He; rewrite Htok in He;
          destruct Hc as [H|[H|[H|[H|H]]]]; subst c; first [discriminate He | reflexivity]
        | ]
    end.
    exfalso.
    destruct Hc as [H|[H|[H|[H|H]]]]; subst c;
      match goal with
      | He : eq_ignore_ascii_case tok ?lit = false |- _ =>
          match lit with
          | _ => assert (Ht : eq_ignore_ascii_case tok lit = true)
                   by (apply eq_ignore_ascii_case_spec; rewrite Htok; reflexivity);
                 rewrite Ht in He; discriminate He
          end
      end.
Qed.

(* the property clause: the FIRST Content-Encoding value being a supported token (any case, any
   surrounding optional whitespace) makes Decoder::from_headers build the decoder of that coding *)
Theorem supported_token_selects_its_decoder : forall (c : coding) (pre tok post : bytes) (more : list bytes),
  selectable c = true ->
  forallb ows pre = true -> forallb ows post = true ->
  map to_lower tok = coding_name c ->
  decoder_from_headers ((pre ++ tok ++ post) :: more) = c /\ decoder_new_has c = true.
Proof.
  intros c pre tok post more Hsel Hpre Hpost Htok.
  assert (Hc : c = Brotli \/ c = Gzip \/ c = Deflate \/ c = Identity \/ c = Zstd)
    by (destruct c; try discriminate; tauto).
  destruct (from_str_case_ows c pre tok post Hc Hpre Hpost Htok) as [H1 H2].
  unfold decoder_from_headers. rewrite H1, H2. split; [reflexivity|].
  destruct c; try discriminate; reflexivity.
Qed.

(* identity (any case) and every value the parser rejects, a value that is not visible ASCII, or
   no header at all: no decoder, the body passes through *)
Theorem no_decoder_cases : forall (vals : list bytes),
  vals = [] \/
  (exists v more, vals = v :: more /\ (to_str_ok v = false \/ content_encoding_from_str v = None)) \/
  (exists pre tok post more, vals = (pre ++ tok ++ post) :: more /\ forallb ows pre = true /\
      forallb ows post = true /\ map to_lower tok = coding_name Identity) ->
  decoder_new_has (decoder_from_headers vals) = false.
Proof.
  intros vals [H|[[v [more [H [H1|H1]]]]|[pre [tok [post [more [H [Hpre [Hpost Htok]]]]]]]]]; subst vals.
  - reflexivity.
  - unfold decoder_from_headers. rewrite H1. reflexivity.
  - unfold decoder_from_headers. rewrite H1. destruct (to_str_ok v); reflexivity.
  - destruct (from_str_case_ows Identity pre tok post (or_intror (or_intror (or_intror (or_introl eq_refl)))) Hpre Hpost Htok) as [H1 H2].
    unfold decoder_from_headers. rewrite H1, H2. reflexivity.
Qed.
