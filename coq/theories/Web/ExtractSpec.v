(* C12 specification: what "never accepts or buffers more than the limit" means, stated once for
   all streaming collectors, plus the reference bookkeeping of a multipart form. *)
From AV Require Import Lib.Base Web.Extract.

(* ---------------------------------------------------------------- the streaming collectors *)

(* the extractors that collect one (decoded) payload stream under one limit *)
Inductive extractor :=
| XBytes (dflt : N)      (* web::Bytes / String: HttpMessageBody, dflt = DEFAULT_CONFIG_LIMIT *)
| XJson (dflt : N)       (* web::Json: JsonBody (content type accepted), dflt = DEFAULT_LIMIT *)
| XForm                  (* web::Form: UrlEncoded (content type accepted) *)
| XPayloadTBL            (* web::Payload::to_bytes_limited *)
| XBodyTBL               (* actix_http::body::to_bytes_limited on a Stream / Sized(n) body *)
| XFieldBytes.           (* actix_multipart::Field::bytes *)

(* [declared] is the length announced ahead of the data: the Content-Length header for the web
   extractors, `MessageBody::size()` = Sized(n) for to_bytes_limited; the other two have none *)
Definition run (x : extractor) (limit : N) (declared : option N) (items : stream) : res * ghost :=
  let cl := match declared with Some n => CLNum n | None => CLAbsent end in
  match x with
  | XBytes dflt => bytes_extract dflt limit cl items
  | XJson dflt => json_extract dflt limit true cl items
  | XForm => form_extract limit true cl items
  | XPayloadTBL => payload_to_bytes_limited limit items
  | XBodyTBL => to_bytes_limited (match declared with Some n => SzSized n | None => SzStream end) limit items
  | XFieldBytes => field_bytes limit items
  end.

Definition uses_declared (x : extractor) : bool :=
  match x with XPayloadTBL | XFieldBytes => false | _ => true end.

(* a stream of data chunks without errors *)
Definition chunks (cs : list bytes) : stream := map Data cs.

(* the overflow error of the extractor, whatever it carries *)
Definition is_overflow (r : res) : bool :=
  match r with
  | Err EOverflow | Err (EOverflowAt _ _) | Err (EOverflowKnown _ _) => true
  | _ => false
  end.

(* UrlencodedError::Overflow reports the size reached when the limit was crossed; that number
   (not the kind of error) depends on where the chunk boundaries are *)
Definition erase_size (r : res) : res :=
  match r with Err (EOverflowAt _ l) => Err (EOverflowAt 0 l) | _ => r end.

(* largest data chunk of a stream *)
Fixpoint max_chunk (items : stream) : N :=
  match items with
  | [] => 0
  | Data c :: r => N.max (lenN c) (max_chunk r)
  | Fail :: r => max_chunk r
  end.

(* ---------------------------------------------------------------- multipart form bookkeeping *)

Definition data_of (items : stream) : bytes :=
  concat (map (fun i => match i with Data c => c | Fail => [] end) items).
Definition flen (f : field) : N := lenN (data_of (f_items f)).

(* is this occurrence kept in memory, given the names already kept *)
Definition kept_in_memory (seen : list N) (f : field) : bool :=
  match f_kind f with
  | KSingle => negb (existsb (N.eqb (f_name f)) seen)
  | KVec => true
  | KUnknown => false
  end.

(* bytes of all occurrences / of the occurrences kept in memory / of the occurrences of one name *)
Definition sum_all (fs : list field) : N := sumN (map flen fs).
Fixpoint sum_memory (seen : list N) (fs : list field) : N :=
  match fs with
  | [] => 0
  | f :: r => if kept_in_memory seen f then flen f + sum_memory (f_name f :: seen) r
              else sum_memory seen r
  end.
Definition sum_name (n : N) (fs : list field) : N :=
  sumN (map flen (filter (fun f => f_name f =? n) fs)).
Definition sum_kept (kept : list (N * bytes)) : N := sumN (map (fun kv => lenN (snd kv)) kept).
