(* C13 model, part 1 — the streaming state machines of
     actix-http/src/encoding/encoder.rs   Encoder::poll_next   (response compression)
     actix-http/src/encoding/decoder.rs   Decoder::poll_next   (request decompression)
   over an ABSTRACT streaming codec.  flate2 / brotli / zstd are external code: they appear as
   Section variables; the laws assumed about them are hypotheses of the theorems in
   ContentCodingProofs.v (and are tested on the real libraries by harness/src/bin/c13.rs).

   Scheduling: every `ready!(..)` in the Rust code asks an oracle (a list of booleans, true = the
   polled source is Ready; an exhausted oracle answers Ready).  The body stream and the
   `spawn_blocking` JoinHandle may thus answer Pending any number of times.  No proofs here. *)
From AV Require Import Lib.Base.

Inductive poll (A : Type) := Pending | Ready (a : A).
Arguments Pending {A}. Arguments Ready {A}.

Definition ask (o : list bool) : bool * list bool :=
  match o with [] => (true, []) | b :: r => (b, r) end.

Definition nonempty (b : bytes) : bool := match b with [] => false | _ => true end.

Section Codec.
  (* ---- ContentEncoder: write(&mut self, data), take(&mut self) -> Bytes, finish(self) -> Bytes *)
  Variable E : Type.
  Variable enc_write : E -> bytes -> E.
  Variable enc_take : E -> bytes * E.
  Variable enc_finish : E -> bytes.
  (* ---- ContentDecoder: feed_data(&mut self, data) -> io::Result<Option<Bytes>>,
          feed_eof(&mut self) -> io::Result<Option<Bytes>>; None = io::Error.  The Rust functions
          return Ok(None) for an empty output: here the output is just empty. *)
  Variable D : Type.
  Variable dec_feed : D -> bytes -> option (bytes * D).
  Variable dec_eof : D -> option bytes.
  (* MAX_CHUNK_SIZE_ENCODE_IN_PLACE, MAX_CHUNK_SIZE_DECODE_IN_PLACE *)
  Variable max_enc_in_place : N.
  Variable max_dec_in_place : N.

  (* ================================================================ Encoder *)

  (* Encoder { body, encoder, fut, eof }.  [e_body]: what the wrapped body will still yield
     (polled again after its end it yields None again).  [e_fut]: the encoder the blocking task
     will hand back (the write has happened inside the task). *)
  Record enc_st := { e_body : list bytes; e_encoder : option E; e_fut : option E; e_eof : bool }.

  Definition enc_init (enc : option E) (body : list bytes) : enc_st :=
    {| e_body := body; e_encoder := enc; e_fut := None; e_eof := false |}.

  (* one call of Encoder::poll_next; [fuel] bounds the `loop` (one iteration per body chunk) *)
  Fixpoint enc_poll (fuel : nat) (s : enc_st) (o : list bool) : poll (option bytes) * enc_st * list bool :=
    match fuel with
    | O => (Pending, s, o)
    | S fuel =>
        if e_eof s then (Ready None, s, o) else
        (* `let result = ready!(this.body.as_mut().poll_next(cx))` and the match on it *)
        let poll_body (s1 : enc_st) (o1 : list bool) :=
            let '(rdy, o2) := ask o1 in
            if negb rdy then (Pending, s1, o2) else
            match e_body s1 with
            | c :: rest =>
                match e_encoder s1 with
                | Some e =>                                  (* this.encoder.take() *)
                    if lenN c <? max_enc_in_place then
                      let '(chunk, e2) := enc_take (enc_write e c) in
                      let s2 := {| e_body := rest; e_encoder := Some e2; e_fut := None; e_eof := false |} in
                      if nonempty chunk then (Ready (Some chunk), s2, o2) else enc_poll fuel s2 o2
                    else
                      enc_poll fuel {| e_body := rest; e_encoder := None;
                                       e_fut := Some (enc_write e c); e_eof := false |} o2
                | None =>
                    (Ready (Some c), {| e_body := rest; e_encoder := None; e_fut := e_fut s1; e_eof := false |}, o2)
                end
            | [] =>
                match e_encoder s1 with
                | Some e =>
                    let chunk := enc_finish e in
                    if nonempty chunk
                    then (Ready (Some chunk), {| e_body := []; e_encoder := None; e_fut := e_fut s1; e_eof := true |}, o2)
                    else (Ready None, {| e_body := []; e_encoder := None; e_fut := e_fut s1; e_eof := false |}, o2)
                | None => (Ready None, s1, o2)
                end
            end in
        match e_fut s with
        | Some e' =>
            let '(rdy, o1) := ask o in
            if negb rdy then (Pending, s, o1) else
            let '(chunk, e2) := enc_take e' in
            let s1 := {| e_body := e_body s; e_encoder := Some e2; e_fut := None; e_eof := false |} in
            if nonempty chunk then (Ready (Some chunk), s1, o1) else poll_body s1 o1
        | None => poll_body s o
        end
    end.

  Definition enc_fuel (s : enc_st) : nat := S (S (length (e_body s))).

  (* the consumer: polls until Ready(None) (or until [n] polls are spent); returns the chunks it
     received, the final state, and whether it saw the end *)
  Fixpoint enc_drive (n : nat) (s : enc_st) (o : list bool) : list bytes * enc_st * bool :=
    match n with
    | O => ([], s, false)
    | S n =>
        match enc_poll (enc_fuel s) s o with
        | (Pending, s', o') => enc_drive n s' o'
        | (Ready (Some c), s', o') => let '(cs, sf, fin) := enc_drive n s' o' in (c :: cs, sf, fin)
        | (Ready None, s', _) => ([], s', true)
        end
    end.

  (* enough polls for any oracle: every Pending consumes an oracle entry, every other poll a body
     chunk, the finish chunk or the end *)
  Definition enc_budget (body : list bytes) (o : list bool) : nat := length o + 2 * length body + 3.

  (* ---- the same machine, INSTRUMENTED: [enc_poll_obs] is [enc_poll] with one more result, the
     number of times this call polled the wrapped body when the body had nothing left, i.e. the
     number of `None`s the body stream returned (the first one is its end; every further one is a
     poll of a finished stream, which `futures::stream::unfold` answers with a panic and a
     non-fused stream may answer with Pending forever).  ContentCodingEndProofs.v proves that
     erasing the count gives [enc_poll] and that the count never exceeds one per response. *)
  Fixpoint enc_poll_obs (fuel : nat) (s : enc_st) (o : list bool)
      : poll (option bytes) * enc_st * list bool * nat :=
    match fuel with
    | O => (Pending, s, o, O)
    | S fuel =>
        if e_eof s then (Ready None, s, o, O) else
        let poll_body (s1 : enc_st) (o1 : list bool) :=
            let '(rdy, o2) := ask o1 in
            if negb rdy then (Pending, s1, o2, O) else
            match e_body s1 with
            | c :: rest =>
                match e_encoder s1 with
                | Some e =>
                    if lenN c <? max_enc_in_place then
                      let '(chunk, e2) := enc_take (enc_write e c) in
                      let s2 := {| e_body := rest; e_encoder := Some e2; e_fut := None; e_eof := false |} in
                      if nonempty chunk then (Ready (Some chunk), s2, o2, O) else enc_poll_obs fuel s2 o2
                    else
                      enc_poll_obs fuel {| e_body := rest; e_encoder := None;
                                           e_fut := Some (enc_write e c); e_eof := false |} o2
                | None =>
                    (Ready (Some c), {| e_body := rest; e_encoder := None; e_fut := e_fut s1; e_eof := false |}, o2, O)
                end
            | [] =>                                           (* the body stream answers None *)
                match e_encoder s1 with
                | Some e =>
                    let chunk := enc_finish e in
                    if nonempty chunk
                    then (Ready (Some chunk), {| e_body := []; e_encoder := None; e_fut := e_fut s1; e_eof := true |}, o2, 1%nat)
                    else (Ready None, {| e_body := []; e_encoder := None; e_fut := e_fut s1; e_eof := false |}, o2, 1%nat)
                | None => (Ready None, s1, o2, 1%nat)
                end
            end in
        match e_fut s with
        | Some e' =>
            let '(rdy, o1) := ask o in
            if negb rdy then (Pending, s, o1, O) else
            let '(chunk, e2) := enc_take e' in
            let s1 := {| e_body := e_body s; e_encoder := Some e2; e_fut := None; e_eof := false |} in
            if nonempty chunk then (Ready (Some chunk), s1, o1, O) else poll_body s1 o1
        | None => poll_body s o
        end
    end.

  (* the consumer of [enc_drive], counting the body's `None`s up to the encoder's own end *)
  Fixpoint enc_drive_obs (n : nat) (s : enc_st) (o : list bool) : list bytes * enc_st * bool * nat :=
    match n with
    | O => ([], s, false, O)
    | S n =>
        match enc_poll_obs (enc_fuel s) s o with
        | (Pending, s', o', k) => let '(cs, sf, fin, m) := enc_drive_obs n s' o' in (cs, sf, fin, (k + m)%nat)
        | (Ready (Some c), s', o', k) => let '(cs, sf, fin, m) := enc_drive_obs n s' o' in (c :: cs, sf, fin, (k + m)%nat)
        | (Ready None, s', _, k) => ([], s', true, k)
        end
    end.

  (* ================================================================ Decoder *)

  Inductive ditem := DChunk (b : bytes) | DErr.

  (* Decoder { decoder, stream, eof, fut }.  [d_fut]: the result the blocking task will return. *)
  Record dec_st := { d_in : list bytes; d_decoder : option D; d_fut : option (option (bytes * D));
                     d_eof : bool }.

  Definition dec_init (dec : option D) (wire : list bytes) : dec_st :=
    {| d_in := wire; d_decoder := dec; d_fut := None; d_eof := false |}.

  Fixpoint dec_poll (fuel : nat) (s : dec_st) (o : list bool) : poll (option ditem) * dec_st * list bool :=
    match fuel with
    | O => (Pending, s, o)
    | S fuel =>
        let after_fut (s1 : dec_st) (o1 : list bool) :=
            if d_eof s1 then (Ready None, s1, o1) else
            let '(rdy, o2) := ask o1 in
            if negb rdy then (Pending, s1, o2) else
            match d_in s1 with
            | c :: rest =>
                match d_decoder s1 with
                | Some d =>                                   (* this.decoder.take() *)
                    if lenN c <? max_dec_in_place then
                      match dec_feed d c with
                      | None =>                               (* `?`: the decoder is dropped *)
                          (Ready (Some DErr), {| d_in := rest; d_decoder := None; d_fut := None; d_eof := false |}, o2)
                      | Some (out, d2) =>
                          let s2 := {| d_in := rest; d_decoder := Some d2; d_fut := None; d_eof := false |} in
                          if nonempty out then (Ready (Some (DChunk out)), s2, o2) else dec_poll fuel s2 o2
                      end
                    else
                      dec_poll fuel {| d_in := rest; d_decoder := None; d_fut := Some (dec_feed d c);
                                       d_eof := false |} o2
                | None => (Ready (Some (DChunk c)), {| d_in := rest; d_decoder := None; d_fut := None; d_eof := false |}, o2)
                end
            | [] =>
                let s2 := {| d_in := []; d_decoder := None; d_fut := None; d_eof := true |} in
                match d_decoder s1 with
                | Some d =>
                    match dec_eof d with
                    | Some out => if nonempty out then (Ready (Some (DChunk out)), s2, o2) else (Ready None, s2, o2)
                    | None => (Ready (Some DErr), s2, o2)
                    end
                | None => (Ready None, s2, o2)
                end
            end in
        match d_fut s with
        | Some r =>
            let '(rdy, o1) := ask o in
            if negb rdy then (Pending, s, o1) else
            match r with
            | None => (Ready (Some DErr), s, o1)   (* `??` returns before `this.fut.take()`; callers stop here *)
            | Some (out, d2) =>
                let s1 := {| d_in := d_in s; d_decoder := Some d2; d_fut := None; d_eof := d_eof s |} in
                if nonempty out then (Ready (Some (DChunk out)), s1, o1) else after_fut s1 o1
            end
        | None => after_fut s o
        end
    end.

  Definition dec_fuel (s : dec_st) : nat := S (S (length (d_in s))).

  (* the consumer stops at the end or at the first error (as every extractor does) *)
  Fixpoint dec_drive (n : nat) (s : dec_st) (o : list bool) : list ditem * dec_st * bool :=
    match n with
    | O => ([], s, false)
    | S n =>
        match dec_poll (dec_fuel s) s o with
        | (Pending, s', o') => dec_drive n s' o'
        | (Ready (Some DErr), s', _) => ([DErr], s', true)
        | (Ready (Some (DChunk c)), s', o') => let '(cs, sf, fin) := dec_drive n s' o' in (DChunk c :: cs, sf, fin)
        | (Ready None, s', _) => ([], s', true)
        end
    end.

  Definition dec_budget (wire : list bytes) (o : list bool) : nat := length o + 2 * length wire + 3.
End Codec.
