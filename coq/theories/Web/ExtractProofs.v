(* C12 proofs. All statements are for arbitrary limits and arbitrary chunk lists (induction over
   the stream). *)
From AV Require Import Lib.Base Web.Extract Web.ExtractSpec.

Lemma lenN_app {A} (a b : list A) : lenN (a ++ b) = lenN a + lenN b.
Proof. unfold lenN. rewrite app_length. lia. Qed.
Lemma lenN_nil {A} : lenN (@nil A) = 0.
Proof. reflexivity. Qed.

(* arithmetic over lengths: push lenN through ++, expose nil/cons, then lia *)
Ltac ln := rewrite ?lenN_app in *; unfold lenN, bytes in *; cbn [length] in *; lia.

(* ---------------------------------------------------------------- the four plain loops are one *)

Fixpoint gloop (ovf : N -> N -> xerr) (limit : N) (buf : bytes) (items : stream) (g : ghost) : res * ghost :=
  match items with
  | [] => (Ok buf, g_pull g)
  | Fail :: _ => (Err EStream, g_pull g)
  | Data c :: r =>
      let g := g_see (g_pull g) buf c in
      if limit <? lenN buf + lenN c then (Err (ovf (lenN buf + lenN c) limit), g)
      else gloop ovf limit (buf ++ c) r (g_buf g (buf ++ c))
  end.

Definition ovf_plain (_ _ : N) : xerr := EOverflow.

Lemma hmb_loop_eq limit items : forall buf g, hmb_loop limit buf items g = gloop ovf_plain limit buf items g.
Proof. induction items as [|[c|] r IH]; intros; cbn [hmb_loop gloop]; try reflexivity.
  destruct (limit <? lenN buf + lenN c); [reflexivity|apply IH]. Qed.
Lemma json_loop_eq limit items : forall buf g, json_loop limit buf items g = gloop ovf_plain limit buf items g.
Proof. induction items as [|[c|] r IH]; intros; cbn [json_loop gloop]; try reflexivity.
  destruct (limit <? lenN buf + lenN c); [reflexivity|apply IH]. Qed.
Lemma tbl_loop_eq limit items : forall buf g, tbl_loop limit buf items g = gloop ovf_plain limit buf items g.
Proof. induction items as [|[c|] r IH]; intros; cbn [tbl_loop gloop]; try reflexivity.
  destruct (limit <? lenN buf + lenN c); [reflexivity|apply IH]. Qed.
Lemma ue_loop_eq limit items : forall buf g, ue_loop limit buf items g = gloop EOverflowAt limit buf items g.
Proof. induction items as [|[c|] r IH]; intros; cbn [ue_loop gloop]; try reflexivity.
  destruct (limit <? lenN buf + lenN c); [reflexivity|apply IH]. Qed.

(* result of the loop on an error-free stream *)
Lemma gloop_within ovf limit cs : forall buf g,
  lenN buf + lenN (concat cs) <= limit ->
  fst (gloop ovf limit buf (chunks cs) g) = Ok (buf ++ concat cs).
Proof.
  induction cs as [|c r IH]; intros buf g H; cbn [chunks map gloop concat fst] in *.
  - rewrite app_nil_r. reflexivity.
  - rewrite lenN_app in H. destruct (limit <? lenN buf + lenN c) eqn:E; [lia|].
    fold (chunks r). rewrite IH; [rewrite app_assoc; reflexivity|]. rewrite lenN_app. lia.
Qed.

Lemma gloop_beyond ovf limit cs : forall buf g,
  lenN buf <= limit ->
  limit < lenN buf + lenN (concat cs) ->
  exists s, limit < s /\ s <= lenN buf + lenN (concat cs) /\
            fst (gloop ovf limit buf (chunks cs) g) = Err (ovf s limit).
Proof.
  induction cs as [|c r IH]; intros buf g H0 H; cbn [chunks map gloop concat fst] in *.
  - rewrite lenN_nil in H. lia.
  - rewrite lenN_app in H. rewrite lenN_app. destruct (limit <? lenN buf + lenN c) eqn:E.
    + exists (lenN buf + lenN c). repeat split; try reflexivity; lia.
    + fold (chunks r). destruct (IH (buf ++ c) (g_buf (g_see (g_pull g) buf c) (buf ++ c))) as [s [H1 [H2 H3]]].
      * rewrite lenN_app. lia.
      * rewrite lenN_app. lia.
      * exists s. rewrite lenN_app in H2. repeat split; try exact H3; lia.
Qed.

(* ghost bounds, for every stream (errors included) *)
Lemma gloop_ghost ovf limit items : forall buf g,
  lenN buf <= limit ->
  g_pbuf (snd (gloop ovf limit buf items g)) <= N.max (g_pbuf g) limit /\
  g_pheld (snd (gloop ovf limit buf items g)) <= N.max (g_pheld g) (limit + max_chunk items).
Proof.
  induction items as [|[c|] r IH]; intros buf g H; cbn [gloop max_chunk snd].
  - cbn. lia.
  - destruct (limit <? lenN buf + lenN c) eqn:E.
    + cbn. lia.
    + destruct (IH (buf ++ c) (g_buf (g_see (g_pull g) buf c) (buf ++ c))) as [H1 H2].
      * rewrite lenN_app. lia.
      * cbn [g_buf g_see g_pull g_pbuf g_pheld] in H1, H2. rewrite lenN_app in H1. lia.
  - cbn. lia.
Qed.

(* the loop stops polling at the chunk that crosses the limit *)
Lemma gloop_pulls_cross ovf limit pre : forall buf g c post,
  lenN buf + lenN (concat pre) <= limit ->
  limit < lenN buf + lenN (concat pre) + lenN c ->
  g_pulled (snd (gloop ovf limit buf (chunks (pre ++ c :: post)) g)) = g_pulled g + lenN pre + 1.
Proof.
  induction pre as [|p r IH]; intros buf g c post H1 H2; cbn [app chunks map gloop concat] in *.
  - destruct (limit <? lenN buf + lenN c) eqn:E; [|ln]. cbn. ln.
  - destruct (limit <? lenN buf + lenN p) eqn:E; [ln|].
    fold (chunks (r ++ c :: post)). rewrite IH.
    + cbn [g_buf g_see g_pull g_pulled]. ln.
    + ln.
    + ln.
Qed.

Lemma gloop_pulls_all ovf limit cs : forall buf g,
  lenN buf + lenN (concat cs) <= limit ->
  g_pulled (snd (gloop ovf limit buf (chunks cs) g)) = g_pulled g + lenN cs + 1.
Proof.
  induction cs as [|c r IH]; intros buf g H; cbn [chunks map gloop concat] in *.
  - cbn. lia.
  - rewrite lenN_app in H. destruct (limit <? lenN buf + lenN c) eqn:E; [lia|].
    fold (chunks r). rewrite IH.
    + cbn [g_buf g_see g_pull g_pulled]. unfold lenN. cbn [length]. lia.
    + rewrite lenN_app. lia.
Qed.

(* a stream error is never turned into a success *)
Lemma gloop_fail ovf limit items : forall buf g, In Fail items ->
  forall b, fst (gloop ovf limit buf items g) <> Ok b.
Proof.
  induction items as [|[c|] r IH]; intros buf g Hin b; cbn [gloop].
  - destruct Hin.
  - destruct Hin as [Hin|Hin]; [discriminate|].
    destruct (limit <? lenN buf + lenN c); [cbn; discriminate|apply IH; exact Hin].
  - cbn. discriminate.
Qed.

(* whatever the stream, a success holds at most [limit] bytes *)
Lemma gloop_ok_bounded ovf limit items : forall buf g b,
  lenN buf <= limit -> fst (gloop ovf limit buf items g) = Ok b -> lenN b <= limit.
Proof.
  induction items as [|[c|] r IH]; intros buf g b H; cbn [gloop].
  - cbn. intro E. inversion E; subst. exact H.
  - destruct (limit <? lenN buf + lenN c) eqn:E; [cbn; discriminate|].
    apply IH. rewrite lenN_app. lia.
  - cbn. discriminate.
Qed.

(* ---------------------------------------------------------------- Field::bytes *)

Lemma fb_exceeded limit items : forall buf g b,
  fst (field_bytes_loop limit true buf items g) <> Ok b.
Proof.
  induction items as [|[c|] r IH]; intros buf g b; cbn [field_bytes_loop].
  - cbn. discriminate.
  - apply IH.
  - cbn. discriminate.
Qed.

Lemma fb_exceeded_chunks limit cs : forall buf g,
  fst (field_bytes_loop limit true buf (chunks cs) g) = Err EOverflow.
Proof.
  induction cs as [|c r IH]; intros buf g; cbn [chunks map field_bytes_loop]; [reflexivity|].
  fold (chunks r). apply IH.
Qed.

Lemma fb_within limit cs : forall buf g,
  lenN buf + lenN (concat cs) <= limit ->
  fst (field_bytes_loop limit false buf (chunks cs) g) = Ok (buf ++ concat cs).
Proof.
  induction cs as [|c r IH]; intros buf g H; cbn [chunks map field_bytes_loop concat fst] in *.
  - rewrite app_nil_r. reflexivity.
  - rewrite lenN_app in H. destruct (limit <? lenN buf + lenN c) eqn:E; [lia|].
    fold (chunks r). rewrite IH; [rewrite app_assoc; reflexivity|]. rewrite lenN_app. lia.
Qed.

Lemma fb_beyond limit cs : forall buf g,
  lenN buf <= limit ->
  limit < lenN buf + lenN (concat cs) ->
  fst (field_bytes_loop limit false buf (chunks cs) g) = Err EOverflow.
Proof.
  induction cs as [|c r IH]; intros buf g H0 H; cbn [chunks map field_bytes_loop concat fst] in *.
  - rewrite lenN_nil in H. lia.
  - rewrite lenN_app in H. fold (chunks r). destruct (limit <? lenN buf + lenN c) eqn:E.
    + apply fb_exceeded_chunks.
    + apply IH; rewrite lenN_app; lia.
Qed.

Lemma fb_ok_bounded limit items : forall buf g b,
  lenN buf <= limit -> fst (field_bytes_loop limit false buf items g) = Ok b -> lenN b <= limit.
Proof.
  induction items as [|[c|] r IH]; intros buf g b H; cbn [field_bytes_loop].
  - cbn. intro E. inversion E; subst. exact H.
  - destruct (limit <? lenN buf + lenN c) eqn:E.
    + intro X. exfalso. exact (fb_exceeded _ _ _ _ _ X).
    + apply IH. rewrite lenN_app. lia.
  - cbn. discriminate.
Qed.

Lemma fb_ghost limit items : forall ex buf g,
  lenN buf <= limit ->
  g_pbuf (snd (field_bytes_loop limit ex buf items g)) <= N.max (g_pbuf g) limit /\
  g_pheld (snd (field_bytes_loop limit ex buf items g)) <= N.max (g_pheld g) (limit + max_chunk items).
Proof.
  induction items as [|[c|] r IH]; intros ex buf g H; cbn [field_bytes_loop max_chunk snd].
  - cbn. lia.
  - destruct ex.
    + destruct (IH true buf (g_see (g_pull g) buf c) H) as [H1 H2].
      cbn [g_buf g_see g_pull g_pbuf g_pheld] in H1, H2. lia.
    + destruct (limit <? lenN buf + lenN c) eqn:E.
      * destruct (IH true [] (g_buf (g_see (g_pull g) buf c) [])) as [H1 H2]; [rewrite lenN_nil; lia|].
        cbn [g_buf g_see g_pull g_pbuf g_pheld] in H1, H2. rewrite lenN_nil in H1. lia.
      * destruct (IH false (buf ++ c) (g_buf (g_see (g_pull g) buf c) (buf ++ c))) as [H1 H2];
          [rewrite lenN_app; lia|].
        cbn [g_buf g_see g_pull g_pbuf g_pheld] in H1, H2. rewrite lenN_app in H1. lia.
  - cbn. lia.
Qed.

(* Field::bytes drains the field whatever happens: every chunk and the end are polled *)
Lemma fb_pulls limit cs : forall ex buf g,
  g_pulled (snd (field_bytes_loop limit ex buf (chunks cs) g)) = g_pulled g + lenN cs + 1.
Proof.
  induction cs as [|c r IH]; intros ex buf g; cbn [chunks map field_bytes_loop].
  - cbn. lia.
  - fold (chunks r). destruct ex; [|destruct (limit <? lenN buf + lenN c)]; rewrite IH;
      cbn [g_buf g_see g_pull g_pulled]; unfold lenN; cbn [length]; lia.
Qed.

(* ---------------------------------------------------------------- [run]: every collector at once *)

Definition ovf_of (x : extractor) : N -> N -> xerr :=
  match x with XForm => EOverflowAt | _ => ovf_plain end.

(* without a declared length every collector except Field::bytes is the plain loop *)
Lemma run_none_gloop x limit items : x <> XFieldBytes ->
  run x limit None items = gloop (ovf_of x) limit [] items g0.
Proof.
  intro Hx. destruct x; try congruence; unfold run, bytes_extract, json_extract, form_extract,
    payload_to_bytes_limited, to_bytes_limited, hmb_poll, json_poll, ue_poll, hmb_set_limit,
    json_set_limit, ue_set_limit, hmb_new, json_new, ue_new, ovf_of;
    cbn [negb hmb_err hmb_length hmb_limit ue_err ue_length ue_limit].
  - apply hmb_loop_eq.
  - apply json_loop_eq.
  - apply ue_loop_eq.
  - apply tbl_loop_eq.
  - apply tbl_loop_eq.
Qed.

(* a declared length: above the limit it decides the outcome before anything is polled,
   otherwise it changes nothing (except that to_bytes_limited trusts Sized(0)) *)
Lemma run_declared_gt x limit n items : uses_declared x = true -> limit < n ->
  is_overflow (fst (run x limit (Some n) items)) = true /\ snd (run x limit (Some n) items) = g0.
Proof.
  intros Hu Hn. assert (E : (limit <? n) = true) by lia.
  destruct x; try discriminate; unfold run, bytes_extract, json_extract, form_extract,
    to_bytes_limited, hmb_poll, json_poll, ue_poll, hmb_set_limit, json_set_limit, ue_set_limit,
    hmb_new, json_new, ue_new; cbn [negb hmb_err hmb_length hmb_limit ue_err ue_length ue_limit];
    rewrite ?E; cbn [ue_err ue_length ue_limit]; rewrite ?E; try (split; reflexivity).
  destruct (n =? 0) eqn:E0; [lia|]. split; reflexivity.
Qed.

Lemma run_declared_le x limit n items : n <= limit -> (x = XBodyTBL -> n <> 0) ->
  run x limit (Some n) items = run x limit None items.
Proof.
  intros Hn H0. assert (E : (limit <? n) = false) by lia.
  destruct x; unfold run, bytes_extract, json_extract, form_extract,
    to_bytes_limited, hmb_poll, json_poll, ue_poll, hmb_set_limit, json_set_limit, ue_set_limit,
    hmb_new, json_new, ue_new; cbn [negb hmb_err hmb_length hmb_limit ue_err ue_length ue_limit];
    rewrite ?E; cbn [ue_err ue_length ue_limit]; rewrite ?E; try reflexivity.
  destruct (n =? 0) eqn:E0; [exfalso; apply H0; [reflexivity|lia]|reflexivity].
Qed.

Lemma run_bodytbl_zero limit items : run XBodyTBL limit (Some 0) items = (Ok [], g0).
Proof. reflexivity. Qed.

Lemma field_bytes_run limit d items : run XFieldBytes limit d items = field_bytes_loop limit false [] items g0.
Proof. reflexivity. Qed.

Lemma extractor_eq_fb (x : extractor) : {x = XFieldBytes} + {x <> XFieldBytes}.
Proof. destruct x; (left; reflexivity) || (right; discriminate). Qed.

(* ---- exactness *)
Lemma run_within x limit cs : lenN (concat cs) <= limit ->
  fst (run x limit None (chunks cs)) = Ok (concat cs).
Proof.
  intro H. destruct (extractor_eq_fb x) as [->|Hx].
  - rewrite field_bytes_run. rewrite fb_within; [reflexivity|ln].
  - rewrite run_none_gloop by exact Hx. rewrite gloop_within; [reflexivity|ln].
Qed.

Lemma run_beyond x limit cs : limit < lenN (concat cs) ->
  is_overflow (fst (run x limit None (chunks cs))) = true.
Proof.
  intro H. destruct (extractor_eq_fb x) as [->|Hx].
  - rewrite field_bytes_run. rewrite fb_beyond; [reflexivity|ln|ln].
  - rewrite run_none_gloop by exact Hx.
    destruct (gloop_beyond (ovf_of x) limit cs [] g0) as [s [_ [_ E]]]; [ln|ln|].
    rewrite E. destruct x; reflexivity.
Qed.

Theorem run_exact x limit cs b :
  fst (run x limit None (chunks cs)) = Ok b <-> b = concat cs /\ lenN b <= limit.
Proof.
  split.
  - intro H. destruct (lenN (concat cs) <=? limit) eqn:E.
    + rewrite run_within in H by lia. inversion H; subst. split; [reflexivity|lia].
    + pose proof (run_beyond x limit cs ltac:(lia)) as Ho. rewrite H in Ho. discriminate.
  - intros [-> H]. apply run_within. exact H.
Qed.

(* ---- whatever is declared and whatever the stream does: a success holds at most [limit] bytes *)
Theorem run_ok_bounded x limit d items b :
  fst (run x limit d items) = Ok b -> lenN b <= limit.
Proof.
  assert (Hnone : forall items b, fst (run x limit None items) = Ok b -> lenN b <= limit).
  { intros it b0. destruct (extractor_eq_fb x) as [->|Hx].
    - rewrite field_bytes_run. apply fb_ok_bounded. ln.
    - rewrite run_none_gloop by exact Hx. apply gloop_ok_bounded. ln. }
  destruct d as [n|]; [|apply Hnone].
  destruct (uses_declared x) eqn:Hu.
  - destruct (limit <? n) eqn:E.
    + destruct (run_declared_gt x limit n items Hu ltac:(lia)) as [Ho _].
      intro H. rewrite H in Ho. discriminate.
    + destruct (N.eq_dec n 0) as [->|Hn0].
      * destruct x; try (rewrite run_declared_le by (try lia; discriminate); apply Hnone).
        rewrite run_bodytbl_zero. cbn. intro H. inversion H; subst. ln.
      * rewrite run_declared_le by (try lia; intros _; exact Hn0). apply Hnone.
  - destruct x; try discriminate; apply Hnone.
Qed.

(* ---- memory: the buffer never exceeds the limit; buffer + incoming chunk never exceeds
        limit + largest chunk *)
Theorem run_memory x limit d items :
  g_pbuf (snd (run x limit d items)) <= limit /\
  g_pheld (snd (run x limit d items)) <= limit + max_chunk items.
Proof.
  assert (Hnone : g_pbuf (snd (run x limit None items)) <= limit /\
                  g_pheld (snd (run x limit None items)) <= limit + max_chunk items).
  { destruct (extractor_eq_fb x) as [->|Hx].
    - rewrite field_bytes_run. destruct (fb_ghost limit items false [] g0) as [H1 H2]; [ln|].
      cbn [g0 g_pbuf g_pheld] in H1, H2. lia.
    - rewrite run_none_gloop by exact Hx.
      destruct (gloop_ghost (ovf_of x) limit items [] g0) as [H1 H2]; [ln|].
      cbn [g0 g_pbuf g_pheld] in H1, H2. lia. }
  destruct d as [n|]; [|exact Hnone].
  destruct (uses_declared x) eqn:Hu.
  - destruct (limit <? n) eqn:E.
    + destruct (run_declared_gt x limit n items Hu ltac:(lia)) as [_ Hg]. rewrite Hg. cbn. lia.
    + destruct (N.eq_dec n 0) as [->|Hn0].
      * destruct x; try (rewrite run_declared_le by (try lia; discriminate); exact Hnone).
        rewrite run_bodytbl_zero. cbn. lia.
      * rewrite run_declared_le by (try lia; intros _; exact Hn0). exact Hnone.
  - destruct x; try discriminate; exact Hnone.
Qed.

(* ---- chunking irrelevance *)
Lemma gloop_irrelevant ovf limit cs1 cs2 g1 g2 :
  (forall s1 s2 l, erase_size (Err (ovf s1 l)) = erase_size (Err (ovf s2 l))) ->
  concat cs1 = concat cs2 ->
  erase_size (fst (gloop ovf limit [] (chunks cs1) g1)) = erase_size (fst (gloop ovf limit [] (chunks cs2) g2)).
Proof.
  intros Hovf Hc. destruct (lenN (concat cs1) <=? limit) eqn:E.
  - rewrite !gloop_within by (rewrite <- ?Hc; ln). rewrite Hc. reflexivity.
  - destruct (gloop_beyond ovf limit cs1 [] g1) as [s1 [_ [_ E1]]]; [ln|ln|].
    destruct (gloop_beyond ovf limit cs2 [] g2) as [s2 [_ [_ E2]]]; [ln|rewrite <- Hc; ln|].
    rewrite E1, E2. apply Hovf.
Qed.

Theorem run_chunking_irrelevant x limit d cs1 cs2 :
  concat cs1 = concat cs2 ->
  erase_size (fst (run x limit d (chunks cs1))) = erase_size (fst (run x limit d (chunks cs2))).
Proof.
  intro Hc.
  assert (Hnone : erase_size (fst (run x limit None (chunks cs1))) =
                  erase_size (fst (run x limit None (chunks cs2)))).
  { destruct (extractor_eq_fb x) as [->|Hx].
    - rewrite !field_bytes_run. destruct (lenN (concat cs1) <=? limit) eqn:E.
      + rewrite !fb_within by (rewrite <- ?Hc; ln). rewrite Hc. reflexivity.
      + rewrite !fb_beyond by (rewrite <- ?Hc; ln). reflexivity.
    - rewrite !run_none_gloop by exact Hx. apply gloop_irrelevant; [|exact Hc].
      intros s1 s2 l. destruct x; reflexivity. }
  destruct d as [n|]; [|exact Hnone].
  destruct (uses_declared x) eqn:Hu.
  - destruct (limit <? n) eqn:E.
    + destruct x; try discriminate; unfold run, bytes_extract, json_extract, form_extract,
        to_bytes_limited, hmb_poll, json_poll, ue_poll, hmb_set_limit, json_set_limit, ue_set_limit,
        hmb_new, json_new, ue_new; cbn [negb hmb_err hmb_length hmb_limit ue_err ue_length ue_limit];
        rewrite ?E; cbn [ue_err ue_length ue_limit]; rewrite ?E; reflexivity.
    + destruct (N.eq_dec n 0) as [->|Hn0].
      * destruct x; try (rewrite !run_declared_le by (try lia; discriminate); exact Hnone).
        rewrite !run_bodytbl_zero. reflexivity.
      * rewrite !run_declared_le by (try lia; intros _; exact Hn0). exact Hnone.
  - destruct x; try discriminate; exact Hnone.
Qed.

(* the size reported by UrlencodedError::Overflow does depend on the chunk boundaries *)
Lemma form_overflow_size_depends_on_chunking :
  exists limit cs1 cs2, concat cs1 = concat cs2 /\
    fst (run XForm limit None (chunks cs1)) <> fst (run XForm limit None (chunks cs2)).
Proof. exists 1, [[97; 98; 99]], [[97; 98]; [99]]. split; [reflexivity|]. vm_compute. discriminate. Qed.

(* ---- polling: stops at the crossing chunk; otherwise reads every chunk and the end *)
Theorem run_pulls_cross x limit pre c post : x <> XFieldBytes ->
  lenN (concat pre) <= limit -> limit < lenN (concat pre) + lenN c ->
  g_pulled (snd (run x limit None (chunks (pre ++ c :: post)))) = lenN pre + 1.
Proof.
  intros Hx H1 H2. rewrite run_none_gloop by exact Hx.
  rewrite gloop_pulls_cross; [cbn [g0 g_pulled]; ln|ln|ln].
Qed.

Theorem run_pulls_all x limit cs : lenN (concat cs) <= limit ->
  g_pulled (snd (run x limit None (chunks cs))) = lenN cs + 1.
Proof.
  intro H. destruct (extractor_eq_fb x) as [->|Hx].
  - rewrite field_bytes_run, fb_pulls. cbn [g0 g_pulled]. ln.
  - rewrite run_none_gloop by exact Hx. rewrite gloop_pulls_all; [cbn [g0 g_pulled]; ln|ln].
Qed.

Theorem field_bytes_drains limit cs :
  g_pulled (snd (field_bytes limit (chunks cs))) = lenN cs + 1.
Proof. unfold field_bytes. rewrite fb_pulls. cbn [g0 g_pulled]. ln. Qed.

(* ---- a stream error never becomes a success *)
Theorem run_stream_error x limit items b : In Fail items ->
  fst (run x limit None items) <> Ok b.
Proof.
  intro Hin. destruct (extractor_eq_fb x) as [->|Hx].
  - rewrite field_bytes_run. revert Hin. generalize (@nil N) at 1. generalize g0.
    induction items as [|[c|] r IH]; intros g buf Hin; cbn [field_bytes_loop].
    + destruct Hin.
    + destruct Hin as [Hin|Hin]; [discriminate|].
      destruct (limit <? lenN buf + lenN c); [apply fb_exceeded|apply IH; exact Hin].
    + cbn. discriminate.
  - rewrite run_none_gloop by exact Hx. apply gloop_fail. exact Hin.
Qed.

(* ---- the header-level rejections *)
Lemma bad_content_length_bytes dflt limit items :
  bytes_extract dflt limit CLBad items = (Err EUnknownLength, g0).
Proof. reflexivity. Qed.
Lemma bad_content_length_form limit items :
  form_extract limit true CLBad items = (Err EUnknownLength, g0).
Proof. reflexivity. Qed.
Lemma bad_content_length_json dflt limit items :
  json_extract dflt limit true CLBad items = json_extract dflt limit true CLAbsent items.
Proof. reflexivity. Qed.
Lemma wrong_content_type dflt limit cl items :
  json_extract dflt limit false cl items = (Err EContentType, g0) /\
  form_extract limit false cl items = (Err EContentType, g0).
Proof. split; reflexivity. Qed.

(* ================================================================ multipart form limits *)

Lemma checked_sub_some a b r : checked_sub a b = Some r <-> b <= a /\ r + b = a.
Proof. unfold checked_sub. destruct (b <=? a) eqn:E; split; intro H.
  - inversion H; subst. lia.
  - f_equal. lia.
  - discriminate.
  - lia.
Qed.
Lemma checked_sub_none a b : checked_sub a b = None <-> a < b.
Proof. unfold checked_sub. destruct (b <=? a) eqn:E; split; intro H; try discriminate; try lia; reflexivity. Qed.

(* the three counters go down by exactly the chunk length: no wrap-around *)
Lemma try_consume_some l n m l' : try_consume_limits l n m = Some l' ->
  total_rem l' + n = total_rem l /\
  memory_rem l' + (if m then n else 0) = memory_rem l /\
  match field_rem l with
  | Some f => exists f', field_rem l' = Some f' /\ f' + n = f
  | None => field_rem l' = None
  end.
Proof.
  unfold try_consume_limits. destruct (checked_sub (total_rem l) n) as [t|] eqn:Et; [|discriminate].
  apply checked_sub_some in Et.
  destruct m.
  - destruct (checked_sub (memory_rem l) n) as [me|] eqn:Em; [|discriminate].
    apply checked_sub_some in Em. destruct (field_rem l) as [f|].
    + destruct (checked_sub f n) as [f'|] eqn:Ef; [|discriminate]. apply checked_sub_some in Ef.
      intro H; inversion H; subst; cbn. repeat split; try lia. exists f'. split; [reflexivity|lia].
    + intro H; inversion H; subst; cbn. repeat split; lia.
  - destruct (field_rem l) as [f|].
    + destruct (checked_sub f n) as [f'|] eqn:Ef; [|discriminate]. apply checked_sub_some in Ef.
      intro H; inversion H; subst; cbn. repeat split; try lia. exists f'. split; [reflexivity|lia].
    + intro H; inversion H; subst; cbn. repeat split; lia.
Qed.

Lemma try_consume_none l n m : try_consume_limits l n m = None <->
  total_rem l < n \/ (m = true /\ memory_rem l < n) \/ (exists f, field_rem l = Some f /\ f < n).
Proof.
  unfold try_consume_limits.
  destruct (checked_sub (total_rem l) n) as [t|] eqn:Et.
  - apply checked_sub_some in Et. destruct m.
    + destruct (checked_sub (memory_rem l) n) as [me|] eqn:Em.
      * apply checked_sub_some in Em. destruct (field_rem l) as [f|].
        -- destruct (checked_sub f n) as [f'|] eqn:Ef.
           ++ apply checked_sub_some in Ef. split; [discriminate|].
              intros [H|[[_ H]|[f0 [H1 H2]]]]; try lia. inversion H1; subst. lia.
           ++ apply checked_sub_none in Ef. split; [|reflexivity]. intros _. right. right. exists f. split; [reflexivity|lia].
        -- split; [discriminate|]. intros [H|[[_ H]|[f0 [H1 H2]]]]; try lia. discriminate.
      * apply checked_sub_none in Em. split; [|reflexivity]. intros _. right. left. split; [reflexivity|lia].
    + destruct (field_rem l) as [f|].
      * destruct (checked_sub f n) as [f'|] eqn:Ef.
        -- apply checked_sub_some in Ef. split; [discriminate|].
           intros [H|[[H _]|[f0 [H1 H2]]]]; try lia; try discriminate. inversion H1; subst. lia.
        -- apply checked_sub_none in Ef. split; [|reflexivity]. intros _. right. right. exists f. split; [reflexivity|lia].
      * split; [discriminate|]. intros [H|[[H _]|[f0 [H1 H2]]]]; try lia; discriminate.
  - apply checked_sub_none in Et. split; [|reflexivity]. intros _. left. lia.
Qed.

Lemma limits_eq (a b : limits) :
  total_rem a = total_rem b -> memory_rem a = memory_rem b -> field_rem a = field_rem b -> a = b.
Proof. destruct a, b; cbn; intros; subst; reflexivity. Qed.

Lemma try_consume_zero l m : try_consume_limits l 0 m = Some l.
Proof.
  destruct (try_consume_limits l 0 m) as [l'|] eqn:E.
  - destruct (try_consume_some _ _ _ _ E) as [H1 [H2 H3]]. f_equal. apply limits_eq; try lia.
    + destruct m; lia.
    + destruct (field_rem l) as [f|]; [destruct H3 as [f' [Hf Hs]]; rewrite Hf; f_equal; lia|exact H3].
  - apply try_consume_none in E. destruct E as [H|[[_ H]|[f [_ H]]]]; lia.
Qed.

(* consuming a then b is consuming a + b *)
Lemma try_consume_add l a b m :
  try_consume_limits l (a + b) m =
  match try_consume_limits l a m with Some l1 => try_consume_limits l1 b m | None => None end.
Proof.
  destruct (try_consume_limits l a m) as [l1|] eqn:E1.
  - destruct (try_consume_some _ _ _ _ E1) as [A1 [A2 A3]].
    destruct (try_consume_limits l1 b m) as [l2|] eqn:E2.
    + destruct (try_consume_some _ _ _ _ E2) as [B1 [B2 B3]].
      destruct (try_consume_limits l (a + b) m) as [l3|] eqn:E3.
      * destruct (try_consume_some _ _ _ _ E3) as [C1 [C2 C3]]. f_equal. apply limits_eq; try lia.
        -- destruct m; lia.
        -- destruct (field_rem l) as [f|].
           ++ destruct A3 as [f1 [Hf1 Hs1]]. rewrite Hf1 in B3. destruct B3 as [f2 [Hf2 Hs2]].
              destruct C3 as [f3 [Hf3 Hs3]]. rewrite Hf2, Hf3. f_equal. lia.
           ++ rewrite A3 in B3. congruence.
      * exfalso. apply try_consume_none in E3. destruct E3 as [H|[[Hm H]|[f [Hf H]]]].
        -- lia.
        -- subst m. lia.
        -- rewrite Hf in A3. destruct A3 as [f1 [Hf1 Hs1]]. rewrite Hf1 in B3.
           destruct B3 as [f2 [Hf2 Hs2]]. lia.
    + apply try_consume_none in E2. apply try_consume_none.
      destruct E2 as [H|[[Hm H]|[f [Hf H]]]].
      * left. lia.
      * right. left. subst m. split; [reflexivity|lia].
      * right. right. destruct (field_rem l) as [f0|].
        -- destruct A3 as [f1 [Hf1 Hs1]]. rewrite Hf1 in Hf. injection Hf as Hff. exists f0. split; [reflexivity|lia].
        -- congruence.
  - apply try_consume_none in E1. apply try_consume_none.
    destruct E1 as [H|[[Hm H]|[f [Hf H]]]].
    + left. lia.
    + right. left. split; [exact Hm|lia].
    + right. right. exists f. split; [exact Hf|lia].
Qed.

Lemma data_of_chunks cs : data_of (chunks cs) = concat cs.
Proof. unfold data_of, chunks. rewrite map_map. f_equal. induction cs; cbn; congruence. Qed.

(* reading a field = one consumption of its total length, whatever the chunking *)
Lemma read_field_spec m cs : forall l buf,
  read_field m l buf (chunks cs) =
  match try_consume_limits l (lenN (concat cs)) m with
  | None => FOverflow
  | Some l' => FOk (if m then buf ++ concat cs else buf) l'
  end.
Proof.
  induction cs as [|c r IH]; intros l buf; cbn [chunks map read_field concat].
  - change (lenN (@nil N)) with 0. rewrite try_consume_zero. destruct m; [rewrite app_nil_r|]; reflexivity.
  - rewrite lenN_app, try_consume_add. destruct (try_consume_limits l (lenN c) m) as [l1|]; [|reflexivity].
    fold (chunks r). rewrite IH. destruct (try_consume_limits l1 (lenN (concat r)) m); [|reflexivity].
    destruct m; [rewrite app_assoc|]; reflexivity.
Qed.

(* for an arbitrary item stream: success means the whole data was charged once *)
Lemma read_field_ok m items : forall l buf d l',
  read_field m l buf items = FOk d l' ->
  try_consume_limits l (lenN (data_of items)) m = Some l' /\
  d = (if m then buf ++ data_of items else buf).
Proof.
  induction items as [|[c|] r IH]; intros l buf d l' H; cbn [read_field] in H.
  - inversion H; subst. change (data_of []) with (@nil N). change (lenN (@nil N)) with 0.
    rewrite try_consume_zero. split; [reflexivity|]. destruct m; [rewrite app_nil_r|]; reflexivity.
  - change (data_of (Data c :: r)) with (c ++ data_of r). rewrite lenN_app, try_consume_add.
    destruct (try_consume_limits l (lenN c) m) as [l1|]; [|discriminate].
    destruct (IH _ _ _ _ H) as [H1 H2]. split; [exact H1|]. rewrite H2.
    destruct m; [rewrite app_assoc|]; reflexivity.
  - discriminate.
Qed.

(* ---- the per-name remaining limits *)
Lemma lookup_update_same {A} k (v : A) m : lookup k (update k v m) = Some v.
Proof. induction m as [|[k' v'] r IH]; cbn [update lookup].
  - rewrite N.eqb_refl. reflexivity.
  - destruct (k =? k') eqn:E; cbn [lookup]; rewrite ?N.eqb_refl, ?E; [reflexivity|exact IH]. Qed.
Lemma lookup_update_other {A} k k0 (v : A) m : k0 <> k -> lookup k0 (update k v m) = lookup k0 m.
Proof. intro Hne. induction m as [|[k' v'] r IH]; cbn [update lookup].
  - destruct (k0 =? k) eqn:E; [lia|reflexivity].
  - destruct (k =? k') eqn:E; cbn [lookup].
    + assert (k = k') by lia. subst. destruct (k0 =? k') eqn:E2; [lia|reflexivity].
    + destruct (k0 =? k'); [reflexivity|exact IH]. Qed.

Definition rem_of (decl : N -> option N) (flimits : list (N * option N)) (n : N) : option N :=
  match lookup n flimits with Some e => e | None => decl n end.

Lemma sum_name_cons n f r :
  sum_name n (f :: r) = (if f_name f =? n then flen f else 0) + sum_name n r.
Proof. unfold sum_name. cbn [filter]. destruct (f_name f =? n); cbn [map sumN]; lia. Qed.

(* data kept by the loop, as a function of the field list alone *)
Fixpoint kept_spec (seen : list N) (fs : list field) : list (N * bytes) :=
  match fs with
  | [] => []
  | f :: r => if kept_in_memory seen f
              then (f_name f, data_of (f_items f)) :: kept_spec (f_name f :: seen) r
              else kept_spec seen r
  end.

Lemma sum_kept_app a b : sum_kept (a ++ b) = sum_kept a + sum_kept b.
Proof. unfold sum_kept. induction a; cbn [app map sumN]; lia. Qed.

Lemma sum_kept_spec fs : forall seen, sum_kept (kept_spec seen fs) = sum_memory seen fs.
Proof. induction fs as [|f r IH]; intro seen; cbn [kept_spec sum_memory]; [reflexivity|].
  destruct (kept_in_memory seen f); [|apply IH].
  unfold sum_kept in *. cbn [map sumN snd]. rewrite IH. reflexivity. Qed.

(* soundness of the whole loop *)
Lemma form_loop_sound decl fs : forall l flimits seen acc kept l',
  (forall f, In f fs -> f_limit f = decl (f_name f)) ->
  form_loop l flimits seen acc fs = FormOk kept l' ->
  total_rem l' + sum_all fs = total_rem l /\
  memory_rem l' + sum_memory seen fs = memory_rem l /\
  kept = acc ++ kept_spec seen fs /\
  (forall n r, rem_of decl flimits n = Some r -> sum_name n fs <= r).
Proof.
  induction fs as [|f r IH]; intros l flimits seen acc kept l' Hdecl H; cbn [form_loop] in H.
  - inversion H; subst. unfold sum_all. cbn [map sumN sum_memory kept_spec]. rewrite app_nil_r.
    repeat split; try lia. intros n r0 _. unfold sum_name. cbn. lia.
  - fold (kept_in_memory seen f) in H.
    assert (Hentry : match lookup (f_name f) flimits with Some e => e | None => f_limit f end
                     = rem_of decl flimits (f_name f)).
    { unfold rem_of. destruct (lookup (f_name f) flimits); [reflexivity|]. apply Hdecl. left. reflexivity. }
    rewrite Hentry in H.
    destruct (read_field (kept_in_memory seen f)
                {| total_rem := total_rem l; memory_rem := memory_rem l;
                   field_rem := rem_of decl flimits (f_name f) |} [] (f_items f)) as [d l2| |] eqn:ER;
      try discriminate.
    destruct (read_field_ok _ _ _ _ _ _ ER) as [EC Ed].
    destruct (try_consume_some _ _ _ _ EC) as [C1 [C2 C3]]. cbn [total_rem memory_rem field_rem] in C1, C2, C3.
    destruct (IH _ _ _ _ _ _ (fun f0 Hin => Hdecl f0 (or_intror Hin)) H) as [I1 [I2 [I3 I4]]].
    fold (flen f) in C1, C2, C3.
    unfold sum_all in *. cbn [map sumN sum_memory kept_spec].
    destruct (kept_in_memory seen f) eqn:EK.
    + repeat split; try lia.
      * rewrite I3, Ed. cbn [app]. rewrite <- app_assoc. reflexivity.
      * intros n r0 Hr. rewrite sum_name_cons. destruct (f_name f =? n) eqn:En.
        -- assert (f_name f = n) by lia. subst n. rewrite Hr in C3. destruct C3 as [f' [Hf' Hs]].
           specialize (I4 (f_name f) f'). unfold rem_of in I4. rewrite lookup_update_same in I4.
           specialize (I4 Hf'). lia.
        -- specialize (I4 n r0). unfold rem_of in I4, Hr. rewrite lookup_update_other in I4 by lia.
           specialize (I4 Hr). lia.
    + repeat split; try lia.
      * exact I3.
      * intros n r0 Hr. rewrite sum_name_cons. destruct (f_name f =? n) eqn:En.
        -- assert (f_name f = n) by lia. subst n. rewrite Hr in C3. destruct C3 as [f' [Hf' Hs]].
           specialize (I4 (f_name f) f'). unfold rem_of in I4. rewrite lookup_update_same in I4.
           specialize (I4 Hf'). lia.
        -- specialize (I4 n r0). unfold rem_of in I4, Hr. rewrite lookup_update_other in I4 by lia.
           specialize (I4 Hr). lia.
Qed.

Theorem form_collect_sound decl total memory fs kept l' :
  (forall f, In f fs -> f_limit f = decl (f_name f)) ->
  form_collect total memory fs = FormOk kept l' ->
  sum_all fs <= total /\ total_rem l' + sum_all fs = total /\
  sum_memory [] fs <= memory /\ sum_kept kept = sum_memory [] fs /\
  kept = kept_spec [] fs /\
  (forall n lim, decl n = Some lim -> sum_name n fs <= lim).
Proof.
  intros Hdecl H. unfold form_collect in H.
  destruct (form_loop_sound decl fs _ _ _ _ _ _ Hdecl H) as [I1 [I2 [I3 I4]]].
  cbn [limits_new total_rem memory_rem] in I1, I2. cbn [app] in I3.
  repeat split; try lia.
  - rewrite I3. apply sum_kept_spec.
  - exact I3.
  - intros n lim Hn. apply I4. unfold rem_of. cbn [lookup]. exact Hn.
Qed.

(* ---- completeness: a form within all its limits is accepted *)
Definition data_only (fs : list field) : Prop := forall f, In f fs -> exists cs, f_items f = chunks cs.

Lemma flen_chunks f cs : f_items f = chunks cs -> flen f = lenN (concat cs).
Proof. intro H. unfold flen. rewrite H, data_of_chunks. reflexivity. Qed.

Lemma form_loop_complete decl fs : forall l flimits seen acc,
  (forall f, In f fs -> f_limit f = decl (f_name f)) -> data_only fs ->
  sum_all fs <= total_rem l -> sum_memory seen fs <= memory_rem l ->
  (forall n r, rem_of decl flimits n = Some r -> sum_name n fs <= r) ->
  exists kept l', form_loop l flimits seen acc fs = FormOk kept l'.
Proof.
  induction fs as [|f r IH]; intros l flimits seen acc Hdecl Hdata Ht Hm Hn; cbn [form_loop].
  - eexists. eexists. reflexivity.
  - fold (kept_in_memory seen f).
    assert (Hentry : match lookup (f_name f) flimits with Some e => e | None => f_limit f end
                     = rem_of decl flimits (f_name f)).
    { unfold rem_of. destruct (lookup (f_name f) flimits); [reflexivity|]. apply Hdecl. left. reflexivity. }
    rewrite Hentry. destruct (Hdata f (or_introl eq_refl)) as [cs Hcs]. rewrite Hcs, read_field_spec.
    rewrite <- (flen_chunks f cs Hcs).
    unfold sum_all in Ht. cbn [map sumN] in Ht. cbn [sum_memory] in Hm.
    pose proof (Hn (f_name f)) as Hnf. rewrite sum_name_cons, N.eqb_refl in Hnf.
    destruct (try_consume_limits _ (flen f) (kept_in_memory seen f)) as [l2|] eqn:EC.
    + destruct (try_consume_some _ _ _ _ EC) as [C1 [C2 C3]]. cbn [total_rem memory_rem field_rem] in C1, C2, C3.
      apply IH.
      * intros f0 Hin. apply Hdecl. right. exact Hin.
      * intros f0 Hin. apply Hdata. right. exact Hin.
      * unfold sum_all. lia.
      * destruct (kept_in_memory seen f); lia.
      * intros n r0 Hr. unfold rem_of in Hr. destruct (N.eq_dec n (f_name f)) as [->|Hne].
        -- rewrite lookup_update_same in Hr. destruct (rem_of decl flimits (f_name f)) as [e|] eqn:Ee.
           ++ destruct C3 as [f' [Hf' Hs]]. rewrite Hf' in Hr. injection Hr as <-.
              specialize (Hnf e eq_refl). lia.
           ++ congruence.
        -- rewrite lookup_update_other in Hr by exact Hne.
           specialize (Hn n r0 Hr). rewrite sum_name_cons in Hn.
           destruct (f_name f =? n) eqn:En; [lia|]. lia.
    + exfalso. apply try_consume_none in EC. cbn [total_rem memory_rem field_rem] in EC.
      destruct EC as [H|[[Hk H]|[e [He H]]]].
      * lia.
      * rewrite Hk in Hm. lia.
      * specialize (Hnf e He). lia.
Qed.

(* an error-free multipart stream never produces the stream error *)
Lemma form_loop_no_stream fs : forall l flimits seen acc, data_only fs ->
  form_loop l flimits seen acc fs <> FormStream.
Proof.
  induction fs as [|f r IH]; intros l flimits seen acc Hdata; cbn [form_loop]; [discriminate|].
  destruct (Hdata f (or_introl eq_refl)) as [cs Hcs]. rewrite Hcs, read_field_spec.
  destruct (try_consume_limits _ _ _); [|discriminate].
  apply IH. intros f0 Hin. apply Hdata. right. exact Hin.
Qed.

Definition form_within (decl : N -> option N) (total memory : N) (fs : list field) : Prop :=
  sum_all fs <= total /\ sum_memory [] fs <= memory /\
  forall n lim, decl n = Some lim -> sum_name n fs <= lim.

Theorem form_collect_exact decl total memory fs :
  (forall f, In f fs -> f_limit f = decl (f_name f)) -> data_only fs ->
  ((exists l', form_collect total memory fs = FormOk (kept_spec [] fs) l') <-> form_within decl total memory fs) /\
  (~ form_within decl total memory fs -> form_collect total memory fs = FormOverflow).
Proof.
  intros Hdecl Hdata.
  assert (Hiff : (exists l', form_collect total memory fs = FormOk (kept_spec [] fs) l') <->
                 form_within decl total memory fs).
  { split.
    - intros [l' H]. destruct (form_collect_sound decl _ _ _ _ _ Hdecl H) as [H1 [_ [H3 [_ [_ H6]]]]].
      repeat split; assumption.
    - intros [H1 [H2 H3]].
      destruct (form_loop_complete decl fs (limits_new total memory) [] [] [] Hdecl Hdata) as [kept [l' E]];
        try assumption.
      exists l'. unfold form_collect. rewrite E.
        destruct (form_collect_sound decl _ _ _ _ _ Hdecl E) as [_ [_ [_ [_ [Hk _]]]]]. rewrite Hk. reflexivity. }
  split; [exact Hiff|].
  intro Hn. destruct (form_collect total memory fs) as [kept l'| |] eqn:E.
  - exfalso. apply Hn. apply Hiff. exists l'.
    destruct (form_collect_sound decl _ _ _ _ _ Hdecl E) as [_ [_ [_ [_ [Hk _]]]]]. rewrite Hk. reflexivity.
  - reflexivity.
  - exfalso. exact (form_loop_no_stream fs _ _ _ _ Hdata E).
Qed.

(* ---- chunking irrelevance for forms *)
Definition same_field (f1 f2 : field) : Prop :=
  f_name f1 = f_name f2 /\ f_kind f1 = f_kind f2 /\ f_limit f1 = f_limit f2 /\
  exists cs1 cs2, f_items f1 = chunks cs1 /\ f_items f2 = chunks cs2 /\ concat cs1 = concat cs2.

Lemma form_loop_chunking fs1 fs2 : Forall2 same_field fs1 fs2 ->
  forall l flimits seen acc, form_loop l flimits seen acc fs1 = form_loop l flimits seen acc fs2.
Proof.
  induction 1 as [|f1 f2 r1 r2 [Hn [Hk [Hl [cs1 [cs2 [H1 [H2 Hc]]]]]]] _ IH]; intros; cbn [form_loop]; [reflexivity|].
  rewrite Hn, Hk, Hl, H1, H2, !read_field_spec, Hc.
  destruct (try_consume_limits _ _ _); [apply IH|reflexivity].
Qed.

Theorem form_collect_chunking total memory fs1 fs2 : Forall2 same_field fs1 fs2 ->
  form_collect total memory fs1 = form_collect total memory fs2.
Proof. intro H. apply form_loop_chunking. exact H. Qed.

(* ---- behind Decompress: the extractor sees the decoder's outputs *)
Fixpoint somes (outs : list (option bytes)) : list bytes :=
  match outs with [] => [] | Some c :: r => c :: somes r | None :: r => somes r end.

Lemma decoded_items_outs outs :
  decoded_items (map (fun o => match o with Some c => WOut c | None => WSkip end) outs) = chunks (somes outs).
Proof. induction outs as [|[c|] r IH]; cbn [map decoded_items somes chunks]; [reflexivity| |exact IH].
  f_equal. exact IH. Qed.

Lemma concat_somes outs :
  concat (somes outs) = concat (map (fun o => match o with Some c => c | None => [] end) outs).
Proof. induction outs as [|[c|] r IH]; cbn [map concat somes app]; [reflexivity| |exact IH].
  f_equal. exact IH. Qed.

Theorem run_decoded_exact x limit (outs : list (option bytes)) (tail : option bytes) b :
  let w := {| w_items := map (fun o => match o with Some c => WOut c | None => WSkip end) outs;
              w_tail := option_map Data tail |} in
  let delivered := concat (map (fun o => match o with Some c => c | None => [] end) outs)
                   ++ match tail with Some c => c | None => [] end in
  fst (run x limit None (decoded w)) = Ok b <-> b = delivered /\ lenN b <= limit.
Proof.
  cbv zeta. unfold decoded. cbn [w_items w_tail]. rewrite decoded_items_outs, <- concat_somes.
  destruct tail as [c|]; cbn [option_map].
  - replace (chunks (somes outs) ++ [Data c]) with (chunks (somes outs ++ [c]))
      by (unfold chunks; rewrite map_app; reflexivity).
    rewrite run_exact, concat_app. cbn [concat]. rewrite app_nil_r. reflexivity.
  - rewrite !app_nil_r. apply run_exact.
Qed.
