(* C12 model — the buffering body extractors, one small fold per extractor, transcribed
   separately from

     actix-web/src/types/payload.rs     HttpMessageBody::{new,limit,poll}  (web::Bytes, String)
     actix-web/src/types/json.rs        JsonBody::{new,limit,poll}         (web::Json)
     actix-web/src/types/form.rs        UrlEncoded::{new,limit,poll}       (web::Form)
     actix-http/src/body/utils.rs       to_bytes_limited                   (also web::Payload::to_bytes_limited)
     actix-multipart/src/field.rs       Field::bytes
     actix-multipart/src/form/mod.rs    Limits::try_consume_limits, discard_field, the field loop
     actix-multipart/src/form/bytes.rs  Bytes::read_field                  (Text and Json readers call it)

   The stream an extractor reads is the payload AFTER `Decompress` (`Decoder::from_headers`
   wraps the payload before the limit is applied), i.e. a list of already decoded chunks; the
   decoder itself is the state machine of C13 (Web/ContentCoding.v).  [wire_pulls] below maps
   "how many decoded items the extractor consumed" back to "how many wire chunks were pulled".

   Ghost state: every fold threads a [ghost] record (number of stream polls that returned Ready,
   largest buffer, largest buffer + incoming chunk).  It has no counterpart in the Rust structs;
   it only records what the loop held, so that the memory bound is a statement about the fold
   itself.  No proofs in this file. *)
From AV Require Import Lib.Base.

(* ---------------------------------------------------------------- streams and results *)

(* one Ready(Some(..)) item of the (decoded) payload stream *)
Inductive sitem := Data (c : bytes) | Fail.
Definition stream := list sitem.          (* the end of the list is Ready(None) *)

(* error classes; the Rust variant each one stands for is named at its use *)
Inductive xerr :=
| EOverflow                         (* streaming overflow *)
| EOverflowAt (size limit : N)      (* UrlencodedError::Overflow { size, limit } *)
| EOverflowKnown (len limit : N)    (* JsonPayloadError::OverflowKnownLength { length, limit } *)
| EUnknownLength
| EContentType
| EStream.                          (* the payload stream yielded Err (propagated by `?`) *)

Inductive res := Ok (b : bytes) | Err (e : xerr).

Record ghost := { g_pulled : N; g_pbuf : N; g_pheld : N }.
Definition g0 : ghost := {| g_pulled := 0; g_pbuf := 0; g_pheld := 0 |}.
(* the stream was polled and answered Ready *)
Definition g_pull (g : ghost) : ghost :=
  {| g_pulled := g_pulled g + 1; g_pbuf := g_pbuf g; g_pheld := g_pheld g |}.
(* a chunk [c] is alive next to the buffer [buf] *)
Definition g_see (g : ghost) (buf c : bytes) : ghost :=
  {| g_pulled := g_pulled g; g_pbuf := g_pbuf g; g_pheld := N.max (g_pheld g) (lenN buf + lenN c) |}.
(* the buffer became [buf] *)
Definition g_buf (g : ghost) (buf : bytes) : ghost :=
  {| g_pulled := g_pulled g; g_pbuf := N.max (g_pbuf g) (lenN buf); g_pheld := g_pheld g |}.

(* Content-Length header as the extractors see it: absent; present but not a usize
   (to_str / parse::<usize> fails); a number *)
Inductive clen := CLAbsent | CLBad | CLNum (n : N).

(* ---------------------------------------------------------------- HttpMessageBody (Bytes, String) *)

Record hmb := { hmb_limit : N; hmb_length : option N; hmb_err : option xerr }.

(* HttpMessageBody::new: Content-Length is checked against DEFAULT_CONFIG_LIMIT first *)
Definition hmb_new (dflt : N) (cl : clen) : hmb :=
  match cl with
  | CLAbsent => {| hmb_limit := dflt; hmb_length := None; hmb_err := None |}
  | CLNum l => {| hmb_limit := dflt; hmb_length := Some l;
                  hmb_err := if dflt <? l then Some EOverflow else None |}
  | CLBad => {| hmb_limit := dflt; hmb_length := None; hmb_err := Some EUnknownLength |}
  end.

(* HttpMessageBody::limit: a known length re-decides the error (in both directions) *)
Definition hmb_set_limit (limit : N) (s : hmb) : hmb :=
  {| hmb_limit := limit; hmb_length := hmb_length s;
     hmb_err := match hmb_length s with
                | Some l => if limit <? l then Some EOverflow else None
                | None => hmb_err s
                end |}.

(* the loop of HttpMessageBody::poll: `if buf.len() + chunk.len() > limit` *)
Fixpoint hmb_loop (limit : N) (buf : bytes) (items : stream) (g : ghost) : res * ghost :=
  match items with
  | [] => (Ok buf, g_pull g)
  | Fail :: _ => (Err EStream, g_pull g)
  | Data c :: r =>
      let g := g_see (g_pull g) buf c in
      if limit <? lenN buf + lenN c then (Err EOverflow, g)
      else hmb_loop limit (buf ++ c) r (g_buf g (buf ++ c))
  end.

Definition hmb_poll (s : hmb) (items : stream) : res * ghost :=
  match hmb_err s with
  | Some e => (Err e, g0)
  | None => hmb_loop (hmb_limit s) [] items g0
  end.

(* <Bytes as FromRequest>::from_request with PayloadConfig { limit } (mimetype: None);
   String::from_request is the same future followed by the charset decoding of the result *)
Definition bytes_extract (dflt cfg_limit : N) (cl : clen) (items : stream) : res * ghost :=
  hmb_poll (hmb_set_limit cfg_limit (hmb_new dflt cl)) items.

(* ---------------------------------------------------------------- JsonBody (Json) *)

Inductive jsonbody := JError (e : xerr) | JBody (limit : N) (length : option N).

(* JsonBody::new: an unparsable Content-Length is ignored (`ContentLength::parse(req).ok()`) *)
Definition json_new (dflt : N) (ctype_ok : bool) (cl : clen) : jsonbody :=
  if negb ctype_ok then JError EContentType
  else JBody dflt (match cl with CLNum l => Some l | _ => None end).

Definition json_set_limit (limit : N) (j : jsonbody) : jsonbody :=
  match j with
  | JBody _ length =>
      match length with
      | Some len => if limit <? len then JError (EOverflowKnown len limit) else JBody limit length
      | None => JBody limit length
      end
  | JError e => JError e
  end.

Fixpoint json_loop (limit : N) (buf : bytes) (items : stream) (g : ghost) : res * ghost :=
  match items with
  | [] => (Ok buf, g_pull g)            (* then serde_json::from_slice(buf) *)
  | Fail :: _ => (Err EStream, g_pull g)
  | Data c :: r =>
      let g := g_see (g_pull g) buf c in
      let buf_len := lenN buf + lenN c in
      if limit <? buf_len then (Err EOverflow, g)
      else json_loop limit (buf ++ c) r (g_buf g (buf ++ c))
  end.

Definition json_poll (j : jsonbody) (items : stream) : res * ghost :=
  match j with
  | JBody limit _ => json_loop limit [] items g0
  | JError e => (Err e, g0)
  end.

Definition json_extract (dflt cfg_limit : N) (ctype_ok : bool) (cl : clen) (items : stream) : res * ghost :=
  json_poll (json_set_limit cfg_limit (json_new dflt ctype_ok cl)) items.

(* ---------------------------------------------------------------- UrlEncoded (Form) *)

Record urlenc := { ue_limit : N; ue_length : option N; ue_err : option xerr }.

(* UrlEncoded::new: a Content-Length that is not a usize is an error; the limit passed to
   ::new (32_768) is always overwritten by .limit(cfg) before the first poll *)
Definition ue_new (ctype_ok : bool) (cl : clen) : urlenc :=
  if negb ctype_ok then {| ue_limit := 32768; ue_length := None; ue_err := Some EContentType |}
  else match cl with
       | CLAbsent => {| ue_limit := 32768; ue_length := None; ue_err := None |}
       | CLNum l => {| ue_limit := 32768; ue_length := Some l; ue_err := None |}
       | CLBad => {| ue_limit := 32768; ue_length := None; ue_err := Some EUnknownLength |}
       end.
Definition ue_set_limit (limit : N) (u : urlenc) : urlenc :=
  {| ue_limit := limit; ue_length := ue_length u; ue_err := ue_err u |}.

Fixpoint ue_loop (limit : N) (body : bytes) (items : stream) (g : ghost) : res * ghost :=
  match items with
  | [] => (Ok body, g_pull g)           (* then serde_urlencoded::from_bytes(body) *)
  | Fail :: _ => (Err EStream, g_pull g)
  | Data c :: r =>
      let g := g_see (g_pull g) body c in
      if limit <? lenN body + lenN c then (Err (EOverflowAt (lenN body + lenN c) limit), g)
      else ue_loop limit (body ++ c) r (g_buf g (body ++ c))
  end.

(* UrlEncoded::poll: err first, then the declared length, then the streaming future *)
Definition ue_poll (u : urlenc) (items : stream) : res * ghost :=
  match ue_err u with
  | Some e => (Err e, g0)
  | None =>
      let limit := ue_limit u in
      match ue_length u with
      | Some len => if limit <? len then (Err (EOverflowAt len limit), g0)
                    else ue_loop limit [] items g0
      | None => ue_loop limit [] items g0
      end
  end.

Definition form_extract (cfg_limit : N) (ctype_ok : bool) (cl : clen) (items : stream) : res * ghost :=
  ue_poll (ue_set_limit cfg_limit (ue_new ctype_ok cl)) items.

(* ---------------------------------------------------------------- body::to_bytes_limited *)

Inductive bsize := SzNone | SzSized (n : N) | SzStream.

Fixpoint tbl_loop (limit : N) (buf : bytes) (items : stream) (g : ghost) : res * ghost :=
  match items with
  | [] => (Ok buf, g_pull g)
  | Fail :: _ => (Err EStream, g_pull g)
  | Data c :: r =>
      let g := g_see (g_pull g) buf c in
      if limit <? lenN buf + lenN c then (Err EOverflow, g)        (* exceeded_limit = true *)
      else tbl_loop limit (buf ++ c) r (g_buf g (buf ++ c))
  end.

(* `match body.size()`: None | Sized(0) => empty without polling; Sized(n) > limit => error
   without polling; otherwise the loop.  Err EOverflow = BodyLimitExceeded *)
Definition to_bytes_limited (size : bsize) (limit : N) (items : stream) : res * ghost :=
  match size with
  | SzNone => (Ok [], g0)
  | SzSized n => if n =? 0 then (Ok [], g0)
                 else if limit <? n then (Err EOverflow, g0)
                 else tbl_loop limit [] items g0
  | SzStream => tbl_loop limit [] items g0
  end.

(* web::Payload::to_bytes_limited: BodyStream::new(payload) has size Stream *)
Definition payload_to_bytes_limited (limit : N) (items : stream) : res * ghost :=
  to_bytes_limited SzStream limit items.

(* ---------------------------------------------------------------- multipart Field::bytes *)

(* differs from the others: after the limit is exceeded the buffer is dropped and the field is
   drained to its end ("so that subsequent fields can still be read") *)
Fixpoint field_bytes_loop (limit : N) (exceeded : bool) (buf : bytes) (items : stream) (g : ghost)
  : res * ghost :=
  match items with
  | [] => (if exceeded then Err EOverflow else Ok buf, g_pull g)     (* LimitExceeded *)
  | Fail :: _ => (Err EStream, g_pull g)
  | Data c :: r =>
      let g := g_pull g in
      if exceeded then field_bytes_loop limit true buf r (g_see g buf c)
      else if limit <? lenN buf + lenN c
           then field_bytes_loop limit true [] r (g_buf (g_see g buf c) [])   (* mem::take(&mut buf) *)
           else field_bytes_loop limit false (buf ++ c) r (g_buf (g_see g buf c) (buf ++ c))
  end.
Definition field_bytes (limit : N) (items : stream) : res * ghost :=
  field_bytes_loop limit false [] items g0.

(* ---------------------------------------------------------------- MultipartForm limits *)

Record limits := { total_rem : N; memory_rem : N; field_rem : option N }.
Definition limits_new (total memory : N) : limits :=
  {| total_rem := total; memory_rem := memory; field_rem := None |}.

(* usize::checked_sub *)
Definition checked_sub (a b : N) : option N := if b <=? a then Some (a - b) else None.

(* Limits::try_consume_limits; None = Err(MultipartError::Payload(PayloadError::Overflow)) *)
Definition try_consume_limits (l : limits) (nbytes : N) (in_memory : bool) : option limits :=
  match checked_sub (total_rem l) nbytes with
  | None => None
  | Some t =>
      match (if in_memory then checked_sub (memory_rem l) nbytes else Some (memory_rem l)) with
      | None => None
      | Some m =>
          match field_rem l with
          | None => Some {| total_rem := t; memory_rem := m; field_rem := None |}
          | Some fl =>
              match checked_sub fl nbytes with
              | None => None
              | Some f => Some {| total_rem := t; memory_rem := m; field_rem := Some f |}
              end
          end
      end
  end.

(* Bytes::read_field (in_memory = true: the chunk is appended to [buf]) and discard_field
   (in_memory = false: nothing is kept) in one loop; None = overflow / stream error *)
Inductive fres := FOk (data : bytes) (l : limits) | FOverflow | FStream.
Fixpoint read_field (in_memory : bool) (l : limits) (buf : bytes) (items : stream) : fres :=
  match items with
  | [] => FOk buf l
  | Fail :: _ => FStream
  | Data c :: r =>
      match try_consume_limits l (lenN c) in_memory with
      | None => FOverflow
      | Some l' => read_field in_memory l' (if in_memory then buf ++ c else buf) r
      end
  end.

(* how the derived `handle_field` treats a field of the form *)
Inductive fkind :=
| KSingle      (* `T` / `Option<T>` member: first occurrence read into memory, later ones discarded
                  (DuplicateField::Ignore, the derive default) *)
| KVec         (* `Vec<T>` member: every occurrence read into memory *)
| KUnknown.    (* no such member: discard_field *)

Record field := { f_name : N; f_kind : fkind; f_limit : option N (* T::limit(name) *);
                  f_items : stream }.

Fixpoint lookup {A} (k : N) (m : list (N * A)) : option A :=
  match m with [] => None | (k', v) :: r => if k =? k' then Some v else lookup k r end.
Fixpoint update {A} (k : N) (v : A) (m : list (N * A)) : list (N * A) :=
  match m with
  | [] => [(k, v)]
  | (k', v') :: r => if k =? k' then (k, v) :: r else (k', v') :: update k v r
  end.

Inductive formres := FormOk (fields : list (N * bytes)) (l : limits) | FormOverflow | FormStream.

(* the `while let Some(field) = multipart.try_next()` loop of MultipartForm::from_request:
   [flimits] is the `field_limits` map (per-name remaining limit, shared by all fields of that
   name), [seen] the names present in `state`, [acc] the data kept so far (oldest first) *)
Fixpoint form_loop (l : limits) (flimits : list (N * option N)) (seen : list N)
         (acc : list (N * bytes)) (fs : list field) : formres :=
  match fs with
  | [] => FormOk acc l
  | f :: r =>
      let entry := match lookup (f_name f) flimits with Some e => e | None => f_limit f end in
      let l1 := {| total_rem := total_rem l; memory_rem := memory_rem l; field_rem := entry |} in
      let in_memory := match f_kind f with
                       | KSingle => negb (existsb (N.eqb (f_name f)) seen)
                       | KVec => true
                       | KUnknown => false
                       end in
      match read_field in_memory l1 [] (f_items f) with
      | FOverflow => FormOverflow
      | FStream => FormStream
      | FOk data l2 =>
          form_loop l2 (update (f_name f) (field_rem l2) flimits)
                    (if in_memory then f_name f :: seen else seen)
                    (if in_memory then acc ++ [(f_name f, data)] else acc) r
      end
  end.

Definition form_collect (total memory : N) (fs : list field) : formres :=
  form_loop (limits_new total memory) [] [] [] fs.

(* ---------------------------------------------------------------- Decompress, seen from the wire *)

(* What `Decoder::poll_next` made of each wire chunk it pulled (the machine itself: C13):
   WOut c  = the chunk produced the decoded chunk c (identity: c is the chunk itself)
   WSkip   = the decoder swallowed the chunk and produced nothing (polls the wire again)
   WFail   = feed_data / the wire returned an error
   and [w_tail] is what `feed_eof` returned after the wire's None. *)
Inductive witem := WOut (c : bytes) | WSkip | WFail.
Record wire := { w_items : list witem; w_tail : option sitem }.

Fixpoint decoded_items (ws : list witem) : stream :=
  match ws with
  | [] => []
  | WOut c :: r => Data c :: decoded_items r
  | WSkip :: r => decoded_items r
  | WFail :: r => Fail :: decoded_items r
  end.
Definition decoded (w : wire) : stream :=
  decoded_items (w_items w) ++ match w_tail w with Some i => [i] | None => [] end.

(* wire polls (each wire item, and the final None, is one) needed before the decoder has
   answered the extractor [k] times *)
Fixpoint wire_pulls (ws : list witem) (k : N) (acc : N) : N :=
  if k =? 0 then acc else
  match ws with
  | [] => acc + 1                      (* the wire's None; the tail and the end cost no further poll *)
  | WSkip :: r => wire_pulls r k (acc + 1)
  | _ :: r => wire_pulls r (k - 1) (acc + 1)
  end.
