(* C13 specification of negotiation: which codings a parsed Accept-Encoding header permits
   (RFC 7231 section 5.3.4). *)
From AV Require Import Lib.Base Web.Negotiate.

(* A coding is permitted by a non-empty header when
     - it is listed with a non-zero quality (rule 3), or
     - it is not listed, and "*" is listed with a non-zero quality, or
     - it is not listed, "*" is not listed, and it is identity (rule 2: identity is acceptable
       unless excluded by "identity;q=0" or by "*;q=0" without a more specific entry).
   With duplicate entries the most favourable one counts.  An empty header value means that no
   content-coding is wanted: only identity. *)
Definition permitted (h : list qitem) (e : coding) : Prop :=
  match h with
  | [] => e = Identity
  | _ =>
      (exists q, In (PSpec e, q) h /\ 0 < q) \/
      ((forall q, ~ In (PSpec e, q) h) /\
       ((exists q, In (PAny, q) h /\ 0 < q) \/
        ((forall q, ~ In (PAny, q) h) /\ e = Identity)))
  end.

(* the class of headers on which the code before the repair of F4 could answer wrongly *)
Definition Known_F4 (h : list qitem) : Prop :=
  In (PSpec Identity, 0) h /\ exists q, In (PAny, q) h /\ 0 < q.
