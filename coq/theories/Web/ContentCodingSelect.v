(* C13 model, part 3 — how a request's Content-Encoding header selects the request decoder:
     actix-http/src/header/shared/content_encoding.rs   impl FromStr for ContentEncoding
     actix-http/src/encoding/decoder.rs                 Decoder::from_headers, Decoder::new
   Header values are byte strings.  `HeaderValue::to_str` succeeds only for visible ASCII and tab,
   so `str::trim` (which strips Unicode White_Space) only ever meets ASCII here; [is_ws] is
   `char::is_whitespace` restricted to ASCII.  No proofs here. *)
From AV Require Import Lib.Base Web.Negotiate.
Open Scope N_scope.

(* char::is_whitespace on ASCII: \t \n \x0b \x0c \r and space *)
Definition is_ws (b : N) : bool := (b =? 9) || (b =? 10) || (b =? 11) || (b =? 12) || (b =? 13) || (b =? 32).
Fixpoint trim_start (s : bytes) : bytes :=
  match s with
  | b :: r => if is_ws b then trim_start r else s
  | [] => []
  end.
(* str::trim *)
Definition trim (s : bytes) : bytes := rev (trim_start (rev (trim_start s))).

(* u8::to_ascii_lowercase, str::eq_ignore_ascii_case *)
Definition to_lower (b : N) : N := if (65 <=? b) && (b <=? 90) then b + 32 else b.
Fixpoint eq_ignore_ascii_case (a b : bytes) : bool :=
  match a, b with
  | [], [] => true
  | x :: a', y :: b' => (to_lower x =? to_lower y) && eq_ignore_ascii_case a' b'
  | _, _ => false
  end.

(* impl FromStr for ContentEncoding: None = Err(ContentEncodingParseError) *)
Definition content_encoding_from_str (enc : bytes) : option coding :=
  let enc := trim enc in
  if eq_ignore_ascii_case enc [98; 114] (* "br" *) then Some Brotli
  else if eq_ignore_ascii_case enc [103; 122; 105; 112] (* "gzip" *) then Some Gzip
  else if eq_ignore_ascii_case enc [100; 101; 102; 108; 97; 116; 101] (* "deflate" *) then Some Deflate
  else if eq_ignore_ascii_case enc [105; 100; 101; 110; 116; 105; 116; 121] (* "identity" *) then Some Identity
  else if eq_ignore_ascii_case enc [122; 115; 116; 100] (* "zstd" *) then Some Zstd
  else None.

(* HeaderValue::to_str: every byte is visible ASCII (32..=126) or tab *)
Definition to_str_ok (v : bytes) : bool := forallb (fun b => (b =? 9) || ((32 <=? b) && (b <? 127))) v.

(* Decoder::from_headers: [vals] = the values of the request's Content-Encoding fields in order
   (`HeaderMap::get` returns the first):
     headers.get(&CONTENT_ENCODING).and_then(|val| val.to_str().ok()).and_then(|x| x.parse().ok())
            .unwrap_or(ContentEncoding::Identity) *)
Definition decoder_from_headers (vals : list bytes) : coding :=
  match vals with
  | [] => Identity
  | v :: _ =>
      if to_str_ok v then
        match content_encoding_from_str v with Some c => c | None => Identity end
      else Identity
  end.

(* Decoder::new (all codec features enabled): the variants that get a ContentDecoder *)
Definition decoder_new_has (c : coding) : bool :=
  match c with Brotli | Deflate | Gzip | Zstd => true | _ => false end.
