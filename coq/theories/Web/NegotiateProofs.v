(* C13 proofs, part 2: negotiation is sound w.r.t. RFC 7231 section 5.3.4; the decision to encode
   labels what it does and leaves everything else untouched. *)
From AV Require Import Lib.Base Web.Negotiate Web.NegotiateSpec.

Lemma insert_ranked_in x l : forall y, In y (insert_ranked x l) <-> y = x \/ In y l.
Proof.
  induction l as [|e r IH]; intro y; cbn [insert_ranked].
  - cbn. intuition.
  - destruct (before x e); cbn [In]; [intuition|]. rewrite IH. intuition.
Qed.

Lemma ranked_fold_in h : forall acc y,
  In y (fold_left (fun a x => insert_ranked x a) h acc) <-> In y h \/ In y acc.
Proof.
  induction h as [|x r IH]; intros acc y; cbn [fold_left].
  - cbn. intuition.
  - rewrite IH, insert_ranked_in. cbn [In]. intuition.
Qed.

(* ranked_items is a rearrangement of the header's items *)
Lemma ranked_items_in h y : In y (ranked_items h) <-> In y h.
Proof. unfold ranked_items. rewrite ranked_fold_in. cbn. intuition. Qed.

Lemma ranked_items_length h : length (ranked_items h) = length h.
Proof.
  unfold ranked_items.
  assert (H : forall acc, length (fold_left (fun a x => insert_ranked x a) h acc) = (length h + length acc)%nat).
  { induction h as [|x r IH]; intro acc; cbn [fold_left length]; [reflexivity|].
    rewrite IH. assert (L : forall l, length (insert_ranked x l) = S (length l)).
    { induction l as [|e l IHl]; cbn [insert_ranked length]; [reflexivity|].
      destruct (before x e); cbn [length]; [reflexivity|]. rewrite IHl. reflexivity. }
    rewrite L. lia. }
  rewrite H. cbn. lia.
Qed.

Lemma is_identity_item_spec q : is_identity_item q = true <-> fst q = PSpec Identity.
Proof. destruct q as [[|[]] n]; cbn; split; intro H; try discriminate; try reflexivity; inversion H. Qed.
Lemma is_any_item_spec q : is_any_item q = true <-> fst q = PAny.
Proof. destruct q as [[|c] n]; cbn; split; intro H; try discriminate; try reflexivity. Qed.

(* the repaired identity test agrees with the RFC *)
Lemma identity_acceptable_sound h : h <> [] ->
  is_identity_acceptable (ranked_items h) = true -> permitted h Identity.
Proof.
  intros Hne H. unfold permitted. destruct h as [|q0 r]; [congruence|]. set (h := q0 :: r) in *.
  unfold is_identity_acceptable in H.
  destruct (find is_identity_item (ranked_items h)) as [q|] eqn:Ei.
  - apply find_some in Ei. destruct Ei as [Hin Hq]. apply is_identity_item_spec in Hq.
    apply (proj1 (ranked_items_in _ _)) in Hin. left. exists (snd q). split; [|lia].
    destruct q as [p n]. cbn [fst snd] in *. subst p. exact Hin.
  - right. split.
    + intros q Hin. apply (proj2 (ranked_items_in _ _)) in Hin. pose proof (find_none _ _ Ei _ Hin) as Hf.
      cbn in Hf. discriminate.
    + destruct (find is_any_item (ranked_items h)) as [q|] eqn:Ea.
      * apply find_some in Ea. destruct Ea as [Hin Hq]. apply is_any_item_spec in Hq.
        apply (proj1 (ranked_items_in _ _)) in Hin. left. exists (snd q). split; [|lia].
        destruct q as [p n]. cbn [fst snd] in *. subst p. exact Hin.
      * right. split; [|reflexivity]. intros q Hin. apply (proj2 (ranked_items_in _ _)) in Hin.
        pose proof (find_none _ _ Ea _ Hin) as Hf. cbn in Hf. discriminate.
Qed.

Theorem negotiate_sound h sup e :
  mem Identity sup = true -> negotiate h sup = Some e -> mem e sup = true /\ permitted h e.
Proof.
  intros Hid H. unfold negotiate, negotiate_with in H.
  destruct sup as [|s0 sr]; [discriminate|]. set (sup := s0 :: sr) in *.
  destruct h as [|q0 r].
  - inversion H; subst. split; [exact Hid|reflexivity].
  - set (h := q0 :: r) in *. assert (Hne : h <> []) by discriminate.
    destruct (is_identity_acceptable (ranked_items h) && mem Identity sup && (lenN (dedup sup) =? 1)) eqn:E1.
    + inversion H; subst. split; [exact Hid|]. apply identity_acceptable_sound; [exact Hne|].
      apply andb_true_iff in E1. destruct E1 as [E1 _]. apply andb_true_iff in E1. tauto.
    + destruct (find (fun q => match fst q with PSpec e0 => mem e0 sup | PAny => false end)
                     (filter (fun q => 0 <? snd q) (ranked_items h))) as [[p n]|] eqn:Ef.
      * apply find_some in Ef. destruct Ef as [Hin Hp]. cbn in Hp.
        apply filter_In in Hin. destruct Hin as [Hin Hq]. cbn in Hq. apply (proj1 (ranked_items_in _ _)) in Hin.
        destruct p as [|c]; [discriminate|]. inversion H; subst. split; [exact Hp|].
        unfold permitted. fold h. left. exists n. split; [exact Hin|lia].
      * destruct (is_identity_acceptable (ranked_items h)) eqn:Ea; [|discriminate].
        inversion H; subst. split; [exact Hid|]. apply identity_acceptable_sound; assumption.
Qed.

(* ---- F4: the code before the repair accepted identity against an explicit identity;q=0 *)
Lemma F4_witness :
  let h := [(PAny, 500); (PSpec Identity, 0)] in
  negotiate_orig h supported_encodings = Some Identity /\ ~ permitted h Identity /\ Known_F4 h /\
  negotiate h supported_encodings = None.
Proof.
  cbv zeta. split; [vm_compute; reflexivity|]. split; [|split].
  - unfold permitted. intros [[q [Hin Hq]]|[Hno _]].
    + cbn in Hin. destruct Hin as [Hin|[Hin|[]]]; inversion Hin; subst. lia.
    + apply (Hno 0). cbn. right. left. reflexivity.
  - split; [cbn; right; left; reflexivity|]. exists 500. split; [cbn; left; reflexivity|lia].
  - vm_compute. reflexivity.
Qed.

(* by design the negotiation never picks a coding on the strength of "*" alone: a permitted,
   supported coding may exist while the answer is 406 *)
Lemma negotiation_incomplete :
  let h := [(PAny, 500); (PSpec Identity, 0)] in
  permitted h Gzip /\ mem Gzip supported_encodings = true /\ negotiate h supported_encodings = None.
Proof.
  cbv zeta. split; [|split; vm_compute; reflexivity].
  unfold permitted. right. split.
  - intros q Hin. cbn in Hin. destruct Hin as [Hin|[Hin|[]]]; inversion Hin.
  - left. exists 500. split; [cbn; left; reflexivity|lia].
Qed.

(* ---- Encoder::response *)
Definition must_pass (enc : coding) (h : head) (size : bsize) : Prop :=
  h_content_encoding h <> None \/ h_status h = 101 \/ h_status h = 204 \/ h_status h = 206 \/
  enc = Identity \/ size = SzNone \/ size = SzSized 0.

Theorem response_passthrough enc h size : must_pass enc h size ->
  snd (encoder_response enc h size) = h /\
  (forall c, fst (encoder_response enc h size) <> BEncode c) /\
  encoder_size (fst (encoder_response enc h size)) size = size.
Proof.
  intro H. unfold encoder_response. destruct size as [|n|].
  - repeat split; try reflexivity. intros c; discriminate.
  - destruct (N.eq_dec n 0) as [->|Hn].
    + repeat split; try reflexivity. intros c; discriminate.
    + assert (E : (match h_content_encoding h with Some _ => true | None => false end
                   || (h_status h =? 101) || (h_status h =? 204) || (h_status h =? 206)
                   || coding_eqb enc Identity) = true).
      { destruct H as [H|[H|[H|[H|[H|[H|H]]]]]]; try discriminate.
        - destruct (h_content_encoding h); [reflexivity|congruence].
        - rewrite H. rewrite !orb_true_r. reflexivity.
        - rewrite H. rewrite !orb_true_r. reflexivity.
        - rewrite H. rewrite !orb_true_r. reflexivity.
        - subst enc. rewrite !orb_true_r. reflexivity.
        - inversion H. congruence. }
      destruct n; [congruence|]. rewrite E. cbn [negb andb]. repeat split; try reflexivity. intros c; discriminate.
  - assert (E : (match h_content_encoding h with Some _ => true | None => false end
                 || (h_status h =? 101) || (h_status h =? 204) || (h_status h =? 206)
                 || coding_eqb enc Identity) = true).
    { destruct H as [H|[H|[H|[H|[H|[H|H]]]]]]; try discriminate.
      - destruct (h_content_encoding h); [reflexivity|congruence].
      - rewrite H. rewrite !orb_true_r. reflexivity.
      - rewrite H. rewrite !orb_true_r. reflexivity.
      - rewrite H. rewrite !orb_true_r. reflexivity.
      - subst enc. rewrite !orb_true_r. reflexivity. }
    rewrite E. cbn [negb andb]. repeat split; try reflexivity. intros c; discriminate.
Qed.

Theorem response_label enc h size c h' :
  encoder_response enc h size = (BEncode c, h') ->
  c = enc /\ selectable c = true /\
  h_content_encoding h' = Some (coding_name c) /\ h_vary h' = h_vary h ++ [vary_accept_encoding] /\
  h_status h' = h_status h /\ h_no_chunking h' = false /\ h_content_length h' = None /\
  encoder_size (BEncode c) size = SzStream /\
  h_content_encoding h = None /\ h_status h <> 101 /\ h_status h <> 204 /\ h_status h <> 206 /\
  c <> Identity /\ size <> SzNone /\ size <> SzSized 0.
Proof.
  unfold encoder_response. intro H.
  assert (Hs : size <> SzNone /\ size <> SzSized 0).
  { destruct size as [|n|]; [discriminate| |split; discriminate]. destruct n; [discriminate|split; discriminate]. }
  assert (H2 : (if negb (match h_content_encoding h with Some _ => true | None => false end
                         || (h_status h =? 101) || (h_status h =? 204) || (h_status h =? 206)
                         || coding_eqb enc Identity) && selectable enc
                then (BEncode enc, update_head enc h) else (BPass, h)) = (BEncode c, h')).
  { destruct size as [|n|]; [discriminate| |exact H]. destruct n; [discriminate|exact H]. }
  clear H.
  destruct (negb _ && selectable enc) eqn:E; [|discriminate]. inversion H2; subst. clear H2.
  apply andb_true_iff in E. destruct E as [E1 E2]. apply negb_true_iff in E1.
  apply orb_false_iff in E1. destruct E1 as [E1 Eid]. apply orb_false_iff in E1. destruct E1 as [E1 E206].
  apply orb_false_iff in E1. destruct E1 as [E1 E204]. apply orb_false_iff in E1. destruct E1 as [Ece E101].
  repeat split; try reflexivity; try tauto; try lia; try exact E2;
    try (destruct (h_content_encoding h); [discriminate|reflexivity]);
    try (intro; subst c; discriminate).
Qed.

(* ---- Compress middleware *)
Theorem compress_encodes_only_negotiated ae compressible h size c h' sz :
  compress ae compressible h size = Responded (BEncode c) h' sz ->
  exists items, ae = Some items /\ negotiate items supported_encodings = Some c /\
                permitted items c /\ mem c supported_encodings = true /\ compressible = true /\
                encoder_response c h size = (BEncode c, h') /\ sz = SzStream.
Proof.
  unfold compress. intro H.
  assert (Hresp : forall e, (let '(a, h0) := encoder_response (if compressible then e else Identity) h size in
                             Responded a h0 (encoder_size a size)) = Responded (BEncode c) h' sz ->
                  compressible = true /\ e = c /\ encoder_response c h size = (BEncode c, h') /\ sz = SzStream).
  { intros e He. destruct (encoder_response (if compressible then e else Identity) h size) as [a h0] eqn:Er.
    inversion He; subst. destruct (response_label _ _ _ _ _ Er) as [Hc [_ [_ [_ [_ [_ [_ [_ [_ [_ [_ [_ [Hni _]]]]]]]]]]]]].
    destruct compressible; [|congruence]. subst e. repeat split; try reflexivity. exact Er. }
  destruct ae as [items|].
  - destruct (negotiate items supported_encodings) as [e|] eqn:En; [|discriminate].
    destruct (Hresp e H) as [H1 [H2 [H3 H4]]]. subst e.
    destruct (negotiate_sound items supported_encodings c eq_refl En) as [Hm Hp].
    exists items. repeat split; assumption.
  - destruct (Hresp Identity H) as [_ [H2 [H3 _]]]. subst c.
    destruct (response_label _ _ _ _ _ H3) as [_ [_ [_ [_ [_ [_ [_ [_ [_ [_ [_ [_ [Hni _]]]]]]]]]]]]]. congruence.
Qed.

Theorem compress_otherwise_unchanged ae compressible h size a h' sz :
  compress ae compressible h size = Responded a h' sz -> (forall c, a <> BEncode c) ->
  h' = h /\ sz = size.
Proof.
  unfold compress. intros H Ha.
  assert (Hresp : forall e, (let '(a0, h0) := encoder_response e h size in
                             Responded a0 h0 (encoder_size a0 size)) = Responded a h' sz -> h' = h /\ sz = size).
  { intros e He. destruct (encoder_response e h size) as [a0 h0] eqn:Er. inversion He; subst.
    unfold encoder_response in Er.
    destruct size as [|n|].
    - inversion Er; subst. split; reflexivity.
    - destruct n.
      + inversion Er; subst. split; reflexivity.
      + destruct (negb _ && selectable e); inversion Er; subst; [exfalso; exact (Ha e eq_refl)|split; reflexivity].
    - destruct (negb _ && selectable e); inversion Er; subst; [exfalso; exact (Ha e eq_refl)|split; reflexivity]. }
  destruct ae as [items|].
  - destruct (negotiate items supported_encodings) as [e|]; [|discriminate]. exact (Hresp _ H).
  - exact (Hresp _ H).
Qed.
