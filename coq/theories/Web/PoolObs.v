(* C11, handler level: everything the property text lists -- headers, URI, path parameters,
   request-local extensions, connection data, scoped application data, matched resource
   name/pattern -- as the PUBLIC accessors of HttpRequest compute it from the fields of
   Web/Pool.v, and the proof that after ANY history these observations are an explicit function
   of the current request and of the application configuration.

   Configuration = root container, quoter, the route table (as the function [route]: which
   captures / skips / resource ids / scoped containers / middleware inserts the router and the
   middleware perform, decided from what they can observe of the request when it enters), and
   the resource map (four look-up functions). None of them needs a hypothesis. *)
From AV Require Import Lib.Base Web.Pool Web.PoolSpec Web.PoolProofs.

(* ---- the same mutations, on views (they read and write observable fields only) *)
Definition view_mut (w : view) (m : mut) : view :=
  match m with
  | MAdd n b e =>
      mkView (v_method w) (v_uri w) (v_version w) (v_headers w) (v_peer w) (v_flags w)
             (v_path_uri w) (v_qpath w) (v_skip w)
             (v_segs w ++ [(n, PSeg (v_skip w + b) (v_skip w + e))])
             (v_rids w) (v_matched w) (v_app_data w) (v_conn w) (v_exts w)
  | MAddStatic n v =>
      mkView (v_method w) (v_uri w) (v_version w) (v_headers w) (v_peer w) (v_flags w)
             (v_path_uri w) (v_qpath w) (v_skip w) (v_segs w ++ [(n, PStatic v)])
             (v_rids w) (v_matched w) (v_app_data w) (v_conn w) (v_exts w)
  | MSkip n =>
      mkView (v_method w) (v_uri w) (v_version w) (v_headers w) (v_peer w) (v_flags w)
             (v_path_uri w) (v_qpath w) (v_skip w + n) (v_segs w)
             (v_rids w) (v_matched w) (v_app_data w) (v_conn w) (v_exts w)
  | MRid r =>
      mkView (v_method w) (v_uri w) (v_version w) (v_headers w) (v_peer w) (v_flags w)
             (v_path_uri w) (v_qpath w) (v_skip w) (v_segs w)
             (v_rids w ++ [r]) (v_matched w) (v_app_data w) (v_conn w) (v_exts w)
  | MMark b =>
      mkView (v_method w) (v_uri w) (v_version w) (v_headers w) (v_peer w) (v_flags w)
             (v_path_uri w) (v_qpath w) (v_skip w) (v_segs w)
             (v_rids w) b (v_app_data w) (v_conn w) (v_exts w)
  | MData c =>
      mkView (v_method w) (v_uri w) (v_version w) (v_headers w) (v_peer w) (v_flags w)
             (v_path_uri w) (v_qpath w) (v_skip w) (v_segs w)
             (v_rids w) (v_matched w) (v_app_data w ++ [c]) (v_conn w) (v_exts w)
  | MHeader k v =>
      mkView (v_method w) (v_uri w) (v_version w) (v_headers w ++ [(k, v)]) (v_peer w) (v_flags w)
             (v_path_uri w) (v_qpath w) (v_skip w) (v_segs w)
             (v_rids w) (v_matched w) (v_app_data w) (v_conn w) (v_exts w)
  end.

Definition view_hact (w : view) (a : hact) : view :=
  match a with
  | HMut m => view_mut w m
  | HExt t v =>
      mkView (v_method w) (v_uri w) (v_version w) (v_headers w) (v_peer w) (v_flags w)
             (v_path_uri w) (v_qpath w) (v_skip w) (v_segs w)
             (v_rids w) (v_matched w) (v_app_data w) (v_conn w) (ext_insert t v (v_exts w))
  end.

Lemma view_of_apply_hact o a : view_of (apply_hact o a) = view_hact (view_of o) a.
Proof. destruct a as [m | t v]; [destruct m|]; reflexivity. Qed.

Lemma view_of_fold_hact acts : forall o,
  view_of (fold_left apply_hact acts o) = fold_left view_hact acts (view_of o).
Proof.
  induction acts as [| a r IH]; intro o; [reflexivity|].
  cbn [fold_left]. rewrite IH, view_of_apply_hact. reflexivity.
Qed.

(* ---- what the public accessors return *)
Section Obs.
Variable uri_path : bytes -> bytes.                       (* http::Uri::path *)
(* ResourceMap (built once from the App): look-up by resource-id path and by request path *)
Variable pat_by_rids : list N -> option bytes.            (* match_pattern_by_resource_path *)
Variable name_by_rids : list N -> option bytes.           (* match_name_by_resource_path *)
Variable pat_by_path : bytes -> option bytes.             (* ResourceMap::match_pattern *)
Variable name_by_path : bytes -> option bytes.            (* ResourceMap::match_name *)

(* Url::path: the decoded path if the quoter produced one, otherwise the URI's own path *)
Definition url_path (w : view) : bytes :=
  match v_qpath w with Some p => p | None => uri_path (v_path_uri w) end.
Definition sub (s : bytes) (b e : N) : bytes := firstn (N.to_nat (e - b)) (skipn (N.to_nat b) s).
(* match_info().iter(): Static items as they are, Segment(b, e) cut out of Url::path *)
Definition param_value (w : view) (it : pitem) : bytes :=
  match it with PStatic v => v | PSeg b e => sub (url_path w) b e end.
Definition params (w : view) : list (bytes * bytes) :=
  map (fun s => (fst s, param_value w (snd s))) (v_segs w).
(* match_info().unprocessed() *)
Definition unprocessed (w : view) : bytes :=
  skipn (N.to_nat (N.min (v_skip w) (lenN (url_path w)))) (url_path w).
(* HttpRequest::match_pattern / match_name: the id path when the flag is set and it addresses a
   node (with a name), otherwise the look-up by path *)
Definition match_pattern (w : view) : option bytes :=
  match (if v_matched w then pat_by_rids (v_rids w) else None) with
  | Some p => Some p
  | None => pat_by_path (url_path w)
  end.
Definition match_name (w : view) : option bytes :=
  match (if v_matched w then name_by_rids (v_rids w) else None) with
  | Some p => Some p
  | None => name_by_path (url_path w)
  end.
(* HttpRequest::app_data::<T>(): containers searched from the innermost *)
Fixpoint resolve (t : N) (stack_rev : list container) : option N :=
  match stack_rev with
  | [] => None
  | cn :: r => match ext_get t cn with Some v => Some v | None => resolve t r end
  end.
Definition app_data_get (w : view) (t : N) : option N := resolve t (rev (v_app_data w)).
Definition ext_data_get (w : view) (t : N) : option N := ext_get t (v_exts w).
Definition conn_data_get (w : view) (t : N) : option N :=
  match v_conn w with Some cn => ext_get t cn | None => None end.

(* everything the property lists, as data; the three typed look-ups are tabulated over an
   arbitrary list of type ids [ts] *)
Record observed := mkObs {
  ob_method : bytes; ob_uri : bytes; ob_version : N; ob_headers : list (bytes * bytes);
  ob_peer : option N; ob_flags : N;
  ob_path : bytes; ob_params : list (bytes * bytes); ob_unprocessed : bytes;
  ob_pattern : option bytes; ob_name : option bytes;
  ob_exts : list (option N); ob_conn : list (option N); ob_app : list (option N)
}.
Definition observe (ts : list N) (w : view) : observed :=
  mkObs (v_method w) (v_uri w) (v_version w) (v_headers w) (v_peer w) (v_flags w)
        (url_path w) (params w) (unprocessed w)
        (match_pattern w) (match_name w)
        (map (ext_data_get w) ts) (map (conn_data_get w) ts) (map (app_data_get w) ts).

Section Main.
Variables HCAP RCAP : N.
Variable requote : bytes -> option bytes.
Variable root : container.
(* the router and the middleware in front of the handler: deterministic, deciding from what they
   can observe of the request on entry (and the configuration, which is closed over) *)
Variable route : view -> list hact.

(* what the handler observes of a request that entered as object [o] *)
Definition handler_sees (ts : list N) (o : obj) : observed :=
  observe ts (view_of (fold_left apply_hact (route (view_of o)) o)).

(* the same, written from the request and the configuration alone: no state, no history *)
Definition spec_observed (ts : list N) (q : reqd) : observed :=
  let w := spec_view requote root q in
  observe ts (fold_left view_hact (route w) w).

Theorem handler_sees_determined es s q ts :
  run HCAP RCAP requote root st_init es = Val s ->
  handler_sees ts (snd (request HCAP requote root s q)) = spec_observed ts q.
Proof.
  intro Hr. unfold handler_sees, spec_observed.
  rewrite view_of_fold_hact.
  rewrite (view_determined HCAP RCAP requote root es s q Hr). reflexivity.
Qed.

Theorem handler_sees_independent es s q ts :
  run HCAP RCAP requote root st_init es = Val s ->
  handler_sees ts (snd (request HCAP requote root s q)) =
  handler_sees ts (snd (request HCAP requote root st_init q)).
Proof.
  intro Hr. rewrite (handler_sees_determined es s q ts Hr).
  symmetry. apply (handler_sees_determined [] st_init q ts). reflexivity.
Qed.

(* two histories, same request: same observations (the form of the property text) *)
Theorem handler_sees_any_two_histories es1 s1 es2 s2 q ts :
  run HCAP RCAP requote root st_init es1 = Val s1 ->
  run HCAP RCAP requote root st_init es2 = Val s2 ->
  handler_sees ts (snd (request HCAP requote root s1 q)) =
  handler_sees ts (snd (request HCAP requote root s2 q)).
Proof.
  intros H1 H2. rewrite (handler_sees_determined es1 s1 q ts H1).
  symmetry. apply (handler_sees_determined es2 s2 q ts H2).
Qed.
End Main.
End Obs.
