(* Model of the two recycling pools a request passes through before a handler sees it.

   (1) actix-http/src/message.rs + requests/head.rs : thread-local [MessagePool<RequestHead>]
       ([Message::new] -> [get_message] -> [RequestHead::clear]; [Drop for Message] -> [release]).
   (2) actix-web/src/request.rs : [HttpRequestPool] (pop / is_available / push / disable),
       [Drop for HttpRequest]; actix-web/src/app_service.rs : [AppInitService::call]
       (re-initialisation of a popped object, or [HttpRequest::new]).

   The model is a transcription of the code AS IT IS, statement by statement. No proofs here.

   Representation choices (all others are literal):
   * a Rust [Vec] used as a stack is a Coq list whose HEAD is the Vec's LAST element
     ([pop] = take the head, [push] = cons); [Vec::clear] therefore drops [rev l] in order;
   * [Extensions] (a type-indexed map) is an association list  type id |-> value;
   * an [Rc] allocation is identified by the index of the request during which it was allocated
     ([h_id], [o_id]); these identities are NOT observable through the safe API and are not part
     of [view]; the correspondence harness observes them as addresses;
   * [RequestHead::clear] resets only headers and flags in older trees; the model follows the
     repaired code (commit 319fa1c, F30);
   * [Rc::strong_count] of a live request object is the field [l_rc];
   * the path quoter ([Url::new] / [Url::update] -> [Quoter::requote_str_lossy]) is external code:
     a Section variable [requote] (no hypothesis about it is needed). *)
From AV Require Import Lib.Base.

(* ---------------------------------------------------------------- Extensions *)
Definition container := list (N * N).

Fixpoint ext_get (t : N) (c : container) : option N :=
  match c with
  | [] => None
  | (t', v) :: r => if t' =? t then Some v else ext_get t r
  end.
(* [Extensions::insert]: replaces the value of that type *)
Definition ext_insert (t v : N) (c : container) : container :=
  (t, v) :: filter (fun p => negb (fst p =? t)) c.

(* ---------------------------------------------------------------- RequestHead and its pool *)
Record head := mkHead {
  h_method : bytes;
  h_uri : bytes;
  h_version : N;
  h_headers : list (bytes * bytes);
  h_peer : option N;
  h_flags : N;
  h_id : N                      (* allocation identity; not observable *)
}.

(* [impl Default for RequestHead] : GET, "/", HTTP/1.1, no headers, no peer, no flags *)
Definition head_default (id : N) : head :=
  mkHead [71; 69; 84] [47] 11 [] None 0 id.

(* [RequestHead::clear] (since 319fa1c): method, uri, version, peer_addr back to their defaults,
   flags emptied, headers cleared -- a recycled head is [RequestHead::default()] again *)
Definition head_clear (h : head) : head :=
  mkHead [71; 69; 84]                     (* self.method = Method::default() *)
         [47]                             (* self.uri = Uri::default() *)
         11                               (* self.version = Version::HTTP_11 *)
         []                               (* self.headers.clear() *)
         None                             (* self.peer_addr = None *)
         0                                (* self.flags = Flags::empty() *)
         (h_id h).

(* who fills the head after [Message::new()] *)
Inductive producer :=
| PH1        (* h1 decoder (headers appended, flags inserted, uri/method/version) + dispatcher (peer_addr) *)
| PTest      (* actix_web::test::TestRequest::to_request, h2 dispatcher: uri/method/version/headers
                replaced, peer_addr written; the caller may insert flags (set_connection_type) *)
| PHttpTest  (* actix_http::test::TestRequest::finish: uri/method/version/headers; NOT peer_addr *)
| PRaw.      (* Request::new() / Request::from(Message::new()) and nothing else *)

(* one incoming request as the transport / test builder presents it *)
Record reqd := mkReq {
  q_prod : producer;
  q_method : bytes;
  q_uri : bytes;
  q_version : N;
  q_headers : list (bytes * bytes);
  q_peer : option N;
  q_flags : N;
  q_exts : container;           (* Request::extensions (req data), moved into the HttpRequest *)
  q_conn : option container     (* Request::conn_data set by the dispatcher from on_connect_ext *)
}.

Section Pools.
(* capacities: [MessagePool] literal 128, [HttpRequestPool::default] 128 (Gen.Consts) *)
Variable HCAP RCAP : N.
Variable requote : bytes -> option bytes.
Variable root : container.      (* AppInitService::app_data *)

(* [MessagePool::get_message] *)
Definition head_get (hp : list head) (fresh_id : N) : head * list head :=
  match hp with
  | h :: r => (head_clear h, r)
  | [] => (head_default fresh_id, [])
  end.

(* [MessagePool::release] *)
Definition head_release (hp : list head) (h : head) : list head :=
  if lenN hp <? HCAP then h :: hp else hp.

Definition produce (h : head) (q : reqd) : head :=
  match q_prod q with
  | PH1 =>
      mkHead (q_method q) (q_uri q) (q_version q)
             (h_headers h ++ q_headers q)              (* headers.append on the cleared map *)
             (q_peer q)
             (N.lor (h_flags h) (q_flags q))           (* flags.insert *)
             (h_id h)
  | PTest =>
      mkHead (q_method q) (q_uri q) (q_version q)
             (q_headers q)                             (* head.headers = inner.headers *)
             (q_peer q)
             (N.lor (h_flags h) (q_flags q))
             (h_id h)
  | PHttpTest =>
      mkHead (q_method q) (q_uri q) (q_version q)
             (q_headers q)
             (h_peer h)                                (* not written *)
             (N.lor (h_flags h) (q_flags q))
             (h_id h)
  | PRaw => h
  end.

(* ---------------------------------------------------------------- HttpRequestInner *)
Inductive pitem := PStatic (v : bytes) | PSeg (b e : N).

Record obj := mkObj {
  o_head : head;
  o_uri : bytes;                          (* path.path.uri *)
  o_qpath : option bytes;                 (* path.path.path (requoted) *)
  o_skip : N;                             (* path.skip *)
  o_segs : list (bytes * pitem);          (* path.segments *)
  o_rids : list N;                        (* resource_path *)
  o_matched : bool;                       (* resource_path_matched *)
  o_app_data : list container;            (* app_data; element 0 is the root container *)
  o_conn : option container;              (* conn_data *)
  o_exts : container;                     (* extensions *)
  o_id : N                                (* allocation identity; not observable *)
}.

(* [HttpRequest::new(Path::new(Url::new(head.uri.clone())), head, state, app_data, conn_data, ext)] *)
Definition obj_fresh (id : N) (h : head) (q : reqd) : obj :=
  mkObj h (h_uri h) (requote (h_uri h)) 0 [] [] false [root] (q_conn q) (q_exts q) id.

(* the [Some(mut req)] arm of [AppInitService::call], one field per line as in the source *)
Definition obj_reinit (o : obj) (h : head) (q : reqd) : obj :=
  mkObj h                                  (* inner.head = head *)
        (h_uri h)                          (* inner.path.get_mut().update(&head.uri): uri *)
        (requote (h_uri h))                (*                                         path *)
        0                                  (* inner.path.reset(): skip *)
        []                                 (*                     segments.clear() *)
        []                                 (* inner.resource_path.clear() *)
        false                              (* inner.resource_path_matched = false *)
        (o_app_data o)                     (* NOT written: relies on Drop's truncate(1) *)
        (q_conn q)                         (* inner.conn_data = conn_data *)
        (q_exts q)                         (* inner.extensions = extensions *)
        (o_id o).

(* what [Drop for HttpRequest] does to the inner object before pushing it *)
Definition obj_scrub (o : obj) : obj :=
  mkObj (o_head o) (o_uri o) (o_qpath o) (o_skip o) (o_segs o) (o_rids o) (o_matched o)
        (firstn 1 (o_app_data o))          (* inner.app_data.truncate(1) *)
        None                               (* inner.conn_data = None *)
        []                                 (* extensions.clear() *)
        (o_id o).

(* mutations made through [Rc::get_mut(&mut req.inner).unwrap()] while routing *)
Inductive mut :=
| MAdd (name : bytes) (b e : N)            (* Path::add(name, Segment(b, e)): stored as skip+b, skip+e *)
| MAddStatic (name v : bytes)              (* Path::add_static *)
| MSkip (n : N)                            (* Path::skip *)
| MRid (id : N)                            (* push_resource_id *)
| MMark (b : bool)                         (* mark_resource_path *)
| MData (c : container)                    (* ServiceRequest::add_data_container *)
| MHeader (k v : bytes).                   (* head_mut().headers.append (middleware) *)

Definition head_add_header (h : head) (k v : bytes) : head :=
  mkHead (h_method h) (h_uri h) (h_version h) (h_headers h ++ [(k, v)]) (h_peer h) (h_flags h) (h_id h).

Definition apply_mut (o : obj) (m : mut) : obj :=
  match m with
  | MAdd n b e =>
      mkObj (o_head o) (o_uri o) (o_qpath o) (o_skip o)
            (o_segs o ++ [(n, PSeg (o_skip o + b) (o_skip o + e))])
            (o_rids o) (o_matched o) (o_app_data o) (o_conn o) (o_exts o) (o_id o)
  | MAddStatic n v =>
      mkObj (o_head o) (o_uri o) (o_qpath o) (o_skip o) (o_segs o ++ [(n, PStatic v)])
            (o_rids o) (o_matched o) (o_app_data o) (o_conn o) (o_exts o) (o_id o)
  | MSkip n =>
      mkObj (o_head o) (o_uri o) (o_qpath o) (o_skip o + n) (o_segs o)
            (o_rids o) (o_matched o) (o_app_data o) (o_conn o) (o_exts o) (o_id o)
  | MRid r =>
      mkObj (o_head o) (o_uri o) (o_qpath o) (o_skip o) (o_segs o)
            (o_rids o ++ [r]) (o_matched o) (o_app_data o) (o_conn o) (o_exts o) (o_id o)
  | MMark b =>
      mkObj (o_head o) (o_uri o) (o_qpath o) (o_skip o) (o_segs o)
            (o_rids o) b (o_app_data o) (o_conn o) (o_exts o) (o_id o)
  | MData c =>
      mkObj (o_head o) (o_uri o) (o_qpath o) (o_skip o) (o_segs o)
            (o_rids o) (o_matched o) (o_app_data o ++ [c]) (o_conn o) (o_exts o) (o_id o)
  | MHeader k v =>
      mkObj (head_add_header (o_head o) k v) (o_uri o) (o_qpath o) (o_skip o) (o_segs o)
            (o_rids o) (o_matched o) (o_app_data o) (o_conn o) (o_exts o) (o_id o)
  end.

(* extensions_mut().insert: through the RefCell, allowed whatever the strong count *)
Definition obj_ext_insert (o : obj) (t v : N) : obj :=
  mkObj (o_head o) (o_uri o) (o_qpath o) (o_skip o) (o_segs o) (o_rids o) (o_matched o)
        (o_app_data o) (o_conn o) (ext_insert t v (o_exts o)) (o_id o).

(* ---------------------------------------------------------------- worker state *)
Record lent := mkLent {
  l_key : N;                     (* index of the request this handle family belongs to *)
  l_obj : obj;
  l_rc : N                       (* Rc::strong_count, >= 1 *)
}.

Record st := mkSt {
  s_hpool : list head;           (* REQUEST_POOL (thread local) *)
  s_rpool : list obj;            (* HttpRequestPool::inner *)
  s_enabled : bool;              (* HttpRequestPool::enabled *)
  s_live : list lent;            (* request objects reachable from some HttpRequest handle *)
  s_nreq : N                     (* requests started so far *)
}.

Definition st_init : st := mkSt [] [] true [] 0.

Fixpoint find_live (k : N) (l : list lent) : option lent :=
  match l with
  | [] => None
  | e :: r => if l_key e =? k then Some e else find_live k r
  end.
Fixpoint set_live (k : N) (e' : lent) (l : list lent) : list lent :=
  match l with
  | [] => []
  | e :: r => if l_key e =? k then e' :: r else e :: set_live k e' r
  end.
Fixpoint del_live (k : N) (l : list lent) : list lent :=
  match l with
  | [] => []
  | e :: r => if l_key e =? k then r else e :: del_live k r
  end.

(* [HttpRequestPool::is_available] *)
Definition pool_available (s : st) : bool := s_enabled s && (lenN (s_rpool s) <? RCAP).

(* A request arrives: the transport builds a [Request] ([Message::new()] + producer writes), then
   [AppInitService::call] wraps it. Returns the new state and the object handed to the router. *)
Definition request (s : st) (q : reqd) : st * obj :=
  let n := s_nreq s in
  let '(h0, hp1) := head_get (s_hpool s) n in
  let h := produce h0 q in
  match s_rpool s with
  | o :: rest =>
      (* pool.pop() = Some: re-initialise; assigning inner.head drops the old head -> release *)
      let o' := obj_reinit o h q in
      (mkSt (head_release hp1 (o_head o)) rest (s_enabled s)
            (mkLent n o' 1 :: s_live s) (n + 1), o')
  | [] =>
      let o' := obj_fresh n h q in
      (mkSt hp1 [] (s_enabled s) (mkLent n o' 1 :: s_live s) (n + 1), o')
  end.

(* the last handle of an object goes away: [Drop for HttpRequest] with Rc::get_mut = Some *)
Definition drop_last (s : st) (k : N) (o : obj) : st :=
  if pool_available s then
    mkSt (s_hpool s) (obj_scrub o :: s_rpool s) (s_enabled s) (del_live k (s_live s)) (s_nreq s)
  else
    (* not pooled: the allocation is freed, its head goes back to the head pool *)
    mkSt (head_release (s_hpool s) (o_head o)) (s_rpool s) (s_enabled s)
         (del_live k (s_live s)) (s_nreq s).

Inductive ev :=
| ERequest (q : reqd)
| EMut (k : N) (m : mut)          (* requires a unique handle: Rc::get_mut(..).unwrap() *)
| EExt (k : N) (t v : N)
| EClone (k : N)
| EDrop (k : N)
| EDisable.                       (* Drop for AppInitService -> HttpRequestPool::disable *)

Definition step (s : st) (e : ev) : R st :=
  match e with
  | ERequest q => Val (fst (request s q))
  | EMut k m =>
      match find_live k (s_live s) with
      | None => Val s
      | Some en =>
          if l_rc en =? 1 then
            Val (mkSt (s_hpool s) (s_rpool s) (s_enabled s)
                      (set_live k (mkLent k (apply_mut (l_obj en) m) (l_rc en)) (s_live s)) (s_nreq s))
          else Panic                (* "called `Option::unwrap()` on a `None` value" *)
      end
  | EExt k t v =>
      match find_live k (s_live s) with
      | None => Val s
      | Some en =>
          Val (mkSt (s_hpool s) (s_rpool s) (s_enabled s)
                    (set_live k (mkLent k (obj_ext_insert (l_obj en) t v) (l_rc en)) (s_live s)) (s_nreq s))
      end
  | EClone k =>
      match find_live k (s_live s) with
      | None => Val s
      | Some en =>
          Val (mkSt (s_hpool s) (s_rpool s) (s_enabled s)
                    (set_live k (mkLent k (l_obj en) (l_rc en + 1)) (s_live s)) (s_nreq s))
      end
  | EDrop k =>
      match find_live k (s_live s) with
      | None => Val s
      | Some en =>
          if 1 <? l_rc en then
            (* Rc::get_mut = None: nothing but the count changes *)
            Val (mkSt (s_hpool s) (s_rpool s) (s_enabled s)
                      (set_live k (mkLent k (l_obj en) (l_rc en - 1)) (s_live s)) (s_nreq s))
          else Val (drop_last s k (l_obj en))
      end
  | EDisable =>
      (* enabled.set(false); inner.clear(): pooled objects are freed oldest first, each head released *)
      Val (mkSt (fold_left head_release (map o_head (rev (s_rpool s))) (s_hpool s))
                [] false (s_live s) (s_nreq s))
  end.

Fixpoint run (s : st) (es : list ev) : R st :=
  match es with
  | [] => Val s
  | e :: r => rbind (step s e) (fun s' => run s' r)
  end.

(* ---------------------------------------------------------------- what a handler can observe *)
Record view := mkView {
  v_method : bytes; v_uri : bytes; v_version : N; v_headers : list (bytes * bytes);
  v_peer : option N; v_flags : N;
  v_path_uri : bytes; v_qpath : option bytes; v_skip : N; v_segs : list (bytes * pitem);
  v_rids : list N; v_matched : bool;
  v_app_data : list container; v_conn : option container; v_exts : container
}.

Definition view_of (o : obj) : view :=
  mkView (h_method (o_head o)) (h_uri (o_head o)) (h_version (o_head o)) (h_headers (o_head o))
         (h_peer (o_head o)) (h_flags (o_head o))
         (o_uri o) (o_qpath o) (o_skip o) (o_segs o) (o_rids o) (o_matched o)
         (o_app_data o) (o_conn o) (o_exts o).

End Pools.
