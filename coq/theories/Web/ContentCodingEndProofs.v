(* C13 proofs, part 3 — "the body stream always terminates", the eof flag of Encoder::poll_next.
   [enc_poll_obs] (Web/ContentCoding.v) is [enc_poll] plus the number of `None`s the wrapped body
   returned during the call.  Proved here, for EVERY codec, body, Pending pattern and number of
   consumer polls:
     * erasing the count gives [enc_poll] / [enc_drive] (the instrumentation observes, nothing else);
     * up to the encoder's own end the wrapped body returns `None` at most once, i.e. it is never
       polled again after its end (exactly once when the consumer reaches the end);
     * the poll after the trailer chunk (the codec's finish output) answers `Ready(None)` without
       polling any source: the state has eof = true, the oracle is not consulted. *)
From AV Require Import Lib.Base Web.ContentCoding.

Section EndProofs.
  Variable E : Type.
  Variable enc_write : E -> bytes -> E.
  Variable enc_take : E -> bytes * E.
  Variable enc_finish : E -> bytes.
  Variable max_enc_in_place : N.

  Notation enc_poll := (enc_poll E enc_write enc_take enc_finish max_enc_in_place).
  Notation enc_poll_obs := (enc_poll_obs E enc_write enc_take enc_finish max_enc_in_place).
  Notation enc_drive := (enc_drive E enc_write enc_take enc_finish max_enc_in_place).
  Notation enc_drive_obs := (enc_drive_obs E enc_write enc_take enc_finish max_enc_in_place).
  Notation enc_st := (enc_st E).

  (* ---- erasure *)
  Lemma enc_poll_obs_erase : forall fuel s o, fst (enc_poll_obs fuel s o) = enc_poll fuel s o.
  Proof.
    induction fuel as [|fuel IH]; intros s o; [reflexivity|].
    cbn [ContentCoding.enc_poll_obs ContentCoding.enc_poll].
    destruct (e_eof E s); [reflexivity|].
    assert (Hb : forall s1 o1,
      fst (let '(rdy, o2) := ask o1 in
           if negb rdy then (Pending, s1, o2, O) else
           match e_body E s1 with
           | c :: rest =>
               match e_encoder E s1 with
               | Some e =>
                   if lenN c <? max_enc_in_place then
                     let '(chunk, e2) := enc_take (enc_write e c) in
                     let s2 := {| e_body := rest; e_encoder := Some e2; e_fut := None; e_eof := false |} in
                     if nonempty chunk then (Ready (Some chunk), s2, o2, O) else enc_poll_obs fuel s2 o2
                   else
                     enc_poll_obs fuel {| e_body := rest; e_encoder := None;
                                          e_fut := Some (enc_write e c); e_eof := false |} o2
               | None =>
                   (Ready (Some c), {| e_body := rest; e_encoder := None; e_fut := e_fut E s1; e_eof := false |}, o2, O)
               end
           | [] =>
               match e_encoder E s1 with
               | Some e =>
                   let chunk := enc_finish e in
                   if nonempty chunk
                   then (Ready (Some chunk), {| e_body := []; e_encoder := None; e_fut := e_fut E s1; e_eof := true |}, o2, 1%nat)
                   else (Ready None, {| e_body := []; e_encoder := None; e_fut := e_fut E s1; e_eof := false |}, o2, 1%nat)
               | None => (Ready None, s1, o2, 1%nat)
               end
           end) =
      (let '(rdy, o2) := ask o1 in
       if negb rdy then (Pending, s1, o2) else
       match e_body E s1 with
       | c :: rest =>
           match e_encoder E s1 with
           | Some e =>
               if lenN c <? max_enc_in_place then
                 let '(chunk, e2) := enc_take (enc_write e c) in
                 let s2 := {| e_body := rest; e_encoder := Some e2; e_fut := None; e_eof := false |} in
                 if nonempty chunk then (Ready (Some chunk), s2, o2) else enc_poll fuel s2 o2
               else
                 enc_poll fuel {| e_body := rest; e_encoder := None;
                                  e_fut := Some (enc_write e c); e_eof := false |} o2
           | None =>
               (Ready (Some c), {| e_body := rest; e_encoder := None; e_fut := e_fut E s1; e_eof := false |}, o2)
           end
       | [] =>
           match e_encoder E s1 with
           | Some e =>
               let chunk := enc_finish e in
               if nonempty chunk
               then (Ready (Some chunk), {| e_body := []; e_encoder := None; e_fut := e_fut E s1; e_eof := true |}, o2)
               else (Ready None, {| e_body := []; e_encoder := None; e_fut := e_fut E s1; e_eof := false |}, o2)
           | None => (Ready None, s1, o2)
           end
       end)).
    { intros s1 o1. destruct (ask o1) as [rdy o2]. destruct rdy; cbn [negb]; [|reflexivity].
      destruct (e_body E s1) as [|c rest].
      - destruct (e_encoder E s1) as [e|]; [|reflexivity]. cbv zeta.
        destruct (nonempty (enc_finish e)); reflexivity.
      - destruct (e_encoder E s1) as [e|]; [|reflexivity].
        destruct (lenN c <? max_enc_in_place).
        + destruct (enc_take (enc_write e c)) as [chunk e2]. cbv zeta.
          destruct (nonempty chunk); [reflexivity|apply IH].
        + apply IH. }
    pose proof (Hb s o) as Hs.
    destruct (e_fut E s) as [e'|].
    - destruct (ask o) as [rdy o1]. destruct rdy; cbn [negb]; [|reflexivity].
      destruct (enc_take e') as [chunk e2]. cbv zeta.
      destruct (nonempty chunk); [reflexivity|].
      exact (Hb {| e_body := e_body E s; e_encoder := Some e2; e_fut := None; e_eof := false |} o1).
    - exact Hs.
  Qed.

  Lemma enc_drive_obs_erase : forall n s o, fst (enc_drive_obs n s o) = enc_drive n s o.
  Proof.
    induction n as [|n IH]; intros s o; [reflexivity|].
    cbn [ContentCoding.enc_drive_obs ContentCoding.enc_drive].
    rewrite <- enc_poll_obs_erase.
    destruct (enc_poll_obs (enc_fuel E s) s o) as [[[r s'] o'] k]. cbn [fst].
    destruct r as [|[c|]].
    - rewrite <- IH. destruct (enc_drive_obs n s' o') as [[[cs sf] fin] m]. reflexivity.
    - rewrite <- IH. destruct (enc_drive_obs n s' o') as [[[cs sf] fin] m]. reflexivity.
    - reflexivity.
  Qed.

  (* ---- one poll: either the body's end was not reached (count 0, eof stays false, the answer is
     not the end), or it was reached exactly once and the answer is the end, or the trailer chunk
     with eof set *)
  Definition poll_end_post (res : poll (option bytes) * enc_st * list bool * nat) : Prop :=
    let '(r, s', _, k) := res in
    (k = O /\ e_eof E s' = false /\ r <> Ready None) \/
    (k = 1%nat /\ (r = Ready None \/ ((exists c, r = Ready (Some c)) /\ e_eof E s' = true))).

  Lemma enc_poll_obs_end : forall fuel s o, e_eof E s = false -> poll_end_post (enc_poll_obs fuel s o).
  Proof.
    induction fuel as [|fuel IH]; intros s o Heof.
    - cbn. left. repeat split; [exact Heof|discriminate].
    - cbn [ContentCoding.enc_poll_obs]. rewrite Heof.
      assert (Hb : forall s1 o1, e_eof E s1 = false -> poll_end_post
        (let '(rdy, o2) := ask o1 in
           if negb rdy then (Pending, s1, o2, O) else
           match e_body E s1 with
           | c :: rest =>
               match e_encoder E s1 with
               | Some e =>
                   if lenN c <? max_enc_in_place then
                     let '(chunk, e2) := enc_take (enc_write e c) in
                     let s2 := {| e_body := rest; e_encoder := Some e2; e_fut := None; e_eof := false |} in
                     if nonempty chunk then (Ready (Some chunk), s2, o2, O) else enc_poll_obs fuel s2 o2
                   else
                     enc_poll_obs fuel {| e_body := rest; e_encoder := None;
                                          e_fut := Some (enc_write e c); e_eof := false |} o2
               | None =>
                   (Ready (Some c), {| e_body := rest; e_encoder := None; e_fut := e_fut E s1; e_eof := false |}, o2, O)
               end
           | [] =>
               match e_encoder E s1 with
               | Some e =>
                   let chunk := enc_finish e in
                   if nonempty chunk
                   then (Ready (Some chunk), {| e_body := []; e_encoder := None; e_fut := e_fut E s1; e_eof := true |}, o2, 1%nat)
                   else (Ready None, {| e_body := []; e_encoder := None; e_fut := e_fut E s1; e_eof := false |}, o2, 1%nat)
               | None => (Ready None, s1, o2, 1%nat)
               end
           end)).
      { intros s1 o1 H1. destruct (ask o1) as [rdy o2]. destruct rdy; cbn [negb].
        2:{ left. repeat split; [exact H1|discriminate]. }
        destruct (e_body E s1) as [|c rest].
        - destruct (e_encoder E s1) as [e|].
          + cbv zeta. destruct (nonempty (enc_finish e)).
            * right. split; [reflexivity|]. right. split; [eexists; reflexivity|reflexivity].
            * right. split; [reflexivity|]. left. reflexivity.
          + right. split; [reflexivity|]. left. reflexivity.
        - destruct (e_encoder E s1) as [e|].
          + destruct (lenN c <? max_enc_in_place).
            * destruct (enc_take (enc_write e c)) as [chunk e2]. cbv zeta.
              destruct (nonempty chunk).
              -- left. repeat split; discriminate.
              -- apply IH. reflexivity.
            * apply IH. reflexivity.
          + left. repeat split; discriminate. }
      pose proof (Hb s o Heof) as Hs.
      destruct (e_fut E s) as [e'|].
      + destruct (ask o) as [rdy o1]. destruct rdy; cbn [negb].
        2:{ left. repeat split; [exact Heof|discriminate]. }
        destruct (enc_take e') as [chunk e2]. cbv zeta.
        destruct (nonempty chunk).
        * left. repeat split; discriminate.
        * exact (Hb {| e_body := e_body E s; e_encoder := Some e2; e_fut := None; e_eof := false |} o1 eq_refl).
      + exact Hs.
  Qed.

  (* with eof set, a poll answers the end and polls nothing: state and oracle are untouched *)
  Lemma enc_poll_obs_eof : forall fuel s o, e_eof E s = true ->
    enc_poll_obs (S fuel) s o = (Ready None, s, o, O).
  Proof. intros fuel s o H. cbn [ContentCoding.enc_poll_obs]. rewrite H. reflexivity. Qed.

  (* ---- the whole response: up to the encoder's end the body answers None at most once *)
  Lemma enc_drive_obs_end : forall n s o,
    let '(_, _, fin, k) := enc_drive_obs n s o in
    (e_eof E s = true -> k = O) /\
    (e_eof E s = false -> (k <= 1)%nat /\ (fin = true -> k = 1%nat)).
  Proof.
    induction n as [|n IH]; intros s o.
    - cbn. split; intros _; [reflexivity|]. split; [lia|discriminate].
    - cbn [ContentCoding.enc_drive_obs]. unfold enc_fuel.
      destruct (e_eof E s) eqn:Heof.
      + rewrite enc_poll_obs_eof by exact Heof. split; [reflexivity|discriminate].
      + pose proof (enc_poll_obs_end (S (S (length (e_body E s)))) s o Heof) as Hp.
        destruct (enc_poll_obs (S (S (length (e_body E s)))) s o) as [[[r s'] o'] k].
        unfold poll_end_post in Hp.
        destruct Hp as [[Hk [Hs' Hr]]|[Hk Hr]].
        * subst k. destruct r as [|[c|]]; [| |congruence];
            (specialize (IH s' o'); destruct (enc_drive_obs n s' o') as [[[cs sf] fin] m];
             destruct IH as [_ IH]; specialize (IH Hs'); cbn [plus];
             split; [discriminate|intros _; exact IH]).
        * subst k. destruct Hr as [Hr|[[c Hr] Hs']]; subst r.
          -- split; [discriminate|intros _]. split; [lia|reflexivity].
          -- specialize (IH s' o'). destruct (enc_drive_obs n s' o') as [[[cs sf] fin] m].
             destruct IH as [IH _]. rewrite (IH Hs').
             split; [discriminate|intros _]. split; [lia|reflexivity].
  Qed.

  (* the statement of the property clause: from the state Encoder::response builds (any codec or
     none), for every body, every Pending pattern and every number of consumer polls, the wrapped
     body has answered None at most once when the consumer stops, and exactly once when it saw the
     encoder's end *)
  Theorem encoder_body_never_polled_after_its_end : forall (enc : option E) (body : list bytes) (o : list bool) (n : nat),
    let '(_, _, fin, nones) := enc_drive_obs n (enc_init E enc body) o in
    (nones <= 1)%nat /\ (fin = true -> nones = 1%nat).
  Proof.
    intros enc body o n. pose proof (enc_drive_obs_end n (enc_init E enc body) o) as H.
    destruct (enc_drive_obs n (enc_init E enc body) o) as [[[cs sf] fin] k].
    destruct H as [_ H]. apply H. reflexivity.
  Qed.

  (* the trailer: at the body's end a non-empty finish output is emitted with eof set, and the
     next poll, whatever the oracle, answers the end at once: nothing is polled (count 0, oracle
     and state unchanged) *)
  Theorem encoder_none_right_after_trailer : forall (e : E) (o o2 : list bool) (f1 f2 : nat),
    nonempty (enc_finish e) = true ->
    let s := {| e_body := []; e_encoder := Some e; e_fut := None; e_eof := false |} in
    exists s', enc_poll_obs (S f1) s (true :: o) = (Ready (Some (enc_finish e)), s', o, 1%nat) /\
               e_eof E s' = true /\
               enc_poll_obs (S f2) s' o2 = (Ready None, s', o2, O).
  Proof.
    intros e o o2 f1 f2 Hne s.
    exists {| e_body := []; e_encoder := None; e_fut := None; e_eof := true |}.
    split; [|split; [reflexivity|reflexivity]].
    cbn [ContentCoding.enc_poll_obs s e_eof e_fut e_body e_encoder ask negb]. rewrite Hne. reflexivity.
  Qed.
End EndProofs.
