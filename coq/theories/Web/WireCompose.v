(* C13 x C02 (x C08): "stale length headers are not sent".
   Composes the decision of Encoder::response / update_head (Web/Negotiate.v) with the exact model
   of the HTTP/1 response encoder built for C02 (H1/Encoder.v, reader H1/RespSpec.v, proofs
   H1/EncoderProofs.v; imported, not edited) and with the HTTP/2 header preparation of C08
   (H2/Prepare.v).  The H1 / H2 names are used qualified (both sides define `bsize`, `head`, ..). *)
From Coq Require Import String.
From AV Require Import Lib.Base.
From AV Require H1.Encoder H1.RespSpec H1.EncoderProofs H2.Prepare H2.PrepareProofs.
From AV Require Import Web.Negotiate Web.NegotiateProofs.

(* the body size Encoder::size reports, as the h1 / h2 encoders see it *)
Definition h1_size (s : bsize) : Encoder.bsize :=
  match s with SzNone => Encoder.BNone | SzSized n => Encoder.BSized n | SzStream => Encoder.BStream end.
Definition h2_size (s : bsize) : Prepare.bsize :=
  match s with SzNone => Prepare.SNone | SzSized n => Prepare.SSized n | SzStream => Prepare.SStream end.

(* the Response<()> handed to the h1 codec: status and NO_CHUNKING flag as Encoder::response left
   them; connection flag and header fields are whatever the handler and update_head produced
   (any list: the statement does not depend on it) *)
Definition h1_resp (h' : head) (conn : option Encoder.conn_t) (headers : list (bytes * bytes)) : Encoder.resp :=
  Encoder.mkResp (h_status h') conn (h_no_chunking h') headers.

Lemma fv_cl_of_fields (r : Encoder.resp) ct ver (len_fields : list (bytes * bytes)) :
  RespSpec.field_values "content-length" (EncoderProofs.user_fields true r) = [] ->
  (len_fields = [] \/ len_fields = [(Encoder.str "transfer-encoding", Encoder.str "chunked")]) ->
  RespSpec.field_values "content-length"
    (len_fields ++ EncoderProofs.conn_fields ct ver ++ EncoderProofs.user_fields true r ++ EncoderProofs.date_fields r) = [].
Proof.
  intros Hu Hl. rewrite !EncoderProofs.field_values_app, Hu.
  rewrite EncoderProofs.fv_conn by reflexivity. rewrite EncoderProofs.fv_date by reflexivity.
  destruct Hl as [->| ->]; reflexivity.
Qed.

Lemma framing_without_length st fields fr :
  RespSpec.no_body_status st = false ->
  RespSpec.field_values "content-length" fields = [] ->
  RespSpec.framing_of false st fields = Some fr -> fr = RespSpec.FChunked \/ fr = RespSpec.FClose.
Proof.
  intros Hst Hno H. unfold RespSpec.framing_of in H. cbn [orb] in H. rewrite Hst, Hno in H.
  destruct (RespSpec.field_values "transfer-encoding" fields).
  - inversion H. right. reflexivity.
  - destruct (bytes_eqb _ _); inversion H; [left|right]; reflexivity.
Qed.

(* HTTP/1: an encoded response never carries a content-length line, whatever the handler put
   into its headers and whatever it did with no_chunking; the body is chunk- or close-framed and
   an RFC 7230 reader recovers exactly the chunks the Encoder emitted *)
Theorem encoded_response_on_h1_wire :
  forall (enc : coding) (h : head) (size : bsize) (c : coding) (h' : head),
  encoder_response enc h size = (BEncode c, h') ->
  forall (cd : Encoder.codec) (conn : option Encoder.conn_t) (headers : list (bytes * bytes))
         (chunks : list bytes),
  Encoder.c_head cd = false -> Encoder.c_stream cd = false ->
  RespSpec.no_body_status (h_status h') = false ->
  EncoderProofs.lower_names headers ->
  Forall (fun b => lenN b < 2 ^ 64) chunks ->
  let r := h1_resp h' conn headers in
  let sz := h1_size (encoder_size (BEncode c) size) in
  let fields := Encoder.hd_fields (EncoderProofs.item_head cd r sz) in
  let cd1 := EncoderProofs.item_codec cd r sz in
  RespSpec.field_values "content-length" fields = [] /\
  exists cd3 tail f,
    Encoder.codec_encode_eof (fst (Encoder.codec_encode_chunks cd1 chunks)) = Some (cd3, tail) /\
    (f = RespSpec.FChunked \/ f = RespSpec.FClose) /\
    RespSpec.read_message false (h_status h') fields
      (snd (Encoder.codec_encode_chunks cd1 chunks) ++ tail) true =
    RespSpec.RComplete f (concat chunks) (lenN (snd (Encoder.codec_encode_chunks cd1 chunks) ++ tail)).
Proof.
  intros enc h size c h' Hdec cd conn headers chunks Hhead Hstream Hst Hlow Hch.
  destruct (response_label _ _ _ _ _ Hdec) as [_ [_ [_ [_ [_ [Hnc [Hsz _]]]]]]].
  cbv zeta. rewrite Hsz. cbn [h1_size]. set (r := h1_resp h' conn headers).
  assert (Hnc' : Encoder.rs_nochunk r = false) by exact Hnc.
  assert (H304 : Encoder.rs_status r <> 304).
  { cbn. intro E. unfold RespSpec.no_body_status in Hst. rewrite E in Hst. cbn in Hst. discriminate. }
  assert (Hno : RespSpec.field_values "content-length"
                  (Encoder.hd_fields (EncoderProofs.item_head cd r Encoder.BStream)) = []).
  { destruct (EncoderProofs.user_framing_headers_ignored cd r Encoder.BStream Hlow H304
               (or_introl (conj Hnc' Hstream))) as [lf [Hf [_ [Hcl [_ Hlf]]]]].
    rewrite Hf. apply fv_cl_of_fields; [exact Hcl|].
    destruct Hlf as [H|[H|[n [H _]]]]; [left; exact H|right; exact H|discriminate]. }
  split; [exact Hno|].
  assert (Hpre : Encoder.rs_nochunk r = true \/ Encoder.c_stream cd = true -> Encoder.BStream = Encoder.BStream ->
                 EncoderProofs.user_has "transfer-encoding" r = false /\ EncoderProofs.user_has "content-length" r = false).
  { intros [Hx|Hx]; [rewrite Hnc' in Hx; discriminate|rewrite Hstream in Hx; discriminate]. }
  pose proof (EncoderProofs.te_roundtrip cd r Encoder.BStream chunks Hhead Hst Hlow Hpre
                (fun n Hn => ltac:(discriminate)) Hch ltac:(discriminate)) as H.
  cbv zeta in H.
  destruct (Encoder.codec_encode_eof
              (fst (Encoder.codec_encode_chunks (EncoderProofs.item_codec cd r Encoder.BStream) chunks)))
    as [[cd3 tail]|] eqn:Ee.
  - destruct H as [_ [f Hf]]. exists cd3, tail, f. split; [reflexivity|].
    cbn [EncoderProofs.cut] in Hf. split; [|exact Hf].
    unfold RespSpec.read_message in Hf.
    destruct (RespSpec.framing_of false (Encoder.rs_status r) _) as [fr|] eqn:Efr; [|discriminate].
    destruct (framing_without_length _ _ _ Hst Hno Efr) as [-> | ->].
    + destruct (RespSpec.read_chunked _ _ _); inversion Hf. left. reflexivity.
    + inversion Hf. right. reflexivity.
  - exfalso. destruct H as [n [Hn _]]. discriminate.
Qed.

(* Outside the statement above (recorded, not claimed): a request that put the connection into
   STREAM mode (CONNECT / upgrade).  There Codec::encode forces no_chunking for a stream-sized
   response (C02's F18b repair), and a handler-supplied content-length IS forwarded in front of the
   encoded body. *)
Lemma stale_length_on_upgrade_request :
  exists (cd : Encoder.codec) (headers : list (bytes * bytes)),
    Encoder.c_stream cd = true /\
    RespSpec.field_values "content-length"
      (Encoder.hd_fields (EncoderProofs.item_head cd
         (h1_resp {| h_status := 400; h_content_encoding := Some (coding_name Gzip);
                     h_vary := [vary_accept_encoding]; h_no_chunking := false |} None headers)
         Encoder.BStream)) <> [].
Proof.
  exists (Encoder.codec_decode (Encoder.codec_new true) (Encoder.mkReq false Encoder.V11 None true false)),
         [(Encoder.str "content-length", Encoder.str "6100")].
  split; [reflexivity|]. vm_compute. discriminate.
Qed.

(* HTTP/2: prepare_response copies a handler-supplied content-length through when the body size is
   Stream, and h2 has no notion of no_chunking: the clause does NOT hold there *)
Lemma stale_length_on_h2 :
  exists hdrs, forall now,
    Prepare.values_of Prepare.h_content_length
      (fst (Prepare.prepare_response now 200 hdrs (h2_size (encoder_size (BEncode Gzip) (SzSized 6100)))))
    = [Encoder.str "6100"].
Proof. exists [(Prepare.h_content_length, Encoder.str "6100")]. intro now. vm_compute. reflexivity. Qed.

(* ... it holds exactly for handlers that did not put a content-length into their headers *)
Lemma no_length_on_h2_without_user_length now status hdrs size c :
  Prepare.values_of Prepare.h_content_length hdrs = [] ->
  Prepare.values_of Prepare.h_content_length
    (fst (Prepare.prepare_response now status hdrs (h2_size (encoder_size (BEncode c) size)))) = [].
Proof.
  intro H. cbn [encoder_size h2_size].
  pose proof (PrepareProofs.content_length_rule now status hdrs Prepare.SStream (fun _ => H)) as R.
  exact R.
Qed.

(* ---------------------------------------------------------------- the known classes and the
   positive statements outside them *)

(* class `stale-length-h1-stream-request`: the request put the h1 codec into STREAM mode
   (CONNECT / upgrade) AND the handler supplied a content-length header *)
Definition Known_stale_h1_stream (cd : Encoder.codec) (r : Encoder.resp) : Prop :=
  Encoder.c_stream cd = true /\ EncoderProofs.user_has "content-length" r = true.
(* class `stale-length-h2`: HTTP/2 AND the handler supplied a content-length header *)
Definition Known_stale_h2 (hdrs : list Prepare.header) : Prop :=
  Prepare.values_of Prepare.h_content_length hdrs <> [].

(* STREAM-mode request, handler without content-length / transfer-encoding header: the encoded
   response is close-framed, carries no content-length, and the reader recovers the stream *)
Theorem encoded_response_on_h1_stream_request :
  forall (enc : coding) (h : head) (size : bsize) (c : coding) (h' : head),
  encoder_response enc h size = (BEncode c, h') ->
  forall (cd : Encoder.codec) (conn : option Encoder.conn_t) (headers : list (bytes * bytes))
         (chunks : list bytes),
  Encoder.c_head cd = false -> Encoder.c_stream cd = true ->
  RespSpec.no_body_status (h_status h') = false ->
  EncoderProofs.lower_names headers ->
  let r := h1_resp h' conn headers in
  EncoderProofs.user_has "content-length" r = false ->
  EncoderProofs.user_has "transfer-encoding" r = false ->
  Forall (fun b => lenN b < 2 ^ 64) chunks ->
  let fields := Encoder.hd_fields (EncoderProofs.item_head cd r Encoder.BStream) in
  let cd1 := EncoderProofs.item_codec cd r Encoder.BStream in
  RespSpec.field_values "content-length" fields = [] /\
  exists cd3 tail f,
    Encoder.codec_encode_eof (fst (Encoder.codec_encode_chunks cd1 chunks)) = Some (cd3, tail) /\
    RespSpec.read_message false (h_status h') fields
      (snd (Encoder.codec_encode_chunks cd1 chunks) ++ tail) true =
    RespSpec.RComplete f (concat chunks) (lenN (snd (Encoder.codec_encode_chunks cd1 chunks) ++ tail)).
Proof.
  intros enc h size c h' Hdec cd conn headers chunks Hhead Hstream Hst Hlow r Hcl Hte Hch. cbv zeta.
  split.
  - rewrite EncoderProofs.item_head_eq.
    destruct (EncoderProofs.sa_cases cd r Encoder.BStream) as [[_ [E|E]]|[E _]];
      [rewrite Hstream in E; discriminate|congruence|].
    rewrite E, EncoderProofs.item_fields0.
    rewrite EncoderProofs.encode_headers_normal by exact Hst.
    cbn [Encoder.rs_nochunk negb andb].
    apply EncoderProofs.fv_cl_gen; [exact Hlow|right; exact Hcl].
  - pose proof (EncoderProofs.te_roundtrip cd r Encoder.BStream chunks Hhead Hst Hlow
                  (fun _ _ => conj Hte Hcl) (fun n Hn => ltac:(discriminate)) Hch ltac:(discriminate)) as H.
    cbv zeta in H.
    destruct (Encoder.codec_encode_eof
                (fst (Encoder.codec_encode_chunks (EncoderProofs.item_codec cd r Encoder.BStream) chunks)))
      as [[cd3 tail]|] eqn:Ee.
    + destruct H as [_ [f Hf]]. exists cd3, tail, f. split; [reflexivity|exact Hf].
    + exfalso. destruct H as [n [Hn _]]. discriminate.
Qed.
