(* C13 x C02 (x C08): "stale length headers are not sent".
   Composes the decision of Encoder::response / update_head (Web/Negotiate.v) with the exact model
   of the HTTP/1 response encoder built for C02 (H1/Encoder.v, reader H1/RespSpec.v, proofs
   H1/EncoderProofs.v; imported, not edited) and with the HTTP/2 header preparation of C08
   (H2/Prepare.v).  The H1 / H2 names are used qualified (both sides define `bsize`, `head`, ..). *)
From Coq Require Import String.
From AV Require Import Lib.Base.
From AV Require H1.Encoder H1.RespSpec H1.EncoderProofs H2.Prepare H2.PrepareProofs.
From AV Require Import Web.Negotiate Web.NegotiateProofs.

(* the body size Encoder::size reports, as the h1 / h2 encoders see it *)
Definition h1_size (s : bsize) : Encoder.bsize :=
  match s with SzNone => Encoder.BNone | SzSized n => Encoder.BSized n | SzStream => Encoder.BStream end.
Definition h2_size (s : bsize) : Prepare.bsize :=
  match s with SzNone => Prepare.SNone | SzSized n => Prepare.SSized n | SzStream => Prepare.SStream end.

(* the Content-Length field of a head, as a header field *)
Definition cl_fields (h' : head) : list (bytes * bytes) :=
  match h_content_length h' with Some v => [(Encoder.str "content-length", v)] | None => [] end.
Definition has_field (name : string) (hs : list (bytes * bytes)) : bool :=
  existsb (fun kv : bytes * bytes => Encoder.name_is (fst kv) name) hs.

(* the Response<()> handed to the h1 codec: status, NO_CHUNKING flag and Content-Length header as
   Encoder::response left them; [others] are the remaining header fields (handler's and
   update_head's: content-type, content-encoding, vary, ..), [conn] the connection flag *)
Definition h1_resp (h' : head) (conn : option Encoder.conn_t) (others : list (bytes * bytes)) : Encoder.resp :=
  Encoder.mkResp (h_status h') conn (h_no_chunking h') (cl_fields h' ++ others).
(* the header list handed to the h2 prepare_response *)
Definition h2_headers (h' : head) (others : list Prepare.header) : list Prepare.header := cl_fields h' ++ others.

Lemma fv_cl_of_fields (r : Encoder.resp) ct ver (len_fields : list (bytes * bytes)) :
  RespSpec.field_values "content-length" (EncoderProofs.user_fields true r) = [] ->
  (len_fields = [] \/ len_fields = [(Encoder.str "transfer-encoding", Encoder.str "chunked")]) ->
  RespSpec.field_values "content-length"
    (len_fields ++ EncoderProofs.conn_fields ct ver ++ EncoderProofs.user_fields true r ++ EncoderProofs.date_fields r) = [].
Proof.
  intros Hu Hl. rewrite !EncoderProofs.field_values_app, Hu.
  rewrite EncoderProofs.fv_conn by reflexivity. rewrite EncoderProofs.fv_date by reflexivity.
  destruct Hl as [->| ->]; reflexivity.
Qed.

Lemma framing_without_length st fields fr :
  RespSpec.no_body_status st = false ->
  RespSpec.field_values "content-length" fields = [] ->
  RespSpec.framing_of false st fields = Some fr -> fr = RespSpec.FChunked \/ fr = RespSpec.FClose.
Proof.
  intros Hst Hno H. unfold RespSpec.framing_of in H. cbn [orb] in H. rewrite Hst, Hno in H.
  destruct (RespSpec.field_values "transfer-encoding" fields).
  - inversion H. right. reflexivity.
  - destruct (bytes_eqb _ _); inversion H; [left|right]; reflexivity.
Qed.

Lemma complete_without_length st fields after f b n :
  RespSpec.no_body_status st = false ->
  RespSpec.field_values "content-length" fields = [] ->
  RespSpec.read_message false st fields after true = RespSpec.RComplete f b n ->
  f = RespSpec.FChunked \/ f = RespSpec.FClose.
Proof.
  intros Hst Hno Hf. unfold RespSpec.read_message in Hf.
  destruct (RespSpec.framing_of false st fields) as [fr|] eqn:Efr; [|discriminate].
  destruct (framing_without_length _ _ _ Hst Hno Efr) as [-> | ->].
  - destruct (RespSpec.read_chunked _ _ _); inversion Hf. left. reflexivity.
  - inversion Hf. right. reflexivity.
Qed.

(* HTTP/1, any response r whose NO_CHUNKING flag is off, on a connection that is not in STREAM mode *)
Lemma h1_wire_plain (cd : Encoder.codec) (r : Encoder.resp) (chunks : list bytes) :
  Encoder.c_head cd = false -> Encoder.c_stream cd = false -> Encoder.rs_nochunk r = false ->
  RespSpec.no_body_status (Encoder.rs_status r) = false ->
  EncoderProofs.lower_names (Encoder.rs_headers r) ->
  Forall (fun b => lenN b < 2 ^ 64) chunks ->
  let fields := Encoder.hd_fields (EncoderProofs.item_head cd r Encoder.BStream) in
  let cd1 := EncoderProofs.item_codec cd r Encoder.BStream in
  RespSpec.field_values "content-length" fields = [] /\
  exists cd3 tail f,
    Encoder.codec_encode_eof (fst (Encoder.codec_encode_chunks cd1 chunks)) = Some (cd3, tail) /\
    RespSpec.read_message false (Encoder.rs_status r) fields
      (snd (Encoder.codec_encode_chunks cd1 chunks) ++ tail) true =
    RespSpec.RComplete f (concat chunks) (lenN (snd (Encoder.codec_encode_chunks cd1 chunks) ++ tail)).
Proof.
  intros Hhead Hstream Hnc Hst Hlow Hch. cbv zeta.
  assert (H304 : Encoder.rs_status r <> 304).
  { intro E. unfold RespSpec.no_body_status in Hst. rewrite E in Hst. cbn in Hst. discriminate. }
  split.
  - destruct (EncoderProofs.user_framing_headers_ignored cd r Encoder.BStream Hlow H304
               (or_introl (conj Hnc Hstream))) as [lf [Hf [_ [Hcl [_ Hlf]]]]].
    rewrite Hf. apply fv_cl_of_fields; [exact Hcl|].
    destruct Hlf as [H|[H|[n [H _]]]]; [left; exact H|right; exact H|discriminate].
  - assert (Hpre : Encoder.rs_nochunk r = true \/ Encoder.c_stream cd = true -> Encoder.BStream = Encoder.BStream ->
                   EncoderProofs.user_has "transfer-encoding" r = false /\ EncoderProofs.user_has "content-length" r = false).
    { intros [Hx|Hx]; [rewrite Hnc in Hx; discriminate|rewrite Hstream in Hx; discriminate]. }
    pose proof (EncoderProofs.te_roundtrip cd r Encoder.BStream chunks Hhead Hst Hlow Hpre
                  (fun n Hn => ltac:(discriminate)) Hch ltac:(discriminate)) as H.
    cbv zeta in H.
    destruct (Encoder.codec_encode_eof
                (fst (Encoder.codec_encode_chunks (EncoderProofs.item_codec cd r Encoder.BStream) chunks)))
      as [[cd3 tail]|] eqn:Ee.
    + destruct H as [_ [f Hf]]. exists cd3, tail, f. split; [reflexivity|exact Hf].
    + exfalso. destruct H as [n [Hn _]]. discriminate.
Qed.

(* HTTP/1, a connection in STREAM mode (CONNECT / upgrade request): needs a response without
   content-length / transfer-encoding header fields *)
Lemma h1_wire_stream (cd : Encoder.codec) (r : Encoder.resp) (chunks : list bytes) :
  Encoder.c_head cd = false -> Encoder.c_stream cd = true ->
  RespSpec.no_body_status (Encoder.rs_status r) = false ->
  EncoderProofs.lower_names (Encoder.rs_headers r) ->
  EncoderProofs.user_has "content-length" r = false ->
  EncoderProofs.user_has "transfer-encoding" r = false ->
  Forall (fun b => lenN b < 2 ^ 64) chunks ->
  let fields := Encoder.hd_fields (EncoderProofs.item_head cd r Encoder.BStream) in
  let cd1 := EncoderProofs.item_codec cd r Encoder.BStream in
  RespSpec.field_values "content-length" fields = [] /\
  exists cd3 tail f,
    Encoder.codec_encode_eof (fst (Encoder.codec_encode_chunks cd1 chunks)) = Some (cd3, tail) /\
    RespSpec.read_message false (Encoder.rs_status r) fields
      (snd (Encoder.codec_encode_chunks cd1 chunks) ++ tail) true =
    RespSpec.RComplete f (concat chunks) (lenN (snd (Encoder.codec_encode_chunks cd1 chunks) ++ tail)).
Proof.
  intros Hhead Hstream Hst Hlow Hcl Hte Hch. cbv zeta. split.
  - rewrite EncoderProofs.item_head_eq.
    destruct (EncoderProofs.sa_cases cd r Encoder.BStream) as [[_ [E|E]]|[E _]];
      [rewrite Hstream in E; discriminate|congruence|].
    rewrite E, EncoderProofs.item_fields0.
    rewrite EncoderProofs.encode_headers_normal by exact Hst.
    cbn [Encoder.rs_nochunk negb andb].
    apply EncoderProofs.fv_cl_gen; [exact Hlow|right; exact Hcl].
  - pose proof (EncoderProofs.te_roundtrip cd r Encoder.BStream chunks Hhead Hst Hlow
                  (fun _ _ => conj Hte Hcl) (fun n Hn => ltac:(discriminate)) Hch ltac:(discriminate)) as H.
    cbv zeta in H.
    destruct (Encoder.codec_encode_eof
                (fst (Encoder.codec_encode_chunks (EncoderProofs.item_codec cd r Encoder.BStream) chunks)))
      as [[cd3 tail]|] eqn:Ee.
    + destruct H as [_ [f Hf]]. exists cd3, tail, f. split; [reflexivity|exact Hf].
    + exfalso. destruct H as [n [Hn _]]. discriminate.
Qed.

(* HTTP/1 (repaired code, F29): for EVERY request context of a non-HEAD request, an encoded
   response never carries a content-length line, whatever the handler announced; the body is chunk-
   or close-framed and an RFC 7230 reader recovers exactly the chunks the Encoder emitted.
   (For a CONNECT / upgrade request the handler must not have set its own transfer-encoding.) *)
Theorem encoded_response_on_h1_wire :
  forall (enc : coding) (h : head) (size : bsize) (c : coding) (h' : head),
  encoder_response enc h size = (BEncode c, h') ->
  forall (cd : Encoder.codec) (conn : option Encoder.conn_t) (others : list (bytes * bytes))
         (chunks : list bytes),
  Encoder.c_head cd = false ->
  RespSpec.no_body_status (h_status h') = false ->
  EncoderProofs.lower_names others ->
  has_field "content-length" others = false ->
  (Encoder.c_stream cd = true -> has_field "transfer-encoding" others = false) ->
  Forall (fun b => lenN b < 2 ^ 64) chunks ->
  let r := h1_resp h' conn others in
  let sz := h1_size (encoder_size (BEncode c) size) in
  let fields := Encoder.hd_fields (EncoderProofs.item_head cd r sz) in
  let cd1 := EncoderProofs.item_codec cd r sz in
  RespSpec.field_values "content-length" fields = [] /\
  exists cd3 tail f,
    Encoder.codec_encode_eof (fst (Encoder.codec_encode_chunks cd1 chunks)) = Some (cd3, tail) /\
    (f = RespSpec.FChunked \/ f = RespSpec.FClose) /\
    RespSpec.read_message false (h_status h') fields
      (snd (Encoder.codec_encode_chunks cd1 chunks) ++ tail) true =
    RespSpec.RComplete f (concat chunks) (lenN (snd (Encoder.codec_encode_chunks cd1 chunks) ++ tail)).
Proof.
  intros enc h size c h' Hdec cd conn others chunks Hhead Hst Hlow Hcl Hte Hch.
  destruct (response_label _ _ _ _ _ Hdec) as [_ [_ [_ [_ [_ [Hnc [Hnone [Hsz _]]]]]]]].
  cbv zeta. rewrite Hsz. cbn [h1_size].
  assert (Er : h1_resp h' conn others = Encoder.mkResp (h_status h') conn false others).
  { unfold h1_resp, cl_fields. rewrite Hnc, Hnone. reflexivity. }
  rewrite Er. set (r := Encoder.mkResp (h_status h') conn false others).
  assert (Hmain : RespSpec.field_values "content-length"
                    (Encoder.hd_fields (EncoderProofs.item_head cd r Encoder.BStream)) = [] /\
                  exists cd3 tail f,
                    Encoder.codec_encode_eof (fst (Encoder.codec_encode_chunks
                       (EncoderProofs.item_codec cd r Encoder.BStream) chunks)) = Some (cd3, tail) /\
                    RespSpec.read_message false (Encoder.rs_status r)
                      (Encoder.hd_fields (EncoderProofs.item_head cd r Encoder.BStream))
                      (snd (Encoder.codec_encode_chunks (EncoderProofs.item_codec cd r Encoder.BStream) chunks) ++ tail) true =
                    RespSpec.RComplete f (concat chunks)
                      (lenN (snd (Encoder.codec_encode_chunks (EncoderProofs.item_codec cd r Encoder.BStream) chunks) ++ tail))).
  { destruct (Encoder.c_stream cd) eqn:Es.
    - apply h1_wire_stream; try assumption; try exact Hcl; try exact (Hte eq_refl).
    - apply h1_wire_plain; try assumption; try reflexivity. }
  destruct Hmain as [Hno [cd3 [tail [f [He Hf]]]]]. split; [exact Hno|].
  exists cd3, tail, f. split; [exact He|]. split; [|exact Hf].
  exact (complete_without_length _ _ _ _ _ _ Hst Hno Hf).
Qed.

(* HTTP/2 (repaired code): no content-length is announced for an encoded response, whatever the
   handler announced *)
Theorem encoded_response_on_h2 :
  forall (enc : coding) (h : head) (size : bsize) (c : coding) (h' : head),
  encoder_response enc h size = (BEncode c, h') ->
  forall (now : bytes) (others : list Prepare.header),
  Prepare.values_of Prepare.h_content_length others = [] ->
  Prepare.values_of Prepare.h_content_length
    (fst (Prepare.prepare_response now (h_status h') (h2_headers h' others)
            (h2_size (encoder_size (BEncode c) size)))) = [].
Proof.
  intros enc h size c h' Hdec now others Ho.
  destruct (response_label _ _ _ _ _ Hdec) as [_ [_ [_ [_ [_ [_ [Hnone _]]]]]]].
  unfold h2_headers, cl_fields. rewrite Hnone. cbn [app encoder_size h2_size].
  exact (PrepareProofs.content_length_rule now (h_status h') others Prepare.SStream (fun _ => Ho)).
Qed.

(* ---------------------------------------------------------------- before the repair F29 *)
(* update_head left the handler's Content-Length in the head; two paths forwarded it in front of
   the encoded body (both reproduced on the implementation before commit 933caef) *)
Definition head_announcing_6100 : head :=
  {| h_status := 200; h_content_encoding := None; h_vary := []; h_no_chunking := true;
     h_content_length := Some (Encoder.str "6100") |}.

Lemma before_F29_stale_length_on_upgrade_request :
  let h' := update_head_before_F29 Gzip head_announcing_6100 in
  let cd := Encoder.codec_decode (Encoder.codec_new true) (Encoder.mkReq false Encoder.V11 None true false) in
  Encoder.c_stream cd = true /\
  RespSpec.field_values "content-length"
    (Encoder.hd_fields (EncoderProofs.item_head cd (h1_resp h' None []) Encoder.BStream)) = [Encoder.str "6100"] /\
  RespSpec.field_values "content-length"
    (Encoder.hd_fields (EncoderProofs.item_head cd (h1_resp (update_head Gzip head_announcing_6100) None [])
                                                Encoder.BStream)) = [].
Proof. vm_compute. repeat split. Qed.

Lemma before_F29_stale_length_on_h2 : forall now,
  Prepare.values_of Prepare.h_content_length
    (fst (Prepare.prepare_response now 200 (h2_headers (update_head_before_F29 Gzip head_announcing_6100) [])
            Prepare.SStream)) = [Encoder.str "6100"] /\
  Prepare.values_of Prepare.h_content_length
    (fst (Prepare.prepare_response now 200 (h2_headers (update_head Gzip head_announcing_6100) [])
            Prepare.SStream)) = [].
Proof. intro now. vm_compute. split; reflexivity. Qed.
