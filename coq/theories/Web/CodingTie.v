(* C13: Web/Negotiate.v and Web/ContentCoding.v are the interpretation of the tables that
   tools/gen/content_coding.py read from encoder.rs / decoder.rs (Gen/CodingTables.v, regenerated on
   every check).  A changed disjunct of should_encode, a changed short-cut arm, a changed in-place
   comparison, a changed / dropped / reordered statement of update_head, or `write` in place of
   `write_all` changes the generated table and these lemmas no longer prove. *)
From AV Require Import Lib.Base Gen.CodingTables Web.Negotiate Web.ContentCoding Web.ContentCodingSelect.
Open Scope N_scope.

(* ---- should_encode *)
Definition exclude_holds (enc : coding) (h : head) (x : exclude) : bool :=
  match x with
  | XContentEncodingPresent => match h_content_encoding h with Some _ => true | None => false end
  | XStatus n => h_status h =? n
  | XIdentity => coding_eqb enc Identity
  end.
Definition should_encode (enc : coding) (h : head) : bool :=
  negb (existsb (exclude_holds enc h) SHOULD_ENCODE_EXCLUDES).

(* ---- the short-cut arms of `match body.size()` *)
Definition empty_arm (size : bsize) : option empty_result :=
  match find (fun a : empty_size * empty_result =>
                match fst a, size with
                | ESNone, SzNone => true
                | ESSized n, SzSized m => n =? m
                | _, _ => false
                end) EMPTY_SIZE_ARMS with
  | Some a => Some (snd a)
  | None => None
  end.

(* ---- update_head as the generated statement list *)
Definition apply_stmt (c : coding) (h : head) (s : head_stmt) : head :=
  match s with
  | UInsertContentEncoding =>
      {| h_status := h_status h; h_content_encoding := Some (coding_name c); h_vary := h_vary h;
         h_no_chunking := h_no_chunking h; h_content_length := h_content_length h |}
  | UAppendVaryAcceptEncoding =>
      {| h_status := h_status h; h_content_encoding := h_content_encoding h;
         h_vary := h_vary h ++ [vary_accept_encoding];
         h_no_chunking := h_no_chunking h; h_content_length := h_content_length h |}
  | URemoveContentLength =>
      {| h_status := h_status h; h_content_encoding := h_content_encoding h; h_vary := h_vary h;
         h_no_chunking := h_no_chunking h; h_content_length := None |}
  | UNoChunking v =>
      {| h_status := h_status h; h_content_encoding := h_content_encoding h; h_vary := h_vary h;
         h_no_chunking := v; h_content_length := h_content_length h |}
  end.

Lemma update_head_tie : forall c h, update_head c h = fold_left (apply_stmt c) UPDATE_HEAD_STMTS h.
Proof. intros c [s ce v nc cl]. reflexivity. Qed.

(* Encoder::response = the generated short-cut arms, then the generated should_encode *)
Lemma encoder_response_tie : forall enc h size,
  encoder_response enc h size =
  match empty_arm size with
  | Some RNone => (BNone, h)
  | Some REmpty => (BEmpty, h)
  | None => if should_encode enc h && selectable enc
            then (BEncode enc, fold_left (apply_stmt enc) UPDATE_HEAD_STMTS h) else (BPass, h)
  end.
Proof.
  intros enc h size. rewrite <- update_head_tie.
  unfold encoder_response, empty_arm, should_encode, EMPTY_SIZE_ARMS, SHOULD_ENCODE_EXCLUDES.
  cbn [find fst snd existsb exclude_holds].
  destruct size as [|n|]; try reflexivity.
  - destruct n as [|p]; [reflexivity|]. change (0 =? N.pos p) with false. cbn iota.
    rewrite !orb_false_r, !orb_assoc. reflexivity.
  - rewrite !orb_false_r, !orb_assoc. reflexivity.
Qed.

(* ---- the in-place comparisons *)
Definition in_place (op : in_place_op) (len threshold : N) : bool :=
  match op with OpGt => threshold <? len | OpGe => threshold <=? len | OpLt => len <? threshold | OpLe => len <=? threshold end.

Section Machines.
  Variable E : Type.
  Variable enc_write : E -> bytes -> E.
  Variable enc_take : E -> bytes * E.
  Variable enc_finish : E -> bytes.
  Variable D : Type.
  Variable dec_feed : D -> bytes -> option (bytes * D).
  Variable dec_eof : D -> option bytes.
  Variable max_enc max_dec : N.

  (* Encoder::poll_next, a body chunk with an encoder installed: in place iff the source's test *)
  Lemma enc_in_place_tie : forall fuel c rest e o,
    enc_poll E enc_write enc_take enc_finish max_enc (S fuel)
      {| e_body := c :: rest; e_encoder := Some e; e_fut := None; e_eof := false |} (true :: o) =
    if in_place ENC_IN_PLACE_OP (lenN c) max_enc then
      let '(chunk, e2) := enc_take (enc_write e c) in
      let s2 := {| e_body := rest; e_encoder := Some e2; e_fut := None; e_eof := false |} in
      if nonempty chunk then (Ready (Some chunk), s2, o)
      else enc_poll E enc_write enc_take enc_finish max_enc fuel s2 o
    else enc_poll E enc_write enc_take enc_finish max_enc fuel
           {| e_body := rest; e_encoder := None; e_fut := Some (enc_write e c); e_eof := false |} o.
  Proof. intros. reflexivity. Qed.

  Lemma dec_in_place_tie : forall fuel c rest d o,
    dec_poll D dec_feed dec_eof max_dec (S fuel)
      {| d_in := c :: rest; d_decoder := Some d; d_fut := None; d_eof := false |} (true :: o) =
    if in_place DEC_IN_PLACE_OP (lenN c) max_dec then
      match dec_feed d c with
      | None => (Ready (Some DErr), {| d_in := rest; d_decoder := None; d_fut := None; d_eof := false |}, o)
      | Some (out, d2) =>
          let s2 := {| d_in := rest; d_decoder := Some d2; d_fut := None; d_eof := false |} in
          if nonempty out then (Ready (Some (DChunk out)), s2, o)
          else dec_poll D dec_feed dec_eof max_dec fuel s2 o
      end
    else dec_poll D dec_feed dec_eof max_dec fuel
           {| d_in := rest; d_decoder := None; d_fut := Some (dec_feed d c); d_eof := false |} o.
  Proof. intros. reflexivity. Qed.

  (* Encoder::poll_next, the wrapped body answers None: which of the three returns of that arm is
     taken, whether eof is set before it and what is returned are the generated rows *)
  Definition end_arm_of (enc : option E) : end_arm :=
    match enc with
    | None => EndNoEncoder
    | Some e => if nonempty (enc_finish e) then EndFinishChunk else EndFinishEmpty
    end.
  Definition end_arm_row (a : end_arm) : option (bool * end_ret) :=
    match find (fun r : end_arm * bool * end_ret =>
                  match fst (fst r), a with
                  | EndFinishEmpty, EndFinishEmpty | EndFinishChunk, EndFinishChunk | EndNoEncoder, EndNoEncoder => true
                  | _, _ => false
                  end) ENC_BODY_END_ARMS with
    | Some r => Some (snd (fst r), snd r)
    | None => None
    end.
  Lemma enc_body_end_tie : forall fuel enc o,
    let s := {| e_body := []; e_encoder := enc; e_fut := None; e_eof := false |} in
    let '(r, s', _) := enc_poll E enc_write enc_take enc_finish max_enc (S fuel) s (true :: o) in
    exists sets_eof ret, end_arm_row (end_arm_of enc) = Some (sets_eof, ret) /\
      e_eof E s' = sets_eof /\
      match ret with
      | RetEnd => r = Ready None
      | RetChunk => exists e, enc = Some e /\ r = Ready (Some (enc_finish e))
      end.
  Proof.
    intros fuel enc o s. subst s. cbn [enc_poll e_eof e_fut e_body e_encoder ask negb].
    destruct enc as [e|]; cbn [end_arm_of].
    - cbv zeta. destruct (nonempty (enc_finish e)).
      + exists true, RetChunk. repeat split. exists e. split; reflexivity.
      + exists false, RetEnd. repeat split.
    - exists false, RetEnd. repeat split.
  Qed.
End Machines.

(* ---- impl FromStr for ContentEncoding = trim (when the source trims) + the generated chain;
   Decoder::from_headers falls back to the generated variant; Decoder::new builds a decoder for
   exactly the generated variants, each with the decoder of its own name *)
Definition variant_coding (v : ce_variant) : coding :=
  match v with CEIdentity => Identity | CEBrotli => Brotli | CEDeflate => Deflate | CEGzip => Gzip | CEZstd => Zstd end.
Definition cmp_fn (c : str_cmp) (a lit : bytes) : bool :=
  match c with CmpIgnoreAsciiCase => eq_ignore_ascii_case a lit | CmpExact => bytes_eqb a lit end.
Fixpoint from_str_chain (arms : list (str_cmp * list N * ce_variant)) (enc : bytes) : option coding :=
  match arms with
  | [] => None
  | (c, lit, v) :: r => if cmp_fn c enc lit then Some (variant_coding v) else from_str_chain r enc
  end.

Lemma from_str_tie : forall enc,
  content_encoding_from_str enc = from_str_chain CE_FROM_STR_ARMS (if CE_FROM_STR_TRIMS then trim enc else enc).
Proof. intro enc. reflexivity. Qed.

Lemma from_headers_fallback_tie : forall v more,
  decoder_from_headers [] = variant_coding DEC_FROM_HEADERS_FALLBACK /\
  (to_str_ok v = false \/ content_encoding_from_str v = None ->
   decoder_from_headers (v :: more) = variant_coding DEC_FROM_HEADERS_FALLBACK).
Proof.
  intros v more. split; [reflexivity|]. unfold decoder_from_headers. intros [H|H]; rewrite H; [reflexivity|].
  destruct (to_str_ok v); reflexivity.
Qed.

Lemma decoder_new_tie : forall c,
  decoder_new_has c = existsb (fun a : ce_variant * ce_variant => coding_eqb (variant_coding (fst a)) c) DECODER_NEW_ARMS /\
  forallb (fun a : ce_variant * ce_variant => coding_eqb (variant_coding (fst a)) (variant_coding (snd a))) DECODER_NEW_ARMS = true.
Proof. intro c. split; [destruct c; reflexivity|reflexivity]. Qed.

(* ---- ContentEncoder::write hands the WHOLE chunk to the codec in every arm (`write_all`): this is
   what the model's total `enc_write : E -> bytes -> E` and the premise codec_law (everything
   written is decoded back) stand for.  With `write` a prefix may be consumed silently. *)
Lemma encoder_write_consumes_all : ENCODER_WRITE_ALL_ARMS = 4%nat /\ ENCODER_WRITE_PARTIAL_ARMS = 0%nat.
Proof. split; reflexivity. Qed.
