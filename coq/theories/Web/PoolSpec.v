(* C11 specification: what a handler may observe about a request is a function of that request
   and of the application configuration alone. *)
From AV Require Import Lib.Base Web.Pool.

Section Spec.
Variable requote : bytes -> option bytes.   (* the path quoter (external) *)
Variable root : container.                  (* App::app_data *)

(* What a producer conveys of the request it was given: the h1/h2 transports and the actix-web
   test builder convey everything; actix_http's test builder has no peer address (None, the
   default); [Request::new()] conveys nothing but the request-local data: the head is
   [RequestHead::default()] (GET / HTTP/1.1, no headers, no peer, no flags). *)
Definition conveyed (q : reqd) : reqd :=
  match q_prod q with
  | PH1 | PTest => q
  | PHttpTest => mkReq PHttpTest (q_method q) (q_uri q) (q_version q) (q_headers q) None
                       (q_flags q) (q_exts q) (q_conn q)
  | PRaw => mkReq PRaw [71; 69; 84] [47] 11 [] None 0 (q_exts q) (q_conn q)
  end.

(* The view a handler has of request [q] when it enters the router, written down directly:
   every field comes from (what the producer conveys of) [q] or from the configuration. *)
Definition spec_view (q : reqd) : view :=
  let c := conveyed q in
  mkView (q_method c) (q_uri c) (q_version c) (q_headers c) (q_peer c) (q_flags c)
         (q_uri c) (requote (q_uri c)) 0 [] [] false
         [root] (q_conn c) (q_exts c).

(* the state of a recycled request object while it waits in the pool *)
Definition pooled_clean (o : obj) : Prop :=
  o_app_data o = [root] /\ o_exts o = [] /\ o_conn o = None.

(* a request object in use: its application-data stack still starts with the root container *)
Definition rooted (o : obj) : Prop := exists tl, o_app_data o = root :: tl.
End Spec.

(* things done to a request between the router entry and the handler's look at it *)
Inductive hact := HMut (m : mut) | HExt (t v : N).
Definition apply_hact (o : obj) (a : hact) : obj :=
  match a with HMut m => apply_mut o m | HExt t v => obj_ext_insert o t v end.
