(* C11 specification: what a handler may observe about a request is a function of that request
   and of the application configuration alone. *)
From AV Require Import Lib.Base Web.Pool.

Section Spec.
Variable requote : bytes -> option bytes.   (* the path quoter (external) *)
Variable root : container.                  (* App::app_data *)

(* The view a handler has of request [q] when it enters the router, written down directly:
   every field comes from [q] or from the configuration. *)
Definition spec_view (q : reqd) : view :=
  mkView (q_method q) (q_uri q) (q_version q) (q_headers q) (q_peer q) (q_flags q)
         (q_uri q) (requote (q_uri q)) 0 [] [] false
         [root] (q_conn q) (q_exts q).

(* the state of a recycled request object while it waits in the pool *)
Definition pooled_clean (o : obj) : Prop :=
  o_app_data o = [root] /\ o_exts o = [] /\ o_conn o = None.

(* a request object in use: its application-data stack still starts with the root container *)
Definition rooted (o : obj) : Prop := exists tl, o_app_data o = root :: tl.

(* the decidable class of cases touched by the known finding: the request's head was filled by
   a producer that does not write every field [RequestHead::clear] leaves alone *)
Definition known_partial_producer (q : reqd) : Prop := full_producer (q_prod q) = false.
End Spec.

(* things done to a request between the router entry and the handler's look at it *)
Inductive hact := HMut (m : mut) | HExt (t v : N).
Definition apply_hact (o : obj) (a : hact) : obj :=
  match a with HMut m => apply_mut o m | HExt t v => obj_ext_insert o t v end.
