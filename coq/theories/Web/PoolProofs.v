(* Proofs for C11 (Web/Pool.v against Web/PoolSpec.v). *)
From Coq Require Import Permutation.
From AV Require Import Lib.Base Web.Pool Web.PoolSpec.

Section Proofs.
Variable HCAP RCAP : N.
Variable requote : bytes -> option bytes.
Variable root : container.

Notation stepP := (step HCAP RCAP requote root).
Notation runP := (run HCAP RCAP requote root).
Notation requestP := (request HCAP requote root).
Notation clean := (pooled_clean root).
Notation rootedP := (rooted root).

(* ------------------------------------------------------------------ invariant *)
Definition Inv (s : st) : Prop :=
  Forall clean (s_rpool s) /\
  Forall (fun e => rootedP (l_obj e)) (s_live s) /\
  lenN (s_rpool s) <= RCAP /\
  lenN (s_hpool s) <= HCAP.

Lemma lenN_cons {A} (x : A) l : lenN (x :: l) = lenN l + 1.
Proof. unfold lenN. cbn [length]. lia. Qed.
Lemma lenN_nil {A} : lenN (@nil A) = 0.
Proof. reflexivity. Qed.

Lemma Inv_init : Inv st_init.
Proof.
  unfold Inv, st_init; cbn. repeat split; try constructor; unfold lenN; cbn; lia.
Qed.

(* --- the live table *)
Lemma find_live_In k l e : find_live k l = Some e -> In e l.
Proof.
  induction l as [|x l IH]; cbn [find_live]; [discriminate|].
  destruct (l_key x =? k); intro H; [inversion H; subst; left; reflexivity | right; auto].
Qed.

Lemma Forall_set_live (P : lent -> Prop) k e' l : Forall P l -> P e' -> Forall P (set_live k e' l).
Proof.
  intros H He. induction H as [|x l Hx Hl IH]; cbn [set_live]; [constructor|].
  destruct (l_key x =? k); constructor; auto.
Qed.

Lemma Forall_del_live (P : lent -> Prop) k l : Forall P l -> Forall P (del_live k l).
Proof.
  intros H. induction H as [|x l Hx Hl IH]; cbn [del_live]; [constructor|].
  destruct (l_key x =? k); [assumption | constructor; auto].
Qed.

Lemma find_set_live k e' l e :
  find_live k l = Some e -> l_key e' = k -> find_live k (set_live k e' l) = Some e'.
Proof.
  intros H Hk. induction l as [|x l IH]; cbn [find_live set_live] in *; [discriminate|].
  destruct (l_key x =? k) eqn:E; cbn [find_live].
  - rewrite Hk, N.eqb_refl. reflexivity.
  - rewrite E. auto.
Qed.

(* --- the head pool *)
Lemma head_release_len hp h : lenN hp <= HCAP -> lenN (head_release HCAP hp h) <= HCAP.
Proof.
  intro H. unfold head_release. destruct (lenN hp <? HCAP) eqn:E; [|assumption].
  rewrite lenN_cons. lia.
Qed.

Lemma fold_release_len hs hp :
  lenN hp <= HCAP -> lenN (fold_left (head_release HCAP) hs hp) <= HCAP.
Proof.
  revert hp. induction hs as [|h hs IH]; intros hp H; cbn [fold_left]; [assumption|].
  apply IH, head_release_len, H.
Qed.

Lemma head_get_len hp n : lenN (snd (head_get hp n)) <= lenN hp.
Proof. destruct hp; cbn [head_get snd]; [lia | rewrite lenN_cons; lia]. Qed.

(* [Message::new()] always hands out [RequestHead::default()]: a new head, or a recycled one
   that [RequestHead::clear] has just reset field by field *)
Lemma head_get_default hp n : exists id, fst (head_get hp n) = head_default id.
Proof. destruct hp as [|h r]; cbn [head_get fst]; [exists n | exists (h_id h)]; reflexivity. Qed.

(* --- mutations keep the root container at the bottom of the application-data stack *)
Lemma apply_mut_rooted o m : rootedP o -> rootedP (apply_mut o m).
Proof.
  intros [tl H]. destruct m; cbn [apply_mut]; unfold rooted; cbn [o_app_data];
    try (exists tl; exact H).
  exists (tl ++ [c]). rewrite H. reflexivity.
Qed.

Lemma ext_insert_rooted o t v : rootedP o -> rootedP (obj_ext_insert o t v).
Proof. intros [tl H]. exists tl. exact H. Qed.

(* [Drop for HttpRequest] leaves the object in the state [pooled_clean]: this is where
   truncate(1), extensions.clear() and conn_data = None are needed *)
Lemma scrub_clean o : rootedP o -> clean (obj_scrub o).
Proof.
  intros [tl H]. unfold pooled_clean, obj_scrub; cbn [o_app_data o_exts o_conn].
  rewrite H. cbn [firstn]. repeat split; reflexivity.
Qed.

(* --- the object handed to the router *)
Definition req_head (s : st) (q : reqd) : head :=
  produce (fst (head_get (s_hpool s) (s_nreq s))) q.

Lemma request_obj s q :
  snd (requestP s q) =
  match s_rpool s with
  | o :: _ => obj_reinit requote o (req_head s q) q
  | [] => obj_fresh requote root (s_nreq s) (req_head s q) q
  end.
Proof.
  unfold request, req_head. destruct (head_get (s_hpool s) (s_nreq s)) as [h0 hp1].
  destruct (s_rpool s); reflexivity.
Qed.

Lemma request_st s q :
  fst (requestP s q) =
  match s_rpool s with
  | o :: rest =>
      mkSt (head_release HCAP (snd (head_get (s_hpool s) (s_nreq s))) (o_head o)) rest (s_enabled s)
           (mkLent (s_nreq s) (obj_reinit requote o (req_head s q) q) 1 :: s_live s) (s_nreq s + 1)
  | [] =>
      mkSt (snd (head_get (s_hpool s) (s_nreq s))) [] (s_enabled s)
           (mkLent (s_nreq s) (obj_fresh requote root (s_nreq s) (req_head s q) q) 1 :: s_live s)
           (s_nreq s + 1)
  end.
Proof.
  unfold request, req_head. destruct (head_get (s_hpool s) (s_nreq s)) as [h0 hp1].
  destruct (s_rpool s); reflexivity.
Qed.

Lemma request_rooted s q : Inv s -> rootedP (snd (requestP s q)).
Proof.
  intros (Hc & _). rewrite request_obj. destruct (s_rpool s) as [|o r].
  - exists []. reflexivity.
  - inversion Hc as [|? ? (Ha & _) _]; subst. exists []. cbn [obj_reinit o_app_data]. exact Ha.
Qed.

Lemma request_inv s q : Inv s -> Inv (fst (requestP s q)).
Proof.
  intros HI. pose proof (request_rooted s q HI) as Hr. rewrite request_obj in Hr.
  destruct HI as (Hc & Hl & Hb & Hh). rewrite request_st.
  pose proof (head_get_len (s_hpool s) (s_nreq s)) as Hg.
  destruct (s_rpool s) as [|o r]; unfold Inv; cbn [s_rpool s_live s_hpool l_obj].
  - repeat split; [constructor | constructor; [exact Hr|exact Hl] | rewrite lenN_nil; lia | lia].
  - inversion Hc; subst. rewrite lenN_cons in Hb.
    repeat split; [assumption | constructor; [exact Hr|exact Hl] | lia |].
    apply head_release_len. lia.
Qed.

Lemma drop_last_inv s k o : Inv s -> rootedP o -> Inv (drop_last HCAP RCAP s k o).
Proof.
  intros (Hc & Hl & Hb & Hh) Ho. unfold drop_last, pool_available.
  destruct (s_enabled s && (lenN (s_rpool s) <? RCAP)) eqn:E; unfold Inv; cbn [s_rpool s_live s_hpool].
  - apply andb_true_iff in E as [_ E].
    repeat split; [constructor; [apply scrub_clean, Ho | exact Hc] | apply Forall_del_live, Hl
                  | rewrite lenN_cons; lia | exact Hh].
  - repeat split; [exact Hc | apply Forall_del_live, Hl | exact Hb | apply head_release_len, Hh].
Qed.

Lemma step_inv s e s' : Inv s -> stepP s e = Val s' -> Inv s'.
Proof.
  intros HI H. destruct e; cbn [step] in H.
  - inversion H; subst. apply request_inv, HI.
  - destruct (find_live k (s_live s)) as [en|] eqn:F; [|inversion H; subst; exact HI].
    destruct (l_rc en =? 1); [|discriminate]. inversion H; subst; clear H.
    destruct HI as (Hc & Hl & Hb & Hh). unfold Inv; cbn [s_rpool s_live s_hpool].
    repeat split; try assumption. apply Forall_set_live; [exact Hl|]. cbn [l_obj].
    apply apply_mut_rooted. apply find_live_In in F.
    rewrite Forall_forall in Hl. apply (Hl _ F).
  - destruct (find_live k (s_live s)) as [en|] eqn:F; inversion H; subst; clear H; [|exact HI].
    destruct HI as (Hc & Hl & Hb & Hh). unfold Inv; cbn [s_rpool s_live s_hpool].
    repeat split; try assumption. apply Forall_set_live; [exact Hl|]. cbn [l_obj].
    apply ext_insert_rooted. apply find_live_In in F.
    rewrite Forall_forall in Hl. apply (Hl _ F).
  - destruct (find_live k (s_live s)) as [en|] eqn:F; inversion H; subst; clear H; [|exact HI].
    destruct HI as (Hc & Hl & Hb & Hh). unfold Inv; cbn [s_rpool s_live s_hpool].
    repeat split; try assumption. apply Forall_set_live; [exact Hl|]. cbn [l_obj].
    apply find_live_In in F. rewrite Forall_forall in Hl. apply (Hl _ F).
  - destruct (find_live k (s_live s)) as [en|] eqn:F; [|inversion H; subst; exact HI].
    assert (Hen : rootedP (l_obj en)).
    { destruct HI as (_ & Hl & _). apply find_live_In in F.
      rewrite Forall_forall in Hl. apply (Hl _ F). }
    destruct (1 <? l_rc en); inversion H; subst; clear H.
    + destruct HI as (Hc & Hl & Hb & Hh). unfold Inv; cbn [s_rpool s_live s_hpool].
      repeat split; try assumption. apply Forall_set_live; [exact Hl|exact Hen].
    + apply drop_last_inv; assumption.
  - inversion H; subst; clear H. destruct HI as (Hc & Hl & Hb & Hh).
    unfold Inv; cbn [s_rpool s_live s_hpool].
    repeat split; [constructor | exact Hl | rewrite lenN_nil; lia | apply fold_release_len, Hh].
Qed.

Lemma run_inv es : forall s s', Inv s -> runP s es = Val s' -> Inv s'.
Proof.
  induction es as [|e es IH]; intros s s' HI H; cbn [run] in H.
  - inversion H; subst; exact HI.
  - destruct (stepP s e) as [s1|] eqn:E; cbn [rbind] in H; [|discriminate].
    eapply IH; [eapply step_inv; eassumption | exact H].
Qed.

Lemma reachable_inv es s : runP st_init es = Val s -> Inv s.
Proof. apply run_inv, Inv_init. Qed.

(* ------------------------------------------------------------------ the view, field by field *)
Lemma view_ext (a b : view) :
  v_method a = v_method b -> v_uri a = v_uri b -> v_version a = v_version b ->
  v_headers a = v_headers b -> v_peer a = v_peer b -> v_flags a = v_flags b ->
  v_path_uri a = v_path_uri b -> v_qpath a = v_qpath b -> v_skip a = v_skip b ->
  v_segs a = v_segs b -> v_rids a = v_rids b -> v_matched a = v_matched b ->
  v_app_data a = v_app_data b -> v_conn a = v_conn b -> v_exts a = v_exts b -> a = b.
Proof. destruct a, b; cbn; intros; subst; reflexivity. Qed.

Section Fields.
Variables (s : st) (q : reqd).
Hypothesis HI : Inv s.

Let o := snd (requestP s q).

(* head fields: written by the producer, or left as [Message::new()] delivered them, i.e. at
   their defaults (this is where every line of [head_clear] is needed) *)
Notation cq := (conveyed q).
Lemma head_fields :
  h_method (req_head s q) = q_method cq /\ h_uri (req_head s q) = q_uri cq /\
  h_version (req_head s q) = q_version cq /\ h_headers (req_head s q) = q_headers cq /\
  h_peer (req_head s q) = q_peer cq /\ h_flags (req_head s q) = q_flags cq.
Proof.
  unfold req_head, produce, conveyed.
  destruct (head_get_default (s_hpool s) (s_nreq s)) as [id Hd]. rewrite Hd.
  destruct (q_prod q); cbn; repeat split; reflexivity.
Qed.

Lemma o_head_eq : o_head o = req_head s q.
Proof. unfold o. rewrite request_obj. destruct (s_rpool s); reflexivity. Qed.

Lemma f_method : v_method (view_of o) = q_method cq.
Proof. cbn [view_of v_method]. rewrite o_head_eq. apply head_fields. Qed.
Lemma f_uri : v_uri (view_of o) = q_uri cq.
Proof. cbn [view_of v_uri]. rewrite o_head_eq. apply head_fields. Qed.
Lemma f_version : v_version (view_of o) = q_version cq.
Proof. cbn [view_of v_version]. rewrite o_head_eq. apply head_fields. Qed.
Lemma f_headers : v_headers (view_of o) = q_headers cq.
Proof. cbn [view_of v_headers]. rewrite o_head_eq. apply head_fields. Qed.
Lemma f_peer : v_peer (view_of o) = q_peer cq.
Proof. cbn [view_of v_peer]. rewrite o_head_eq. apply head_fields. Qed.
Lemma f_flags : v_flags (view_of o) = q_flags cq.
Proof. cbn [view_of v_flags]. rewrite o_head_eq. apply head_fields. Qed.

(* path.path: Url::update / Url::new from the NEW head's uri *)
Lemma f_path_uri : v_path_uri (view_of o) = q_uri cq.
Proof.
  cbn [view_of v_path_uri]. unfold o. rewrite request_obj.
  destruct (s_rpool s); cbn [obj_reinit obj_fresh o_uri]; apply head_fields.
Qed.
Lemma f_qpath : v_qpath (view_of o) = requote (q_uri cq).
Proof.
  cbn [view_of v_qpath]. unfold o. rewrite request_obj.
  destruct (s_rpool s); cbn [obj_reinit obj_fresh o_qpath]; f_equal; apply head_fields.
Qed.
(* path.reset() *)
Lemma f_skip : v_skip (view_of o) = 0.
Proof. cbn [view_of v_skip]. unfold o. rewrite request_obj. destruct (s_rpool s); reflexivity. Qed.
Lemma f_segs : v_segs (view_of o) = [].
Proof. cbn [view_of v_segs]. unfold o. rewrite request_obj. destruct (s_rpool s); reflexivity. Qed.
(* resource_path.clear(), resource_path_matched = false *)
Lemma f_rids : v_rids (view_of o) = [].
Proof. cbn [view_of v_rids]. unfold o. rewrite request_obj. destruct (s_rpool s); reflexivity. Qed.
Lemma f_matched : v_matched (view_of o) = false.
Proof. cbn [view_of v_matched]. unfold o. rewrite request_obj. destruct (s_rpool s); reflexivity. Qed.
(* app_data: NOT written on reuse; this is the one field that needs the pool invariant *)
Lemma f_app_data : v_app_data (view_of o) = [root].
Proof.
  cbn [view_of v_app_data]. unfold o. rewrite request_obj. destruct HI as (Hc & _).
  destruct (s_rpool s) as [|p r]; [reflexivity|].
  inversion Hc as [|? ? (Ha & _) _]; subst. exact Ha.
Qed.
(* conn_data, extensions: assigned from the incoming Request *)
Lemma f_conn : v_conn (view_of o) = q_conn cq.
Proof.
  cbn [view_of v_conn]. unfold o. rewrite request_obj.
  destruct (s_rpool s); unfold conveyed; destruct (q_prod q); reflexivity.
Qed.
Lemma f_exts : v_exts (view_of o) = q_exts cq.
Proof.
  cbn [view_of v_exts]. unfold o. rewrite request_obj.
  destruct (s_rpool s); unfold conveyed; destruct (q_prod q); reflexivity.
Qed.

Lemma request_view_spec : view_of o = spec_view requote root q.
Proof.
  apply view_ext; unfold spec_view; cbn [v_method v_uri v_version v_headers v_peer v_flags v_path_uri
                       v_qpath v_skip v_segs v_rids v_matched v_app_data v_conn v_exts].
  - exact f_method.
  - exact f_uri.
  - exact f_version.
  - exact f_headers.
  - exact f_peer.
  - exact f_flags.
  - exact f_path_uri.
  - exact f_qpath.
  - exact f_skip.
  - exact f_segs.
  - exact f_rids.
  - exact f_matched.
  - exact f_app_data.
  - exact f_conn.
  - exact f_exts.
Qed.
End Fields.

Theorem view_determined es s q :
  runP st_init es = Val s ->
  view_of (snd (requestP s q)) = spec_view requote root q.
Proof. intros H. apply request_view_spec. eapply reachable_inv; exact H. Qed.

Theorem view_independent_of_history es s q :
  runP st_init es = Val s ->
  view_of (snd (requestP s q)) = view_of (snd (requestP st_init q)).
Proof.
  intros H. rewrite (view_determined es s q H).
  symmetry. apply (view_determined [] st_init q). reflexivity.
Qed.

(* ------------------------------------------------------------------ what happens afterwards
   (routing, middleware, handler) reads and writes only observable fields *)
Lemma apply_hact_congr o1 o2 a :
  view_of o1 = view_of o2 -> view_of (apply_hact o1 a) = view_of (apply_hact o2 a).
Proof.
  destruct o1 as [h1 ? ? ? ? ? ? ? ? ? ?], o2 as [h2 ? ? ? ? ? ? ? ? ? ?].
  destruct h1, h2. unfold view_of; cbn. intro H; inversion H; subst.
  destruct a as [m|t v]; [destruct m|]; reflexivity.
Qed.

Lemma apply_hacts_congr acts : forall o1 o2,
  view_of o1 = view_of o2 ->
  view_of (fold_left apply_hact acts o1) = view_of (fold_left apply_hact acts o2).
Proof.
  induction acts as [|a acts IH]; intros o1 o2 H; cbn [fold_left]; [exact H|].
  apply IH, apply_hact_congr, H.
Qed.

Theorem handler_view_independent es s q acts :
  runP st_init es = Val s ->
  view_of (fold_left apply_hact acts (snd (requestP s q))) =
  view_of (fold_left apply_hact acts (snd (requestP st_init q))).
Proof. intros H. apply apply_hacts_congr, (view_independent_of_history es s q H). Qed.

(* ------------------------------------------------------------------ bounds, clean pool *)
Theorem pool_bounds es s :
  runP st_init es = Val s -> lenN (s_rpool s) <= RCAP /\ lenN (s_hpool s) <= HCAP.
Proof. intro H. destruct (reachable_inv es s H) as (_ & _ & Hb & Hh). split; assumption. Qed.

Theorem pooled_objects_clean es s o :
  runP st_init es = Val s -> In o (s_rpool s) -> clean o.
Proof.
  intros H Hin. destruct (reachable_inv es s H) as (Hc & _).
  rewrite Forall_forall in Hc. apply Hc, Hin.
Qed.

(* ------------------------------------------------------------------ clones block reuse *)
Theorem drop_with_outstanding_clone s k en :
  find_live k (s_live s) = Some en -> 1 < l_rc en ->
  exists s', stepP s (EDrop k) = Val s' /\
             s_rpool s' = s_rpool s /\ s_hpool s' = s_hpool s /\
             find_live k (s_live s') = Some (mkLent k (l_obj en) (l_rc en - 1)).
Proof.
  intros F Hrc. cbn [step]. rewrite F.
  destruct (1 <? l_rc en) eqn:E; [|lia].
  eexists; split; [reflexivity|]. cbn [s_rpool s_hpool s_live].
  repeat split. eapply find_set_live; [exact F | reflexivity].
Qed.

(* the last handle: the object is pushed (scrubbed) iff the pool is enabled and not full *)
Theorem drop_last_handle s k en :
  find_live k (s_live s) = Some en -> l_rc en <= 1 ->
  exists s', stepP s (EDrop k) = Val s' /\
             s_rpool s' = if s_enabled s && (lenN (s_rpool s) <? RCAP)
                          then obj_scrub (l_obj en) :: s_rpool s else s_rpool s.
Proof.
  intros F Hrc. cbn [step]. rewrite F. destruct (1 <? l_rc en) eqn:E; [lia|].
  eexists; split; [reflexivity|]. unfold drop_last, pool_available.
  destruct (s_enabled s && (lenN (s_rpool s) <? RCAP)); reflexivity.
Qed.

(* ------------------------------------------------------------------ no aliasing *)
Definition live_ids (l : list lent) : list N := map (fun e => o_id (l_obj e)) l.
Definition ids (s : st) : list N := map o_id (s_rpool s) ++ live_ids (s_live s).
Definition Inv2 (s : st) : Prop := NoDup (ids s) /\ Forall (fun i => i < s_nreq s) (ids s).

Lemma live_split k l en :
  find_live k l = Some en ->
  exists l1 l2, l = l1 ++ en :: l2 /\ del_live k l = l1 ++ l2 /\
                forall e', set_live k e' l = l1 ++ e' :: l2.
Proof.
  induction l as [|x l IH]; cbn [find_live del_live set_live]; [discriminate|].
  destruct (l_key x =? k) eqn:E; intro H.
  - inversion H; subst. exists [], l. repeat split.
  - destruct (IH H) as (l1 & l2 & H1 & H2 & H3). exists (x :: l1), l2.
    cbn [app]. rewrite H1 at 1. rewrite H2. repeat split. intro e'. rewrite H3. reflexivity.
Qed.

Lemma live_ids_app a b : live_ids (a ++ b) = live_ids a ++ live_ids b.
Proof. apply map_app. Qed.

Lemma apply_mut_id o m : o_id (apply_mut o m) = o_id o.
Proof. destruct m; reflexivity. Qed.

Lemma perm_move (A B1 B2 : list N) x :
  Permutation (A ++ B1 ++ x :: B2) ((x :: A) ++ B1 ++ B2).
Proof.
  rewrite !app_assoc. cbn [app]. rewrite app_comm_cons.
  symmetry. rewrite <- app_comm_cons. apply Permutation_middle.
Qed.

Lemma Forall_lt_weaken (l : list N) n : Forall (fun i => i < n) l -> Forall (fun i => i < n + 1) l.
Proof. apply Forall_impl. intros; lia. Qed.

Lemma set_same_id s (en e' : lent) l1 l2 :
  s_live s = l1 ++ en :: l2 -> o_id (l_obj e') = o_id (l_obj en) ->
  map o_id (s_rpool s) ++ live_ids (l1 ++ e' :: l2) = ids s.
Proof.
  intros H Hid. unfold ids. rewrite H, !live_ids_app. cbn [live_ids map]. rewrite Hid. reflexivity.
Qed.

Lemma NoDup_app_r (a b : list N) : NoDup (a ++ b) -> NoDup b.
Proof. induction a as [|x a IH]; cbn [app]; [auto|]. intro H; inversion H; auto. Qed.

Lemma step_inv2 s e s' : Inv2 s -> stepP s e = Val s' -> Inv2 s'.
Proof.
  intros [Hn Hb] H. destruct e; cbn [step] in H.
  - (* ERequest *)
    inversion H; subst; clear H. rewrite request_st. unfold Inv2, ids in *.
    destruct (s_rpool s) as [|o r]; cbn [s_rpool s_live s_nreq live_ids map l_obj app] in *.
    + cbn [obj_fresh o_id]. split.
      * constructor; [|exact Hn]. intro Hin. rewrite Forall_forall in Hb.
        specialize (Hb _ Hin). lia.
      * constructor; [lia | apply Forall_lt_weaken, Hb].
    + cbn [obj_reinit o_id].
      assert (P : Permutation (o_id o :: map o_id r ++ live_ids (s_live s))
                              (map o_id r ++ o_id o :: live_ids (s_live s)))
        by apply Permutation_middle.
      split; [eapply Permutation_NoDup; [exact P|exact Hn]|].
      apply Forall_lt_weaken. eapply Permutation_Forall; [exact P|exact Hb].
  - (* EMut *)
    destruct (find_live k (s_live s)) as [en|] eqn:F; [|inversion H; subst; split; assumption].
    destruct (l_rc en =? 1); [|discriminate]. inversion H; subst; clear H.
    destruct (live_split _ _ _ F) as (l1 & l2 & H1 & _ & H3).
    unfold Inv2, ids at 1 2; cbn [s_rpool s_live s_nreq]. rewrite H3.
    rewrite (set_same_id s en _ l1 l2 H1); [split; assumption|].
    cbn [l_obj]. apply apply_mut_id.
  - (* EExt *)
    destruct (find_live k (s_live s)) as [en|] eqn:F; inversion H; subst; clear H; [|split; assumption].
    destruct (live_split _ _ _ F) as (l1 & l2 & H1 & _ & H3).
    unfold Inv2, ids at 1 2; cbn [s_rpool s_live s_nreq]. rewrite H3.
    rewrite (set_same_id s en _ l1 l2 H1); [split; assumption|reflexivity].
  - (* EClone *)
    destruct (find_live k (s_live s)) as [en|] eqn:F; inversion H; subst; clear H; [|split; assumption].
    destruct (live_split _ _ _ F) as (l1 & l2 & H1 & _ & H3).
    unfold Inv2, ids at 1 2; cbn [s_rpool s_live s_nreq]. rewrite H3.
    rewrite (set_same_id s en _ l1 l2 H1); [split; assumption|reflexivity].
  - (* EDrop *)
    destruct (find_live k (s_live s)) as [en|] eqn:F; [|inversion H; subst; split; assumption].
    destruct (live_split _ _ _ F) as (l1 & l2 & H1 & H2 & H3).
    destruct (1 <? l_rc en); inversion H; subst; clear H.
    + unfold Inv2, ids at 1 2; cbn [s_rpool s_live s_nreq]. rewrite H3.
      rewrite (set_same_id s en _ l1 l2 H1); [split; assumption|reflexivity].
    + unfold ids in Hn, Hb. rewrite H1, live_ids_app in Hn, Hb. cbn [live_ids map] in Hn, Hb.
      unfold drop_last. destruct (pool_available RCAP s);
        unfold Inv2, ids; cbn [s_rpool s_live s_nreq map]; rewrite H2, live_ids_app.
      * cbn [obj_scrub o_id].
        pose proof (perm_move (map o_id (s_rpool s)) (live_ids l1) (live_ids l2) (o_id (l_obj en))) as P.
        split; [eapply Permutation_NoDup; [exact P|exact Hn]
               | eapply Permutation_Forall; [exact P|exact Hb]].
      * rewrite app_assoc in Hn, Hb |- *. split.
        -- eapply NoDup_remove_1; exact Hn.
        -- apply Forall_app in Hb as [Hb1 Hb2]. apply Forall_app; split; [exact Hb1|].
           inversion Hb2; assumption.
  - (* EDisable *)
    inversion H; subst; clear H. unfold Inv2, ids in *; cbn [s_rpool s_live s_nreq map app].
    split.
    + eapply NoDup_app_r; exact Hn.
    + apply Forall_app in Hb as [_ Hb]. exact Hb.
Qed.

Lemma Inv2_init : Inv2 st_init.
Proof. split; constructor. Qed.

Lemma run_inv2 es : forall s s', Inv2 s -> runP s es = Val s' -> Inv2 s'.
Proof.
  induction es as [|e es IH]; intros s s' HI H; cbn [run] in H.
  - inversion H; subst; exact HI.
  - destruct (stepP s e) as [s1|] eqn:E; cbn [rbind] in H; [|discriminate].
    eapply IH; [eapply step_inv2; eassumption | exact H].
Qed.

Theorem reachable_no_aliasing es s :
  runP st_init es = Val s ->
  NoDup (map o_id (s_rpool s) ++ map (fun e => o_id (l_obj e)) (s_live s)).
Proof. intro H. exact (proj1 (run_inv2 es _ _ Inv2_init H)). Qed.

End Proofs.
