(* Translator tie for C11: the re-initialisation statements that tools/gen/pool.py reads out of
   the Rust sources on every check run (Gen/PoolTables.v), interpreted statement by statement,
   ARE the model's [head_clear], [obj_reinit] and [obj_scrub]+push (Web/Pool.v).

   Deleting a reset line in the source shortens the generated list, guarding one changes its
   guard text, rewriting one makes the translator omit the definition: in each case a lemma
   below stops checking. *)
From Coq Require Import String.
From AV Require Import Lib.Base Web.Pool Gen.PoolTables.

(* the guards the model assumes *)
Definition NO_GUARD : string := "".
(* [EDrop] with [l_rc = 1] (Rc::get_mut = Some) and [pool_available] (HttpRequestPool::is_available) *)
Definition DROP_GUARD : string :=
  "let Some(inner) = Rc::get_mut(&mut self.inner) && inner.app_state.pool().is_available()".

(* a statement under a guard the model does not assume is not executed by the interpretation *)
Definition guarded (expected g : string) {A} (f : A -> A) (a : A) : A :=
  if String.eqb g expected then f a else a.

(* ---- (a) RequestHead::clear *)
Definition exec_head (st : pool_stmt) (h : head) : head :=
  match st with
  | SHeadMethodDefault => mkHead [71; 69; 84] (h_uri h) (h_version h) (h_headers h) (h_peer h) (h_flags h) (h_id h)
  | SHeadUriDefault => mkHead (h_method h) [47] (h_version h) (h_headers h) (h_peer h) (h_flags h) (h_id h)
  | SHeadVersion11 => mkHead (h_method h) (h_uri h) 11 (h_headers h) (h_peer h) (h_flags h) (h_id h)
  | SHeadPeerNone => mkHead (h_method h) (h_uri h) (h_version h) (h_headers h) None (h_flags h) (h_id h)
  | SHeadFlagsEmpty => mkHead (h_method h) (h_uri h) (h_version h) (h_headers h) (h_peer h) 0 (h_id h)
  | SHeadHeadersClear => mkHead (h_method h) (h_uri h) (h_version h) [] (h_peer h) (h_flags h) (h_id h)
  | _ => h
  end.
Definition interp_head (l : list (pool_stmt * string)) (h : head) : head :=
  fold_left (fun h p => guarded NO_GUARD (snd p) (exec_head (fst p)) h) l h.

Lemma tie_head_clear : forall h : head, interp_head HEAD_CLEAR h = head_clear h.
Proof. intros [m u v hs p f i]. reflexivity. Qed.

(* ---- (b) AppInitService::call, pooled arm; [h] and [q] are the locals head / conn_data / extensions *)
Section Acquire.
Variable requote : bytes -> option bytes.
Variables (h : head) (q : reqd).
Definition exec_obj (st : pool_stmt) (o : obj) : obj :=
  match st with
  | SPathUpdateFromHeadUri =>
      mkObj (o_head o) (h_uri h) (requote (h_uri h)) (o_skip o) (o_segs o) (o_rids o) (o_matched o)
            (o_app_data o) (o_conn o) (o_exts o) (o_id o)
  | SPathReset =>
      mkObj (o_head o) (o_uri o) (o_qpath o) 0 [] (o_rids o) (o_matched o)
            (o_app_data o) (o_conn o) (o_exts o) (o_id o)
  | SRidsClear =>
      mkObj (o_head o) (o_uri o) (o_qpath o) (o_skip o) (o_segs o) [] (o_matched o)
            (o_app_data o) (o_conn o) (o_exts o) (o_id o)
  | SMatchedFalse =>
      mkObj (o_head o) (o_uri o) (o_qpath o) (o_skip o) (o_segs o) (o_rids o) false
            (o_app_data o) (o_conn o) (o_exts o) (o_id o)
  | SHeadAssign =>
      mkObj h (o_uri o) (o_qpath o) (o_skip o) (o_segs o) (o_rids o) (o_matched o)
            (o_app_data o) (o_conn o) (o_exts o) (o_id o)
  | SConnAssign =>
      mkObj (o_head o) (o_uri o) (o_qpath o) (o_skip o) (o_segs o) (o_rids o) (o_matched o)
            (o_app_data o) (q_conn q) (o_exts o) (o_id o)
  | SExtsAssign =>
      mkObj (o_head o) (o_uri o) (o_qpath o) (o_skip o) (o_segs o) (o_rids o) (o_matched o)
            (o_app_data o) (o_conn o) (q_exts q) (o_id o)
  | _ => o
  end.
Definition interp_acquire (l : list (pool_stmt * string)) (o : obj) : obj :=
  fold_left (fun o p => guarded NO_GUARD (snd p) (exec_obj (fst p)) o) l o.
End Acquire.

Lemma tie_acquire : forall requote (o : obj) (h : head) (q : reqd),
  interp_acquire requote h q ACQUIRE_REINIT o = obj_reinit requote o h q.
Proof. intros requote [? ? ? ? ? ? ? ? ? ? ?] h q. reflexivity. Qed.

(* ---- (c) Drop for HttpRequest: scrub, then push; everything under exactly [DROP_GUARD] *)
Definition exec_drop (st : pool_stmt) (x : obj * bool) : obj * bool :=
  let o := fst x in
  match st with
  | SAppDataTruncate1 =>
      (mkObj (o_head o) (o_uri o) (o_qpath o) (o_skip o) (o_segs o) (o_rids o) (o_matched o)
             (firstn 1 (o_app_data o)) (o_conn o) (o_exts o) (o_id o), snd x)
  | SExtsClear =>
      (mkObj (o_head o) (o_uri o) (o_qpath o) (o_skip o) (o_segs o) (o_rids o) (o_matched o)
             (o_app_data o) (o_conn o) [] (o_id o), snd x)
  | SConnNone =>
      (mkObj (o_head o) (o_uri o) (o_qpath o) (o_skip o) (o_segs o) (o_rids o) (o_matched o)
             (o_app_data o) None (o_exts o) (o_id o), snd x)
  | SPush => (o, true)
  | _ => x
  end.
Definition interp_drop (l : list (pool_stmt * string)) (o : obj) : obj * bool :=
  fold_left (fun x p => guarded DROP_GUARD (snd p) (exec_drop (fst p)) x) l (o, false).

(* the object that is pushed is the scrubbed one, and it IS pushed *)
Lemma tie_drop : forall o : obj, interp_drop DROP_SCRUB o = (obj_scrub o, true).
Proof. intros [? ? ? ? ? ? ? ? ? ? ?]. reflexivity. Qed.

(* the push is the last statement: nothing is written to the object after it entered the pool *)
Lemma tie_drop_push_last : option_map fst (nth_error (rev DROP_SCRUB) 0) = Some SPush.
Proof. reflexivity. Qed.

(* every statement carries exactly the guard the model assumes, nothing more *)
Lemma tie_guards :
  forallb (fun p => String.eqb (snd p) NO_GUARD) HEAD_CLEAR = true /\
  forallb (fun p => String.eqb (snd p) NO_GUARD) ACQUIRE_REINIT = true /\
  forallb (fun p => String.eqb (snd p) DROP_GUARD) DROP_SCRUB = true.
Proof. repeat split; reflexivity. Qed.
