(* Translator tie for C11: the re-initialisation statements that tools/gen/pool.py reads out of
   the Rust sources on every check run (Gen/PoolTables.v), interpreted statement by statement,
   ARE the model's [head_clear], [obj_reinit] and [obj_scrub]+push (Web/Pool.v).

   Deleting a reset line in the source shortens the generated list, guarding one changes its
   guard text, rewriting one makes the translator omit the definition: in each case a lemma
   below stops checking. *)
From Coq Require Import String.
From AV Require Import Lib.Base Web.Pool Gen.PoolTables.

(* the guards the model assumes *)
Definition NO_GUARD : string := "".
(* [EDrop] with [l_rc = 1] (Rc::get_mut = Some) and [pool_available] (HttpRequestPool::is_available) *)
Definition DROP_GUARD : string :=
  "let Some(inner) = Rc::get_mut(&mut self.inner) && inner.app_state.pool().is_available()".

(* a statement under a guard the model does not assume is not executed by the interpretation *)
Definition guarded (expected g : string) {A} (f : A -> A) (a : A) : A :=
  if String.eqb g expected then f a else a.

(* ---- (a) RequestHead::clear *)
Definition exec_head (st : pool_stmt) (h : head) : head :=
  match st with
  | SHeadMethodDefault => mkHead [71; 69; 84] (h_uri h) (h_version h) (h_headers h) (h_peer h) (h_flags h) (h_id h)
  | SHeadUriDefault => mkHead (h_method h) [47] (h_version h) (h_headers h) (h_peer h) (h_flags h) (h_id h)
  | SHeadVersion11 => mkHead (h_method h) (h_uri h) 11 (h_headers h) (h_peer h) (h_flags h) (h_id h)
  | SHeadPeerNone => mkHead (h_method h) (h_uri h) (h_version h) (h_headers h) None (h_flags h) (h_id h)
  | SHeadFlagsEmpty => mkHead (h_method h) (h_uri h) (h_version h) (h_headers h) (h_peer h) 0 (h_id h)
  | SHeadHeadersClear => mkHead (h_method h) (h_uri h) (h_version h) [] (h_peer h) (h_flags h) (h_id h)
  | _ => h
  end.
Definition interp_head (l : list (pool_stmt * string)) (h : head) : head :=
  fold_left (fun h p => guarded NO_GUARD (snd p) (exec_head (fst p)) h) l h.

Lemma tie_head_clear : forall h : head, interp_head HEAD_CLEAR h = head_clear h.
Proof. intros [m u v hs p f i]. reflexivity. Qed.

(* ---- (b) AppInitService::call, pooled arm; [h] and [q] are the locals head / conn_data / extensions *)
Section Acquire.
Variable requote : bytes -> option bytes.
Variables (h : head) (q : reqd).
(* callee [Url::update(&head.uri)] (actix-router/src/url.rs), statement by statement on the
   [Url { uri, path }] part of the object: the stored URI is replaced, and the decoded-path cache
   is assigned the quoter's answer WHATEVER it is -- also [None] ("nothing to decode"), which is
   what makes [Url::path()] fall back to the new URI's own path and not to an earlier request's *)
Definition exec_url (st : pool_stmt) (o : obj) : obj :=
  match st with
  | SUrlUriAssign =>
      mkObj (o_head o) (h_uri h) (o_qpath o) (o_skip o) (o_segs o) (o_rids o) (o_matched o)
            (o_app_data o) (o_conn o) (o_exts o) (o_id o)
  | SUrlPathRequote =>
      mkObj (o_head o) (o_uri o) (requote (h_uri h)) (o_skip o) (o_segs o) (o_rids o) (o_matched o)
            (o_app_data o) (o_conn o) (o_exts o) (o_id o)
  | _ => o
  end.
(* callee [Path::reset()] (actix-router/src/path.rs) *)
Definition exec_path (st : pool_stmt) (o : obj) : obj :=
  match st with
  | SPathSkipZero =>
      mkObj (o_head o) (o_uri o) (o_qpath o) 0 (o_segs o) (o_rids o) (o_matched o)
            (o_app_data o) (o_conn o) (o_exts o) (o_id o)
  | SPathSegsClear =>
      mkObj (o_head o) (o_uri o) (o_qpath o) (o_skip o) [] (o_rids o) (o_matched o)
            (o_app_data o) (o_conn o) (o_exts o) (o_id o)
  | _ => o
  end.
Definition interp_url (l : list (pool_stmt * string)) (o : obj) : obj :=
  fold_left (fun o p => guarded NO_GUARD (snd p) (exec_url (fst p)) o) l o.
Definition interp_path (l : list (pool_stmt * string)) (o : obj) : obj :=
  fold_left (fun o p => guarded NO_GUARD (snd p) (exec_path (fst p)) o) l o.

Definition exec_obj (st : pool_stmt) (o : obj) : obj :=
  match st with
  | SPathUpdateFromHeadUri => interp_url URL_UPDATE o        (* the two calls run their callees' *)
  | SPathReset => interp_path PATH_RESET o                   (* statement lists, read from the source *)
  | SRidsClear =>
      mkObj (o_head o) (o_uri o) (o_qpath o) (o_skip o) (o_segs o) [] (o_matched o)
            (o_app_data o) (o_conn o) (o_exts o) (o_id o)
  | SMatchedFalse =>
      mkObj (o_head o) (o_uri o) (o_qpath o) (o_skip o) (o_segs o) (o_rids o) false
            (o_app_data o) (o_conn o) (o_exts o) (o_id o)
  | SHeadAssign =>
      mkObj h (o_uri o) (o_qpath o) (o_skip o) (o_segs o) (o_rids o) (o_matched o)
            (o_app_data o) (o_conn o) (o_exts o) (o_id o)
  | SConnAssign =>
      mkObj (o_head o) (o_uri o) (o_qpath o) (o_skip o) (o_segs o) (o_rids o) (o_matched o)
            (o_app_data o) (q_conn q) (o_exts o) (o_id o)
  | SExtsAssign =>
      mkObj (o_head o) (o_uri o) (o_qpath o) (o_skip o) (o_segs o) (o_rids o) (o_matched o)
            (o_app_data o) (o_conn o) (q_exts q) (o_id o)
  | _ => o
  end.
Definition interp_acquire (l : list (pool_stmt * string)) (o : obj) : obj :=
  fold_left (fun o p => guarded NO_GUARD (snd p) (exec_obj (fst p)) o) l o.
End Acquire.

Lemma tie_acquire : forall requote (o : obj) (h : head) (q : reqd),
  interp_acquire requote h q ACQUIRE_REINIT o = obj_reinit requote o h q.
Proof. intros requote [? ? ? ? ? ? ? ? ? ? ?] h q. reflexivity. Qed.

(* ---- (c) Drop for HttpRequest: scrub, then push; everything under exactly [DROP_GUARD] *)
Definition exec_drop (st : pool_stmt) (x : obj * bool) : obj * bool :=
  let o := fst x in
  match st with
  | SAppDataTruncate1 =>
      (mkObj (o_head o) (o_uri o) (o_qpath o) (o_skip o) (o_segs o) (o_rids o) (o_matched o)
             (firstn 1 (o_app_data o)) (o_conn o) (o_exts o) (o_id o), snd x)
  | SExtsClear =>
      (mkObj (o_head o) (o_uri o) (o_qpath o) (o_skip o) (o_segs o) (o_rids o) (o_matched o)
             (o_app_data o) (o_conn o) [] (o_id o), snd x)
  | SConnNone =>
      (mkObj (o_head o) (o_uri o) (o_qpath o) (o_skip o) (o_segs o) (o_rids o) (o_matched o)
             (o_app_data o) None (o_exts o) (o_id o), snd x)
  | SPush => (o, true)
  | _ => x
  end.
Definition interp_drop (l : list (pool_stmt * string)) (o : obj) : obj * bool :=
  fold_left (fun x p => guarded DROP_GUARD (snd p) (exec_drop (fst p)) x) l (o, false).

(* the object that is pushed is the scrubbed one, and it IS pushed *)
Lemma tie_drop : forall o : obj, interp_drop DROP_SCRUB o = (obj_scrub o, true).
Proof. intros [? ? ? ? ? ? ? ? ? ? ?]. reflexivity. Qed.

(* the push is the last statement: nothing is written to the object after it entered the pool *)
Lemma tie_drop_push_last : option_map fst (nth_error (rev DROP_SCRUB) 0) = Some SPush.
Proof. reflexivity. Qed.

(* every statement carries exactly the guard the model assumes, nothing more *)
Lemma tie_guards :
  forallb (fun p => String.eqb (snd p) NO_GUARD) HEAD_CLEAR = true /\
  forallb (fun p => String.eqb (snd p) NO_GUARD) ACQUIRE_REINIT = true /\
  forallb (fun p => String.eqb (snd p) DROP_GUARD) DROP_SCRUB = true.
Proof. repeat split; reflexivity. Qed.
Lemma tie_guards_callees :
  forallb (fun p => String.eqb (snd p) NO_GUARD) URL_UPDATE = true /\
  forallb (fun p => String.eqb (snd p) NO_GUARD) PATH_RESET = true.
Proof. repeat split; reflexivity. Qed.

(* ---- (d) Url::update on its own: whatever URI and decoded path the recycled object carried, the
   Url afterwards is the one [Url::new(uri)] builds -- the decoded-path cache has no memory *)
Lemma tie_url_update : forall requote (h : head) (o : obj),
  let o' := interp_url requote h URL_UPDATE o in
  o_uri o' = h_uri h /\ o_qpath o' = requote (h_uri h) /\
  o' = mkObj (o_head o) (h_uri h) (requote (h_uri h)) (o_skip o) (o_segs o) (o_rids o) (o_matched o)
             (o_app_data o) (o_conn o) (o_exts o) (o_id o).
Proof. intros requote h [? ? ? ? ? ? ? ? ? ? ?]. repeat split; reflexivity. Qed.

(* ---- (e) Path::reset on its own *)
Lemma tie_path_reset : forall o : obj,
  interp_path PATH_RESET o =
  mkObj (o_head o) (o_uri o) (o_qpath o) 0 [] (o_rids o) (o_matched o)
        (o_app_data o) (o_conn o) (o_exts o) (o_id o).
Proof. intros [? ? ? ? ? ? ? ? ? ? ?]. reflexivity. Qed.

(* ---- component table: which statement(s) of which block give each component of the handler's
   view its value on a recycled object. [tie_components] proves, from the generated lists alone,
   that after the pooled arm every component except [app_data] is a function of the NEW request
   (h, q) only -- the old object [o] does not occur on the right-hand sides -- and that [app_data]
   is what Drop left, i.e. one container. *)
Definition component_resets : list (string * list pool_stmt) :=
  [("headers, method, uri, version, peer_addr, connection flags (RequestHead)",
      [SHeadAssign; SHeadHeadersClear; SHeadMethodDefault; SHeadUriDefault; SHeadVersion11;
       SHeadPeerNone; SHeadFlagsEmpty]);
   ("URI of Path<Url>", [SPathUpdateFromHeadUri; SUrlUriAssign]);
   ("decoded path cache of Url (match_info().as_str(), routing input)", [SPathUpdateFromHeadUri; SUrlPathRequote]);
   ("path parameters: skip", [SPathReset; SPathSkipZero]);
   ("path parameters: segments", [SPathReset; SPathSegsClear]);
   ("matched resource: ResourcePath ids", [SRidsClear]);
   ("matched resource: fully-matched flag", [SMatchedFalse]);
   ("request-local extensions", [SExtsAssign; SExtsClear]);
   ("connection data", [SConnAssign; SConnNone]);
   ("scoped app data stack", [SAppDataTruncate1])]%string.

Definition stmt_eqb (a b : pool_stmt) : bool :=
  match a, b with
  | SHeadMethodDefault, SHeadMethodDefault | SHeadUriDefault, SHeadUriDefault
  | SHeadVersion11, SHeadVersion11 | SHeadPeerNone, SHeadPeerNone
  | SHeadFlagsEmpty, SHeadFlagsEmpty | SHeadHeadersClear, SHeadHeadersClear
  | SPathUpdateFromHeadUri, SPathUpdateFromHeadUri | SPathReset, SPathReset
  | SRidsClear, SRidsClear | SMatchedFalse, SMatchedFalse | SHeadAssign, SHeadAssign
  | SConnAssign, SConnAssign | SExtsAssign, SExtsAssign
  | SAppDataTruncate1, SAppDataTruncate1 | SExtsClear, SExtsClear | SConnNone, SConnNone
  | SPush, SPush | SUrlUriAssign, SUrlUriAssign | SUrlPathRequote, SUrlPathRequote
  | SPathSkipZero, SPathSkipZero | SPathSegsClear, SPathSegsClear => true
  | _, _ => false
  end.

Definition all_source_stmts : list pool_stmt :=
  map fst (HEAD_CLEAR ++ ACQUIRE_REINIT ++ DROP_SCRUB ++ URL_UPDATE ++ PATH_RESET).

(* every statement the table names is present in the source (as read on this run) ... *)
Lemma tie_component_stmts_present :
  forallb (fun row => forallb (fun st => existsb (stmt_eqb st) all_source_stmts) (snd row))
          component_resets = true.
Proof. reflexivity. Qed.
(* ... and every writing statement of the source is named by the table (nothing resets a field the
   table does not know about; [SPush] writes no field) *)
Lemma tie_component_stmts_complete :
  forallb (fun st => stmt_eqb st SPush || existsb (fun row => existsb (stmt_eqb st) (snd row)) component_resets)
          all_source_stmts = true.
Proof. reflexivity. Qed.

Lemma tie_components : forall requote (o : obj) (h : head) (q : reqd),
  let o' := interp_acquire requote h q ACQUIRE_REINIT o in
  o_head o' = h /\
  o_uri o' = h_uri h /\ o_qpath o' = requote (h_uri h) /\
  o_skip o' = 0 /\ o_segs o' = [] /\
  o_rids o' = [] /\ o_matched o' = false /\
  o_exts o' = q_exts q /\ o_conn o' = q_conn q /\
  o_app_data o' = o_app_data o /\
  o_app_data (fst (interp_drop DROP_SCRUB o)) = firstn 1 (o_app_data o).
Proof. intros requote [? ? ? ? ? ? ? ? ? ? ?] h q. repeat split; reflexivity. Qed.
