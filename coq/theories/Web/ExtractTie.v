(* C12: the folds of Web/Extract.v have exactly the guards that tools/gen/extract.py read from the
   Rust sources (Gen/ExtractTables.v, regenerated on every check).  If an operator, an operand, the
   position of a test relative to the append, or the unconditionality of a test changes in the
   source, the generated record changes and these lemmas no longer prove. *)
From Coq Require Import String.
From AV Require Import Lib.Base Gen.ExtractTables Web.Extract.
Open Scope N_scope.

Definition eval_operand (o : operand) (acc chunk limit dflt declared : N) : N :=
  match o with
  | OAccPlusChunk => acc + chunk | OAcc => acc | OLimit => limit
  | ODefaultLimit => dflt | ODeclared => declared
  end.
Definition eval_op (op : cmp_op) (a b : N) : bool :=
  match op with OpGt => b <? a | OpGe => b <=? a | OpLt => a <? b | OpLe => a <=? b end.
(* the condition under which the source rejects *)
Definition rejects (t : limit_test) (acc chunk limit dflt declared : N) : bool :=
  eval_op (lt_op t) (eval_operand (lt_lhs t) acc chunk limit dflt declared)
                    (eval_operand (lt_rhs t) acc chunk limit dflt declared).
(* tested once per chunk, before the chunk is appended, without further conjuncts *)
Definition per_chunk_before_append (t : limit_test) : Prop :=
  lt_before_append t = true /\ lt_extra t = ""%string /\ lt_tests t = 1%nat.

(* ---- the five plain loops and Field::bytes: one step of the fold = the source's test *)
Lemma hmb_loop_tie : per_chunk_before_append HMB_LOOP_TEST /\
  forall limit buf c r g,
  hmb_loop limit buf (Data c :: r) g =
  let g' := g_see (g_pull g) buf c in
  if rejects HMB_LOOP_TEST (lenN buf) (lenN c) limit 0 0 then (Err EOverflow, g')
  else hmb_loop limit (buf ++ c) r (g_buf g' (buf ++ c)).
Proof. split; [repeat split; reflexivity|intros; reflexivity]. Qed.

Lemma json_loop_tie : per_chunk_before_append JSON_LOOP_TEST /\
  forall limit buf c r g,
  json_loop limit buf (Data c :: r) g =
  let g' := g_see (g_pull g) buf c in
  if rejects JSON_LOOP_TEST (lenN buf) (lenN c) limit 0 0 then (Err EOverflow, g')
  else json_loop limit (buf ++ c) r (g_buf g' (buf ++ c)).
Proof. split; [repeat split; reflexivity|intros; reflexivity]. Qed.

Lemma form_loop_tie : per_chunk_before_append FORM_LOOP_TEST /\
  forall limit body c r g,
  ue_loop limit body (Data c :: r) g =
  let g' := g_see (g_pull g) body c in
  if rejects FORM_LOOP_TEST (lenN body) (lenN c) limit 0 0
  then (Err (EOverflowAt (lenN body + lenN c) limit), g')
  else ue_loop limit (body ++ c) r (g_buf g' (body ++ c)).
Proof. split; [repeat split; reflexivity|intros; reflexivity]. Qed.

Lemma tbl_loop_tie : per_chunk_before_append TBL_LOOP_TEST /\
  forall limit buf c r g,
  tbl_loop limit buf (Data c :: r) g =
  let g' := g_see (g_pull g) buf c in
  if rejects TBL_LOOP_TEST (lenN buf) (lenN c) limit 0 0 then (Err EOverflow, g')
  else tbl_loop limit (buf ++ c) r (g_buf g' (buf ++ c)).
Proof. split; [repeat split; reflexivity|intros; reflexivity]. Qed.

Lemma field_bytes_tie : per_chunk_before_append FIELD_BYTES_TEST /\
  forall limit buf c r g,
  field_bytes_loop limit false buf (Data c :: r) g =
  let g' := g_see (g_pull g) buf c in
  if rejects FIELD_BYTES_TEST (lenN buf) (lenN c) limit 0 0
  then field_bytes_loop limit true [] r (g_buf g' [])
  else field_bytes_loop limit false (buf ++ c) r (g_buf g' (buf ++ c)).
Proof. split; [repeat split; reflexivity|intros; reflexivity]. Qed.

(* ---- the declared-length pre-checks *)
Lemma hmb_new_tie : forall dflt l,
  hmb_err (hmb_new dflt (CLNum l)) = if rejects HMB_NEW_PRECHECK 0 0 0 dflt l then Some EOverflow else None.
Proof. reflexivity. Qed.

Lemma hmb_limit_tie : forall limit s l, hmb_length s = Some l ->
  hmb_err (hmb_set_limit limit s) = if rejects HMB_LIMIT_PRECHECK 0 0 limit 0 l then Some EOverflow else None.
Proof. intros limit s l H. unfold hmb_set_limit. cbn [hmb_err]. rewrite H. reflexivity. Qed.

Lemma json_limit_tie : forall limit d len,
  json_set_limit limit (JBody d (Some len)) =
  if rejects JSON_LIMIT_PRECHECK 0 0 limit 0 len then JError (EOverflowKnown len limit) else JBody limit (Some len).
Proof. reflexivity. Qed.

Lemma form_poll_tie : forall limit len items,
  ue_poll {| ue_limit := limit; ue_length := Some len; ue_err := None |} items =
  if rejects FORM_POLL_PRECHECK 0 0 limit 0 len then (Err (EOverflowAt len limit), g0)
  else ue_loop limit [] items g0.
Proof. reflexivity. Qed.

Lemma tbl_size_tie : forall limit n items, n <> 0 ->
  to_bytes_limited (SzSized n) limit items =
  if rejects TBL_SIZE_PRECHECK 0 0 limit 0 n then (Err EOverflow, g0) else tbl_loop limit [] items g0.
Proof. intros limit n items H. unfold to_bytes_limited. destruct (n =? 0) eqn:E; [lia|reflexivity]. Qed.

(* ---- multipart: Limits::try_consume_limits is the source's list of guarded subtractions *)
Definition sub_by (k : sub_kind) (a b : N) : option N :=
  match k with
  | SubChecked => checked_sub a b
  | SubWrapping => Some (if b <=? a then a - b else a + 18446744073709551616 - b)
  | SubSaturating => Some (a - b)
  end.
Definition sub_step (n : N) (in_memory : bool) (ol : option limits) (row : counter * sub_kind * sub_guard)
  : option limits :=
  match ol with
  | None => None
  | Some l =>
      let '(c, k, g) := row in
      let applies := match g with
                     | GAlways => true
                     | GInMemory => in_memory
                     | GFieldLimitSet => match field_rem l with Some _ => true | None => false end
                     end in
      if negb applies then Some l else
      match c with
      | CTotal => match sub_by k (total_rem l) n with
                  | Some v => Some {| total_rem := v; memory_rem := memory_rem l; field_rem := field_rem l |}
                  | None => None end
      | CMemory => match sub_by k (memory_rem l) n with
                   | Some v => Some {| total_rem := total_rem l; memory_rem := v; field_rem := field_rem l |}
                   | None => None end
      | CField => match sub_by k (match field_rem l with Some f => f | None => 0 end) n with
                  | Some v => Some {| total_rem := total_rem l; memory_rem := memory_rem l; field_rem := Some v |}
                  | None => None end
      end
  end.
Definition interp_subtractions (rows : list (counter * sub_kind * sub_guard)) (l : limits) (n : N)
           (in_memory : bool) : option limits :=
  fold_left (sub_step n in_memory) rows (Some l).

Lemma try_consume_limits_tie : forall l n in_memory,
  try_consume_limits l n in_memory = interp_subtractions MULTIPART_SUBTRACTIONS l n in_memory.
Proof.
  intros [t me f] n m.
  cbv [interp_subtractions MULTIPART_SUBTRACTIONS fold_left sub_step sub_by negb
       total_rem memory_rem field_rem try_consume_limits].
  destruct (checked_sub t n) as [t'|]; destruct m; destruct f as [f|];
    try destruct (checked_sub me n) as [me'|]; try destruct (checked_sub f n) as [f'|]; reflexivity.
Qed.

(* Bytes::read_field charges the limits with in_memory = true BEFORE appending the chunk;
   discard_field charges with in_memory = false and keeps nothing *)
Lemma read_field_tie :
  MULTIPART_READ_FIELD_CONSUME = (true, true, true) /\
  MULTIPART_DISCARD_FIELD_CONSUME = (false, true, false) /\
  forall l buf c r,
    read_field (fst (fst MULTIPART_READ_FIELD_CONSUME)) l buf (Data c :: r) =
      match try_consume_limits l (lenN c) true with
      | None => FOverflow | Some l' => read_field true l' (buf ++ c) r end /\
    read_field (fst (fst MULTIPART_DISCARD_FIELD_CONSUME)) l buf (Data c :: r) =
      match try_consume_limits l (lenN c) false with
      | None => FOverflow | Some l' => read_field false l' buf r end.
Proof. repeat split; reflexivity. Qed.
