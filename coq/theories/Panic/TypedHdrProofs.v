(* The typed-header parsers of Panic/TypedHdr.v never panic: every `&slice[a..b]` is in range and
   on char boundaries, `length - 1` does not underflow; the generic list / quality-item parsers are
   total whenever the item parser is total on ASCII strings (what `HeaderValue::to_str` lets through). *)
From AV Require Import Lib.Base Panic.Str Panic.StrProofs Panic.RangeHdr Panic.RangeHdrProofs
  Panic.CDisp Panic.CDispProofs Panic.TypedHdr.

(* ---------------------------------------------------------------- list facts *)
Lemma forallb_firstn {A} (p : A -> bool) k : forall l, forallb p l = true -> forallb p (firstn k l) = true.
Proof.
  induction k as [|k IH]; intros l H; [reflexivity|]. destruct l as [|x l]; [reflexivity|].
  cbn [firstn forallb] in *. apply andb_true_iff in H as [H1 H2]. rewrite H1. cbn. apply IH, H2.
Qed.
Lemma forallb_skipn {A} (p : A -> bool) k : forall l, forallb p l = true -> forallb p (skipn k l) = true.
Proof.
  induction k as [|k IH]; intros l H; [exact H|]. destruct l as [|x l]; [reflexivity|].
  cbn [skipn forallb] in *. apply andb_true_iff in H as [_ H2]. apply IH, H2.
Qed.
Lemma forallb_filter {A} (p q : A -> bool) l : forallb p l = true -> forallb p (filter q l) = true.
Proof.
  induction l as [|x l IH]; intro H; [reflexivity|]. cbn [forallb filter] in *.
  apply andb_true_iff in H as [H1 H2]. destruct (q x); [cbn [forallb]; rewrite H1; cbn; auto|auto].
Qed.
Lemma forallb_map {A B} (p : B -> bool) (q : A -> bool) (g : A -> B) l :
  (forall x, q x = true -> p (g x) = true) -> forallb q l = true -> forallb p (map g l) = true.
Proof.
  intro Hg. induction l as [|x l IH]; intro H; [reflexivity|]. cbn [forallb map] in *.
  apply andb_true_iff in H as [H1 H2]. rewrite (Hg _ H1). cbn. auto.
Qed.
Lemma mapR_val_P {A B} (P : A -> bool) (f : A -> R B) (g : A -> B) l :
  (forall x, P x = true -> f x = Val (g x)) -> forallb P l = true -> mapR f l = Val (map g l).
Proof.
  intro Hf. induction l as [|x l IH]; intro H; [reflexivity|]. cbn [forallb mapR map] in *.
  apply andb_true_iff in H as [H1 H2]. rewrite (Hf _ H1), (IH H2). reflexivity.
Qed.

(* ---------------------------------------------------------------- ASCII strings *)
Lemma is_ascii_takeN k s : is_ascii s = true -> is_ascii (takeN k s) = true.
Proof. apply forallb_firstn. Qed.
Lemma is_ascii_dropN k s : is_ascii s = true -> is_ascii (dropN k s) = true.
Proof. apply forallb_skipn. Qed.
Lemma is_ascii_trim_p s : is_ascii s = true -> is_ascii (trim_p s) = true.
Proof. intro H. unfold trim_p, trim_end_p, trim_start_p. apply is_ascii_takeN, is_ascii_dropN, H. Qed.
Lemma is_ascii_nth s : is_ascii s = true -> forall i, i < lenN s -> nthN s i < 128.
Proof.
  induction s as [|b r IH]; intros H i Hi; [unfold lenN in Hi; cbn [length] in Hi; lia|].
  cbn [is_ascii forallb] in H. apply andb_true_iff in H as [H1 H2]. rewrite lenN_cons in Hi.
  destruct (N.eq_dec i 0) as [->|Hn]; [rewrite nthN_cons_0; lia|].
  replace i with ((i - 1) + 1) by lia. rewrite nthN_cons_succ. apply IH; [exact H2|lia].
Qed.
Lemma is_ascii_icb s i : is_ascii s = true -> i <= lenN s -> is_char_boundary s i = true.
Proof.
  intros H Hi. unfold is_char_boundary. destruct (i =? 0) eqn:E0; [reflexivity|].
  destruct (lenN s <=? i) eqn:E1; [lia|].
  pose proof (is_ascii_nth s H i ltac:(lia)) as Hn. unfold is_cont, in_rng.
  destruct (128 <=? nthN s i) eqn:E2; [lia|reflexivity].
Qed.
Lemma is_ascii_aa_ok s : is_ascii s = true -> aa_ok s = true.
Proof.
  induction s as [|b r IH]; intro H; [reflexivity|]. cbn [is_ascii forallb] in H.
  apply andb_true_iff in H as [H1 H2]. cbn [aa_ok]. destruct r as [|c r']; [reflexivity|].
  rewrite (IH H2). cbn [is_ascii forallb] in H2. apply andb_true_iff in H2 as [H3 _].
  rewrite H1. unfold is_cont, in_rng. destruct (128 <=? c) eqn:E; [lia|reflexivity].
Qed.
Lemma visible_is_ascii s : visible_ascii s = true -> is_ascii s = true.
Proof.
  unfold visible_ascii, is_ascii. induction s as [|b r IH]; intro H; [reflexivity|].
  cbn [forallb] in *. apply andb_true_iff in H as [H1 H2]. rewrite (IH H2).
  unfold in_rng in H1. destruct (b <? 128) eqn:E; [reflexivity|]. lia.
Qed.

Lemma split_p_ascii c fuel : forall s, is_ascii s = true -> forallb is_ascii (split_p fuel c s) = true.
Proof.
  induction fuel as [|f IH]; intros s H; [reflexivity|]. cbn [split_p]. unfold split_once_p.
  destruct (find_byte c s) as [i|]; [|cbn [forallb]; rewrite H; reflexivity].
  cbn [forallb]. rewrite (is_ascii_takeN i s H). cbn. apply IH, is_ascii_dropN, H.
Qed.

(* ---------------------------------------------------------------- entity.rs *)
Lemma last_is_nth c s : last_is c s = true -> 1 <= lenN s /\ nthN s (lenN s - 1) = c.
Proof.
  unfold last_is. destruct (rev s) as [|b l] eqn:E; [discriminate|]. intro H.
  assert (Hs : s = rev l ++ [b]) by (rewrite <- (rev_involutive s), E; reflexivity).
  subst s. rewrite lenN_app, lenN_rev. change (lenN [b]) with 1. split; [lia|].
  unfold nthN. rewrite app_nth2 by (unfold lenN; rewrite rev_length; lia).
  replace (N.to_nat (lenN l + 1 - 1) - length (rev l))%nat with O
    by (unfold lenN; rewrite rev_length; lia).
  cbn. lia.
Qed.
Lemma starts_with_weak s : starts_with WEAK_PREFIX s = true -> exists r, s = 87 :: 47 :: 34 :: r.
Proof.
  unfold WEAK_PREFIX. destruct s as [|a [|b [|c r]]]; cbn [starts_with]; try discriminate;
    try (intro H; repeat (apply andb_true_iff in H as [? H]); discriminate).
  intro H. apply andb_true_iff in H as [H1 H]. apply andb_true_iff in H as [H2 H].
  apply andb_true_iff in H as [H3 _]. exists r. f_equal; [lia|]. f_equal; [lia|]. f_equal. lia.
Qed.

Lemma checked_tag_total s from :
  aa_ok s = true -> 1 <= lenN s -> nthN s (lenN s - 1) < 128 ->
  from <= lenN s - 1 -> is_char_boundary s from = true ->
  exists o, checked_tag s from = Val o.
Proof.
  intros Ha H1 Hl Hf Hb. unfold checked_tag, sub_us.
  destruct (1 <=? lenN s) eqn:E; [|lia]. cbn [rbind]. unfold str_slice. rewrite Hb.
  rewrite (icb_at_ascii s (lenN s - 1)) by (try lia; exact Hl). cbn [andb].
  rewrite slice_ok by lia. cbn [rbind]. eauto.
Qed.

Section EntityProof.
  Variables (min_len strong_min weak_min : N).
  Hypothesis Hstrong : 2 <= N.max min_len strong_min.
  Hypothesis Hweak : 4 <= N.max min_len weak_min.

  Lemma entity_from_str_total s : aa_ok s = true -> exists o, entity_from_str min_len strong_min weak_min s = Val o.
  Proof.
    intro Ha. unfold entity_from_str.
    destruct (last_is 34 s) eqn:El; [|cbn; eauto]. cbn [negb orb].
    destruct (lenN s <? min_len) eqn:Em; [eauto|].
    destruct (last_is_nth _ _ El) as [H1 Hn].
    assert (Hl : nthN s (lenN s - 1) < 128) by lia.
    assert (Hweak_arm : exists o,
      rbind (if (weak_min <=? lenN s) && starts_with WEAK_PREFIX s then checked_tag s 3 else Val None)
        (fun weak => match weak with Some t => Val (Some (true, t)) | None => Val None end) = Val o).
    { destruct ((weak_min <=? lenN s) && starts_with WEAK_PREFIX s) eqn:Ew; [|cbn [rbind]; eauto].
      apply andb_true_iff in Ew as [Ew1 Ew2]. destruct (starts_with_weak _ Ew2) as [r Hr].
      assert (Hlen : 4 <= lenN s) by lia.
      destruct (checked_tag_total s 3 Ha H1 Hl ltac:(lia)) as [o Ho].
      - replace 3 with (2 + 1) by lia. apply icb_after_ascii; [exact Ha|lia|].
        rewrite Hr. vm_compute. reflexivity.
      - rewrite Ho. cbn [rbind]. destruct o; eauto. }
    destruct ((strong_min <=? lenN s) && starts_with [34] s) eqn:Es.
    - apply andb_true_iff in Es as [Es1 Es2]. destruct (starts_with_quote _ Es2) as [r Hr].
      assert (Hlen : 2 <= lenN s) by lia.
      destruct (checked_tag_total s 1 Ha H1 Hl ltac:(lia)) as [o Ho].
      + replace 1 with (0 + 1) by lia. apply icb_after_ascii; [exact Ha|lia|].
        rewrite Hr. vm_compute. reflexivity.
      + rewrite Ho. cbn [rbind]. destruct o; [eauto|exact Hweak_arm].
    - cbn [rbind]. exact Hweak_arm.
  Qed.
End EntityProof.

Definition entity_p (a b c : N) (s : bytes) : option (bool * bytes) :=
  match entity_from_str a b c s with Val o => o | Panic => None end.
Lemma entity_from_str_val a b c s : 2 <= N.max a b -> 4 <= N.max a c -> aa_ok s = true ->
  entity_from_str a b c s = Val (entity_p a b c s).
Proof.
  intros H1 H2 Ha. unfold entity_p. destruct (entity_from_str_total a b c H1 H2 s Ha) as [o Ho].
  rewrite Ho. reflexivity.
Qed.

(* ---------------------------------------------------------------- quality_item.rs, utils.rs *)
Definition rsplit_once_p (c : N) (s : bytes) : option (bytes * bytes) :=
  match find_byte c (rev s) with
  | None => None
  | Some j => Some (takeN (lenN s - (j + 1)) s, dropN (lenN s - (j + 1) + 1) s)
  end.
Lemma std_rsplit_once_val c s : std_rsplit_once c s = Val (rsplit_once_p c s).
Proof.
  unfold std_rsplit_once, rsplit_once_p. destruct (find_byte c (rev s)) as [j|] eqn:E; [|reflexivity].
  destruct (find_byte_some _ _ _ E) as [H _]. rewrite lenN_rev in H. unfold sub_us.
  destruct (j + 1 <=? lenN s) eqn:E1; [|lia]. cbn [rbind].
  rewrite slice_to by lia. cbn [rbind]. rewrite slice_from by lia. reflexivity.
Qed.

Section GenericProof.
  Variable T : Type.
  Variable item_parse : bytes -> R (option T).
  Variable qparse : bytes -> option N.
  Variables (min_attr max_qval : N).
  Hypothesis Hitem : forall x, is_ascii x = true -> item_parse x <> Panic.
  Hypothesis Hattr : 2 <= min_attr.

  Definition item_p (x : bytes) : option T := match item_parse x with Val o => o | Panic => None end.
  Lemma item_parse_val x : is_ascii x = true -> item_parse x = Val (item_p x).
  Proof. intro H. unfold item_p. pose proof (Hitem x H). destruct (item_parse x); [reflexivity|congruence]. Qed.

  Lemma qitem_from_str_never_panics s : qitem_from_str item_parse qparse min_attr max_qval s <> Panic.
  Proof.
    unfold qitem_from_str. destruct (is_ascii s) eqn:Ea; [|discriminate]. cbn [negb].
    rewrite std_rsplit_once_val. cbn [rbind]. unfold rsplit_once_p.
    destruct (find_byte 59 (rev s)) as [j|].
    2:{ cbn [rbind]. rewrite (item_parse_val s Ea). discriminate. }
    rewrite !trim_val. cbn [rbind].
    set (val := trim_p (takeN _ s)). set (q_attr := trim_p (dropN _ s)).
    assert (Hv : is_ascii val = true) by (apply is_ascii_trim_p, is_ascii_takeN, Ea).
    assert (Hq : is_ascii q_attr = true) by (apply is_ascii_trim_p, is_ascii_dropN, Ea).
    destruct (lenN q_attr <? min_attr) eqn:El; [discriminate|].
    unfold str_slice. rewrite !is_ascii_icb by (try exact Hq; lia). cbn [andb].
    rewrite slice_ok by lia. cbn [rbind].
    match goal with |- context [if ?c then _ else _] => destruct c end.
    - unfold str_slice_from, str_slice. rewrite !is_ascii_icb by (try exact Hq; lia). cbn [andb].
      rewrite slice_from by lia. cbn [rbind].
      destruct (max_qval <? lenN (dropN 2 q_attr)); [discriminate|].
      destruct (qparse (dropN 2 q_attr)); [|discriminate]. cbn [rbind].
      rewrite (item_parse_val val Hv). discriminate.
    - cbn [rbind]. rewrite (item_parse_val s Ea). discriminate.
  Qed.

  Lemma from_comma_delimited_g_total vals : forall acc, exists o, from_comma_delimited_g item_parse vals acc = Val o.
  Proof.
    induction vals as [|h r IH]; intro acc; cbn [from_comma_delimited_g]; [eauto|].
    destruct (visible_ascii h) eqn:Ev; [|cbn; eauto]. cbn [negb].
    apply visible_is_ascii in Ev. rewrite split_all_val. cbn [rbind].
    rewrite (mapR_val trim trim_p) by apply trim_val. cbn [rbind].
    rewrite (mapR_val trim trim_p) by apply trim_val. cbn [rbind].
    assert (Hall : forallb is_ascii (map trim_p (filter (fun x => negb (is_empty x)) (map trim_p (split_all_p 44 h)))) = true).
    { apply (forallb_map is_ascii is_ascii trim_p); [exact is_ascii_trim_p|].
      apply forallb_filter.
      apply (forallb_map is_ascii is_ascii trim_p); [exact is_ascii_trim_p|].
      apply split_p_ascii, Ev. }
    rewrite (mapR_val_P is_ascii item_parse item_p _ item_parse_val Hall).
    cbn [rbind]. apply IH.
  Qed.

  Lemma from_one_raw_str_g_never_panics v : from_one_raw_str_g item_parse v <> Panic.
  Proof.
    unfold from_one_raw_str_g. destruct v as [line|]; [|discriminate].
    destruct (visible_ascii line) eqn:Ev; [|discriminate]. destruct (is_empty line); [discriminate|].
    cbn [negb andb]. apply Hitem, visible_is_ascii, Ev.
  Qed.

  Lemma any_or_items_never_panics vals : any_or_items item_parse vals <> Panic.
  Proof.
    unfold any_or_items.
    assert (H : forall b, rbind (Val b) (fun is_any : bool => if is_any then Val (Some (inl tt))
              else rbind (from_comma_delimited_g item_parse vals []) (fun l => Val (option_map (@inr unit (list T)) l))) <> Panic).
    { intros [|]; cbn [rbind]; [discriminate|].
      destruct (from_comma_delimited_g_total vals []) as [o Ho]. rewrite Ho. discriminate. }
    destruct vals as [|first r]; [apply H|].
    destruct (visible_ascii first); [|apply H]. rewrite trim_val. cbn [rbind]. apply H.
  Qed.

  Lemma preference_from_str_never_panics s : is_ascii s = true -> preference_from_str item_parse s <> Panic.
  Proof.
    intro Ha. unfold preference_from_str. rewrite trim_val. cbn [rbind].
    destruct (bytes_eqb (trim_p s) [42]); [discriminate|].
    rewrite (item_parse_val _ (is_ascii_trim_p s Ha)). discriminate.
  Qed.
End GenericProof.

(* ---------------------------------------------------------------- content_range.rs *)
Lemma content_range_never_panics s : content_range_from_str s <> Panic.
Proof.
  unfold content_range_from_str. rewrite std_split_once_val. cbn [rbind].
  destruct (split_once_p 32 s) as [[u resp]|]; [|discriminate].
  destruct (bytes_eqb u BYTES); [|discriminate].
  rewrite std_split_once_val. cbn [rbind].
  destruct (split_once_p 47 resp) as [[range ilen]|]; [|discriminate].
  destruct (if bytes_eqb ilen [42] then Some None else option_map Some (parse_u64 ilen)); [|discriminate].
  destruct (bytes_eqb range [42]); [discriminate|].
  rewrite std_split_once_val. cbn [rbind].
  destruct (split_once_p 45 range) as [[fb lb]|]; [|discriminate].
  destruct (parse_u64 fb); [|discriminate]. destruct (parse_u64 lb); [|discriminate].
  destruct (_ <? _); discriminate.
Qed.

Lemma encoding_from_str_never_panics s : encoding_from_str s <> Panic.
Proof. unfold encoding_from_str. rewrite trim_val. cbn [rbind]. destruct (find _ _); discriminate. Qed.
