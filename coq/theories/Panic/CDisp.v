(* actix-web/src/http/header/content_disposition.rs: `split_once`, `split_once_and_trim`,
   `ContentDisposition::from_raw` (quoted-string scan with escapes, `&left[end + 1..]`, ext-value
   handling through actix-http `parse_extended_value`).

   str slicing is partial twice over: the offset must be in range AND on a char boundary
   ([str_split_at], [str_slice_from]). The while-loop gets fuel; running out of it is a [Panic]
   (so "never Panic" also says the loop ends within len + 1 rounds).
   Outside the model: the language-tag parser (crate language-tags) = parameter [lang_ok];
   `Charset::from_str` is total (an unknown name becomes Charset::Ext). *)
From AV Require Import Lib.Base Panic.Str Panic.StrProofs.

(* fn split_once(haystack, needle): at the first needle or at the end *)
Definition split_once (h : bytes) (c : N) : R (bytes * bytes) :=
  match find_byte c h with
  | None => Val (h, [])
  | Some sc =>
      '(first, last) <- str_split_at h sc ;;           (* haystack.split_at(sc) *)
      '(_, rest) <- str_split_at last 1 ;;             (* last.split_at(1).1 *)
      Val (first, rest)
  end.

Definition split_once_and_trim (h : bytes) (c : N) : R (bytes * bytes) :=
  '(a, b) <- split_once h c ;; a' <- trim_end a ;; b' <- trim_start b ;; Val (a', b').

Record ext := mkExt { e_charset : bytes; e_lang : bool; e_value : bytes }.
Inductive param :=
| PName (v : bytes) | PFilename (v : bytes) | PFilenameExt (e : ext)
| PUnknown (n v : bytes) | PUnknownExt (n : bytes) (e : ext).
Inductive dtype := DInline | DAttachment | DFormData | DExt (s : bytes).

Definition hexv (b : N) : option N :=
  if in_rng 48 57 b then Some (b - 48) else if in_rng 97 102 b then Some (b - 87)
  else if in_rng 65 70 b then Some (b - 55) else None.
(* percent_encoding::percent_decode *)
Fixpoint percent_decode (s : bytes) : bytes :=
  match s with
  | [] => []
  | b :: r =>
      if b =? 37 then
        match r with
        | h :: l :: r2 => match hexv h, hexv l with
                          | Some x, Some y => (x * 16 + y) :: percent_decode r2
                          | _, _ => b :: percent_decode r
                          end
        | _ => b :: percent_decode r
        end
      else b :: percent_decode r
  end.

Section CD.
Variable lang_ok : bytes -> bool.

(* header::parse_extended_value: val.splitn(3, '\'') *)
Definition parse_extended_value (v : bytes) : R (option ext) :=
  o1 <- std_split_once 39 v ;;
  match o1 with
  | None => Val None
  | Some (charset, r1) =>
      o2 <- std_split_once 39 r1 ;;
      match o2 with
      | None => Val None
      | Some (lang, value) =>
          if is_empty lang then Val (Some (mkExt (ascii_upper charset) false (percent_decode value)))
          else if lang_ok lang then Val (Some (mkExt (ascii_upper charset) true (percent_decode value)))
          else Val None
      end
  end.

(* for (i, &c) in left.as_bytes().iter().skip(1).enumerate() { .. end = Some(i + 1); break .. } *)
Fixpoint scan (bs : bytes) (i : N) (escaping : bool) (acc : bytes) : R (bytes * option N) :=
  match bs with
  | [] => Val (acc, None)
  | c :: r =>
      if escaping then scan r (i + 1) false (acc ++ [c])
      else if c =? 92 then scan r (i + 1) true acc
      else if c =? 34 then e <- add_us i 1 ;; Val (acc, Some e)
      else scan r (i + 1) false (acc ++ [c])
  end.

Definition S_NAME : bytes := [110; 97; 109; 101].
Definition S_FILENAME : bytes := [102; 105; 108; 101; 110; 97; 109; 101].
Definition S_INLINE : bytes := [105; 110; 108; 105; 110; 101].
Definition S_ATTACHMENT : bytes := [97; 116; 116; 97; 99; 104; 109; 101; 110; 116].
Definition S_FORMDATA : bytes := [102; 111; 114; 109; 45; 100; 97; 116; 97].

(* str::strip_suffix('*') *)
Definition strip_suffix_star (s : bytes) : option bytes :=
  match rev s with 42 :: r => Some (rev r) | _ => None end.

Definition tl_bytes (s : bytes) : bytes := match s with [] => [] | _ :: r => r end.

(* the `while !left.is_empty()` loop; None = Err(ParseError::Header) *)
Fixpoint params (fuel : nat) (lft : bytes) (acc : list param) : R (option (list param)) :=
  if is_empty lft then Val (Some (rev acc)) else
  match fuel with
  | O => Panic
  | S f =>
      '(param_name, new_lft) <- split_once_and_trim lft 61 ;;
      if is_empty param_name || bytes_eqb param_name [42] || is_empty new_lft then Val None else
      match strip_suffix_star param_name with
      | Some pn =>
          '(ext_value, nl) <- split_once_and_trim new_lft 59 ;;
          ev <- parse_extended_value ext_value ;;
          match ev with
          | None => Val None
          | Some e =>
              params f nl ((if eq_ignore_ascii_case pn S_FILENAME then PFilenameExt e else PUnknownExt pn e) :: acc)
          end
      | None =>
          let mk v := if eq_ignore_ascii_case param_name S_NAME then PName v
                      else if eq_ignore_ascii_case param_name S_FILENAME then PFilename v
                      else PUnknown param_name v in
          if starts_with [34] new_lft then
            '(quoted, end_) <- scan (tl_bytes new_lft) 0 false [] ;;
            match end_ with
            | None => Val None
            | Some e =>
                e1 <- add_us e 1 ;;
                l1 <- str_slice_from new_lft e1 ;;          (* &lft[end + 1..] *)
                '(_, l2) <- split_once l1 59 ;;
                l3 <- trim_start l2 ;;
                if utf8_valid quoted then params f l3 (mk quoted :: acc) else Val None
            end
          else
            '(token, nl) <- split_once_and_trim new_lft 59 ;;
            if is_empty token then Val None else params f nl (mk token :: acc)
      end
  end.

Definition dtype_of (s : bytes) : dtype :=
  if eq_ignore_ascii_case s S_INLINE then DInline
  else if eq_ignore_ascii_case s S_ATTACHMENT then DAttachment
  else if eq_ignore_ascii_case s S_FORMDATA then DFormData
  else DExt s.

Definition from_raw (hv : bytes) : R (option (dtype * list param)) :=
  if negb (utf8_valid hv) then Val None else
  t <- trim hv ;;
  '(disp_type, lft) <- split_once_and_trim t 59 ;;
  if is_empty disp_type then Val None else
  ps <- params (S (length hv)) lft [] ;;
  Val (match ps with Some l => Some (dtype_of disp_type, l) | None => None end).
End CD.
