(* actix-http/src/h1/encoder.rs, `MessageType::encode_headers`: the raw-pointer header writer.
   LENGTH ACCOUNTING ONLY: the model tracks the BytesMut (len, capacity), the writer's `pos` (bytes
   written since the last cursor synchronisation) and `remaining`; it does not model pointer
   validity beyond "every write lies inside the capacity".

     let mut remaining = dst.capacity() - dst.len();  let mut pos = 0;
     for each header value:   let len = k_len + v_len + 4;
        if len > remaining { dst.advance_mut(pos); pos = 0; dst.reserve(len * 2);
                             remaining = dst.capacity() - dst.len(); buf = dst.chunk_mut().as_mut_ptr() }
        write len bytes at buf;  buf = buf.add(len);  pos += len;  remaining -= len;
     dst.advance_mut(pos);

   [grow len cap additional] is the capacity after `BytesMut::reserve(additional)`; the only thing
   assumed about it is reserve's contract (capacity - len >= additional). *)
From AV Require Import Lib.Base Panic.Str.

Record wst := mkW { w_len : N; w_cap : N; w_pos : N; w_rem : N }.

Definition mul_us (a b : N) : R N := if a * b <=? usize_max then Val (a * b) else Panic.

Section Writer.
Variable grow : N -> N -> N -> N.

(* BytesMut::advance_mut(cnt): panics when cnt > capacity - len *)
Definition advance_mut (s : wst) (cnt : N) : R wst :=
  if cnt <=? w_cap s - w_len s then Val (mkW (w_len s + cnt) (w_cap s) (w_pos s) (w_rem s)) else Panic.

Definition w_init (len cap : N) : R wst := r <- sub_us cap len ;; Val (mkW len cap 0 r).

Definition write_line (s : wst) (kv : N * N) : R wst :=
  let '(k, v) := kv in
  l1 <- add_us k v ;; len <- add_us l1 4 ;;
  s1 <- (if w_rem s <? len then
           s' <- advance_mut s (w_pos s) ;;
           l2 <- mul_us len 2 ;;
           let cap' := grow (w_len s') (w_cap s') l2 in
           r <- sub_us cap' (w_len s') ;;
           Val (mkW (w_len s') cap' 0 r)
         else Val s) ;;
  (* the unsafe writes cover [len + pos, len + pos + line length): inside the capacity or a Panic
     (stands for the out-of-bounds write) *)
  if w_len s1 + w_pos s1 + len <=? w_cap s1 then
    p <- add_us (w_pos s1) len ;; r <- sub_us (w_rem s1) len ;;
    Val (mkW (w_len s1) (w_cap s1) p r)
  else Panic.

Fixpoint write_all (s : wst) (hs : list (N * N)) : R wst :=
  match hs with
  | [] => Val s
  | h :: r => s' <- write_line s h ;; write_all s' r
  end.

(* the header-writing part of encode_headers: returns the BytesMut (len, capacity) afterwards *)
Definition write_headers (len cap : N) (hs : list (N * N)) : R (N * N) :=
  s0 <- w_init len cap ;; s1 <- write_all s0 hs ;; s2 <- advance_mut s1 (w_pos s1) ;;
  Val (w_len s2, w_cap s2).
End Writer.

Definition line_len (kv : N * N) : N := fst kv + snd kv + 4.
(* the smallest capacity reserve may produce *)
Definition grow_min (len cap add : N) : N := N.max cap (len + add).
