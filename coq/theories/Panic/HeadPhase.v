(* actix-http/src/h1/decoder.rs — the HEAD phase of the request and response decoders, index level:

     httparse result  -->  HeaderIndex::record  -->  src.split_to(len)  -->  &headers[..h_len]
                      -->  MessageType::set_headers (slice[idx.name.0..idx.name.1],
                           slice.slice(idx.value.0..idx.value.1), HeaderName::from_bytes,
                           HeaderValue::from_maybe_shared_unchecked, &bytes[0..4]) --> post-checks

   httparse is outside: its result is an input ([hp_res]), constrained by the CONTRACT [hp_okb]
   (decidable; the driver re-evaluates it on every correspondence case, so a violation by the real
   httparse would surface as a disagreement): the consumed length is inside the buffer, every
   header name / value is a sub-slice of the consumed prefix given as (address, length) with
   addresses relative to the buffer's base address, at most MAX_HEADERS headers, method / path /
   version (code) present on Complete, header values free of control bytes.
   `HeaderIndex::record` is modelled on addresses: `ptr as usize - bytes_ptr` is a partial usize
   subtraction, `start + len` a partial addition.

   [f27] selects the code before (false: `.unwrap()`) / after (true: `.map_err(..)?`) the F27
   repair of `HeaderName::from_bytes`. `from_maybe_shared_unchecked` is modelled with its debug
   assertion (the harness builds with debug assertions). *)
From AV Require Import Lib.Base Panic.Str Panic.StrProofs Panic.MpScan.

Record hdr := mkHdr { h_name_ptr : N; h_name_len : N; h_val_ptr : N; h_val_len : N }.
Record parsed := mkParsed {
  p_len : N;                    (* Status::Complete(len) *)
  p_first : bool;               (* req.method / res.version .. are Some (all of them) *)
  p_minor : N;                  (* version: 1 = HTTP/1.1 *)
  p_headers : list hdr }.
Inductive hp_res := HPartial | HError | HComplete (p : parsed).

Inductive plen := PLNone | PLLength (n : N) | PLChunked | PLUpgrade.
Inductive dres :=
| DNone | DTooLarge | DParseErr | DMethod | DUri | DStatus | DHeader
| DOk (nheaders : N) (kind : N).            (* kind: 0 none, 1 payload, 2 stream *)

Definition idx := (N * N * N * N)%type.     (* name.0, name.1, value.0, value.1 *)

Definition is_tchar (b : N) : bool :=
  in_rng 48 57 b || in_rng 65 90 b || in_rng 97 122 b ||
  existsb (N.eqb b) [33; 35; 36; 37; 38; 39; 42; 43; 45; 46; 94; 95; 96; 124; 126].
(* http::HeaderName::from_bytes: non-empty, at most 65535 bytes, token characters; lower-cased *)
Definition MAX_HEADER_NAME_LEN : N := 65535.
Definition header_name_from_bytes (nm : bytes) : option bytes :=
  if (lenN nm =? 0) || (MAX_HEADER_NAME_LEN <? lenN nm) then None
  else if forallb is_tchar nm then Some (ascii_lower nm) else None.
(* what HeaderValue accepts: no control bytes except tab *)
Definition hv_valid (v : bytes) : bool := forallb (fun b => ((32 <=? b) && negb (b =? 127)) || (b =? 9)) v.

Definition S_CL : bytes := [99;111;110;116;101;110;116;45;108;101;110;103;116;104].
Definition S_TE : bytes := [116;114;97;110;115;102;101;114;45;101;110;99;111;100;105;110;103].
Definition S_UPGRADE : bytes := [117;112;103;114;97;100;101].
Definition S_EXPECT : bytes := [101;120;112;101;99;116].
Definition S_CHUNKED : bytes := [99;104;117;110;107;101;100].
Definition S_IDENTITY : bytes := [105;100;101;110;116;105;116;121].
Definition S_WEBSOCKET : bytes := [119;101;98;115;111;99;107;101;116].
Definition S_100 : bytes := [49;48;48;45].

Record sh := mkSh { s_ws : bool; s_chunked : bool; s_seen_te : bool; s_cl : option N;
                    s_n : N; s_has_te : bool }.
Definition sh0 : sh := mkSh false false false None 0 false.
Definition appended (s : sh) (te : bool) : sh :=
  mkSh (s_ws s) (s_chunked s) (s_seen_te s) (s_cl s) (s_n s + 1) (s_has_te s || te).

Definition unwrap_flag (b : bool) : R unit := if b then Val tt else Panic.   (* Option::unwrap *)

Section Head.
Variable MAX_HEADERS : N.
Variable MAX_BUFFER_SIZE : N.
Variable f27 : bool.

(* HeaderIndex::record: headers.iter().zip(indices.iter_mut()), indices has MAX_HEADERS slots *)
Definition record_one (base : N) (h : hdr) : R idx :=
  ns <- sub_us (h_name_ptr h) base ;; ne <- add_us ns (h_name_len h) ;;
  vs <- sub_us (h_val_ptr h) base ;; ve <- add_us vs (h_val_len h) ;;
  Val (ns, ne, vs, ve).
Definition record (base : N) (hs : list hdr) : R (list idx) :=
  mapR (record_one base) (firstn (N.to_nat MAX_HEADERS) hs).

(* &headers[..h_len] on the MAX_HEADERS-slot array (slots beyond the recorded ones are (0,0,0,0)) *)
Definition take_indices (ixs : list idx) (h_len : N) : R (list idx) :=
  if h_len <=? MAX_HEADERS then
    Val (firstn (N.to_nat h_len) (ixs ++ repeat (0, 0, 0, 0) (N.to_nat MAX_HEADERS)))
  else Panic.

(* one round of the `for idx in raw_headers.iter()` loop; None = Err(ParseError::Header) *)
Definition header_step (http11 : bool) (sl : bytes) (st : sh) (ix : idx) : R (option sh) :=
  let '(ns, ne, vs, ve) := ix in
  nm <- slice sl ns ne ;;                                   (* &slice[idx.name.0..idx.name.1] *)
  name <- (match header_name_from_bytes nm with
           | Some n => Val (Some n)
           | None => if f27 then Val None else Panic        (* .unwrap() before F27 *)
           end) ;;
  match name with
  | None => Val None
  | Some name =>
      v <- slice sl vs ve ;;                                (* slice.slice(idx.value.0..idx.value.1) *)
      if negb (hv_valid v) then Panic else                  (* debug assertion of .._unchecked *)
      if bytes_eqb name S_CL then
        match s_cl st with
        | Some _ => Val None
        | None =>
            if visible_ascii v then
              t <- trim v ;;
              if starts_with [43] t then Val None else
              match parse_u64 t with
              | Some n => Val (Some (mkSh (s_ws st) (s_chunked st) (s_seen_te st) (Some n) (s_n st + 1) (s_has_te st)))
              | None => Val None
              end
            else Val None
        end
      else if bytes_eqb name S_TE then
        if s_seen_te st then Val None
        else if http11 then
          if visible_ascii v then
            t <- trim v ;;
            if eq_ignore_ascii_case t S_CHUNKED then
              Val (Some (mkSh (s_ws st) true true (s_cl st) (s_n st + 1) true))
            else if eq_ignore_ascii_case t S_IDENTITY then
              Val (Some (mkSh (s_ws st) (s_chunked st) true (s_cl st) (s_n st + 1) true))
            else Val None
          else Val None
        else Val (Some (appended st true))
      else if bytes_eqb name S_UPGRADE then
        if visible_ascii v then
          t <- trim v ;;
          Val (Some (mkSh (s_ws st || eq_ignore_ascii_case t S_WEBSOCKET) (s_chunked st) (s_seen_te st)
                          (s_cl st) (s_n st + 1) (s_has_te st)))
        else Val (Some (appended st false))
      else if bytes_eqb name S_EXPECT then
        _e <- (if 4 <=? lenN v then p <- slice v 0 4 ;; Val (bytes_eqb p S_100) else Val false) ;;
        Val (Some (appended st false))
      else Val (Some (appended st false))
  end.

Fixpoint set_headers_loop (http11 : bool) (sl : bytes) (st : sh) (ixs : list idx) : R (option sh) :=
  match ixs with
  | [] => Val (Some st)
  | ix :: r =>
      o <- header_step http11 sl st ix ;;
      match o with None => Val None | Some st' => set_headers_loop http11 sl st' r end
  end.

Definition plen_of (st : sh) : plen :=
  if s_chunked st then PLChunked else if s_ws st then PLUpgrade
  else match s_cl st with Some n => PLLength n | None => PLNone end.

(* the common front part: unwraps, record, split_to(len), &headers[..h_len], set_headers *)
Definition head_common (buf : bytes) (base : N) (p : parsed) : R (option sh) :=
  ixs <- record base (p_headers p) ;;
  '(sl, _) <- split_to buf (p_len p) ;;
  hs <- take_indices ixs (lenN (p_headers p)) ;;
  set_headers_loop (p_minor p =? 1) sl sh0 hs.

(* <Request as MessageType>::decode *)
Definition request_decode (buf : bytes) (base : N) (hp : hp_res)
                          (method_ok uri_ok is_post is_connect : bool) : R dres :=
  match hp with
  | HError => Val DParseErr
  | HPartial => Val (if MAX_BUFFER_SIZE <=? lenN buf then DTooLarge else DNone)
  | HComplete p =>
      _m <- unwrap_flag (p_first p) ;;                      (* req.method.unwrap() *)
      if negb method_ok then Val DMethod else
      _u <- unwrap_flag (p_first p) ;;                      (* req.path.unwrap() *)
      if negb uri_ok then Val DUri else
      _v <- unwrap_flag (p_first p) ;;                      (* req.version.unwrap() *)
      o <- head_common buf base p ;;
      match o with
      | None => Val DHeader
      | Some st =>
          let http10 := negb (p_minor p =? 1) in
          if s_has_te st && (http10 || negb (s_chunked st) || match s_cl st with Some _ => true | None => false end)
          then Val DHeader
          else
            let length := plen_of st in
            if http10 && is_post && match length with PLNone => true | _ => false end then Val DHeader
            else
              let length := match length with PLLength 0 => PLNone | l => l end in
              Val (DOk (s_n st)
                       match length with
                       | PLLength _ | PLChunked => 1
                       | PLUpgrade => 2
                       | PLNone => if is_connect then 2 else 0
                       end)
      end
  end.

(* <ResponseHead as MessageType>::decode *)
Definition response_decode (buf : bytes) (base : N) (hp : hp_res) (code : N) : R dres :=
  match hp with
  | HError => Val DParseErr
  | HPartial => Val (if MAX_BUFFER_SIZE <=? lenN buf then DTooLarge else DNone)
  | HComplete p =>
      _v <- unwrap_flag (p_first p) ;;                      (* res.version.unwrap() *)
      _c <- unwrap_flag (p_first p) ;;                      (* res.code.unwrap() *)
      if negb (in_rng 100 999 code) then Val DStatus else   (* StatusCode::from_u16 *)
      o <- head_common buf base p ;;
      match o with
      | None => Val DHeader
      | Some st =>
          let length := match plen_of st with PLLength 0 => PLNone | l => l end in
          Val (DOk (s_n st)
                   match length with
                   | PLLength _ | PLChunked => 1
                   | _ => if code =? 101 then 2 else if p_minor p =? 1 then 0 else 1
                   end)
      end
  end.

(* ---- the contract of httparse (+ the address space) *)
Definition hdr_okb (base : N) (buf : bytes) (len : N) (h : hdr) : bool :=
  (base <=? h_name_ptr h) && (h_name_ptr h - base + h_name_len h <=? len) &&
  (base <=? h_val_ptr h) && (h_val_ptr h - base + h_val_len h <=? len) &&
  hv_valid (takeN (h_val_len h) (dropN (h_val_ptr h - base) (takeN len buf))).
Definition hp_okb (base : N) (buf : bytes) (hp : hp_res) : bool :=
  match hp with
  | HComplete p =>
      (p_len p <=? lenN buf) && (base + lenN buf <=? usize_max) && p_first p &&
      (lenN (p_headers p) <=? MAX_HEADERS) && forallb (hdr_okb base buf (p_len p)) (p_headers p)
  | _ => true
  end.
End Head.
