(* actix-multipart: index arithmetic of the field scanner and the boundary readers (panic-aware,
   index-only; the byte-exactness of the scanner is C15's subject: Multipart/Scan.v).

     field.rs    InnerField::read_stream   (payload.buf[0], [2..4], [1..3], [b_len..b_size],
                                            &buf[pos..], cur = pos + idx, cur + 4 > len,
                                            [cur..cur+2], [cur+2..cur+4], [cur..=cur], [cur+1..cur+3],
                                            split_to(cur), the `loop { .. pos = cur + 1; continue }`)
                 InnerField::read_len      (`*size -= len`, chunk.split_to(len))
     payload.rs  read_max / read_exact / read_until (split_to(idx + needle.len())) / readline /
                 readline_or_eof
     multipart.rs read_boundary, skip_until_boundary (loop over readline)

   [la] is the look-ahead constant of `cur + 4 > len` (4 in the code); it is a parameter so that
   the off-by-one variant (3) can be shown to panic. Loops carry fuel; running out is [Panic]. *)
From AV Require Import Lib.Base Panic.Str.

Definition CR : N := 13.
Definition DD : bytes := [45; 45].
Definition CRLF : bytes := [13; 10].

(* buf[i] *)
Definition index (s : bytes) (i : N) : R N := if i <? lenN s then Val (nthN s i) else Panic.
(* BytesMut::split_to(n): panics when n > len *)
Definition split_to (s : bytes) (n : N) : R (bytes * bytes) :=
  if n <=? lenN s then Val (takeN n s, dropN n s) else Panic.

Inductive rs := RPending | RIncomplete | RBoundary | RChunk (chunk rest : bytes).

Section Scan.
Variable la : N.

Fixpoint scan_loop (fuel : nat) (buf : bytes) (eof : bool) (len pos : N) : R rs :=
  match fuel with
  | O => Panic
  | S f =>
      tail <- slice buf pos len ;;                          (* &payload.buf[pos..] *)
      match find_byte CR tail with                          (* memmem::find(.., b"\r") *)
      | None => Val (RChunk buf [])                         (* payload.buf.split() *)
      | Some idx =>
          cur <- add_us pos idx ;;
          c4 <- add_us cur la ;;
          if len <? c4 then                                 (* cur + 4 > len *)
            if 0 <? cur then '(a, b) <- split_to buf cur ;; Val (RChunk a b)
            else if eof then Val RIncomplete else Val RPending
          else
            c2 <- add_us cur 2 ;;
            s1 <- slice buf cur c2 ;;                       (* [cur..cur + 2] *)
            crlf <- (if bytes_eqb s1 CRLF then
                       e4 <- add_us cur 4 ;; s2 <- slice buf c2 e4 ;;   (* [cur + 2..cur + 4] *)
                       Val (bytes_eqb s2 DD)
                     else Val false) ;;
            isb <- (if crlf then Val true else
                      c1 <- add_us cur 1 ;; s3 <- slice buf cur c1 ;;   (* [cur..=cur] *)
                      if bytes_eqb s3 [CR] then
                        c3 <- add_us cur 3 ;; s4 <- slice buf c1 c3 ;;  (* [cur + 1..cur + 3] *)
                        Val (bytes_eqb s4 DD)
                      else Val false) ;;
            c1 <- add_us cur 1 ;;
            if isb then
              if negb (cur =? 0) then '(a, b) <- split_to buf cur ;; Val (RChunk a b)
              else scan_loop f buf eof len c1               (* pos = cur + 1; continue *)
            else scan_loop f buf eof len c1
      end
  end.

Definition read_stream (buf : bytes) (eof : bool) (boundary : bytes) : R rs :=
  let len := lenN buf in
  if len =? 0 then Val (if eof then RIncomplete else RPending) else
  (* check boundary *)
  decided <- (if 4 <=? len then
                b0 <- index buf 0 ;;
                if b0 =? CR then
                  blen <- (if starts_with CRLF buf then
                             s <- slice buf 2 4 ;;
                             if bytes_eqb s DD then Val (Some 4) else
                             s' <- slice buf 1 3 ;; Val (if bytes_eqb s' DD then Some 3 else None)
                           else s' <- slice buf 1 3 ;; Val (if bytes_eqb s' DD then Some 3 else None)) ;;
                  match blen with
                  | None => Val None
                  | Some b_len =>
                      b_size <- add_us (lenN boundary) b_len ;;
                      if len <? b_size then Val (Some (if eof then RIncomplete else RPending))
                      else s <- slice buf b_len b_size ;;
                           Val (if bytes_eqb s boundary then Some RBoundary else None)
                  end
                else Val None
              else Val None) ;;
  match decided with
  | Some r => Val r
  | None => scan_loop (S (length buf)) buf eof len 0
  end.
End Scan.

(* ---- PayloadBuffer readers: Some (chunk, rest) / None; errors do not matter here *)
Definition read_max (buf : bytes) (size : N) : R (option (bytes * bytes)) :=
  if is_empty buf then Val None else
  x <- split_to buf (N.min (lenN buf) size) ;; Val (Some x).
Definition read_exact (buf : bytes) (size : N) : R (option (bytes * bytes)) :=
  if size <=? lenN buf then x <- split_to buf size ;; Val (Some x) else Val None.
Definition read_until (buf needle : bytes) : R (option (bytes * bytes)) :=
  match find_sub needle buf with
  | None => Val None
  | Some idx => n <- add_us idx (lenN needle) ;; x <- split_to buf n ;; Val (Some x)
  end.
Definition readline (buf : bytes) := read_until buf [10].

(* InnerField::read_len: returns (chunk, new size, new buffer) *)
Definition read_len (buf : bytes) (size : N) : R (option (bytes * N * bytes)) :=
  if size =? 0 then Val None else
  o <- read_max buf size ;;
  match o with
  | None => Val None
  | Some (chunk, rest) =>
      let len := N.min (lenN chunk) size in
      size' <- sub_u64 size len ;;
      '(ch, back) <- split_to chunk len ;;
      Val (Some (ch, size', back ++ rest))               (* payload.unprocessed(chunk) *)
  end.

(* Multipart::skip_until_boundary: Some (Some eof) found / Some None boundary missing / None need more *)
Fixpoint skip_loop (fuel : nat) (buf boundary : bytes) : R (option (option bool) * bytes) :=
  match fuel with
  | O => Panic
  | S f =>
      o <- readline buf ;;
      match o with
      | None => Val (None, buf)
      | Some (chunk, rest) =>
          if is_empty chunk then Val (Some None, rest) else
          if bytes_eqb chunk (DD ++ boundary ++ CRLF) then Val (Some (Some false), rest)
          else if bytes_eqb chunk (DD ++ boundary ++ DD ++ CRLF) then Val (Some (Some true), rest)
          else skip_loop f rest boundary
      end
  end.
Definition skip_until_boundary (buf boundary : bytes) := skip_loop (S (length buf)) buf boundary.

(* Multipart::read_boundary: only readline_or_eof slices; the prefix tests are total *)
Definition read_boundary_line (buf : bytes) (eof : bool) : R (option (bytes * bytes)) :=
  o <- readline buf ;;
  match o with
  | Some x => Val (Some x)
  | None => if eof then Val (Some (buf, [])) else Val None    (* self.buf.split() *)
  end.
