(* ContentDisposition::from_raw never panics: every split_at / slice offset is in range and on a
   char boundary, `end + 1` does not overflow, the parameter loop ends. *)
From AV Require Import Lib.Base Panic.Str Panic.StrProofs Panic.CDisp.

(* "no continuation byte directly after an ASCII byte": what valid UTF-8 gives us about char
   boundaries, in a form that is closed under taking substrings *)
Fixpoint aa_ok (s : bytes) : bool :=
  match s with
  | [] => true
  | b :: r => match r with
              | [] => true
              | c :: _ => (if b <? 128 then negb (is_cont c) else true) && aa_ok r
              end
  end.

Lemma aa_ok_tail b r : aa_ok (b :: r) = true -> aa_ok r = true.
Proof. cbn [aa_ok]. destruct r; [reflexivity|]. intro H. apply andb_true_iff in H. apply H. Qed.

Lemma aa_ok_skipn k : forall s, aa_ok s = true -> aa_ok (skipn k s) = true.
Proof.
  induction k as [|k IH]; intros s H; [exact H|]. destruct s as [|b r]; [reflexivity|].
  cbn [skipn]. apply IH. eapply aa_ok_tail; exact H.
Qed.
Lemma aa_ok_dropN k s : aa_ok s = true -> aa_ok (dropN k s) = true.
Proof. apply aa_ok_skipn. Qed.

Lemma aa_ok_firstn k : forall s, aa_ok s = true -> aa_ok (firstn k s) = true.
Proof.
  induction k as [|k IH]; intros s H; [reflexivity|]. destruct s as [|b r]; [reflexivity|].
  cbn [firstn]. pose proof (IH r (aa_ok_tail _ _ H)) as H2.
  destruct r as [|c r']; [destruct k; reflexivity|].
  destruct k as [|k']; [reflexivity|]. cbn [firstn] in *. cbn [aa_ok] in H.
  change (aa_ok (b :: c :: firstn k' r') = true). cbn [aa_ok].
  apply andb_true_iff in H as [H1 _]. apply andb_true_iff. split; [exact H1|exact H2].
Qed.
Lemma aa_ok_takeN k s : aa_ok s = true -> aa_ok (takeN k s) = true.
Proof. apply aa_ok_firstn. Qed.

Lemma nthN_cons_succ b r i : nthN (b :: r) (i + 1) = nthN r i.
Proof. unfold nthN. replace (N.to_nat (i + 1)) with (S (N.to_nat i)) by lia. reflexivity. Qed.
Lemma nthN_cons_0 b r : nthN (b :: r) 0 = b.
Proof. reflexivity. Qed.

Lemma aa_ok_next s : aa_ok s = true -> forall i, i + 1 < lenN s -> nthN s i < 128 ->
  is_cont (nthN s (i + 1)) = false.
Proof.
  induction s as [|b r IH]; intros H i Hi Hb; [unfold lenN in Hi; cbn [length] in Hi; lia|].
  destruct (N.eq_dec i 0) as [->|Hn].
  - destruct r as [|c r']; [unfold lenN in Hi; cbn [length] in Hi; lia|].
    cbn [aa_ok] in H. apply andb_true_iff in H as [H1 _].
    rewrite nthN_cons_0 in Hb. change (0 + 1) with 1. replace 1 with (0 + 1) by lia.
    rewrite nthN_cons_succ, nthN_cons_0.
    destruct (b <? 128) eqn:E; [|lia]. destruct (is_cont c); [discriminate|reflexivity].
  - replace i with ((i - 1) + 1) in * by lia. rewrite nthN_cons_succ in *. rewrite lenN_cons in Hi.
    apply IH; [eapply aa_ok_tail; exact H|lia|exact Hb].
Qed.

Lemma nthN_dropN a s i : nthN (dropN a s) i = nthN s (a + i).
Proof.
  unfold nthN, dropN. replace (N.to_nat (a + i)) with (N.to_nat a + N.to_nat i)%nat by lia.
  generalize (N.to_nat a) as k. intro k. revert s; induction k as [|k IH]; intro s; [reflexivity|].
  destruct s as [|b r]; [cbn; destruct (N.to_nat i); reflexivity|]. cbn [skipn Nat.add nth]. apply IH.
Qed.

(* ---- valid UTF-8 has the property *)
Lemma is_cont_ge c : is_cont c = true -> 128 <= c.
Proof. unfold is_cont, in_rng. lia. Qed.
Lemma aa_ok_cons_hi b r : 128 <= b -> aa_ok (b :: r) = aa_ok r.
Proof.
  intro H. destruct r as [|c r']; [reflexivity|]. cbn [aa_ok].
  destruct (b <? 128) eqn:E; [lia|]. reflexivity.
Qed.
Lemma utf8_head_not_cont s : utf8_valid s = true -> match s with c :: _ => is_cont c = false | [] => True end.
Proof.
  destruct s as [|b r]; [exact (fun _ => I)|]. cbn [utf8_valid]. unfold is_cont, in_rng.
  destruct (b <? 128) eqn:E1; [lia|].
  destruct ((194 <=? b) && (b <=? 223)) eqn:E2; [lia|].
  destruct ((224 <=? b) && (b <=? 239)) eqn:E3; [lia|].
  destruct ((240 <=? b) && (b <=? 244)) eqn:E4; [lia|]. discriminate.
Qed.

Lemma utf8_valid_aa n : forall s, (length s <= n)%nat -> utf8_valid s = true -> aa_ok s = true.
Proof.
  induction n as [|n IH]; intros s Hl H.
  - destruct s; [reflexivity|cbn in Hl; lia].
  - destruct s as [|b r]; [reflexivity|]. cbn [length] in Hl. cbn [utf8_valid] in H.
    destruct (b <? 128) eqn:E1.
    + pose proof (utf8_head_not_cont r H) as Hh. pose proof (IH r ltac:(lia) H) as Hr.
      destruct r as [|c r']; [reflexivity|]. cbn [aa_ok] in *. rewrite E1, Hh. exact Hr.
    + assert (Hb : 128 <= b) by lia. rewrite (aa_ok_cons_hi b r Hb).
      destruct (in_rng 194 223 b).
      * destruct r as [|c1 r1]; [discriminate|]. apply andb_true_iff in H as [H1 H2].
        rewrite (aa_ok_cons_hi c1 r1 (is_cont_ge _ H1)). apply IH; [cbn [length] in Hl; lia|exact H2].
      * destruct (in_rng 224 239 b).
        { destruct r as [|c1 [|c2 r2]]; try discriminate.
          apply andb_true_iff in H as [H12 H3]. apply andb_true_iff in H12 as [H1 H2].
          assert (Hc1 : 128 <= c1) by (destruct (b =? 224); [|destruct (b =? 237)]; unfold is_cont, in_rng in H1; lia).
          rewrite (aa_ok_cons_hi c1 _ Hc1), (aa_ok_cons_hi c2 _ (is_cont_ge _ H2)).
          apply IH; [cbn [length] in Hl; lia|exact H3]. }
        { destruct (in_rng 240 244 b); [|discriminate].
          destruct r as [|c1 [|c2 [|c3 r3]]]; try discriminate.
          apply andb_true_iff in H as [H123 H4]. apply andb_true_iff in H123 as [H12 H3].
          apply andb_true_iff in H12 as [H1 H2].
          assert (Hc1 : 128 <= c1) by (destruct (b =? 240); [|destruct (b =? 244)]; unfold is_cont, in_rng in H1; lia).
          rewrite (aa_ok_cons_hi c1 _ Hc1), (aa_ok_cons_hi c2 _ (is_cont_ge _ H2)), (aa_ok_cons_hi c3 _ (is_cont_ge _ H3)).
          apply IH; [cbn [length] in Hl; lia|exact H4]. }
Qed.
Lemma utf8_valid_aa_ok s : utf8_valid s = true -> aa_ok s = true.
Proof. apply (utf8_valid_aa (length s)). lia. Qed.

(* ---- char boundaries *)
Lemma icb_len s : is_char_boundary s (lenN s) = true.
Proof.
  unfold is_char_boundary. destruct (lenN s =? 0); [reflexivity|].
  rewrite N.leb_refl. apply N.eqb_refl.
Qed.
Lemma icb_after_ascii s i : aa_ok s = true -> i < lenN s -> nthN s i < 128 -> is_char_boundary s (i + 1) = true.
Proof.
  intros H Hi Hb. unfold is_char_boundary. destruct (i + 1 =? 0) eqn:E0; [reflexivity|].
  destruct (lenN s <=? i + 1) eqn:E1; [lia|]. rewrite (aa_ok_next s H i) by lia. reflexivity.
Qed.
Lemma icb_at_ascii s i : i < lenN s -> nthN s i < 128 -> is_char_boundary s i = true.
Proof.
  intros Hi Hb. unfold is_char_boundary. destruct (i =? 0); [reflexivity|].
  destruct (lenN s <=? i) eqn:E; [lia|]. unfold is_cont, in_rng. lia.
Qed.

Lemma str_slice_from_ok s a : is_char_boundary s a = true -> a <= lenN s -> str_slice_from s a = Val (dropN a s).
Proof.
  intros H1 H2. unfold str_slice_from, str_slice. rewrite H1, icb_len. cbn [andb]. apply slice_from. exact H2.
Qed.
Lemma str_split_at_ok s m : is_char_boundary s m = true -> m <= lenN s ->
  str_split_at s m = Val (takeN m s, dropN m s).
Proof.
  intros H1 H2. unfold str_split_at. rewrite H1, slice_to by exact H2. cbn [rbind].
  rewrite slice_from by exact H2. reflexivity.
Qed.

(* ---- split_once / split_once_and_trim *)
Definition split_once_pp (h : bytes) (c : N) : bytes * bytes :=
  match find_byte c h with None => (h, []) | Some sc => (takeN sc h, dropN (sc + 1) h) end.

Lemma split_once_val h c : aa_ok h = true -> c < 128 -> split_once h c = Val (split_once_pp h c).
Proof.
  intros Ha Hc. unfold split_once, split_once_pp. destruct (find_byte c h) as [sc|] eqn:E; [|reflexivity].
  destruct (find_byte_some _ _ _ E) as [Hl Hn].
  rewrite str_split_at_ok; [|apply icb_at_ascii; [exact Hl|lia]|lia]. cbn [rbind].
  rewrite str_split_at_ok.
  - cbn [rbind]. rewrite dropN_dropN. reflexivity.
  - replace 1 with (0 + 1) by lia. apply icb_after_ascii.
    + apply aa_ok_dropN; exact Ha.
    + rewrite lenN_dropN. lia.
    + rewrite nthN_dropN, N.add_0_r. lia.
  - rewrite lenN_dropN. lia.
Qed.

Lemma split_once_pp_props h c a b : split_once_pp h c = (a, b) -> aa_ok h = true ->
  aa_ok a = true /\ aa_ok b = true /\ lenN a <= lenN h /\ lenN b <= lenN h /\ (b <> [] -> lenN b < lenN h).
Proof.
  unfold split_once_pp. intros H Ha. destruct (find_byte c h) as [sc|] eqn:E.
  - destruct (find_byte_some _ _ _ E) as [Hl _]. injection H as <- <-.
    split; [apply aa_ok_takeN; exact Ha|]. split; [apply aa_ok_dropN; exact Ha|].
    rewrite lenN_takeN, lenN_dropN. lia.
  - injection H as <- <-. split; [exact Ha|]. split; [reflexivity|]. rewrite lenN_nil.
    split; [lia|]. split; [lia|congruence].
Qed.

Lemma soat_spec h c : aa_ok h = true -> c < 128 ->
  exists a b, split_once_and_trim h c = Val (a, b) /\ aa_ok a = true /\ aa_ok b = true /\
              lenN b <= lenN h /\ (is_empty b = false -> lenN b < lenN h).
Proof.
  intros Ha Hc. unfold split_once_and_trim. rewrite split_once_val by assumption. cbn [rbind].
  destruct (split_once_pp h c) as [a b] eqn:E.
  destruct (split_once_pp_props _ _ _ _ E Ha) as (A1 & A2 & A3 & A4 & A5).
  rewrite trim_end_val. cbn [rbind]. rewrite trim_start_val. cbn [rbind].
  exists (trim_end_p a), (trim_start_p b). split; [reflexivity|].
  split; [apply aa_ok_takeN; exact A1|]. split; [apply aa_ok_dropN; exact A2|].
  pose proof (trim_start_p_len b). split; [lia|].
  intro Hne. assert (b <> []) by (intro X; subst b; discriminate Hne). specialize (A5 H0). lia.
Qed.

(* ---- ext-value *)
Lemma parse_extended_value_total lang_ok v : exists o, parse_extended_value lang_ok v = Val o.
Proof.
  unfold parse_extended_value. rewrite std_split_once_val. cbn [rbind].
  destruct (split_once_p 39 v) as [[cs r1]|]; [|eauto].
  rewrite std_split_once_val. cbn [rbind]. destruct (split_once_p 39 r1) as [[l val]|]; [|eauto].
  destruct (is_empty l); [eauto|]. destruct (lang_ok l); eauto.
Qed.

(* ---- the quoted-string scan: `end` is the offset of a double quote inside the slice *)
Lemma scan_spec bs : forall i esc acc, i + lenN bs < usize_max ->
  exists q e, scan bs i esc acc = Val (q, e) /\
    match e with None => True | Some e => exists j, e = i + j + 1 /\ j < lenN bs /\ nthN bs j = 34 end.
Proof.
  induction bs as [|c r IH]; intros i esc acc Hb; cbn [scan].
  - eexists _, None. split; [reflexivity|exact I].
  - rewrite lenN_cons in Hb.
    assert (Hrec : forall esc' acc', exists q e, scan r (i + 1) esc' acc' = Val (q, e) /\
              match e with None => True | Some e => exists j, e = i + j + 1 /\ j < lenN (c :: r) /\ nthN (c :: r) j = 34 end).
    { intros esc' acc'. destruct (IH (i + 1) esc' acc') as (q & e & E & P); [lia|].
      exists q, e. split; [exact E|]. destruct e as [e|]; [|exact I]. destruct P as (j & P1 & P2 & P3).
      exists (j + 1). rewrite lenN_cons, nthN_cons_succ. split; [lia|]. split; [lia|exact P3]. }
    destruct esc; [apply Hrec|]. destruct (c =? 92); [apply Hrec|].
    destruct (c =? 34) eqn:E34; [|apply Hrec].
    unfold add_us. destruct (i + 1 <=? usize_max) eqn:E; [|lia]. cbn [rbind].
    eexists _, (Some (i + 1)). split; [reflexivity|]. exists 0. rewrite lenN_cons, nthN_cons_0.
    split; [lia|]. split; [lia|lia].
Qed.

Lemma starts_with_quote s : starts_with [34] s = true -> exists bs, s = 34 :: bs.
Proof.
  destruct s as [|b r]; cbn [starts_with]; [discriminate|]. intro H. apply andb_true_iff in H as [H _].
  exists r. f_equal. lia.
Qed.

(* ---- the parameter loop *)
Lemma params_total lang_ok fuel : forall lft acc,
  aa_ok lft = true -> (length lft < fuel)%nat -> lenN lft < usize_max ->
  exists r, params lang_ok fuel lft acc = Val r.
Proof.
  induction fuel as [|f IH]; intros lft acc Ha Hf Hu; [lia|].
  cbn [params]. destruct (is_empty lft) eqn:El; [eauto|].
  destruct (soat_spec lft 61 Ha ltac:(lia)) as (pn & nl & E1 & A1 & A2 & L1 & L2). rewrite E1. cbn [rbind].
  destruct (is_empty pn || bytes_eqb pn [42] || is_empty nl) eqn:Ec; [eauto|].
  apply orb_false_iff in Ec as [_ Enl]. specialize (L2 Enl).
  assert (Hnl : (length nl < f)%nat) by (unfold lenN in *; lia).
  destruct (strip_suffix_star pn) as [pn'|].
  - destruct (soat_spec nl 59 A2 ltac:(lia)) as (ev & nl2 & E2 & B1 & B2 & M1 & _). rewrite E2. cbn [rbind].
    destruct (parse_extended_value_total lang_ok ev) as [o Eo]. rewrite Eo. cbn [rbind].
    destruct o as [e|]; [|eauto]. apply IH; [exact B2|unfold lenN in *; lia|lia].
  - destruct (starts_with [34] nl) eqn:Eq.
    + destruct (starts_with_quote _ Eq) as [bs ->]. cbn [tl_bytes]. rewrite lenN_cons in *.
      destruct (scan_spec bs 0 false []) as (q & e & Es & P); [lia|]. rewrite Es. cbn [rbind].
      destruct e as [e|]; [|eauto]. destruct P as (j & -> & Pj & Pq).
      unfold add_us. destruct (0 + j + 1 + 1 <=? usize_max) eqn:E; [|lia]. cbn [rbind].
      rewrite str_slice_from_ok.
      * cbn [rbind]. set (l1 := dropN (0 + j + 1 + 1) (34 :: bs)).
        assert (Al1 : aa_ok l1 = true) by (apply aa_ok_dropN; exact A2).
        assert (Ll1 : lenN l1 < lenN bs + 1) by (unfold l1; rewrite lenN_dropN, lenN_cons; lia).
        rewrite (split_once_val l1 59 Al1) by lia. cbn [rbind].
        destruct (split_once_pp l1 59) as [x l2] eqn:E2.
        destruct (split_once_pp_props _ _ _ _ E2 Al1) as (_ & C2 & _ & C4 & _).
        rewrite trim_start_val. cbn [rbind].
        destruct (utf8_valid q); [|eauto]. pose proof (trim_start_p_len l2).
        apply IH; [apply aa_ok_dropN; exact C2| |lia].
        unfold lenN in *. cbn [length] in *. lia.
      * replace (0 + j + 1 + 1) with ((j + 1) + 1) by lia. apply icb_after_ascii; [exact A2|rewrite lenN_cons; lia|].
        rewrite nthN_cons_succ, Pq. lia.
      * rewrite lenN_cons. lia.
    + destruct (soat_spec nl 59 A2 ltac:(lia)) as (tok & nl2 & E2 & B1 & B2 & M1 & _). rewrite E2. cbn [rbind].
      destruct (is_empty tok); [eauto|]. apply IH; [exact B2|unfold lenN in *; lia|lia].
Qed.

Lemma from_raw_total lang_ok hv : lenN hv < usize_max -> exists r, from_raw lang_ok hv = Val r.
Proof.
  intro Hu. unfold from_raw. destruct (utf8_valid hv) eqn:Ev; cbn [negb]; [|eauto].
  rewrite trim_val. cbn [rbind].
  assert (At : aa_ok (trim_p hv) = true).
  { unfold trim_p, trim_end_p, trim_start_p. apply aa_ok_takeN, aa_ok_dropN, utf8_valid_aa_ok. exact Ev. }
  destruct (soat_spec (trim_p hv) 59 At ltac:(lia)) as (dt & lft & E1 & _ & A2 & L1 & _). rewrite E1. cbn [rbind].
  destruct (is_empty dt); [eauto|]. pose proof (trim_p_len hv).
  destruct (params_total lang_ok (S (length hv)) lft [] A2) as [r Er]; [unfold lenN in *; lia|lia|].
  rewrite Er. cbn [rbind]. eauto.
Qed.
