(* Lemmas about the string primitives of Panic/Str.v: every std-level helper is total
   ([f s = Val (f_p s)] with a pure mirror [f_p]), with the length facts the models need. *)
From AV Require Import Lib.Base Panic.Str.

Ltac ln := unfold lenN, takeN, dropN in *.

Lemma lenN_cons {A} (x : A) l : lenN (x :: l) = lenN l + 1.
Proof. unfold lenN. cbn [length]. lia. Qed.
Lemma lenN_nil {A} : lenN (@nil A) = 0.
Proof. reflexivity. Qed.
Lemma lenN_app {A} (a b : list A) : lenN (a ++ b) = lenN a + lenN b.
Proof. unfold lenN. rewrite app_length. lia. Qed.
Lemma lenN_rev {A} (a : list A) : lenN (rev a) = lenN a.
Proof. unfold lenN. rewrite rev_length. reflexivity. Qed.
Lemma lenN_dropN k (s : bytes) : lenN (dropN k s) = lenN s - k.
Proof. ln. rewrite skipn_length. lia. Qed.
Lemma lenN_takeN k (s : bytes) : lenN (takeN k s) = N.min k (lenN s).
Proof. ln. rewrite firstn_length. lia. Qed.
Lemma takeN_all k (s : bytes) : lenN s <= k -> takeN k s = s.
Proof. ln. intro H. apply firstn_all2. lia. Qed.
Lemma dropN_0 (s : bytes) : dropN 0 s = s.
Proof. reflexivity. Qed.
Lemma skipn_skipn_nat {A} (a b : nat) (s : list A) : skipn a (skipn b s) = skipn (b + a) s.
Proof.
  revert s; induction b as [|b IH]; intro s; [reflexivity|].
  destruct s as [|x s]; [cbn; apply skipn_nil|]. cbn [skipn Nat.add]. apply IH.
Qed.
Lemma dropN_dropN a b (s : bytes) : dropN a (dropN b s) = dropN (b + a) s.
Proof. ln. rewrite skipn_skipn_nat. f_equal. lia. Qed.
Lemma dropN_cons k x (s : bytes) : 0 < k -> dropN k (x :: s) = dropN (k - 1) s.
Proof. ln. intro H. replace (N.to_nat k) with (S (N.to_nat (k - 1))) by lia. reflexivity. Qed.

Lemma slice_ok s a b : a <= b -> b <= lenN s -> slice s a b = Val (takeN (b - a) (dropN a s)).
Proof.
  intros H1 H2. unfold slice.
  destruct ((a <=? b) && (b <=? lenN s)) eqn:E; [reflexivity|]. lia.
Qed.
Lemma slice_from s a : a <= lenN s -> slice s a (lenN s) = Val (dropN a s).
Proof.
  intro H. rewrite slice_ok by lia. f_equal. apply takeN_all. rewrite lenN_dropN. lia.
Qed.
Lemma slice_to s b : b <= lenN s -> slice s 0 b = Val (takeN b s).
Proof. intro H. rewrite slice_ok by lia. rewrite N.sub_0_r. reflexivity. Qed.

(* ---------------------------------------------------------------- find *)
Lemma find_byte_some c s i : find_byte c s = Some i -> i < lenN s /\ nthN s i = c.
Proof.
  revert i; induction s as [|b r IH]; intros i H; cbn [find_byte] in H; [discriminate|].
  destruct (b =? c) eqn:E.
  - injection H as <-. rewrite lenN_cons. split; [lia|]. unfold nthN. cbn. lia.
  - destruct (find_byte c r) as [j|]; [|discriminate]. injection H as <-.
    destruct (IH j eq_refl) as [H1 H2]. rewrite lenN_cons. split; [lia|].
    unfold nthN in *. replace (N.to_nat (j + 1)) with (S (N.to_nat j)) by lia. exact H2.
Qed.
Lemma find_sub_some p s i : find_sub p s = Some i -> p <> [] -> i < lenN s.
Proof.
  revert i; induction s as [|b r IH]; intros i H Hp.
  - cbn [find_sub] in H. destruct p; [congruence|]. cbn in H. discriminate.
  - cbn [find_sub] in H. destruct (starts_with p (b :: r)).
    + injection H as <-. rewrite lenN_cons. lia.
    + destruct (find_sub p r) as [j|]; [|discriminate]. injection H as <-.
      specialize (IH j eq_refl Hp). rewrite lenN_cons. lia.
Qed.

(* ---------------------------------------------------------------- white space *)
Lemma ws_front_le s : ws_front s <= lenN s.
Proof.
  destruct s as [|b [|c [|d r]]]; unfold ws_front; rewrite ?lenN_cons, ?lenN_nil;
    repeat match goal with |- context [if ?x then _ else _] => destruct x end; lia.
Qed.
Lemma ws_back_le s : ws_back s <= lenN s.
Proof.
  destruct s as [|b [|c [|d r]]]; unfold ws_back; rewrite ?lenN_cons, ?lenN_nil;
    repeat match goal with |- context [if ?x then _ else _] => destruct x end; lia.
Qed.
Lemma ws_prefix_le f s : ws_prefix f s <= lenN s.
Proof.
  revert s; induction f as [|f IH]; intro s; cbn [ws_prefix]; [lia|].
  destruct (ws_front s =? 0) eqn:E; [lia|].
  pose proof (ws_front_le s). pose proof (IH (dropN (ws_front s) s)) as H2. rewrite lenN_dropN in H2. lia.
Qed.
Lemma ws_suffix_le f s : ws_suffix f s <= lenN s.
Proof.
  revert s; induction f as [|f IH]; intro s; cbn [ws_suffix]; [lia|].
  destruct (ws_back s =? 0) eqn:E; [lia|].
  pose proof (ws_back_le s). pose proof (IH (dropN (ws_back s) s)) as H2. rewrite lenN_dropN in H2. lia.
Qed.

Definition trim_start_p (s : bytes) : bytes := dropN (ws_prefix (length s) s) s.
Definition trim_end_p (s : bytes) : bytes := takeN (lenN s - ws_suffix (length s) (rev s)) s.
Definition trim_p (s : bytes) : bytes := trim_end_p (trim_start_p s).

Lemma trim_start_val s : trim_start s = Val (trim_start_p s).
Proof. unfold trim_start. apply slice_from. apply ws_prefix_le. Qed.
Lemma trim_end_val s : trim_end s = Val (trim_end_p s).
Proof.
  unfold trim_end, sub_us. pose proof (ws_suffix_le (length s) (rev s)) as H. rewrite lenN_rev in H.
  destruct (ws_suffix (length s) (rev s) <=? lenN s) eqn:E; [|lia]. cbn [rbind].
  apply slice_to. lia.
Qed.
Lemma trim_val s : trim s = Val (trim_p s).
Proof. unfold trim. rewrite trim_start_val. cbn [rbind]. apply trim_end_val. Qed.

Lemma trim_start_p_len s : lenN (trim_start_p s) <= lenN s.
Proof. unfold trim_start_p. rewrite lenN_dropN. lia. Qed.
Lemma trim_end_p_len s : lenN (trim_end_p s) <= lenN s.
Proof. unfold trim_end_p. rewrite lenN_takeN. lia. Qed.
Lemma trim_p_len s : lenN (trim_p s) <= lenN s.
Proof. unfold trim_p. pose proof (trim_end_p_len (trim_start_p s)). pose proof (trim_start_p_len s). lia. Qed.

(* ---------------------------------------------------------------- trim_matches *)
Lemma count_front_le c s : count_front c s <= lenN s.
Proof.
  induction s as [|b r IH]; cbn [count_front]; [lia|]. rewrite lenN_cons. destruct (b =? c); lia.
Qed.
Definition tsm_p (c : N) (s : bytes) : bytes := dropN (count_front c s) s.
Definition tem_p (c : N) (s : bytes) : bytes := takeN (lenN s - count_front c (rev s)) s.
Lemma trim_start_matches_val c s : trim_start_matches c s = Val (tsm_p c s).
Proof. unfold trim_start_matches. apply slice_from. apply count_front_le. Qed.
Lemma trim_end_matches_val c s : trim_end_matches c s = Val (tem_p c s).
Proof.
  unfold trim_end_matches, sub_us. pose proof (count_front_le c (rev s)) as H. rewrite lenN_rev in H.
  destruct (count_front c (rev s) <=? lenN s) eqn:E; [|lia]. cbn [rbind]. apply slice_to. lia.
Qed.

(* ---------------------------------------------------------------- split *)
Definition split_once_p (c : N) (s : bytes) : option (bytes * bytes) :=
  match find_byte c s with None => None | Some i => Some (takeN i s, dropN (i + 1) s) end.
Lemma std_split_once_val c s : std_split_once c s = Val (split_once_p c s).
Proof.
  unfold std_split_once, split_once_p. destruct (find_byte c s) as [i|] eqn:E; [|reflexivity].
  destruct (find_byte_some _ _ _ E) as [H _].
  rewrite slice_to by lia. cbn [rbind]. rewrite slice_from by lia. reflexivity.
Qed.
Lemma split_once_p_len c s a b : split_once_p c s = Some (a, b) -> lenN a + lenN b + 1 = lenN s.
Proof.
  unfold split_once_p. destruct (find_byte c s) as [i|] eqn:E; [|discriminate].
  destruct (find_byte_some _ _ _ E) as [H _]. intro X. injection X as <- <-.
  rewrite lenN_takeN, lenN_dropN. lia.
Qed.

Fixpoint split_p (fuel : nat) (c : N) (s : bytes) : list bytes :=
  match fuel with
  | O => []
  | S f => match split_once_p c s with None => [s] | Some (a, b) => a :: split_p f c b end
  end.
Lemma std_split_val fuel c s : (length s < fuel)%nat -> std_split fuel c s = Val (split_p fuel c s).
Proof.
  revert s; induction fuel as [|f IH]; intros s H; [lia|].
  cbn [std_split split_p]. rewrite std_split_once_val. cbn [rbind].
  destruct (split_once_p c s) as [[a b]|] eqn:E; [|reflexivity].
  apply split_once_p_len in E. rewrite IH; [reflexivity|]. unfold lenN in E. lia.
Qed.
Definition split_all_p (c : N) (s : bytes) : list bytes := split_p (S (length s)) c s.
Lemma split_all_val c s : split_all c s = Val (split_all_p c s).
Proof. unfold split_all. apply std_split_val. lia. Qed.

Definition split_first_sub_p (p s : bytes) : bytes :=
  match find_sub p s with None => s | Some i => takeN i s end.
Lemma split_first_sub_val p s : p <> [] -> split_first_sub p s = Val (split_first_sub_p p s).
Proof.
  intro Hp. unfold split_first_sub, split_first_sub_p. destruct (find_sub p s) as [i|] eqn:E; [|reflexivity].
  apply slice_to. pose proof (find_sub_some _ _ _ E Hp). lia.
Qed.

(* mapping a total-by-lemma R function over a list *)
Fixpoint mapR {A B} (f : A -> R B) (l : list A) : R (list B) :=
  match l with
  | [] => Val []
  | x :: r => y <- f x ;; ys <- mapR f r ;; Val (y :: ys)
  end.
Lemma mapR_val {A B} (f : A -> R B) (g : A -> B) l : (forall x, f x = Val (g x)) -> mapR f l = Val (map g l).
Proof.
  intro H. induction l as [|x r IH]; [reflexivity|]. cbn [mapR map]. rewrite H, IH. reflexivity.
Qed.
