From AV Require Import Lib.Base Panic.Str Panic.StrProofs Panic.MpScan Panic.MpScanProofs Panic.HeadPhase.

Section P.
Variable MAXH MAXB : N.

(* what HeaderIndex::record hands to set_headers: both pairs are sub-slices of the head slice,
   the value bytes are acceptable to HeaderValue *)
Definition idx_ok (sl : bytes) (ix : idx) : Prop :=
  let '(ns, ne, vs, ve) := ix in
  ns <= ne /\ ne <= lenN sl /\ vs <= ve /\ ve <= lenN sl /\ hv_valid (takeN (ve - vs) (dropN vs sl)) = true.

Lemma record_one_ok base buf len h :
  len <= lenN buf -> base + lenN buf <= usize_max -> hdr_okb base buf len h = true ->
  exists ix, record_one base h = Val ix /\ idx_ok (takeN len buf) ix.
Proof.
  intros Hl Hu H. unfold hdr_okb in H. repeat (apply andb_true_iff in H as [H ?]).
  unfold record_one, sub_us. destruct (base <=? h_name_ptr h) eqn:E1; [|lia]. cbn [rbind].
  rewrite add_us_ok by lia. cbn [rbind]. destruct (base <=? h_val_ptr h) eqn:E2; [|lia]. cbn [rbind].
  rewrite add_us_ok by lia. cbn [rbind]. eexists; split; [reflexivity|].
  unfold idx_ok. rewrite lenN_takeN.
  replace (h_val_ptr h - base + h_val_len h - (h_val_ptr h - base)) with (h_val_len h) by lia.
  repeat split; try lia; try assumption.
Qed.

Lemma mapR_forall {A B} (f : A -> R B) (P : B -> Prop) l :
  (forall x, In x l -> exists y, f x = Val y /\ P y) -> exists ys, mapR f l = Val ys /\ Forall P ys.
Proof.
  induction l as [|x r IH]; intro H; [exists []; split; [reflexivity|constructor]|].
  destruct (H x (or_introl eq_refl)) as (y & Ey & Py).
  destruct IH as (ys & Eys & Pys); [intros z Hz; apply H; right; exact Hz|].
  exists (y :: ys). cbn [mapR]. rewrite Ey, Eys. split; [reflexivity|constructor; assumption].
Qed.

Lemma In_firstn {A} n (l : list A) x : In x (firstn n l) -> In x l.
Proof. revert l; induction n; intros [|y l] H; cbn in *; try contradiction. destruct H; [left|right]; auto. Qed.

(* `record` establishes the invariant from httparse's contract (pointer arithmetic on addresses) *)
Lemma record_establishes base buf p :
  hp_okb MAXH base buf (HComplete p) = true ->
  exists ixs, record MAXH base (p_headers p) = Val ixs /\ Forall (idx_ok (takeN (p_len p) buf)) ixs.
Proof.
  intro H. cbn [hp_okb] in H. repeat (apply andb_true_iff in H as [H ?]).
  unfold record. apply mapR_forall. intros h Hin. apply In_firstn in Hin.
  apply (record_one_ok base buf (p_len p) h); try lia.
  match goal with X : forallb _ _ = true |- _ => rewrite forallb_forall in X; apply X; exact Hin end.
Qed.

Lemma Forall_firstn {A} (P : A -> Prop) n : forall l, Forall P l -> Forall P (firstn n l).
Proof.
  induction n; intros l H; [constructor|]. destruct H; cbn [firstn]; constructor; auto.
Qed.
Lemma Forall_repeat {A} (P : A -> Prop) x n : P x -> Forall P (repeat x n).
Proof. intro H. induction n; cbn; constructor; auto. Qed.

Lemma take_indices_ok sl ixs h_len :
  h_len <= MAXH -> Forall (idx_ok sl) ixs ->
  exists hs, take_indices MAXH ixs h_len = Val hs /\ Forall (idx_ok sl) hs.
Proof.
  intros H F. unfold take_indices. destruct (h_len <=? MAXH) eqn:E; [|lia].
  eexists; split; [reflexivity|]. apply Forall_firstn. apply Forall_app. split; [exact F|].
  apply Forall_repeat. unfold idx_ok. repeat split; try lia; try reflexivity.
Qed.

(* after F27: every round of the header loop returns (a value or Err(Header)) *)
Lemma header_step_total http11 sl st ix : idx_ok sl ix ->
  exists o, header_step true http11 sl st ix = Val o.
Proof.
  destruct ix as [[[ns ne] vs] ve]. intros (H1 & H2 & H3 & H4 & H5). unfold header_step.
  rewrite slice_ok by lia. cbn [rbind].
  destruct (header_name_from_bytes _) as [name|]; cbn [rbind]; [|eauto].
  rewrite slice_ok by lia. cbn [rbind]. rewrite H5. cbn [negb].
  repeat match goal with
  | |- context [trim ?x] => rewrite (trim_val x); cbn [rbind]
  | |- exists o, Val _ = Val o => eauto
  | |- exists o, (if ?c then _ else _) = Val o => destruct c eqn:?
  | |- exists o, match ?c with _ => _ end = Val o => destruct c eqn:?
  end.
  destruct (4 <=? lenN _) eqn:E4; cbn [rbind]; [rewrite slice_ok by lia; cbn [rbind]|]; eauto.
Qed.

Lemma set_headers_loop_total http11 sl ixs : forall st, Forall (idx_ok sl) ixs ->
  exists o, set_headers_loop true http11 sl st ixs = Val o.
Proof.
  induction ixs as [|ix r IH]; intros st F; cbn [set_headers_loop]; [eauto|].
  inversion F; subst. destruct (header_step_total http11 sl st ix H1) as [o E]. rewrite E. cbn [rbind].
  destruct o; [apply IH; assumption|eauto].
Qed.

Lemma head_common_total buf base p :
  hp_okb MAXH base buf (HComplete p) = true -> exists o, head_common MAXH true buf base p = Val o.
Proof.
  intro H. destruct (record_establishes base buf p H) as (ixs & E & F).
  cbn [hp_okb] in H. repeat (apply andb_true_iff in H as [H ?]).
  unfold head_common. rewrite E. cbn [rbind]. rewrite split_to_ok by lia. cbn [rbind].
  destruct (take_indices_ok _ ixs (lenN (p_headers p)) ltac:(lia) F) as (hs & E2 & F2).
  rewrite E2. cbn [rbind]. apply set_headers_loop_total. exact F2.
Qed.

Lemma first_of base buf p : hp_okb MAXH base buf (HComplete p) = true -> p_first p = true.
Proof. intro H. cbn [hp_okb] in H. repeat (apply andb_true_iff in H as [H ?]). assumption. Qed.

Lemma request_decode_total buf base hp mo uo post conn :
  hp_okb MAXH base buf hp = true -> exists r, request_decode MAXH MAXB true buf base hp mo uo post conn = Val r.
Proof.
  intro H. destruct hp as [| |p]; cbn [request_decode]; [eauto|eauto|].
  rewrite (first_of _ _ _ H). cbn [unwrap_flag rbind].
  destruct mo; cbn [negb]; [|eauto]. destruct uo; cbn [negb]; [|eauto].
  destruct (head_common_total buf base p H) as [o E]. rewrite E. cbn [rbind].
  destruct o as [st|]; [|eauto]. destruct (_ && _); [eauto|]. destruct (_ && _); eauto.
Qed.

Lemma response_decode_total buf base hp code :
  hp_okb MAXH base buf hp = true -> exists r, response_decode MAXH MAXB true buf base hp code = Val r.
Proof.
  intro H. destruct hp as [| |p]; cbn [response_decode]; [eauto|eauto|].
  rewrite (first_of _ _ _ H). cbn [unwrap_flag rbind]. destruct (negb _); [eauto|].
  destruct (head_common_total buf base p H) as [o E]. rewrite E. cbn [rbind]. destruct o; eauto.
Qed.

(* F27 exactly: a field name longer than 65535 bytes makes the repaired loop return Err(Header) *)
Lemma long_name_is_err http11 sl st ns ne vs ve :
  ns <= ne -> ne <= lenN sl -> 65535 < ne - ns ->
  header_step true http11 sl st (ns, ne, vs, ve) = Val None.
Proof.
  intros H1 H2 H3. unfold header_step. rewrite slice_ok by lia. cbn [rbind].
  unfold header_name_from_bytes, MAX_HEADER_NAME_LEN. rewrite lenN_takeN, lenN_dropN.
  destruct ((N.min (ne - ns) (lenN sl - ns) =? 0) || (65535 <? N.min (ne - ns) (lenN sl - ns))) eqn:E; [reflexivity|lia].
Qed.
End P.

(* the F27 witness: "GET / HTTP/1.1\r\n" ++ "a" * 65536 ++ ": x\r\n\r\n" with the httparse result for
   it; the contract holds, the code before the repair panics, the repaired code answers Err *)
Definition f27_buf : bytes :=
  [71;69;84;32;47;32;72;84;84;80;47;49;46;49;13;10] ++ repeat 97 65536 ++ [58;32;120;13;10;13;10].
Definition f27_hp (base : N) : hp_res :=
  HComplete (mkParsed (16 + 65536 + 7) true 1 [mkHdr (base + 16) 65536 (base + 16 + 65536 + 2) 1]).

Lemma f27_witness :
  hp_okb 96 4096 f27_buf (f27_hp 4096) = true /\
  request_decode 96 131072 false f27_buf 4096 (f27_hp 4096) true true false false = Panic /\
  request_decode 96 131072 true f27_buf 4096 (f27_hp 4096) true true false false = Val DHeader.
Proof. vm_compute. repeat split. Qed.
