From AV Require Import Lib.Base Panic.Str Panic.StrProofs Panic.RangeHdr.

Lemma spec_from_str_total s : exists o, spec_from_str s = Val o.
Proof.
  unfold spec_from_str. rewrite std_split_once_val. cbn [rbind].
  destruct (split_once_p 45 s) as [[a b]|]; [|eauto].
  destruct (is_empty a); [eauto|]. destruct (is_empty b); [eauto|].
  destruct (parse_u64 a); destruct (parse_u64 b); eauto. destruct (_ <=? _); eauto.
Qed.

Definition spec_from_str_p (s : bytes) : option spec :=
  match spec_from_str s with Val o => o | Panic => None end.
Lemma spec_from_str_val s : spec_from_str s = Val (spec_from_str_p s).
Proof. unfold spec_from_str_p. destruct (spec_from_str_total s) as [o H]. rewrite H. reflexivity. Qed.

Lemma from_comma_delimited_total s : exists l, from_comma_delimited s = Val l.
Proof.
  unfold from_comma_delimited. rewrite split_all_val. cbn [rbind].
  rewrite (mapR_val trim trim_p) by apply trim_val. cbn [rbind].
  rewrite (mapR_val spec_from_str spec_from_str_p) by apply spec_from_str_val. cbn [rbind]. eauto.
Qed.

Lemma range_from_str_never_panics s : range_from_str s <> Panic.
Proof.
  unfold range_from_str. rewrite std_split_once_val. cbn [rbind].
  destruct (split_once_p 61 s) as [[u v]|]; [|discriminate].
  destruct (bytes_eqb u BYTES).
  - destruct (from_comma_delimited_total v) as [l H]. rewrite H. cbn [rbind]. destruct l; discriminate.
  - destruct (is_empty v); [discriminate|]. destruct (is_empty u); discriminate.
Qed.

(* parse_u64 yields a u64 *)
Lemma parse_digits_bound acc s n : acc <= u64_max -> parse_digits acc s = Some n -> n <= u64_max.
Proof.
  revert acc; induction s as [|d r IH]; intros acc Ha H; cbn [parse_digits] in H.
  - injection H as <-. exact Ha.
  - destruct (in_rng 48 57 d); [|discriminate].
    destruct (acc * 10 + (d - 48) <=? u64_max) eqn:E; [|discriminate]. eapply IH; [|exact H]. lia.
Qed.
Lemma parse_u64_bound s n : parse_u64 s = Some n -> n <= u64_max.
Proof.
  unfold parse_u64. destruct s as [|b r]; [discriminate|].
  destruct (b =? 43).
  - destruct r; [discriminate|]. apply parse_digits_bound. unfold u64_max; lia.
  - apply parse_digits_bound. unfold u64_max; lia.
Qed.

(* no subtraction underflows, and the documented contract holds: from <= to < full_length *)
Lemma to_satisfiable_range_spec sp full :
  match to_satisfiable_range sp full with
  | Panic => False
  | Val None => True
  | Val (Some (a, b)) => a <= b /\ b < full
  end.
Proof.
  unfold to_satisfiable_range, sub_u64. destruct (full =? 0) eqn:E0; [exact I|].
  destruct sp as [f t|f|l].
  - destruct ((f <? full) && (f <=? t)) eqn:E; [|exact I].
    destruct (1 <=? full) eqn:E1; [|lia]. cbn [rbind]. lia.
  - destruct (f <? full) eqn:E; [|exact I]. destruct (1 <=? full) eqn:E1; [|lia]. cbn [rbind]. lia.
  - destruct (0 <? l) eqn:E; [|exact I]. destruct (full <? l) eqn:E2.
    + destruct (1 <=? full) eqn:E1; [|lia]. cbn [rbind]. lia.
    + destruct (l <=? full) eqn:E3; [|lia]. cbn [rbind].
      destruct (1 <=? full) eqn:E1; [|lia]. cbn [rbind]. lia.
Qed.
