(* The shared parsers behind the typed request headers — index arithmetic and slicing only:
     actix-web/src/http/header/entity.rs          impl FromStr for EntityTag
     actix-http/src/header/shared/quality_item.rs  impl FromStr for QualityItem<T>
     actix-http/src/header/utils.rs                from_comma_delimited, from_one_raw_str
     actix-web/src/http/header/macros.rs           common_header! {Any / (item)+}   (If-Match, If-None-Match)
     actix-web/src/http/header/if_range.rs         IfRange::parse (entity-tag arm; HttpDate is the httpdate crate)
     actix-web/src/http/header/preference.rs       impl FromStr for Preference<T>
     actix-web/src/http/header/content_range.rs    impl FromStr for ContentRangeSpec
   The numeric literals of the length guards are parameters (instantiated from Gen/Consts.v, extracted
   from the sources on every run).  The item parser `T::from_str` and std's f32 parsing
   (`q_val.parse::<f32>()` followed by `Quality::try_from`) are parameters as well. *)
From AV Require Import Lib.Base Panic.Str Panic.StrProofs Panic.RangeHdr.

(* ------------------------------------------------------------------ entity.rs *)
Definition entity_validate_char (c : N) : bool := (c =? 33) || in_rng 35 126 c || (128 <=? c).
Definition check_slice_validity (s : bytes) : bool := forallb entity_validate_char s.
(* str::ends_with(char) for an ASCII char *)
Definition last_is (c : N) (s : bytes) : bool := match rev s with b :: _ => b =? c | [] => false end.
Definition WEAK_PREFIX : bytes := [87; 47; 34].      (* W / dquote *)

Section Entity.
  (* the literals of `slice.len() < 2`, `slice.len() >= 2 && starts_with(dquote)`,
     `slice.len() >= 4 && starts_with(W/dquote)` *)
  Variables (min_len strong_min weak_min : N).

  Definition checked_tag (s : bytes) (from : N) : R (option bytes) :=
    e <- sub_us (lenN s) 1 ;;                            (* length - 1 *)
    t <- str_slice s from e ;;                           (* &slice[from..length - 1] *)
    Val (if check_slice_validity t then Some t else None).

  (* None = Err(ParseError::Header); Some (weak, tag) *)
  Definition entity_from_str (s : bytes) : R (option (bool * bytes)) :=
    if negb (last_is 34 s) || (lenN s <? min_len) then Val None else
    strong <- (if (strong_min <=? lenN s) && starts_with [34] s then checked_tag s 1 else Val None) ;;
    match strong with
    | Some t => Val (Some (false, t))                    (* slice[1..length - 1].to_owned(): the same indices *)
    | None =>
        weak <- (if (weak_min <=? lenN s) && starts_with WEAK_PREFIX s then checked_tag s 3 else Val None) ;;
        match weak with Some t => Val (Some (true, t)) | None => Val None end
    end.
End Entity.

(* ------------------------------------------------------------------ quality_item.rs *)
Definition is_ascii (s : bytes) : bool := forallb (fun b => b <? 128) s.
(* str::rsplit_once(char) for an ASCII char: offset of the last occurrence, then two slices *)
Definition std_rsplit_once (c : N) (s : bytes) : R (option (bytes * bytes)) :=
  match find_byte c (rev s) with
  | None => Val None
  | Some j => e <- sub_us (lenN s) (j + 1) ;; a <- slice s 0 e ;; b <- slice s (e + 1) (lenN s) ;; Val (Some (a, b))
  end.
Definition QUALITY_MAX : N := 1000.

Section Generic.
  Variable T : Type.
  Variable item_parse : bytes -> R (option T).           (* T::from_str; None = Err *)
  Variable qparse : bytes -> option N.                    (* q_val.parse::<f32>() + Quality::try_from (std; outside) *)
  Variables (min_attr max_qval : N).                      (* `q_attr.len() < 2`, `q_val.len() > 5` *)

  Definition qitem_from_str (s : bytes) : R (option (T * N)) :=
    if negb (is_ascii s) then Val None else
    o <- std_rsplit_once 59 s ;;
    parts <- match o with
             | None => Val None
             | Some (a, b) => a' <- trim a ;; b' <- trim b ;; Val (Some (a', b'))
             end ;;
    sel <- match parts with
           | None => Val (Some (s, QUALITY_MAX))
           | Some (val, q_attr) =>
               if lenN q_attr <? min_attr then Val None else
               q <- str_slice q_attr 0 2 ;;                                    (* &q_attr[0..2] *)
               if bytes_eqb q [113; 61] || bytes_eqb q [81; 61] then
                 q_val <- str_slice_from q_attr 2 ;;                           (* &q_attr[2..] *)
                 if max_qval <? lenN q_val then Val None else
                 match qparse q_val with None => Val None | Some qv => Val (Some (val, qv)) end
               else Val (Some (s, QUALITY_MAX))
           end ;;
    match sel with
    | None => Val None
    | Some (raw, quality) => it <- item_parse raw ;; Val (option_map (fun x => (x, quality)) it)
    end.

  (* utils.rs from_comma_delimited: per header line to_str()?, split(','), trim, drop empty, trim, parse().ok() *)
  Fixpoint from_comma_delimited_g (vals : list bytes) (acc : list T) : R (option (list T)) :=
    match vals with
    | [] => Val (Some acc)
    | h :: r =>
        if negb (visible_ascii h) then Val None else
        parts <- split_all 44 h ;;
        t1 <- mapR trim parts ;;
        t2 <- mapR trim (filter (fun x => negb (is_empty x)) t1) ;;
        items <- mapR item_parse t2 ;;
        from_comma_delimited_g r (acc ++ keep_some items)
    end.

  (* utils.rs from_one_raw_str *)
  Definition from_one_raw_str_g (val : option bytes) : R (option T) :=
    match val with
    | Some line => if visible_ascii line && negb (is_empty line) then item_parse line else Val None
    | None => Val None
    end.

  (* macros.rs {Any / (item)+}: inl tt = Any, inr items; None = Err *)
  Definition any_or_items (vals : list bytes) : R (option (unit + list T)) :=
    is_any <- match vals with
              | first :: _ => if visible_ascii first then t <- trim first ;; Val (bytes_eqb t [42]) else Val false
              | [] => Val false
              end ;;
    if is_any then Val (Some (inl tt))
    else l <- from_comma_delimited_g vals [] ;; Val (option_map inr l).

  (* preference.rs: inl tt = Any *)
  Definition preference_from_str (s : bytes) : R (option (unit + T)) :=
    t <- trim s ;;
    if bytes_eqb t [42] then Val (Some (inl tt)) else x <- item_parse t ;; Val (option_map inr x).
End Generic.
Arguments qitem_from_str {T}.
Arguments from_comma_delimited_g {T}.
Arguments from_one_raw_str_g {T}.
Arguments any_or_items {T}.
Arguments preference_from_str {T}.

(* ------------------------------------------------------------------ content_range.rs *)
Inductive crange :=
| CRBytes (range : option (N * N)) (instance_length : option N)
| CRUnreg (unit resp : bytes).

Definition content_range_from_str (s : bytes) : R (option crange) :=
  o <- std_split_once 32 s ;;                                                 (* s.split_once(' ') *)
  match o with
  | None => Val None
  | Some (unit, resp) =>
      if bytes_eqb unit BYTES then
        o2 <- std_split_once 47 resp ;;                                       (* resp.split_once('/') *)
        match o2 with
        | None => Val None
        | Some (range, ilen) =>
            match (if bytes_eqb ilen [42] then Some None else option_map Some (parse_u64 ilen)) with
            | None => Val None
            | Some instance_length =>
                if bytes_eqb range [42] then Val (Some (CRBytes None instance_length)) else
                o3 <- std_split_once 45 range ;;                              (* range.split_once('-') *)
                match o3 with
                | None => Val None
                | Some (fb, lb) =>
                    match parse_u64 fb, parse_u64 lb with
                    | Some f, Some l => if l <? f then Val None else Val (Some (CRBytes (Some (f, l)) instance_length))
                    | _, _ => Val None
                    end
                end
            end
        end
      else Val (Some (CRUnreg unit resp))
  end.

(* ------------------------------------------------------------------ encoding.rs / content_encoding.rs *)
(* Encoding::from_str never fails: Known(ContentEncoding::from_str(enc)) — trim, then
   eq_ignore_ascii_case against the five names, in the order of the source — else Unknown(enc).
   Rendered as the canonical name / the raw string. *)
Definition ENC_NAMES : list bytes :=
  [[98; 114]; [103; 122; 105; 112]; [100; 101; 102; 108; 97; 116; 101];
   [105; 100; 101; 110; 116; 105; 116; 121]; [122; 115; 116; 100]].
Definition encoding_from_str (s : bytes) : R (option bytes) :=
  t <- trim s ;;
  match find (eq_ignore_ascii_case t) ENC_NAMES with
  | Some name => Val (Some name)
  | None => Val (Some s)
  end.
