(* actix-web/src/info.rs: `ConnectionInfo::new` with its helpers `unquote`, `bare_address`,
   `first_header_value`. The code uses only std string functions (split, splitn, trim,
   trim_*_matches); they are written out over index computation + [slice] (Panic/Str.v), so that
   "never Panic" says every computed index is in range.

   Inputs: the values of the `Forwarded` headers in order, the first value of X-Forwarded-Proto /
   -Host / -For and of Host (None: header absent), the scheme and authority of the request
   target, and the AppConfig (secure flag, host name). Output: (scheme, host, realip_remote_addr
   before the peer-address fallback). *)
From AV Require Import Lib.Base Panic.Str Panic.StrProofs.

Definition S_FOR : bytes := [102; 111; 114].
Definition S_PROTO : bytes := [112; 114; 111; 116; 111].
Definition S_HOST : bytes := [104; 111; 115; 116].
Definition S_HTTP : bytes := [104; 116; 116; 112].
Definition S_HTTPS : bytes := [104; 116; 116; 112; 115].

(* val.trim().trim_start_matches('"').trim_end_matches('"') *)
Definition unquote (v : bytes) : R bytes :=
  t <- trim v ;; a <- trim_start_matches 34 t ;; trim_end_matches 34 a.

Definition bare_address (v : bytes) : R bytes :=
  if starts_with [91] v then                                     (* val.starts_with('[') *)
    p <- split_first_sub [93; 58] v ;;                           (* val.split("]:").next() *)
    a <- trim_start_matches 91 p ;; trim_end_matches 93 a
  else
    o <- std_split_once 58 v ;;                                  (* val.split(':').next() *)
    Val (match o with Some (a, _) => a | None => v end).

(* req.headers.get(name)?.to_str().ok()?.split(',').next()?.trim() *)
Definition first_header_value (h : option bytes) : R (option bytes) :=
  match h with
  | None => Val None
  | Some v =>
      if visible_ascii v then
        o <- std_split_once 44 v ;;
        t <- trim (match o with Some (a, _) => a | None => v end) ;;
        Val (Some t)
      else Val None
  end.

Definition fst3 := (option bytes * option bytes * option bytes)%type.  (* host, scheme, realip *)

(* body of the `for (name, val) in ...` loop for one "name=value" candidate *)
Definition pair_step (st : fst3) (pair : bytes) : R fst3 :=
  t <- trim pair ;;
  o <- std_split_once 61 t ;;                                    (* splitn(2, '=') *)
  match o with
  | None => Val st
  | Some (name, val) =>
      n <- trim name ;;
      let key := ascii_lower n in
      let '(host, scheme, realip) := st in
      if bytes_eqb key S_FOR then
        match realip with
        | Some _ => Val st
        | None => u <- unquote val ;; b <- bare_address u ;; Val (host, scheme, Some b)
        end
      else if bytes_eqb key S_PROTO then
        match scheme with
        | Some _ => Val st
        | None => u <- unquote val ;; Val (host, Some u, realip)
        end
      else if bytes_eqb key S_HOST then
        match host with
        | Some _ => Val st
        | None => u <- unquote val ;; Val (Some u, scheme, realip)
        end
      else Val st
  end.

Fixpoint foldR {A B} (f : A -> B -> R A) (l : list B) (a : A) : R A :=
  match l with
  | [] => Val a
  | x :: r => a' <- f a x ;; foldR f r a'
  end.

(* one Forwarded header value: split(';') then split(',') *)
Definition header_step (st : fst3) (hdr : bytes) : R fst3 :=
  if visible_ascii hdr then
    parts <- split_all 59 hdr ;;
    pairs <- mapR (split_all 44) parts ;;
    foldR pair_step (concat pairs) st
  else Val st.

Definition or_else {A} (o : option A) (f : R (option A)) : R (option A) :=
  match o with Some _ => Val o | None => f end.

Definition conn_info (forwarded : list bytes) (xf_proto xf_host xf_for host_hdr : option bytes)
                     (uri_scheme uri_authority : option bytes) (secure : bool) (cfg_host : bytes)
  : R (bytes * bytes * option bytes) :=
  '(host, scheme, realip) <- foldR header_step forwarded (None, None, None) ;;
  scheme1 <- or_else scheme (first_header_value xf_proto) ;;
  let scheme2 := match scheme1 with Some s => s | None =>
                   match uri_scheme with Some s => s | None => if secure then S_HTTPS else S_HTTP end end in
  host1 <- or_else host (first_header_value xf_host) ;;
  let host2 := match host1 with Some h => h | None =>
                 match (match host_hdr with Some v => if visible_ascii v then Some v else None | None => None end) with
                 | Some h => h
                 | None => match uri_authority with Some a => a | None => cfg_host end
                 end end in
  realip1 <- or_else realip (first_header_value xf_for) ;;
  Val (scheme2, host2, realip1).
