From AV Require Import Lib.Base Panic.Str Panic.HdrWriter.

Section P.
Variable grow : N -> N -> N -> N.
(* contract of BytesMut::reserve on a 64-bit target: afterwards capacity - len >= additional,
   and a capacity is a usize *)
Hypothesis grow_ok : forall len cap add, len + add <= usize_max ->
  len + add <= grow len cap add /\ grow len cap add <= usize_max.

(* pos and remaining partition the spare capacity *)
Definition winv (s : wst) : Prop := w_len s + w_pos s + w_rem s = w_cap s /\ w_cap s <= usize_max.

Lemma write_line_ok s kv :
  winv s -> w_len s + w_pos s + 2 * line_len kv <= usize_max ->
  exists s', write_line grow s kv = Val s' /\ winv s' /\
             w_len s' + w_pos s' = w_len s + w_pos s + line_len kv.
Proof.
  intros [I1 I2] Hb. destruct kv as [k v]. unfold line_len in *. cbn [fst snd] in *.
  unfold write_line, add_us, mul_us, sub_us, advance_mut.
  destruct (k + v <=? usize_max) eqn:E1; [|lia]. cbn [rbind].
  destruct (k + v + 4 <=? usize_max) eqn:E2; [|lia]. cbn [rbind].
  destruct (w_rem s <? k + v + 4) eqn:Er.
  - destruct (w_pos s <=? w_cap s - w_len s) eqn:E3; [|lia]. cbn [rbind w_len w_cap w_pos w_rem].
    destruct ((k + v + 4) * 2 <=? usize_max) eqn:E4; [|lia]. cbn [rbind].
    destruct (grow_ok (w_len s + w_pos s) (w_cap s) ((k + v + 4) * 2)) as [G1 G2]; [lia|].
    destruct (w_len s + w_pos s <=? grow (w_len s + w_pos s) (w_cap s) ((k + v + 4) * 2)) eqn:E5; [|lia].
    cbn [rbind w_len w_cap w_pos w_rem].
    destruct (w_len s + w_pos s + 0 + (k + v + 4) <=? grow (w_len s + w_pos s) (w_cap s) ((k + v + 4) * 2)) eqn:E6; [|lia].
    destruct (0 + (k + v + 4) <=? usize_max) eqn:E7; [|lia]. cbn [rbind].
    destruct (k + v + 4 <=? grow (w_len s + w_pos s) (w_cap s) ((k + v + 4) * 2) - (w_len s + w_pos s)) eqn:E8; [|lia].
    cbn [rbind]. eexists; split; [reflexivity|]. unfold winv. cbn [w_len w_cap w_pos w_rem]. lia.
  - cbn [rbind].
    destruct (w_len s + w_pos s + (k + v + 4) <=? w_cap s) eqn:E6; [|lia].
    destruct (w_pos s + (k + v + 4) <=? usize_max) eqn:E7; [|lia]. cbn [rbind].
    destruct (k + v + 4 <=? w_rem s) eqn:E8; [|lia]. cbn [rbind].
    eexists; split; [reflexivity|]. unfold winv. cbn [w_len w_cap w_pos w_rem]. lia.
Qed.

Lemma write_all_ok hs : forall s,
  winv s -> w_len s + w_pos s + 2 * sumN (map line_len hs) <= usize_max ->
  exists s', write_all grow s hs = Val s' /\ winv s' /\
             w_len s' + w_pos s' = w_len s + w_pos s + sumN (map line_len hs).
Proof.
  induction hs as [|h r IH]; intros s I Hb; cbn [write_all map sumN] in *.
  - exists s. split; [reflexivity|]. split; [exact I|lia].
  - destruct (write_line_ok s h I) as (s1 & E1 & I1 & L1); [lia|]. rewrite E1. cbn [rbind].
    destruct (IH s1 I1) as (s2 & E2 & I2 & L2); [lia|]. exists s2. split; [exact E2|]. split; [exact I2|lia].
Qed.

(* the writer never advances the cursor beyond the capacity, never writes outside it, none of its
   additions / subtractions wraps, and it advances the buffer by exactly the header lines *)
Lemma write_headers_ok len cap hs :
  len <= cap -> cap <= usize_max -> len + 2 * sumN (map line_len hs) <= usize_max ->
  exists cap', write_headers grow len cap hs = Val (len + sumN (map line_len hs), cap') /\
               len + sumN (map line_len hs) <= cap'.
Proof.
  intros H1 H2 H3. unfold write_headers, w_init, sub_us.
  destruct (len <=? cap) eqn:E; [|lia]. cbn [rbind].
  destruct (write_all_ok hs (mkW len cap 0 (cap - len))) as (s1 & E1 & [I1 I1'] & L1).
  - unfold winv. cbn [w_len w_cap w_pos w_rem]. lia.
  - cbn [w_len w_pos]. lia.
  - rewrite E1. cbn [rbind w_len w_pos] in *. unfold advance_mut.
    destruct (w_pos s1 <=? w_cap s1 - w_len s1) eqn:E2; [|lia]. cbn [rbind w_len w_cap].
    exists (w_cap s1). split; [f_equal; f_equal; lia|lia].
Qed.
End P.

Lemma grow_min_ok len cap add : cap <= usize_max -> len + add <= usize_max ->
  len + add <= grow_min len cap add /\ grow_min len cap add <= usize_max.
Proof. unfold grow_min. lia. Qed.
