(* h1 client response body (ClientPayloadCodec over PayloadDecoder, as driven by awc's PlStream):
   the never-panic corollary of C17's model, from C17's semantic lemma [body_result_sem] and C01's
   [cstep_no_panic]. Also: the response-head phase of the codec never panics when the tokenizer
   (httparse, a parameter of the C17 model) does not. *)
From AV Require Import Lib.Base.
From AV Require H1.Chunked H1.ChunkedProofs H1.PayloadDec Client.ClientCodec Client.PlStream
  Client.RespDecProofs Client.BodyProofs Client.ClientProofs.

Lemma client_bstep_no_pan s sz b : RespDecProofs.bstep s sz b <> Chunked.Pan.
Proof.
  unfold RespDecProofs.bstep. pose proof (ChunkedProofs.cstep_no_panic s sz b) as H.
  destruct s; try (destruct (sz <=? 1); discriminate); try discriminate;
    destruct (Chunked.cstep _ sz b) as [|[? ?]| |]; try discriminate; congruence.
Qed.

Lemma client_bw_no_pan buf : forall s sz acc, RespDecProofs.bw s sz buf acc <> Chunked.Pan.
Proof.
  induction buf as [|b buf IH]; intros s sz acc.
  - destruct s; cbn [RespDecProofs.bw]; discriminate.
  - pose proof (client_bstep_no_pan s sz b) as Hb.
    destruct s; cbn [RespDecProofs.bw]; try discriminate;
      destruct (RespDecProofs.bstep _ sz b) as [|[[s1 z1] [d|]]| |]; try discriminate; try apply IH; congruence.
Qed.

Lemma client_pbw_no_pan k buf acc : RespDecProofs.pbw k buf acc <> Chunked.Pan.
Proof.
  destruct k as [n|s sz|]; cbn [RespDecProofs.pbw].
  - destruct (n =? 0); [discriminate|]. destruct (lenN buf <? n); discriminate.
  - pose proof (client_bw_no_pan buf s sz acc).
    destruct (RespDecProofs.bw s sz buf acc) as [|[[[[? ?] ?] ?] ?]| |]; congruence.
  - discriminate.
Qed.

(* whatever bytes the server sends for the body and however they are cut into reads, reading the
   body ends in data / error / time-out — never in a panic (debug_assert!, unwrap, split_to) *)
Lemma client_body_never_panics v c k buf segs closed :
  ClientCodec.cc_payload c = Some k -> ClientProofs.fresh k -> BodyProofs.nonempty segs ->
  fst (ClientProofs.body_result v c buf segs closed) <> PlStream.BPanic.
Proof.
  intros Hc Hk Hn. rewrite (ClientProofs.body_result_sem v c k buf segs closed Hc Hk Hn).
  pose proof (client_pbw_no_pan k (buf ++ concat segs) []) as Hp.
  pose proof (RespDecProofs.pbw_not_pend k (buf ++ concat segs) []) as Hq.
  unfold BodyProofs.body_end.
  destruct (RespDecProofs.pbw k (buf ++ concat segs) []) as [|[[[k' r] body] [|]]| |]; try congruence.
  - cbn [fst]. discriminate.
  - destruct closed; cbn [fst]; [|discriminate].
    destruct (PlStream.f9_fixed v && negb (ClientCodec.is_eof_kind k')); discriminate.
  - cbn [fst]. discriminate.
Qed.
