(* actix-web/src/http/header/range.rs: `impl FromStr for Range`, `impl FromStr for ByteRangeSpec`,
   `from_comma_delimited`, `ByteRangeSpec::to_satisfiable_range` — index and u64 arithmetic only.
   (The Range header of actix-files goes through the http-range crate: Files/Range.v, C16.) *)
From AV Require Import Lib.Base Panic.Str Panic.StrProofs.

Inductive spec := FromTo (a b : N) | From (a : N) | Last (a : N).
Inductive range := RBytes (l : list spec) | RUnreg (unit set : bytes).

Definition BYTES : bytes := [98; 121; 116; 101; 115].   (* "bytes" *)

(* impl FromStr for ByteRangeSpec; None = Err(ParseError::Header) *)
Definition spec_from_str (s : bytes) : R (option spec) :=
  o <- std_split_once 45 s ;;                              (* s.split_once('-') *)
  match o with
  | None => Val None
  | Some (start, end_) =>
      if is_empty start then Val (option_map Last (parse_u64 end_))
      else if is_empty end_ then Val (option_map From (parse_u64 start))
      else match parse_u64 start, parse_u64 end_ with
           | Some a, Some b => if a <=? b then Val (Some (FromTo a b)) else Val None
           | _, _ => Val None
           end
  end.

Definition keep_some {A} (l : list (option A)) : list A :=
  flat_map (fun o => match o with Some x => [x] | None => [] end) l.

(* from_comma_delimited: split(','), trim, drop empty items, drop items that do not parse *)
Definition from_comma_delimited (s : bytes) : R (list spec) :=
  parts <- split_all 44 s ;;
  trimmed <- mapR trim parts ;;
  specs <- mapR spec_from_str (filter (fun x => negb (is_empty x)) trimmed) ;;
  Val (keep_some specs).

(* impl FromStr for Range *)
Definition range_from_str (s : bytes) : R (option range) :=
  o <- std_split_once 61 s ;;                              (* s.split_once('=') *)
  match o with
  | None => Val None
  | Some (unit, val) =>
      if bytes_eqb unit BYTES then
        rs <- from_comma_delimited val ;;
        match rs with [] => Val None | _ => Val (Some (RBytes rs)) end
      else if is_empty val then Val None
      else if is_empty unit then Val None
      else Val (Some (RUnreg unit val))
  end.

(* ByteRangeSpec::to_satisfiable_range(full_length): u64 subtraction is partial *)
Definition to_satisfiable_range (sp : spec) (full : N) : R (option (N * N)) :=
  if full =? 0 then Val None else
  match sp with
  | FromTo from to =>
      if (from <? full) && (from <=? to) then l <- sub_u64 full 1 ;; Val (Some (from, N.min to l))
      else Val None
  | From from =>
      if from <? full then l <- sub_u64 full 1 ;; Val (Some (from, l)) else Val None
  | Last last =>
      if 0 <? last then
        if full <? last then l <- sub_u64 full 1 ;; Val (Some (0, l))
        else a <- sub_u64 full last ;; l <- sub_u64 full 1 ;; Val (Some (a, l))
      else Val None
  end.
