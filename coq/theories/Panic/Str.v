(* Panic-aware string primitives shared by the small C19 models (no proofs here).

   Partial primitives (return [Panic] where Rust panics):
     [slice s a b]        &s[a..b] on bytes            (a <= b <= len)
     [str_slice s a b]    &s[a..b] on str              (additionally: a, b on char boundaries)
     [str_split_at s m]   str::split_at                (m on a char boundary, m <= len)
     [add_us], [sub_us]   usize + / - in a debug build (overflow checks on)
     [sub_u64]            u64 -
   The std string functions the modelled code calls (trim, split, find, strip, parse) are written
   out ON TOP of these primitives: an index computation followed by a slice, the way std computes
   them, so that "never Panic" says that every index handed to a slice is in range.

   Strings are byte lists; [utf8_valid] is the validity test of String::from_utf8 / str::from_utf8.
   White space is char::is_whitespace, given by its UTF-8 byte patterns. *)
From AV Require Import Lib.Base.

Notation "x <- e ;; f" := (rbind e (fun x => f)) (at level 61, e at next level, right associativity).
Notation "' p <- e ;; f" := (rbind e (fun p => f)) (at level 61, p pattern, e at next level, right associativity).

Definition usize_max : N := u64_max.      (* 64-bit target *)
Definition add_us (a b : N) : R N := if a + b <=? usize_max then Val (a + b) else Panic.
Definition sub_us (a b : N) : R N := if b <=? a then Val (a - b) else Panic.
Definition sub_u64 (a b : N) : R N := if b <=? a then Val (a - b) else Panic.

Definition nthN (s : bytes) (i : N) : N := nth (N.to_nat i) s 0.
Definition takeN (n : N) (s : bytes) : bytes := firstn (N.to_nat n) s.
Definition dropN (n : N) (s : bytes) : bytes := skipn (N.to_nat n) s.

Definition slice (s : bytes) (a b : N) : R bytes :=
  if (a <=? b) && (b <=? lenN s) then Val (takeN (b - a) (dropN a s)) else Panic.

Definition in_rng (lo hi b : N) : bool := (lo <=? b) && (b <=? hi).
Definition is_cont (b : N) : bool := in_rng 128 191 b.

(* str::is_char_boundary *)
Definition is_char_boundary (s : bytes) (i : N) : bool :=
  if i =? 0 then true else if lenN s <=? i then i =? lenN s else negb (is_cont (nthN s i)).

Definition str_slice (s : bytes) (a b : N) : R bytes :=
  if is_char_boundary s a && is_char_boundary s b then slice s a b else Panic.
Definition str_slice_from (s : bytes) (a : N) : R bytes := str_slice s a (lenN s).
Definition str_split_at (s : bytes) (mid : N) : R (bytes * bytes) :=
  if is_char_boundary s mid then
    x <- slice s 0 mid ;; y <- slice s mid (lenN s) ;; Val (x, y)
  else Panic.

(* String::from_utf8 *)
Fixpoint utf8_valid (s : bytes) : bool :=
  match s with
  | [] => true
  | b :: r =>
      if b <? 128 then utf8_valid r
      else if in_rng 194 223 b then
        match r with c1 :: r1 => is_cont c1 && utf8_valid r1 | _ => false end
      else if in_rng 224 239 b then
        match r with
        | c1 :: c2 :: r2 =>
            (if b =? 224 then in_rng 160 191 c1 else if b =? 237 then in_rng 128 159 c1 else is_cont c1)
            && is_cont c2 && utf8_valid r2
        | _ => false
        end
      else if in_rng 240 244 b then
        match r with
        | c1 :: c2 :: c3 :: r3 =>
            (if b =? 240 then in_rng 144 191 c1 else if b =? 244 then in_rng 128 143 c1 else is_cont c1)
            && is_cont c2 && is_cont c3 && utf8_valid r3
        | _ => false
        end
      else false
  end.

(* position of the first byte equal to [c] (= str::find(char) for an ASCII char) *)
Fixpoint find_byte (c : N) (s : bytes) : option N :=
  match s with
  | [] => None
  | b :: r => if b =? c then Some 0 else match find_byte c r with Some i => Some (i + 1) | None => None end
  end.

Fixpoint starts_with (p s : bytes) : bool :=
  match p, s with
  | [], _ => true
  | x :: p', y :: s' => (x =? y) && starts_with p' s'
  | _ :: _, [] => false
  end.

(* position of the first occurrence of a non-empty pattern *)
Fixpoint find_sub (p s : bytes) : option N :=
  if starts_with p s then Some 0 else
  match s with
  | [] => None
  | _ :: r => match find_sub p r with Some i => Some (i + 1) | None => None end
  end.

(* byte length of a White_Space character at the front of [s] (0: none) *)
Definition ws_front (s : bytes) : N :=
  match s with
  | [] => 0
  | b :: r =>
      if in_rng 9 13 b || (b =? 32) then 1
      else match r with
      | [] => 0
      | c :: r1 =>
          if (b =? 194) && ((c =? 133) || (c =? 160)) then 2
          else match r1 with
          | [] => 0
          | d :: _ =>
              if (b =? 225) && (c =? 154) && (d =? 128) then 3
              else if (b =? 226) && (c =? 128) && (in_rng 128 138 d || (d =? 168) || (d =? 169) || (d =? 175)) then 3
              else if (b =? 226) && (c =? 129) && (d =? 159) then 3
              else if (b =? 227) && (c =? 128) && (d =? 128) then 3
              else 0
          end
      end
  end.

(* the same at the back; the argument is the REVERSED string *)
Definition ws_back (r : bytes) : N :=
  match r with
  | [] => 0
  | d :: t =>
      if in_rng 9 13 d || (d =? 32) then 1
      else match t with
      | [] => 0
      | c :: t1 =>
          if (c =? 194) && ((d =? 133) || (d =? 160)) then 2
          else match t1 with
          | [] => 0
          | b :: _ =>
              if (b =? 225) && (c =? 154) && (d =? 128) then 3
              else if (b =? 226) && (c =? 128) && (in_rng 128 138 d || (d =? 168) || (d =? 169) || (d =? 175)) then 3
              else if (b =? 226) && (c =? 129) && (d =? 159) then 3
              else if (b =? 227) && (c =? 128) && (d =? 128) then 3
              else 0
          end
      end
  end.

(* total byte length of the leading white space *)
Fixpoint ws_prefix (fuel : nat) (s : bytes) : N :=
  match fuel with
  | O => 0
  | S f => let k := ws_front s in if k =? 0 then 0 else k + ws_prefix f (dropN k s)
  end.
Fixpoint ws_suffix (fuel : nat) (r : bytes) : N :=
  match fuel with
  | O => 0
  | S f => let k := ws_back r in if k =? 0 then 0 else k + ws_suffix f (dropN k r)
  end.

(* str::trim_start / trim_end / trim : compute the offsets, then slice *)
Definition trim_start (s : bytes) : R bytes := slice s (ws_prefix (length s) s) (lenN s).
Definition trim_end (s : bytes) : R bytes :=
  e <- sub_us (lenN s) (ws_suffix (length s) (rev s)) ;; slice s 0 e.
Definition trim (s : bytes) : R bytes := t <- trim_start s ;; trim_end t.

(* number of leading bytes equal to [c] *)
Fixpoint count_front (c : N) (s : bytes) : N :=
  match s with b :: r => if b =? c then 1 + count_front c r else 0 | [] => 0 end.
(* str::trim_start_matches(char) / trim_end_matches(char) for an ASCII char *)
Definition trim_start_matches (c : N) (s : bytes) : R bytes := slice s (count_front c s) (lenN s).
Definition trim_end_matches (c : N) (s : bytes) : R bytes :=
  e <- sub_us (lenN s) (count_front c (rev s)) ;; slice s 0 e.

(* str::split_once(char) for an ASCII char: None, or (before, after) *)
Definition std_split_once (c : N) (s : bytes) : R (option (bytes * bytes)) :=
  match find_byte c s with
  | None => Val None
  | Some i => a <- slice s 0 i ;; b <- slice s (i + 1) (lenN s) ;; Val (Some (a, b))
  end.

(* str::split(char).collect() for an ASCII char; fuel = number of pieces still allowed
   (a string of length n has at most n + 1 pieces; running out of fuel is a [Panic]) *)
Fixpoint std_split (fuel : nat) (c : N) (s : bytes) : R (list bytes) :=
  match fuel with
  | O => Panic
  | S f =>
      o <- std_split_once c s ;;
      match o with
      | None => Val [s]
      | Some (a, b) => rest <- std_split f c b ;; Val (a :: rest)
      end
  end.
Definition split_all (c : N) (s : bytes) : R (list bytes) := std_split (S (length s)) c s.

(* first piece of str::split(pattern) for a non-empty pattern *)
Definition split_first_sub (p s : bytes) : R bytes :=
  match find_sub p s with None => Val s | Some i => slice s 0 i end.

Definition ascii_lower (s : bytes) : bytes := map lower_byte s.
Definition ascii_upper_byte (b : N) : N := if in_rng 97 122 b then b - 32 else b.
Definition ascii_upper (s : bytes) : bytes := map ascii_upper_byte s.
Definition eq_ignore_ascii_case (a b : bytes) : bool := bytes_eqb (ascii_lower a) (ascii_lower b).

(* u64::from_str : optional '+', then one or more digits, checked_mul(10) / checked_add *)
Fixpoint parse_digits (acc : N) (s : bytes) : option N :=
  match s with
  | [] => Some acc
  | d :: r =>
      if in_rng 48 57 d then
        let v := acc * 10 + (d - 48) in
        if v <=? u64_max then parse_digits v r else None
      else None
  end.
Definition parse_u64 (s : bytes) : option N :=
  match s with
  | [] => None
  | b :: r =>
      if b =? 43 then match r with [] => None | _ => parse_digits 0 r end
      else parse_digits 0 s
  end.

(* header::HeaderValue::to_str : only visible ASCII and tab *)
Definition visible_ascii (s : bytes) : bool := forallb (fun b => in_rng 32 126 b || (b =? 9)) s.

Definition is_empty (s : bytes) : bool := match s with [] => true | _ => false end.
