From AV Require Import Lib.Base Panic.Str Panic.StrProofs Panic.MpScan.

Lemma add_us_ok a b : a + b <= usize_max -> add_us a b = Val (a + b).
Proof. intro H. unfold add_us. destruct (a + b <=? usize_max) eqn:E; [reflexivity|lia]. Qed.
Lemma split_to_ok s n : n <= lenN s -> split_to s n = Val (takeN n s, dropN n s).
Proof. intro H. unfold split_to. destruct (n <=? lenN s) eqn:E; [reflexivity|lia]. Qed.
Lemma index_ok s i : i < lenN s -> index s i = Val (nthN s i).
Proof. intro H. unfold index. destruct (i <? lenN s) eqn:E; [reflexivity|lia]. Qed.

Ltac step := first [ rewrite add_us_ok by lia | rewrite slice_ok by lia | rewrite split_to_ok by lia
                   | rewrite index_ok by lia ]; cbn [rbind].
Ltac beq := match goal with |- context [bytes_eqb ?a ?b] => destruct (bytes_eqb a b) end; cbn [rbind].

(* the scan loop with the look-ahead of the code (4): every slice is inside the buffer, no
   addition wraps, and the loop ends (each round moves pos past one CR) *)
Lemma scan_loop_total fuel : forall buf eof pos,
  pos <= lenN buf -> (N.to_nat (lenN buf - pos) < fuel)%nat -> lenN buf + 4 <= usize_max ->
  exists r, scan_loop 4 fuel buf eof (lenN buf) pos = Val r.
Proof.
  induction fuel as [|f IH]; intros buf eof pos Hp Hf Hu; [lia|].
  cbn [scan_loop]. step.
  set (tail := takeN (lenN buf - pos) (dropN pos buf)).
  assert (Ht : lenN tail = lenN buf - pos) by (unfold tail; rewrite lenN_takeN, lenN_dropN; lia).
  destruct (find_byte CR tail) as [idx|] eqn:E; [|eauto].
  destruct (find_byte_some _ _ _ E) as [Hi _]. rewrite Ht in Hi.
  repeat step.
  destruct (lenN buf <? pos + idx + 4) eqn:E4.
  - destruct (0 <? pos + idx); [repeat step; eauto|]. destruct eof; eauto.
  - repeat step. repeat (beq; repeat step);
      try (destruct (negb (pos + idx =? 0)); [repeat step; eauto|]); apply IH; lia.
Qed.

Lemma starts_with_len p s : starts_with p s = true -> lenN p <= lenN s.
Proof.
  revert s; induction p as [|x p IH]; intros s H; [rewrite lenN_nil; lia|].
  destruct s as [|y s]; [discriminate|]. cbn [starts_with] in H. apply andb_true_iff in H as [_ H].
  rewrite !lenN_cons. specialize (IH s H). lia.
Qed.

Lemma read_stream_total buf eof boundary :
  lenN buf + 4 <= usize_max -> lenN boundary + 4 <= usize_max ->
  exists r, read_stream 4 buf eof boundary = Val r.
Proof.
  intros Hu Hb. unfold read_stream. destruct (lenN buf =? 0) eqn:E0; [eauto|].
  assert (Hloop : exists r, scan_loop 4 (S (length buf)) buf eof (lenN buf) 0 = Val r)
    by (apply scan_loop_total; unfold lenN in *; lia).
  destruct (4 <=? lenN buf) eqn:E4; cbn [rbind]; [|exact Hloop].
  repeat (repeat step;
    match goal with
    | |- context [bytes_eqb ?a ?b] => destruct (bytes_eqb a b)
    | |- context [starts_with ?a ?b] => destruct (starts_with a b)
    | |- context [lenN ?b <? ?x] => destruct (lenN b <? x) eqn:?
    | |- context [nthN ?b 0 =? CR] => destruct (nthN b 0 =? CR)
    end; cbn [rbind]); first [exact Hloop | eauto].
Qed.

(* ---- PayloadBuffer readers *)
Lemma find_sub_bound p s i : find_sub p s = Some i -> i + lenN p <= lenN s.
Proof.
  revert i; induction s as [|b r IH]; intros i H; cbn [find_sub] in H.
  - destruct (starts_with p []) eqn:E; [|discriminate]. injection H as <-. apply starts_with_len in E. lia.
  - destruct (starts_with p (b :: r)) eqn:E.
    + injection H as <-. apply starts_with_len in E. lia.
    + destruct (find_sub p r) as [j|]; [|discriminate]. injection H as <-.
      specialize (IH j eq_refl). rewrite lenN_cons. lia.
Qed.

Lemma read_max_total buf size : exists o, read_max buf size = Val o.
Proof. unfold read_max. destruct (is_empty buf); [eauto|]. step. eauto. Qed.
Lemma read_exact_total buf size : exists o, read_exact buf size = Val o.
Proof. unfold read_exact. destruct (size <=? lenN buf) eqn:E; [step|]; eauto. Qed.

Lemma read_until_spec buf needle : lenN buf <= usize_max ->
  read_until buf needle = Val None \/
  exists idx, find_sub needle buf = Some idx /\
    read_until buf needle = Val (Some (takeN (idx + lenN needle) buf, dropN (idx + lenN needle) buf)).
Proof.
  intro Hu. unfold read_until. destruct (find_sub needle buf) as [idx|] eqn:E; [|left; reflexivity].
  pose proof (find_sub_bound _ _ _ E). right. exists idx. split; [reflexivity|]. step. step. reflexivity.
Qed.

Lemma read_len_total buf size : exists o, read_len buf size = Val o.
Proof.
  unfold read_len. destruct (size =? 0); [eauto|].
  unfold read_max. destruct (is_empty buf); cbn [rbind]; [eauto|]. step.
  unfold sub_u64. set (chunk := takeN (N.min (lenN buf) size) buf).
  destruct (N.min (lenN chunk) size <=? size) eqn:E; [|lia]. cbn [rbind]. step. eauto.
Qed.

Lemma skip_loop_total fuel : forall buf boundary,
  (length buf < fuel)%nat -> lenN buf <= usize_max -> exists r, skip_loop fuel buf boundary = Val r.
Proof.
  induction fuel as [|f IH]; intros buf boundary Hf Hu; [lia|]. cbn [skip_loop]. unfold readline.
  destruct (read_until_spec buf [10] Hu) as [E|(idx & Ef & E)]; rewrite E; cbn [rbind]; [eauto|].
  pose proof (find_sub_bound _ _ _ Ef) as Hb. change (lenN [10]) with 1 in *.
  destruct (is_empty _); [eauto|]. destruct (bytes_eqb _ _); [eauto|]. destruct (bytes_eqb _ _); [eauto|].
  apply IH.
  - unfold dropN. rewrite skipn_length. unfold lenN in Hb. lia.
  - rewrite lenN_dropN. lia.
Qed.
Lemma skip_until_boundary_total buf boundary : lenN buf <= usize_max ->
  exists r, skip_until_boundary buf boundary = Val r.
Proof. intro H. apply skip_loop_total; [lia|exact H]. Qed.

Lemma read_boundary_line_total buf eof : lenN buf <= usize_max -> exists o, read_boundary_line buf eof = Val o.
Proof.
  intro Hu. unfold read_boundary_line, readline.
  destruct (read_until_spec buf [10] Hu) as [E|(idx & _ & E)]; rewrite E; cbn [rbind]; [|eauto].
  destruct eof; eauto.
Qed.

(* the off-by-one variant `cur + 3 > len` (seeded regression C19-1): "\r\nX" alone in the buffer
   makes the CRLF arm slice [cur + 2..cur + 4] one past the end *)
Lemma lookahead_3_panics : read_stream 3 [97; 13; 10; 88] false [120] = Panic.
Proof. vm_compute. reflexivity. Qed.
