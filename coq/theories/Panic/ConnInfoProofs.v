From AV Require Import Lib.Base Panic.Str Panic.StrProofs Panic.ConnInfo.

Definition total {A} (r : R A) : Prop := exists a, r = Val a.

Lemma total_val {A} (a : A) : total (Val a).
Proof. exists a. reflexivity. Qed.
Lemma total_bind {A B} (e : R A) (f : A -> R B) : total e -> (forall a, total (f a)) -> total (rbind e f).
Proof. intros [a ->] H. cbn [rbind]. apply H. Qed.
Lemma total_not_panic {A} (r : R A) : total r -> r <> Panic.
Proof. intros [a ->]. discriminate. Qed.

Ltac tot := repeat first
  [ apply total_val
  | rewrite trim_val | rewrite trim_start_matches_val | rewrite trim_end_matches_val
  | rewrite std_split_once_val | rewrite split_all_val
  | rewrite split_first_sub_val by discriminate
  | progress cbn [rbind]
  | match goal with |- total (match ?x with _ => _ end) => destruct x end
  | match goal with |- total (if ?x then _ else _) => destruct x end ].

Lemma unquote_total v : total (unquote v).
Proof. unfold unquote. tot. Qed.
Lemma bare_address_total v : total (bare_address v).
Proof. unfold bare_address. tot. Qed.
Lemma first_header_value_total h : total (first_header_value h).
Proof. unfold first_header_value. tot. Qed.

Lemma pair_step_total st pair : total (pair_step st pair).
Proof.
  unfold pair_step. tot; try (apply total_bind; [apply unquote_total|intro]); tot;
    try (apply total_bind; [apply bare_address_total|intro]); tot.
Qed.

Lemma foldR_total {A B} (f : A -> B -> R A) l : (forall a x, total (f a x)) -> forall a, total (foldR f l a).
Proof.
  intro H. induction l as [|x r IH]; intro a; cbn [foldR]; [apply total_val|].
  apply total_bind; [apply H|intro; apply IH].
Qed.

Lemma header_step_total st hdr : total (header_step st hdr).
Proof.
  unfold header_step. destruct (visible_ascii hdr); [|apply total_val].
  rewrite split_all_val. cbn [rbind].
  rewrite (mapR_val (split_all 44) (split_all_p 44)) by apply split_all_val. cbn [rbind].
  apply foldR_total. apply pair_step_total.
Qed.

Lemma or_else_total {A} (o : option A) f : total f -> total (or_else o f).
Proof. intro H. destruct o; [apply total_val|exact H]. Qed.

Lemma conn_info_total fw xp xh xf hh us ua sec ch : total (conn_info fw xp xh xf hh us ua sec ch).
Proof.
  unfold conn_info. apply total_bind; [apply foldR_total; apply header_step_total|].
  intros [[host scheme] realip].
  apply total_bind; [apply or_else_total, first_header_value_total|intro].
  apply total_bind; [apply or_else_total, first_header_value_total|intro].
  apply total_bind; [apply or_else_total, first_header_value_total|intro].
  apply total_val.
Qed.
