(* C07 — no lost wake-ups: reader side, feeder side, the re-polling feeder, and the
   classification of the one sender-drop that wakes nobody. *)
From AV Require Import Lib.Base H1.Payload H1.PayloadSpec H1.PayloadProofs H1.PayloadProofsEnding.

Section Wake.
Context {Chunk : Type}.
Variable clen : Chunk -> N.
Variable limit : N.

Notation Inner := (Inner Chunk).
Notation sys := (sys Chunk).
Notation op := (op Chunk).
Notation res := (res Chunk).
Notation event := (event Chunk).
Notation step := (step clen limit).
Notation exec := (exec clen limit).
Notation run := (run clen limit).
Notation steps := (steps clen limit).
Notation SInv := (SInv clen limit).
Notation quiet_reader := (@quiet_reader Chunk).
Notation quiet_feeder := (@quiet_feeder Chunk).

Ltac cases H :=
  match type of H with
  | Payload.step _ _ ?s ?o = _ =>
      destruct s as [[[ln ef er sc nr its tk io]|] snd]; destruct o; open_step H
  end.
Ltac cases_s H :=
  match type of H with
  | Payload.step _ _ ?s _ = _ =>
      destruct s as [[[ln ef er sc nr its tk io]|] snd]; open_step H
  end.

(* ================================================================ reader *)

Lemma step_poll_pending s cx s' w : step s (OPoll cx) = (s', RPoll PPending, w) ->
  exists i', inner s' = Some i' /\ task i' = Some cx.
Proof. intro H. cases_s H; try congruence. eexists; split; reflexivity. Qed.

Lemma step_task_persist s o s' x w i r :
  step s o = (s', x, w) -> inner s = Some i -> task i = Some r ->
  is_poll o = false -> is_reader_drop o = false -> ~ In r w ->
  exists i', inner s' = Some i' /\ task i' = Some r.
Proof.
  intros H Hi Ht Hp Hd Hw. destruct s as [[[ln ef er sc nr its tk io]|] snd]; cbn [inner] in *; [|discriminate].
  inversion Hi; subst i. cbn in Ht. subst tk.
  destruct o; cbn in Hp, Hd; try discriminate; open_step H;
    try (eexists; split; reflexivity); exfalso; apply Hw; left; reflexivity.
Qed.

Lemma steps_task_persist s t s' r : steps s t s' ->
  forall i, inner s = Some i -> task i = Some r -> quiet_reader r t ->
  exists i', inner s' = Some i' /\ task i' = Some r.
Proof.
  induction 1 as [s|s o s1 x w t s2 Hs Hst IH]; intros i Hi Ht Hq.
  - eauto.
  - destruct (Hq (o, x, w) (or_introl eq_refl)) as [Hp [Hd Hw]]. cbn in Hp, Hd, Hw.
    destruct (step_task_persist _ _ _ _ _ _ _ Hs Hi Ht Hp Hd Hw) as [i1 [Hi1 Ht1]].
    eapply IH; [exact Hi1 | exact Ht1 |]. intros ev Hin. apply Hq. right. exact Hin.
Qed.

Lemma step_signal_wakes s o s' w i r :
  step s o = (s', RUnit, w) -> inner s = Some i -> task i = Some r ->
  is_signal o = true -> w = [r].
Proof.
  intros H Hi Ht Ho. destruct s as [[[ln ef er sc nr its tk io]|] snd]; cbn [inner] in *; [|discriminate].
  inversion Hi; subst i. cbn in Ht. subst tk.
  destruct o; cbn in Ho; try discriminate; open_step H; try congruence; reflexivity.
Qed.

Lemma step_drop_wakes s s' w i r :
  step s OSenderDrop = (s', RUnit, w) -> inner s = Some i -> task i = Some r ->
  sender_closed i = false -> w = [r].
Proof.
  intros H Hi Ht Hc. destruct s as [[[ln ef er sc nr its tk io]|] snd]; cbn [inner] in *; [|discriminate].
  inversion Hi; subst i. cbn in Ht, Hc. subst tk sc. open_step H; try congruence; reflexivity.
Qed.

(* a reader that saw Pending (and neither polled again nor was woken) is still registered *)
Theorem reader_registered e os s t t1 r w1 t2 :
  run e os = (s, t) -> t = t1 ++ (OPoll r, RPoll PPending, w1) :: t2 -> quiet_reader r t2 ->
  exists i, inner s = Some i /\ task i = Some r.
Proof.
  intros H -> Hq. apply exec_steps in H. apply steps_app_inv in H as [s1 [Ha Hb]]. inversion Hb; subst.
  match goal with Hs : step s1 _ = _ |- _ => destruct (step_poll_pending _ _ _ _ Hs) as [i2 [Hi2 Ht2]] end.
  eapply steps_task_persist; eauto.
Qed.

(* ... and the next data, end or error wakes it *)
Theorem reader_wakeup e os s t t1 r w1 t2 o w2 t3 :
  run e os = (s, t) ->
  t = t1 ++ (OPoll r, RPoll PPending, w1) :: t2 ++ (o, RUnit, w2) :: t3 ->
  quiet_reader r t2 -> is_signal o = true -> In r w2.
Proof.
  intros H -> Hq Ho. apply exec_steps in H. apply steps_app_inv in H as [s1 [Ha Hb]]. inversion Hb; subst.
  match goal with Hs : step s1 _ = _, Hr : steps _ (t2 ++ _) _ |- _ =>
    destruct (step_poll_pending _ _ _ _ Hs) as [i2 [Hi2 Ht2]]; apply steps_app_inv in Hr as [s3 [Hc Hd]] end.
  destruct (steps_task_persist _ _ _ _ Hc _ Hi2 Ht2 Hq) as [i3 [Hi3 Ht3]].
  inversion Hd; subst.
  match goal with Hs : step s3 _ = _ |- _ => rewrite (step_signal_wakes _ _ _ _ _ _ Hs Hi3 Ht3 Ho) end.
  left. reflexivity.
Qed.

(* ---------------------------------------------------------------- sender drop *)

Lemma step_eof_stays_true s o s' x w i :
  step s o = (s', x, w) -> inner s = Some i -> eof i = true ->
  forall i', inner s' = Some i' -> eof i' = true.
Proof.
  intros H Hi He i' Hi'. destruct s as [[[ln ef er sc nr its tk io]|] snd]; cbn [inner] in *; [|discriminate].
  inversion Hi; subst i. cbn in He. subst ef. destruct o; open_step H; dmg; try congruence; reflexivity.
Qed.

Lemma steps_eof_stays_true s t s' : steps s t s' ->
  forall i, inner s = Some i -> eof i = true -> forall i', inner s' = Some i' -> eof i' = true.
Proof.
  induction 1 as [s|s o s1 x w t s2 Hs Hst IH]; intros i Hi He i' Hi'.
  - congruence.
  - destruct (inner s1) as [i1|] eqn:E1.
    + eapply IH; [reflexivity | eapply step_eof_stays_true; eauto | exact Hi'].
    + pose proof (steps_gone _ _ _ _ _ Hst E1). congruence.
Qed.

(* one step against the classifier's scan: either the scan goes on with the right flag, or the
   history has reached a state from which no reader can be registered at a live sender's drop *)
Definition dead_end (s : sys) : Prop :=
  sender s = false \/ inner s = None \/ exists i, inner s = Some i /\ eof i = true.

Definition scan_ok (s : sys) (b : bool) : Prop :=
  sender s = true /\ exists i, inner s = Some i /\ (sender_closed i = true -> eof i = true \/ b = true).

Lemma step_scan s o s' x w b rest :
  step s o = (s', x, w) -> scan_ok s b ->
  known_scan b (o :: rest) = false ->
  is_sender_drop o = false ->
  dead_end s' \/ exists b', scan_ok s' b' /\ known_scan b' rest = false.
Proof.
  intros H [Hsd [i [Hi Hc]]] Hk Hnd.
  destruct s as [[[ln ef er sc nr its tk io]|] snd]; cbn [inner sender] in *; [|discriminate].
  inversion Hi; subst i. cbn in Hc. subst snd.
  destruct o; cbn in Hnd; try discriminate; cbn [known_scan] in Hk; open_step H.
  all: try congruence.
  all: try (left; right; left; reflexivity).
  all: try (left; right; right; eexists; split; reflexivity).
  all: try (right; exists b; split; [split; [reflexivity | eexists; split; [reflexivity | dmg; cbn; exact Hc]] | exact Hk]).
  all: try (right; exists true; split; [split; [reflexivity | eexists; split; [reflexivity | cbn; intros; right; reflexivity]] | exact Hk]).
Qed.

Lemma dead_end_no_registered_reader s t s' : steps s t s' -> SInv s -> dead_end s ->
  forall i', inner s' = Some i' -> sender s' = true -> task i' = None.
Proof.
  intros Hst HI [Hd|[Hd|[i [Hi He]]]] i' Hi' Hs'.
  - pose proof (steps_sender_false _ _ _ _ _ Hst Hd). congruence.
  - pose proof (steps_gone _ _ _ _ _ Hst Hd). congruence.
  - pose proof (steps_eof_stays_true _ _ _ Hst _ Hi He _ Hi') as He'.
    pose proof (steps_inv _ _ _ _ _ Hst HI) as HI'. unfold PayloadProofs.SInv in HI'. rewrite Hi' in HI'.
    apply HI'. exact He'.
Qed.

Lemma steps_scan s t s' : steps s t s' -> SInv s ->
  forall b rest, scan_ok s b ->
  known_scan b (map (@ev_op Chunk) t ++ OSenderDrop :: rest) = false ->
  forall i', inner s' = Some i' -> sender s' = true ->
  forall r, task i' = Some r -> sender_closed i' = false.
Proof.
  induction 1 as [s|s o s1 x w t s2 Hs Hst IH]; intros HI b rest Hok Hk i' Hi' Hsd r Ht.
  - cbn in Hk. subst b. destruct Hok as [_ [i [Hi Hc]]]. rewrite Hi in Hi'. inversion Hi'; subst i'.
    destruct (sender_closed i) eqn:E; [|reflexivity]. exfalso.
    destruct (Hc eq_refl) as [He|Hb]; [|discriminate].
    unfold PayloadProofs.SInv in HI. rewrite Hi in HI. pose proof (inv_eof_task _ _ _ HI He). congruence.
  - cbn [map app] in Hk. pose proof (step_inv _ _ _ _ _ _ _ Hs HI) as HI1.
    destruct (is_sender_drop o) eqn:Eo.
    + (* an earlier drop of the sender: it cannot be alive afterwards *)
      destruct o; cbn in Eo; try discriminate.
      assert (sender s1 = false).
      { destruct s as [[[ln ef er sc nr its tk io]|] snd]; open_step Hs; reflexivity. }
      pose proof (steps_sender_false _ _ _ _ _ Hst H). congruence.
    + destruct (step_scan _ _ _ _ _ _ _ Hs Hok Hk Eo) as [Hde|[b' [Hok' Hk']]].
      * pose proof (dead_end_no_registered_reader _ _ _ Hst HI1 Hde _ Hi' Hsd). congruence.
      * eapply IH; eauto.
Qed.

(* outside the class `drop-after-error-consumed`, a sender drop wakes the pending reader too *)
Theorem reader_wakeup_drop e os s t t1 r w1 t2 w2 t3 :
  known_case e os = false ->
  run e os = (s, t) ->
  t = t1 ++ (OPoll r, RPoll PPending, w1) :: t2 ++ (OSenderDrop, RUnit, w2) :: t3 ->
  quiet_reader r t2 -> In r w2.
Proof.
  intros Hk H -> Hq. pose proof (exec_ops _ _ _ _ _ _ H) as Hops. apply exec_steps in H.
  replace (t1 ++ (OPoll r, RPoll PPending, w1) :: t2 ++ (OSenderDrop, RUnit, w2) :: t3)
    with ((t1 ++ (OPoll r, RPoll PPending, w1) :: t2) ++ (OSenderDrop, RUnit, w2) :: t3) in *
    by (rewrite <- app_assoc; reflexivity).
  apply steps_app_inv in H as [s3 [Ha Hd]].
  (* the reader is registered at the drop *)
  assert (Hreg : exists i3, inner s3 = Some i3 /\ task i3 = Some r).
  { apply steps_app_inv in Ha as [s1 [Ha1 Ha2]]. inversion Ha2; subst.
    match goal with Hs : step s1 _ = _ |- _ => destruct (step_poll_pending _ _ _ _ Hs) as [i2 [Hi2 Ht2]] end.
    eapply steps_task_persist; eauto. }
  destruct Hreg as [i3 [Hi3 Ht3]]. inversion Hd; subst.
  match goal with Hs : step s3 _ = _ |- _ => rename Hs into Hdrop end.
  pose proof (step_sender_alive _ _ _ _ _ _ Hdrop) as Hsd3. cbn in Hsd3.
  assert (Hc3 : sender_closed i3 = false).
  { unfold known_case in Hk. destruct e; cbn [negb andb] in Hk.
    - (* created with eof = true: no reader is ever registered *)
      exfalso. pose proof (create_inv clen limit true) as HI0.
      assert (Hde : dead_end (create (Chunk:=Chunk) true)) by (right; right; eexists; split; reflexivity).
      pose proof (dead_end_no_registered_reader _ _ _ Ha HI0 Hde _ Hi3 Hsd3). congruence.
    - rewrite map_app in Hk. cbn [map] in Hk. unfold ev_op at 2 in Hk. cbn [fst] in Hk.
      eapply (steps_scan _ _ _ Ha (create_inv clen limit false) false); eauto.
      split; [reflexivity|]. eexists; split; [reflexivity|]. cbn. discriminate. }
  rewrite (step_drop_wakes _ _ _ _ _ Hdrop Hi3 Ht3 Hc3). left. reflexivity.
Qed.

(* ================================================================ feeder *)

Lemma step_need_read_pause s f s' w : step s (ONeedRead f) = (s', RStatus Pause, w) ->
  exists i', inner s' = Some i' /\ io_task i' = Some f /\ need_read i' = false.
Proof. intro H. cases_s H; try congruence. eexists; repeat split; reflexivity. Qed.

Lemma step_io_persist s o s' x w i f :
  step s o = (s', x, w) -> inner s = Some i -> io_task i = Some f ->
  is_need_read o = false -> is_reader_drop o = false -> ~ In f w ->
  exists i', inner s' = Some i' /\ io_task i' = Some f.
Proof.
  intros H Hi Ht Hp Hd Hw. destruct s as [[[ln ef er sc nr its tk io]|] snd]; cbn [inner] in *; [|discriminate].
  inversion Hi; subst i. cbn in Ht. subst io.
  destruct o; cbn in Hp, Hd; try discriminate; open_step H; try congruence;
    try (eexists; split; reflexivity); exfalso; apply Hw; cbn; auto.
Qed.

Lemma steps_io_persist s t s' f : steps s t s' ->
  forall i, inner s = Some i -> io_task i = Some f -> quiet_feeder f t ->
  exists i', inner s' = Some i' /\ io_task i' = Some f.
Proof.
  induction 1 as [s|s o s1 x w t s2 Hs Hst IH]; intros i Hi Ht Hq.
  - eauto.
  - destruct (Hq (o, x, w) (or_introl eq_refl)) as [Hp [Hd Hw]]. cbn in Hp, Hd, Hw.
    destruct (step_io_persist _ _ _ _ _ _ _ Hs Hi Ht Hp Hd Hw) as [i1 [Hi1 Ht1]].
    eapply IH; [exact Hi1 | exact Ht1 |]. intros ev Hin. apply Hq. right. exact Hin.
Qed.

Definition pops_or_pends (p : pollres Chunk) : bool :=
  match p with PData _ | PPending => true | _ => false end.

Lemma step_poll_wakes_io s cx s' p w i f :
  step s (OPoll cx) = (s', RPoll p, w) -> inner s = Some i -> io_task i = Some f ->
  pops_or_pends p = true -> w = [f].
Proof.
  intros H Hi Ht Hp. destruct s as [[[ln ef er sc nr its tk io]|] snd]; cbn [inner] in *; [|discriminate].
  inversion Hi; subst i. cbn in Ht. subst io. open_step H; cbn in Hp; try congruence; dmg; reflexivity.
Qed.

(* a feeder that was told Pause (and neither asked again nor was woken) is still registered *)
Theorem feeder_registered e os s t t1 f w1 t2 :
  run e os = (s, t) -> t = t1 ++ (ONeedRead f, RStatus Pause, w1) :: t2 -> quiet_feeder f t2 ->
  exists i, inner s = Some i /\ io_task i = Some f.
Proof.
  intros H -> Hq. apply exec_steps in H. apply steps_app_inv in H as [s1 [Ha Hb]]. inversion Hb; subst.
  match goal with Hs : step s1 _ = _ |- _ => destruct (step_need_read_pause _ _ _ _ Hs) as [i2 [Hi2 [Ht2 _]]] end.
  eapply steps_io_persist; eauto.
Qed.

(* ... and every reader poll that pops an item or returns Pending wakes it *)
Theorem feeder_wakeup e os s t t1 f w1 t2 cx p w2 t3 :
  run e os = (s, t) ->
  t = t1 ++ (ONeedRead f, RStatus Pause, w1) :: t2 ++ (OPoll cx, RPoll p, w2) :: t3 ->
  quiet_feeder f t2 -> pops_or_pends p = true -> In f w2.
Proof.
  intros H -> Hq Ho. apply exec_steps in H. apply steps_app_inv in H as [s1 [Ha Hb]]. inversion Hb; subst.
  match goal with Hs : step s1 _ = _, Hr : steps _ (t2 ++ _) _ |- _ =>
    destruct (step_need_read_pause _ _ _ _ Hs) as [i2 [Hi2 [Ht2 _]]]; apply steps_app_inv in Hr as [s3 [Hc Hd]] end.
  destruct (steps_io_persist _ _ _ _ Hc _ Hi2 Ht2 Hq) as [i3 [Hi3 Ht3]].
  inversion Hd; subst.
  match goal with Hs : step s3 _ = _ |- _ => rewrite (step_poll_wakes_io _ _ _ _ _ _ _ Hs Hi3 Ht3 Ho) end.
  left. reflexivity.
Qed.

(* Pause is only ever answered while at least [limit] bytes are queued *)
Theorem pause_means_full e os f s t w :
  run e (os ++ [ONeedRead f]) = (s, t) ->
  last t (OIsDropped, RUnit, []) = (ONeedRead f, RStatus Pause, w) ->
  exists i, inner s = Some i /\ limit <= sumN (map clen (items i)).
Proof.
  intros H Hl. pose proof (exec_ops _ _ _ _ _ _ H) as Hops. apply exec_steps in H.
  pose proof (steps_inv _ _ _ _ _ H (create_inv clen limit e)) as HI.
  destruct (exists_last (l:=t)) as [t0 [ev ->]].
  { intro; subst t. destruct os; discriminate. }
  rewrite last_last in Hl. subst ev. apply steps_app_inv in H as [s1 [Ha Hb]]. inversion Hb; subst.
  match goal with Hs : step s1 _ = _, Hn : steps _ [] _ |- _ => inversion Hn; subst;
    destruct (step_need_read_pause _ _ _ _ Hs) as [i2 [Hi2 [_ Hn2]]] end.
  exists i2. split; [exact Hi2|]. unfold PayloadProofs.SInv in HI. rewrite Hi2 in HI.
  rewrite <- (inv_len _ _ _ HI). apply (inv_need _ _ _ HI). exact Hn2.
Qed.

(* ================================================================ the re-polling feeder *)

Definition Kbelief (f : waker) (s : sys) (la : option status) : Prop :=
  la = Some Pause -> sender s = true ->
  forall i, inner s = Some i -> need_read i = false /\ io_task i = Some f.

Definition K (f : waker) (st : sys * option status) : Prop :=
  SInv (fst st) /\ Kbelief f (fst st) (snd st).

Lemma need_read_establishes_K f s s' x w la :
  step s (ONeedRead f) = (s', x, w) -> SInv s ->
  K f (s', match x with RStatus a => Some a | _ => la end).
Proof.
  intros H HI. split; [eapply step_inv; eauto|]. cbn [fst snd]. unfold Kbelief.
  destruct s as [[[ln ef er sc nr its tk io]|] snd]; open_step H; intros Hla Hsd i Hi; try congruence.
  inversion Hi; subst. cbn. split; reflexivity.
Qed.

Lemma step_K_quiet f s la o s1 x w :
  step s o = (s1, x, w) -> SInv s -> Kbelief f s la ->
  is_need_read o = false -> existsb (N.eqb f) w = false ->
  Kbelief f s1 la.
Proof.
  intros Hs HI HK Hn Hw Hla Hsd1 i1 Hi1.
  pose proof (step_sender_true_back _ _ _ _ _ _ _ Hs Hsd1) as Hsd.
  destruct (inner s) as [i|] eqn:Ei; [|pose proof (step_gone _ _ _ _ _ _ _ Hs Ei); congruence].
  destruct (HK Hla Hsd i Ei) as [Hnr Hio].
  unfold PayloadProofs.SInv in HI. rewrite Ei in HI. destruct HI as [H1 H2 H3 H4].
  destruct s as [si snd]. cbn [inner sender] in Ei, Hsd. subst si snd.
  destruct i as [ln ef er sc nr its tk io]. cbn in H1, H2, H3, H4, Hnr, Hio. subst nr io.
  specialize (H2 eq_refl).
  destruct o; cbn in Hn; try discriminate; open_step Hs; try congruence;
    try (split; reflexivity);
    try (cbn in Hw; rewrite N.eqb_refl in Hw; discriminate).
  split; [apply N.ltb_ge; lia | reflexivity].
Qed.

Lemma rstep_K f st o :
  K f st -> (forall cx, o = ONeedRead cx -> cx = f) -> K f (rstep clen limit f st o).
Proof.
  destruct st as [s la]. intros [HI HK] Hf. cbn [fst snd] in HI, HK. unfold rstep.
  destruct (step s o) as [[s1 x] w] eqn:Hs.
  pose proof (step_inv _ _ _ _ _ _ _ Hs HI) as HI1.
  destruct (existsb (N.eqb f) w) eqn:Ew.
  - destruct (step s1 (ONeedRead f)) as [[s2 x2] w2'] eqn:Hs2.
    eapply need_read_establishes_K; [exact Hs2 | exact HI1].
  - destruct (is_need_read o) eqn:En.
    + destruct o; cbn in En; try discriminate. rewrite (Hf cx eq_refl) in *.
      eapply need_read_establishes_K; [exact Hs | exact HI].
    + split; [exact HI1|]. cbn [fst snd].
      assert (match o, x with ONeedRead _, RStatus a => Some a | _, _ => la end = la) as ->
        by (destruct o; cbn in En; try discriminate; reflexivity).
      eapply step_K_quiet; eauto.
Qed.

Lemma fold_K f os : forall st, K f st -> (forall cx, In (ONeedRead cx) os -> cx = f) ->
  K f (fold_left (rstep clen limit f) os st).
Proof.
  induction os as [|o os IH]; intros st HK Hf; cbn [fold_left]; [exact HK|].
  apply IH; [apply rstep_K; [exact HK|] |].
  - intros cx ->. apply Hf. left. reflexivity.
  - intros cx Hin. apply Hf. right. exact Hin.
Qed.

(* A feeder that calls need_read(f) again whenever f is woken is never left believing "Pause"
   unless the channel really is at or above the limit and holds its waker. *)
Theorem feeder_repolling e f os :
  (forall cx, In (ONeedRead cx) os -> cx = f) ->
  let '(s, la) := exec_repoll clen limit f e os in
  la = Some Pause -> sender s = true ->
  forall i, inner s = Some i ->
    need_read i = false /\ io_task i = Some f /\ limit <= sumN (map clen (items i)).
Proof.
  intro Hf. unfold exec_repoll.
  assert (HK0 : K f (create (Chunk:=Chunk) e, None)).
  { split; [apply create_inv|]. cbn. intros Hla. discriminate. }
  pose proof (fold_K f os _ HK0 Hf) as HK.
  destruct (fold_left (rstep clen limit f) os (create e, None)) as [s la].
  destruct HK as [HI HK]. cbn [fst snd] in HI, HK.
  intros Hla Hsd i Hi. destruct (HK Hla Hsd i Hi) as [Hn Hio]. repeat split; try assumption.
  unfold PayloadProofs.SInv in HI. rewrite Hi in HI. rewrite <- (inv_len _ _ _ HI). apply (inv_need _ _ _ HI Hn).
Qed.

(* ... and it observes Read at the first poll that leaves fewer than [limit] bytes queued *)
Theorem feeder_resumes f s cx s' d w i i' :
  SInv s -> sender s = true -> inner s = Some i -> need_read i = false -> io_task i = Some f ->
  step s (OPoll cx) = (s', RPoll (PData d), w) -> inner s' = Some i' -> len i' < limit ->
  In f w /\ exists w', step s' (ONeedRead f) = (s', RStatus Read, w').
Proof.
  intros HI Hsd Hi Hn Hio Hs Hi' Hlt.
  destruct s as [si snd]. cbn [inner sender] in Hi, Hsd. subst si snd.
  destruct i as [ln ef er sc nr its tk io]. cbn in Hn, Hio. subst nr io.
  open_step Hs; try congruence; cbn in Hlt; (split; [left; reflexivity|]); eexists; unf; cbn;
    match goal with |- context [if ?c then _ else _] => replace c with true by (symmetry; apply N.ltb_lt; lia) end;
    reflexivity.
Qed.

End Wake.
