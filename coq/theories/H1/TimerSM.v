(* C06 (c): actix-http/src/h1/timer.rs `TimerState` as a state machine over virtual time.

   The operations are transcribed one by one (the constructors [TDisabled | TInactive | TActive]
   and [t_new], [t_enabled], [t_ready] are the ones the dispatcher model of H1/ConnState.v uses):
     new(enabled)        = if enabled { Inactive } else { Disabled }
     is_enabled          = matches!(self, Active{..} | Inactive)
     set(timer)          = *self = Active{timer}        (also from Disabled: the code only traces)
     set_and_init(timer) = set; init
     clear               = *self = Inactive             (also from Disabled: the code only traces)
     init                = if Active { let _ = timer.poll(cx) }   (result discarded: state unchanged)
   and the dispatcher's use of a timer (poll_head_timer / poll_ka_timer / poll_shutdown_timer):
     if let Active{timer} = t { if timer.as_mut().poll(cx).is_ready() { .. } }
   where a `Sleep` polled at [now] is ready iff deadline <= now (tokio's contract; a completed
   Sleep stays ready).

   The theorems speak about ARBITRARY sequences of operations interleaved with the passage of
   time: a poll reports an expiry iff the last `set`/`set_and_init` that was not followed by a
   `clear` carried a deadline that the clock has reached; hence never before the deadline and at
   the first poll at or after it. *)
Require Import AV.Lib.Base AV.H1.ConnRec AV.H1.ConnState.

Definition ts_set (d : N) (t : timer) : timer := TActive d.
Definition ts_clear (t : timer) : timer := TInactive.
Definition ts_init (t : timer) : timer := match t with TActive d => TActive d | t => t end.
Definition ts_set_and_init (d : N) (t : timer) : timer := ts_init (ts_set d t).

Inductive top := OSet (d : N) | OSetInit (d : N) | OClear | OInit | OAdvance (dt : N) | OPoll.

(* machine state: the TimerState and the clock; polling does not change the TimerState (what the
   dispatcher does on expiry is a separate `clear`/`set` operation) *)
Definition ts_step (o : top) (x : timer * N) : timer * N :=
  let '(t, n) := x in
  match o with
  | OSet d => (ts_set d t, n)
  | OSetInit d => (ts_set_and_init d t, n)
  | OClear => (ts_clear t, n)
  | OInit => (ts_init t, n)
  | OAdvance dt => (t, n + dt)
  | OPoll => (t, n)
  end.
Fixpoint ts_run (ops : list top) (x : timer * N) : timer * N :=
  match ops with [] => x | o :: r => ts_run r (ts_step o x) end.
(* the observation: what a poll after [ops] reports *)
Definition ts_expired (ops : list top) (x : timer * N) : bool :=
  let '(t, n) := ts_run ops x in t_ready t n.

(* reference, read off the history alone: the deadline in force and the time elapsed *)
Fixpoint in_force (ops : list top) (cur : option N) : option N :=
  match ops with
  | [] => cur
  | OSet d :: r | OSetInit d :: r => in_force r (Some d)
  | OClear :: r => in_force r None
  | _ :: r => in_force r cur
  end.
Fixpoint elapsed (ops : list top) : N :=
  match ops with [] => 0 | OAdvance dt :: r => dt + elapsed r | _ :: r => elapsed r end.
Definition dl_of (t : timer) : option N := match t with TActive d => Some d | _ => None end.

Lemma ts_init_id t : ts_init t = t.
Proof. destruct t; reflexivity. Qed.

Lemma ts_run_spec : forall ops t n,
  dl_of (fst (ts_run ops (t, n))) = in_force ops (dl_of t) /\ snd (ts_run ops (t, n)) = n + elapsed ops.
Proof.
  induction ops as [|o ops IH]; intros t n; cbn [ts_run in_force elapsed].
  - cbn. split; [reflexivity|lia].
  - destruct o; cbn [ts_step]; unfold ts_set_and_init; rewrite ?ts_init_id;
      match goal with |- context [ts_run ops (?a, ?b)] => destruct (IH a b) as [A B]; rewrite A, B end;
      cbn; split; try reflexivity; lia.
Qed.

Lemma t_ready_dl t n : t_ready t n = true <-> exists d, dl_of t = Some d /\ d <= n.
Proof.
  destruct t; cbn; split; try discriminate; try (intros (d & E & _); discriminate).
  - intro H. exists deadline. split; [reflexivity|apply N.leb_le; exact H].
  - intros (d & E & L). inversion E; subst. apply N.leb_le. exact L.
Qed.

(* THE characterisation: after any history, a poll reports an expiry exactly when a deadline is in
   force and the clock has reached it *)
Theorem ts_expired_iff : forall ops t n,
  ts_expired ops (t, n) = true <-> exists d, in_force ops (dl_of t) = Some d /\ d <= n + elapsed ops.
Proof.
  intros ops t n. unfold ts_expired. destruct (ts_run_spec ops t n) as [A B].
  destruct (ts_run ops (t, n)) as [t' n']. cbn in A, B. rewrite t_ready_dl, A, B. reflexivity.
Qed.

(* never before the deadline ... *)
Theorem ts_never_early : forall ops t n d,
  in_force ops (dl_of t) = Some d -> n + elapsed ops < d -> ts_expired ops (t, n) = false.
Proof.
  intros ops t n d F L. destruct (ts_expired ops (t, n)) eqn:E; [|reflexivity].
  apply ts_expired_iff in E. destruct E as (d' & F' & L'). rewrite F in F'. inversion F'; subst. lia.
Qed.

(* ... no expiry at all without a deadline in force (disabled, inactive, cleared) ... *)
Theorem ts_quiet_without_deadline : forall ops t n,
  in_force ops (dl_of t) = None -> ts_expired ops (t, n) = false.
Proof.
  intros ops t n F. destruct (ts_expired ops (t, n)) eqn:E; [|reflexivity].
  apply ts_expired_iff in E. destruct E as (d' & F' & _). rewrite F in F'. discriminate.
Qed.

(* ... and reported by every poll at or after it *)
Theorem ts_reports_at_deadline : forall ops t n d,
  in_force ops (dl_of t) = Some d -> d <= n + elapsed ops -> ts_expired ops (t, n) = true.
Proof. intros ops t n d F L. apply ts_expired_iff. exists d. split; assumption. Qed.

(* time passing, polls and init keep the deadline in force *)
Definition passive (o : top) : bool := match o with OAdvance _ | OPoll | OInit => true | _ => false end.
Lemma in_force_passive : forall ops cur, forallb passive ops = true -> in_force ops cur = cur.
Proof.
  induction ops as [|o ops IH]; intros cur H; [reflexivity|].
  cbn in H. apply andb_true_iff in H as [H1 H2]. destruct o; try discriminate; cbn; apply IH; exact H2.
Qed.
Lemma in_force_app : forall a b cur, in_force (a ++ b) cur = in_force b (in_force a cur).
Proof. induction a as [|o a IH]; intros b cur; [reflexivity|]. destruct o; cbn; apply IH. Qed.
Lemma elapsed_app : forall a b, elapsed (a ++ b) = elapsed a + elapsed b.
Proof. induction a as [|o a IH]; intros b; cbn; [lia|]. destruct o; rewrite ?IH; lia. Qed.

(* the dispatcher's situation: a timer armed with deadline d (by `set` or `set_and_init`) after any
   history, then only time, polls and re-inits: a poll reports the expiry iff its clock has reached
   d. So no poll before d reports and the FIRST poll at or after d does. *)
Theorem ts_armed_then_polled : forall pre mid t n d,
  forallb passive mid = true ->
  (ts_expired (pre ++ [OSetInit d] ++ mid) (t, n) = true <-> d <= n + elapsed pre + elapsed mid) /\
  (ts_expired (pre ++ [OSet d] ++ mid) (t, n) = true <-> d <= n + elapsed pre + elapsed mid).
Proof.
  intros pre mid t n d P. split; rewrite ts_expired_iff, !in_force_app; cbn [in_force];
    rewrite (in_force_passive mid _ P), !elapsed_app; cbn [elapsed].
  all: split; [intros (d' & E & L); inversion E; subst; lia|intro L; exists d; split; [reflexivity|lia]].
Qed.

(* a cleared timer stays quiet until it is set again *)
Theorem ts_cleared_is_quiet : forall pre mid t n,
  forallb passive mid = true -> ts_expired (pre ++ [OClear] ++ mid) (t, n) = false.
Proof.
  intros pre mid t n P. apply ts_quiet_without_deadline. rewrite !in_force_app. cbn [in_force].
  apply in_force_passive. exact P.
Qed.

(* a disabled timer (new(false)) never reports as long as nobody sets it; `clear` turns it into an
   enabled, inactive timer (the code only traces "trying to clear a disabled timer") *)
Definition no_set (o : top) : bool := match o with OSet _ | OSetInit _ => false | _ => true end.
Lemma in_force_no_set : forall ops, forallb no_set ops = true -> in_force ops None = None.
Proof.
  induction ops as [|o ops IH]; intro H; [reflexivity|].
  cbn in H. apply andb_true_iff in H as [H1 H2]. destruct o; try discriminate; cbn; apply IH; exact H2.
Qed.
Theorem ts_disabled_never_fires : forall ops n,
  forallb no_set ops = true -> ts_expired ops (t_new false, n) = false.
Proof. intros ops n H. apply ts_quiet_without_deadline. cbn. apply in_force_no_set. exact H. Qed.
Theorem ts_clear_enables_a_disabled_timer :
  t_enabled (t_new false) = false /\ t_enabled (ts_clear (t_new false)) = true /\
  forall d, t_enabled (ts_set d (t_new false)) = true.
Proof. repeat split. Qed.

(* non-vacuity: set at 0 with deadline 1000, polled at 999 (quiet), 1000 and 1500 (both report: a
   completed Sleep stays ready), cleared, polled again (quiet) *)
Example ts_example :
  let pre := [OAdvance 7; OClear; OSetInit 1000] in
  ts_expired (pre ++ [OAdvance 992]) (t_new true, 0) = false /\
  ts_expired (pre ++ [OAdvance 992; OPoll; OAdvance 1]) (t_new true, 0) = true /\
  ts_expired (pre ++ [OAdvance 993; OPoll; OAdvance 500]) (t_new true, 0) = true /\
  ts_expired (pre ++ [OAdvance 993; OPoll; OClear; OAdvance 500]) (t_new true, 0) = false.
Proof. vm_compute. repeat split; reflexivity. Qed.

(* ---- reactor view of set_and_init (finding F31) -------------------------------------------------
   `set_and_init` polls the fresh Sleep once. tokio registers the task's waker only when that poll
   is Pending, i.e. when the deadline is still ahead; when the deadline has already passed the poll
   is Ready and `init` DISCARDS it (`let _ =`): the state is Active, nothing is registered, and a
   task that is polled only when woken never looks at the timer again. Deadlines are computed from
   the cached clock (up to TICK behind), so this happens exactly when the configured duration does
   not exceed the lag of the cache. [fixed] = fixes/F31.patch: init wakes the task when the poll is
   Ready, so the expiry is handled by the next poll. *)
Definition init_registers (d n : N) : bool := n <? d.
(* when the task is next polled on account of a timer armed at time n with deadline d *)
Definition next_timer_poll (fixed : bool) (d n : N) : option N :=
  if init_registers d n then Some d else if fixed then Some n else None.

(* FALSE of the code as it is: request timeout 300 ms, connection accepted 400 ms after the last
   refresh of the cache: the deadline is 100 ms in the past, no wake-up is ever scheduled *)
Theorem set_and_init_refuted_stale_deadline :
  exists timeout n, timeout <> 0 /\ next_timer_poll false (cached n + timeout) n = None.
Proof. exists 300, 400. split; [discriminate|]. vm_compute. reflexivity. Qed.

(* outside the class (duration at least one refresh period) the deadline is ahead of every clock
   value, the waker is registered and the task is polled at the deadline *)
Theorem set_and_init_wakes_outside_known : forall timeout n, TICK <= timeout ->
  next_timer_poll false (cached n + timeout) n = Some (cached n + timeout).
Proof.
  intros timeout n L. unfold next_timer_poll, init_registers.
  assert (B : n < cached n + TICK).
  { unfold cached, TICK in *. set (k := AV.Gen.Consts.DATE_SERVICE_TICK_MS) in *.
    assert (K : k <> 0) by (subst k; vm_compute; discriminate).
    pose proof (N.div_mod n k K). pose proof (N.mod_lt n k K). lia. }
  assert (E : (n <? cached n + timeout) = true) by (apply N.ltb_lt; lia). rewrite E. reflexivity.
Qed.

(* with the repair a poll is scheduled for every duration and every clock value, no later than the
   deadline or at once *)
Theorem set_and_init_fixed_always_wakes : forall d n,
  exists t, next_timer_poll true d n = Some t /\ (t = d \/ (t = n /\ d <= n)).
Proof.
  intros d n. unfold next_timer_poll, init_registers. destruct (n <? d) eqn:E.
  - exists d. auto.
  - exists n. split; [reflexivity|]. right. split; [reflexivity|]. apply N.ltb_ge. exact E.
Qed.
