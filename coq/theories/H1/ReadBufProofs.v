(* Proofs about the read_available model: size bound, no read at the cap, every `Ok(false)`
   return has arranged a wake-up, capacity rule. *)
From AV Require Import Lib.Base H1.ReadBuf H1.FlushProofs.

Definition reads_le (r : N) (script : list rans) : Prop :=
  Forall (fun a => match a with RGot bs => lenN bs <= r | _ => True end) script.

Section Proofs.
  Variable MAXB : N.

  Lemma ra_loop_bound r : forall fuel buf script pl rs uf n,
    reads_le r script -> lenN buf < MAXB + r ->
    lenN (ra_buf (ra_loop MAXB fuel buf script pl rs uf n)) < MAXB + r.
  Proof.
    induction fuel as [|fuel IH]; intros buf script pl rs uf n Hs Hb; cbn [ra_loop]; [exact Hb|].
    destruct (MAXB <=? lenN buf) eqn:Hc.
    - destruct pl as [[| |]|]; exact Hb.
    - destruct script as [|a script']; [exact Hb|].
      inversion Hs as [|? ? Ha Hs']; subst.
      destruct a as [bs| | | |]; try exact Hb.
      + destruct (lenN bs =? 0); [exact Hb|]. apply IH; [exact Hs'|]. rewrite lenN_app. lia.
      + destruct rs; exact Hb.
  Qed.

  Lemma ra_loop_appends : forall fuel buf script pl rs uf n,
    exists got, ra_buf (ra_loop MAXB fuel buf script pl rs uf n) = buf ++ got.
  Proof.
    induction fuel as [|fuel IH]; intros buf script pl rs uf n; cbn [ra_loop];
      [exists []; rewrite app_nil_r; reflexivity|].
    destruct (MAXB <=? lenN buf).
    - destruct pl as [[| |]|]; exists []; rewrite app_nil_r; reflexivity.
    - destruct script as [|a script']; [exists []; rewrite app_nil_r; reflexivity|].
      destruct a as [bs| | | |]; try (exists []; rewrite app_nil_r; reflexivity).
      + destruct (lenN bs =? 0); [exists []; rewrite app_nil_r; reflexivity|].
        destruct (IH (buf ++ bs) script' pl true (if is_dropped pl then uf else true) (n + 1)) as [got Hg].
        exists (bs ++ got). rewrite Hg, app_assoc. reflexivity.
      + destruct rs; exists []; rewrite app_nil_r; reflexivity.
  Qed.

  (* at or above the cap nothing is read *)
  Lemma ra_loop_at_cap fuel buf script pl rs uf n :
    MAXB <= lenN buf ->
    let o := ra_loop MAXB (S fuel) buf script pl rs uf n in
    ra_buf o = buf /\ ra_script o = script /\ ra_res o = RaOk false /\
    (ra_self_wake o = true \/ (pl = Some PPause /\ ra_io_reg o = true)).
  Proof.
    intro H. cbn [ra_loop]. assert (E : MAXB <=? lenN buf = true) by lia. rewrite E.
    destruct pl as [[| |]|]; cbn [ra_buf ra_script ra_res ra_self_wake ra_io_reg]; repeat split; auto.
  Qed.

  (* `Ok(false)` (= "do not disconnect, I will be woken"): some wake-up has been arranged,
     provided the socket honours the AsyncRead contract (no WouldBlock error instead of Pending) *)
  Lemma ra_loop_wake : forall fuel buf script pl rs uf n,
    ~ In RWouldBlock script -> (length script < fuel)%nat ->
    let o := ra_loop MAXB fuel buf script pl rs uf n in
    ra_res o = RaOk false ->
    ra_rreg o = true \/ ra_self_wake o = true \/ (pl = Some PPause /\ ra_io_reg o = true).
  Proof.
    induction fuel as [|fuel IH]; intros buf script pl rs uf n Hw Hf; [lia|]. cbn [ra_loop].
    destruct (MAXB <=? lenN buf).
    - destruct pl as [[| |]|]; cbn [ra_res ra_rreg ra_self_wake ra_io_reg]; auto.
    - destruct script as [|a script']; cbn [ra_res ra_rreg]; auto.
      destruct a as [bs| | | |]; cbn [ra_res ra_rreg]; auto.
      + destruct (lenN bs =? 0); cbn [ra_res]; [discriminate|].
        apply IH; [intro X; apply Hw; right; exact X|cbn [length] in Hf; lia].
      + exfalso. apply Hw. left. reflexivity.
      + destruct rs; cbn [ra_res]; discriminate.
      + discriminate.
  Qed.

  Theorem read_available_bound r rd buf script pl :
    reads_le r script -> lenN buf < MAXB + r ->
    lenN (ra_buf (read_available MAXB rd buf script pl)) < MAXB + r.
  Proof. intros. unfold read_available. destruct rd; [assumption|apply ra_loop_bound; assumption]. Qed.

  Theorem read_available_at_cap buf script pl :
    MAXB <= lenN buf ->
    let o := read_available MAXB false buf script pl in
    ra_buf o = buf /\ ra_script o = script /\ ra_res o = RaOk false /\
    (ra_self_wake o = true \/ (pl = Some PPause /\ ra_io_reg o = true)).
  Proof. intro H. unfold read_available. apply ra_loop_at_cap. exact H. Qed.

  Theorem read_available_wake buf script pl :
    ~ In RWouldBlock script ->
    let o := read_available MAXB false buf script pl in
    ra_res o = RaOk false ->
    ra_rreg o = true \/ ra_self_wake o = true \/ (pl = Some PPause /\ ra_io_reg o = true).
  Proof. intro H. unfold read_available. apply ra_loop_wake; [exact H|lia]. Qed.
End Proofs.

(* the decision at the cap: the task wakes itself, or the payload is alive and paused (the only
   status for which need_read has registered the io waker).  A status moved from one side to the
   other (e.g. Dropped treated like Pause) falsifies this. *)
Lemma cap_decision_sound st : cap_self_wake st = true \/ st = Some PPause.
Proof. destruct st as [[| |]|]; cbn; auto. Qed.
Lemma cap_decision_exact st : cap_self_wake st = negb match st with Some PPause => true | _ => false end.
Proof. destruct st as [[| |]|]; reflexivity. Qed.

(* the growth rule always leaves at least LW bytes of room, so a socket that returns at most LW
   bytes per call is never truncated by the buffer's capacity *)
Lemma spare_ge_LW LW HW remaining : 2 * LW <= HW -> LW <= spare_after_reserve LW HW remaining.
Proof. intro H. unfold spare_after_reserve. destruct (remaining <? LW) eqn:E; lia. Qed.

(* an over-long head: Partial at or above the cap is refused, below it more input is awaited *)
Lemma head_decision_too_large MAXB n : MAXB <= n -> head_decision MAXB n HPartial = DTooLarge.
Proof. intro H. unfold head_decision. assert (E : MAXB <=? n = true) by lia. rewrite E. reflexivity. Qed.
Lemma head_decision_need_more MAXB n : n < MAXB -> head_decision MAXB n HPartial = DNeedMore.
Proof. intro H. unfold head_decision. assert (E : MAXB <=? n = false) by lia. rewrite E. reflexivity. Qed.
