(* Specification side of C02: an independent client-side response reader (RFC 7230 section
   3.3.3), told whether the request was HEAD.  It takes the head as parsed fields (status, header
   fields) and the bytes that follow the head.  It shares nothing with the encoder model except
   the byte/ASCII helpers. *)
From Coq Require Import String Ascii.
From AV Require Import Lib.Base.
Open Scope N_scope.

Definition sstr (s : string) : bytes := map N_of_ascii (list_ascii_of_string s).

Inductive framing := FNoBody | FLength (n : N) | FChunked | FClose.
(* body decoded, number of bytes after the head that belong to the message *)
Inductive rres := RComplete (f : framing) (body : bytes) (consumed : N) | RIncomplete | RMalformed.

(* ---------------------------------------------------------------- header fields *)
Definition is_ows (b : N) : bool := (b =? 32) || (b =? 9).
Fixpoint drop_ows (v : bytes) : bytes :=
  match v with b :: r => if is_ows b then drop_ows r else v | [] => [] end.
Definition trim (v : bytes) : bytes := rev (drop_ows (rev (drop_ows v))).

Definition field_values (name : string) (fields : list (bytes * bytes)) : list bytes :=
  map (fun kv : bytes * bytes => trim (snd kv))
      (filter (fun kv : bytes * bytes => bytes_eqb (map lower_byte (fst kv)) (sstr name)) fields).

(* last element of a comma-separated list *)
Fixpoint last_token_aux (v cur : bytes) : bytes :=
  match v with
  | [] => cur
  | b :: r => if b =? 44 then last_token_aux r [] else last_token_aux r (cur ++ [b])
  end.
Definition last_coding (vs : list bytes) : bytes :=
  map lower_byte (trim (last_token_aux (last vs []) [])).

Definition dec_val (b : N) : option N := if (48 <=? b) && (b <=? 57) then Some (b - 48) else None.
Fixpoint parse_dec_aux (v : bytes) (acc : N) : option N :=
  match v with
  | [] => Some acc
  | b :: r => match dec_val b with Some d => parse_dec_aux r (acc * 10 + d) | None => None end
  end.
Definition parse_dec (v : bytes) : option N :=
  match v with [] => None | _ => parse_dec_aux v 0 end.

Fixpoint all_same (n : N) (vs : list bytes) : bool :=
  match vs with
  | [] => true
  | v :: r => match parse_dec v with Some m => (m =? n) && all_same n r | None => false end
  end.

Definition no_body_status (s : N) : bool := ((100 <=? s) && (s <? 200)) || (s =? 204) || (s =? 304).

(* RFC 7230 3.3.3, items 1-7, for a response; None = the message cannot be framed *)
Definition framing_of (head_req : bool) (status : N) (fields : list (bytes * bytes)) : option framing :=
  if head_req || no_body_status status then Some FNoBody
  else match field_values "transfer-encoding" fields with
       | (_ :: _) as te => if bytes_eqb (last_coding te) (sstr "chunked") then Some FChunked else Some FClose
       | [] => match field_values "content-length" fields with
               | [] => Some FClose
               | v :: r => match parse_dec v with
                           | Some n => if all_same n r then Some (FLength n) else None
                           | None => None
                           end
               end
       end.

(* ---------------------------------------------------------------- chunked decoding *)
Definition hex_val (b : N) : option N :=
  if (48 <=? b) && (b <=? 57) then Some (b - 48)
  else if (65 <=? b) && (b <=? 70) then Some (b - 55)
  else if (97 <=? b) && (b <=? 102) then Some (b - 87)
  else None.

Inductive hres := HShort | HBad | HOk (n : N) (rest : bytes).
(* 1*HEXDIG *)
Fixpoint read_hex (buf : bytes) (acc : N) (seen : bool) : hres :=
  match buf with
  | [] => HShort
  | b :: r => match hex_val b with
              | Some d => read_hex r (acc * 16 + d) true
              | None => if seen then HOk acc buf else HBad
              end
  end.

(* skip to the end of the line: rest after the first CRLF *)
Fixpoint after_crlf (buf : bytes) : option bytes :=
  match buf with
  | 13 :: ((10 :: r) as t) => Some r
  | _ :: t => after_crlf t
  | [] => None
  end.

(* chunk-size [ chunk-ext ] CRLF *)
Definition read_size_line (buf : bytes) : hres :=
  match read_hex buf 0 false with
  | HOk n (13 :: 10 :: r) => HOk n r
  | HOk n (59 :: r) => match after_crlf r with Some r' => HOk n r' | None => HShort end
  | HOk n [13] => HShort
  | HOk n _ => HBad
  | other => other
  end.

Inductive cres := CDone (body rest : bytes) | CShort | CBad.

(* trailer-part CRLF *)
Fixpoint read_trailers (fuel : nat) (buf acc : bytes) : cres :=
  match fuel with
  | O => CShort
  | S f => match buf with
           | 13 :: 10 :: r => CDone acc r
           | [] | [13] => CShort
           | _ => match after_crlf buf with Some r => read_trailers f r acc | None => CShort end
           end
  end.

Fixpoint read_chunked (fuel : nat) (buf acc : bytes) : cres :=
  match fuel with
  | O => CShort
  | S f =>
      match read_size_line buf with
      | HShort => CShort
      | HBad => CBad
      | HOk n rest =>
          if n =? 0 then read_trailers (S (length rest)) rest acc
          else if lenN rest <? n then CShort
          else match skipn (N.to_nat n) rest with
               | 13 :: 10 :: r2 => read_chunked f r2 (acc ++ firstn (N.to_nat n) rest)
               | [] | [13] => CShort
               | _ => CBad
               end
      end
  end.

(* ---------------------------------------------------------------- one message *)
(* [after] = the bytes following the head; [closed] = the connection ends after them *)
Definition read_message (head_req : bool) (status : N) (fields : list (bytes * bytes))
           (after : bytes) (closed : bool) : rres :=
  match framing_of head_req status fields with
  | None => RMalformed
  | Some FNoBody => RComplete FNoBody [] 0
  | Some (FLength n) =>
      if lenN after <? n then RIncomplete
      else RComplete (FLength n) (firstn (N.to_nat n) after) n
  | Some FChunked =>
      match read_chunked (S (length after)) after [] with
      | CDone b rest => RComplete FChunked b (lenN after - lenN rest)
      | CShort => RIncomplete
      | CBad => RMalformed
      end
  | Some FClose => if closed then RComplete FClose after (lenN after) else RIncomplete
  end.
