(* Graceful shutdown (C06): once DRAINING is set no service call starts and every response head
   is encoded with close. *)
Require Import AV.Lib.Base AV.H1.ConnRec AV.H1.ConnState AV.H1.ConnProofs.

(* ------------------------------------------------------------------ history extensions *)
Definition ext (Q : tev -> bool) (s s' : st) : Prop :=
  exists l, trace s' = trace s ++ l /\ forallb Q l = true.

Lemma ext_refl Q s : ext Q s s.
Proof. exists []. rewrite app_nil_r. split; reflexivity. Qed.
Lemma ext_same Q s s' : trace s' = trace s -> ext Q s s'.
Proof. intro H. exists []. rewrite app_nil_r. split; [exact H|reflexivity]. Qed.
Lemma ext_trans Q s1 s2 s3 : ext Q s1 s2 -> ext Q s2 s3 -> ext Q s1 s3.
Proof.
  intros [l1 [E1 F1]] [l2 [E2 F2]]. exists (l1 ++ l2). rewrite E2, E1, app_assoc. split; [reflexivity|].
  rewrite forallb_app, F1, F2. reflexivity.
Qed.
Lemma ext_one Q s s' e : trace s' = trace s ++ [e] -> Q e = true -> ext Q s s'.
Proof. intros H HQ. exists [e]. split; [exact H|]. cbn. rewrite HQ. reflexivity. Qed.

(* the connection type a response head is encoded with *)
Definition resp_conn (c : cfg) (ro : copt) (s : st) : conn_t :=
  if draining s || (close_unread s && (if fx_ctx (fx c) then is_nil (messages s) else true)) then CClose
  else match ro with OClose => CClose | _ => c_conn s end.

Lemma send_response_trace c who st ro bl bp s :
  trace (send_response c who st ro bl bp s) =
  trace s ++ THead who st (c_v11 s) (c_head s) (resp_conn c ro s) :: (if bl =? 0 then [TComplete] else []).
Proof.
  unfold send_response, resp_conn, encode_head, complete_flags, finish_hook, add_trace.
  repeat bm; cbn; rewrite <- ?app_assoc; try reflexivity; try discriminate.
Qed.

Lemma poll_handler_trace rid s s' out : poll_handler rid s = (s', out) -> trace s' = trace s.
Proof. intro E. apply poll_handler_frame in E. rewrite E. reflexivity. Qed.

(* ------------------------------------------------------------------ G: graceful shutdown *)
(* events that may still happen once DRAINING is set: no service call starts, every response head
   is encoded with Connection: close *)
Definition gq (e : tev) : bool :=
  match e with TStart _ => false | THead _ _ _ _ k => is_close k | _ => true end.
Definition G (s s' : st) : Prop := draining s' = true /\ ext gq s s'.

Lemma G_refl s : draining s = true -> G s s.
Proof. intro H. split; [exact H|apply ext_refl]. Qed.
Lemma G_trans s1 s2 s3 : G s1 s2 -> G s2 s3 -> G s1 s3.
Proof. intros [_ E1] [D E2]. split; [exact D|eapply ext_trans; eauto]. Qed.
Lemma G_same s s' : draining s' = true -> trace s' = trace s -> G s s'.
Proof. intros D T. split; [exact D|apply ext_same; exact T]. Qed.

Lemma send_response_G c who st ro bl bp s : draining s = true -> G s (send_response c who st ro bl bp s).
Proof.
  intro D. split.
  - unfold send_response, encode_head, complete_flags, finish_hook, add_trace. repeat bm; cbn; exact D.
  - eexists. split; [apply send_response_trace|].
    unfold resp_conn. rewrite D. cbn. destruct (bl =? 0); reflexivity.
Qed.

Lemma respond_trace c r k b p s : trace (respond c r k b p s) = trace (send_response c (Some r) (if hfail s =? 0 then 200 else hfail s) k b p s).
Proof. reflexivity. Qed.

Lemma respond_G c r k b p s : draining s = true -> G s (respond c r k b p s).
Proof.
  intro D. pose proof (send_response_G c (Some r) (if hfail s =? 0 then 200 else hfail s) k b p s D) as [D1 E1].
  split; [exact D1|]. destruct E1 as [l [T Q]]. exists l. split; [rewrite respond_trace; exact T|exact Q].
Qed.

Lemma decode_loop_G c : forall fuel s upd, draining s = true -> is_none (dstate s) = false ->
  G s (fst (decode_loop fuel c s upd)) /\ is_none (dstate (fst (decode_loop fuel c s upd))) = false.
Proof.
  induction fuel as [|f IH]; intros s upd D N; cbn [decode_loop]; [split; [apply G_refl; exact D|exact N]|].
  destruct (rbuf s) as [|it rest] eqn:Er; [split; [apply G_refl; exact D|exact N]|].
  destruct (c_pl s) eqn:Ec.
  - destruct it; try (split; [apply G_refl; exact D|exact N]).
    + cbn. destruct (payload s) eqn:Ep.
      * match goal with |- context [decode_loop f c ?x true] => destruct (IH x true) as [gg nn]; [exact D|exact N|] end.
        split; [|exact nn]. eapply G_trans; [|exact gg]. apply G_same; [exact D|reflexivity].
      * cbn. split; [apply G_same; [exact D|reflexivity]|exact N].
    + cbn. destruct (payload s) eqn:Ep.
      * match goal with |- context [decode_loop f c ?x true] => destruct (IH x true) as [gg nn]; [exact D|exact N|] end.
        split; [|exact nn]. eapply G_trans; [|exact gg]. apply G_same; [exact D|reflexivity].
      * cbn. split; [apply G_same; [exact D|reflexivity]|exact N].
  - destruct it.
    + (* IReq: queued, never started *)
      match goal with |- context [if is_none (dstate ?x) then _ else _] =>
        assert (N0 : is_none (dstate x) = false) by (unfold set_ctx, add_trace; repeat bm; cbn; exact N);
        assert (D0 : draining x = true) by (unfold set_ctx, add_trace; repeat bm; cbn; exact D);
        assert (T0 : trace x = trace s ++ [TDecode r]) by (unfold set_ctx, add_trace; repeat bm; cbn; reflexivity);
        rewrite N0; set (x0 := x) in * end.
      match goal with |- context [decode_loop f c ?y true] => destruct (IH y true) as [gg nn]; [exact D0|exact N0|] end.
      split; [|exact nn]. eapply G_trans; [|exact gg].
      split; [exact D0|]. apply ext_one with (e := TDecode r); [exact T0|reflexivity].
    + destruct rest; [split; [apply G_refl; exact D|exact N]|].
      match goal with |- context [decode_loop f c ?x upd] => destruct (IH x upd) as [gg nn]; [exact D|exact N|] end.
      split; [|exact nn]. eapply G_trans; [|exact gg]. apply G_same; [exact D|reflexivity].
    + cbn. unfold parse_error, take_payload_err. split; [apply G_same|]; repeat bm; cbn; auto.
    + cbn. unfold parse_error, take_payload_err. split; [apply G_same|]; repeat bm; cbn; auto.
    + cbn. unfold parse_error, take_payload_err. split; [apply G_same|]; repeat bm; cbn; auto.
Qed.

Lemma poll_request_G c s : draining s = true -> G s (fst (poll_request c s)).
Proof.
  intro D. unfold poll_request. rewrite D.
  destruct (is_none (dstate s)) eqn:N; cbn [andb]; [apply G_refl; exact D|].
  destruct ((MAXP <=? lenN (messages s)) || read_disc s); [apply G_refl; exact D|].
  exact (proj1 (decode_loop_G c _ s false D N)).
Qed.

Lemma body_end_G c s : draining s = true -> G s (body_end c s).
Proof.
  intro D. unfold body_end, complete_flags, finish_hook, add_trace. split.
  - repeat bm; cbn; exact D.
  - apply ext_one with (e := TComplete); [|reflexivity]. repeat bm; cbn; reflexivity.
Qed.

Lemma poll_response_G c : forall fuel s, draining s = true -> G s (poll_response fuel c s).
Proof.
  induction fuel as [|f IH]; intros s D; cbn [poll_response]; rewrite ?body_if; [apply G_same; [exact D|reflexivity]|].
  destruct (dstate s) eqn:Ed.
  - rewrite D. apply G_same; repeat bm; cbn; auto.
  - destruct (poll_handler (rq_id r) s) as [s1 out] eqn:E.
    pose proof (poll_handler_frame _ _ _ _ E) as F.
    assert (D1 : draining s1 = true) by (rewrite F; exact D).
    assert (G1 : G s s1) by (apply G_same; [exact D1|rewrite F; reflexivity]).
    destruct out as [[[k b] p]|].
    + eapply G_trans; [exact G1|]. eapply G_trans; [apply respond_G; exact D1|].
      apply IH. apply respond_G. exact D1.
    + destruct (poll_request c s1) as [s2 upd] eqn:E2.
      pose proof (poll_request_G c s1 D1) as G2. rewrite E2 in G2. cbn in G2.
      destruct upd; [|eapply G_trans; eauto].
      eapply G_trans; [exact G1|]. eapply G_trans; [exact G2|]. apply IH. apply G2.
  - bm; [apply G_same; [exact D|reflexivity]|].
    match goal with |- context [body_end c ?x] =>
      assert (D1 : draining x = true) by (repeat bm; cbn; exact D);
      assert (G1 : G s x) by (apply G_same; [exact D1|repeat bm; cbn; reflexivity]);
      pose proof (body_end_G c x D1) as G2 end.
    eapply G_trans; [exact G1|]. eapply G_trans; [exact G2|]. apply IH. apply G2.
Qed.

Lemma step_G c e s : draining s = true -> G s (step c e s).
Proof.
  intro D. unfold step. destruct (negb (res s =? 0)); [apply G_refl; exact D|]. destruct e.
  - apply G_same; unfold env_step; repeat bm; cbn; auto.
  - apply G_same; unfold poll_graceful; repeat bm; cbn; auto.
  - unfold poll_head_timer. repeat bm; try (apply G_refl; exact D); try (apply G_same; cbn; auto; fail).
    all: match goal with |- G _ (set_shutdown true (send_response _ ?w ?stt ?ro ?bl ?bp ?x)) =>
           assert (D0 : draining x = true) by (cbn; exact D);
           pose proof (send_response_G c w stt ro bl bp x D0) as G1 end.
    all: eapply G_trans; [apply G_same with (s' := _); [|reflexivity]; cbn; exact D|].
    all: eapply G_trans; [exact G1|]; apply G_same; [cbn; apply G1|reflexivity].
  - apply G_same; unfold poll_ka_timer; repeat bm; cbn; auto.
  - apply G_same; unfold poll_sd_timer; repeat bm; cbn; auto.
  - destruct (linger s); [|apply G_refl; exact D]. unfold poll_linger.
    destruct (flush wblock s) as [s1 ok] eqn:E1.
    assert (A1 : draining s1 = true /\ trace s1 = trace s) by (unfold flush in E1; repeat bmh E1; inv E1; cbn; auto).
    destruct A1 as [D1 T1]. destruct ok; cbn [negb]; [|apply G_same; assumption].
    destruct (ensure_linger_timer c s1) as [s2 have] eqn:E2.
    assert (A2 : draining s2 = true /\ trace s2 = trace s).
    { unfold ensure_linger_timer in E2. repeat bmh E2; inv E2; cbn; auto. }
    destruct A2 as [D2 T2]. destruct have; cbn [negb]; [|apply G_same; cbn; assumption].
    destruct (read_available s2) as [[s3 d] io] eqn:E3.
    assert (A3 : draining s3 = true /\ trace s3 = trace s).
    { unfold read_available, unfinish in E3. repeat bmh E3; inv E3; cbn; auto. }
    destruct A3 as [D3 T3]. destruct io; [apply G_same; cbn; assumption|].
    destruct (is_nil (rbuf s3)).
    + apply G_same; destruct d; cbn; assumption.
    + split; [destruct d; cbn; exact D3|].
      apply ext_one with (e := TDiscard (length (rbuf s3))); [|reflexivity].
      destruct d; cbn; rewrite T3; reflexivity.
  - destruct (negb (linger s) && shutdown s); [|apply G_refl; exact D].
    apply G_same; unfold shutdown_io, ensure_linger_timer, flush; repeat bm; cbn; auto.
    all: repeat match goal with E : (_, _) = (_, _) |- _ => inv E end; cbn; auto.
  - destruct (linger s || shutdown s); [apply G_refl; exact D|]. unfold read_phase.
    destruct (read_available s) as [[s1 d] io] eqn:E1.
    assert (A1 : draining s1 = true /\ trace s1 = trace s).
    { unfold read_available, unfinish in E1. repeat bmh E1; inv E1; cbn; auto. }
    destruct A1 as [D1 T1].
    destruct io; [apply G_same; cbn; auto|].
    match goal with |- context [poll_request c ?x] =>
      assert (D2 : draining x = true) by (repeat bm; cbn; exact D1);
      assert (T2 : trace x = trace s) by (repeat bm; cbn; exact T1);
      pose proof (poll_request_G c x D2) as G2; set (x0 := x) in * end.
    assert (G0 : G s x0) by (apply G_same; assumption).
    destruct d; [|eapply G_trans; eauto].
    eapply G_trans; [exact G0|]. eapply G_trans; [exact G2|].
    apply G_same; unfold take_payload_err; repeat bm; cbn; try apply G2; reflexivity.
  - unfold response_phase.
    match goal with |- context [poll_response ?f c s] => pose proof (poll_response_G c f s D) as G1; set (s1 := poll_response f c s) in * end.
    eapply G_trans; [exact G1|]. destruct G1 as [D1 _].
    apply G_same; unfold flush; repeat bm; cbn; auto.
  - apply G_same; unfold epilogue; repeat bm; cbn; auto.
Qed.

Lemma run_events_G c es : forall s, draining s = true -> G s (run_events c es s).
Proof.
  induction es as [|e es IH]; intros s D; cbn; [apply G_refl; exact D|].
  pose proof (step_G c e s D) as G1. eapply G_trans; [exact G1|]. apply IH. apply G1.
Qed.
