(* Per-transition facts (each holds for EVERY state the transition is applied to): how a closing
   response seals the connection, the unread-payload decision, LINGER, the three timers, the
   shutdown deadline. *)
Require Import AV.Lib.Base AV.H1.ConnRec AV.H1.ConnState AV.H1.ConnProofs AV.H1.ConnGraceful AV.H1.ConnSeal.

(* ---- C03: a response encoded with close seals the connection (repair F15) ---- *)
Lemma send_response_seals c who st ro bl bp s :
  fx_close (fx c) = true -> started s = true -> t_active (head_t s) = false ->
  resp_conn c ro s = CClose -> Sealed (send_response c who st ro bl bp s).
Proof.
  intros FX ST HT RC. unfold resp_conn in RC.
  unfold send_response, encode_head, complete_flags, finish_hook, add_trace. rewrite FX.
  repeat bm; cbn in *; try discriminate.
  all: try (left; unfold S1; cbn; repeat split; auto; fail).
  all: try (right; unfold S2; cbn; repeat split; auto; rewrite ?orb_true_r; auto; fail).
  all: try (right; unfold S2; cbn; repeat split; auto;
            match goal with H : linger _ = true |- _ => cbn in H; rewrite H end; rewrite ?orb_true_r; auto; fail).
  all: try congruence.
  all: try (destruct ro; discriminate).
  all: try (match goal with H : _ || true = false |- _ => rewrite orb_true_r in H; discriminate end).
  all: try (match goal with H : c_conn ?x = CClose, H2 : is_close (c_conn ?x) = false |- _ => rewrite H in H2; discriminate end).
Qed.

(* an error response (400/431/500) is popped when nothing is queued behind it and reading has stopped *)
Lemma error_response_seals c st s :
  messages s = [] -> read_disc s = true -> started s = true -> t_active (head_t s) = false ->
  Sealed (send_response c None st ONone 0 0 s).
Proof.
  intros M R ST HT. right. unfold send_response, encode_head, complete_flags, finish_hook, add_trace.
  rewrite N.eqb_refl. repeat bm; cbn in *; unfold S2; cbn; repeat split; auto; rewrite ?R, ?M; auto.
Qed.

(* the 408 of the head timer (repairs F14 + F15) *)
Lemma head_timer_seals c s :
  fx_sd (fx c) = true -> t_ready (head_t s) (now s) = true -> shutdown s = false -> read_disc s = false ->
  messages s = [] -> started s = true ->
  Sealed (poll_head_timer c s) /\
  exists k, trace (poll_head_timer c s) = trace s ++ [THead None 408 (c_v11 s) (c_head s) k; TComplete].
Proof.
  intros FX T SH RD M ST. unfold poll_head_timer. rewrite T, FX. cbn. rewrite SH, RD. cbn [orb]. split.
  - right. unfold send_response, encode_head, complete_flags, finish_hook, add_trace.
    rewrite N.eqb_refl. repeat bm; cbn in *; unfold S2; cbn; repeat split; auto; rewrite ?M, ?orb_true_r; auto.
  - eexists. cbn. rewrite send_response_trace. cbn. reflexivity.
Qed.

(* ---- C03: response sent while the request payload is unread and undrainable ---- *)
Lemma unread_payload_closes c who st ro bl bp s :
  close_unread s = true -> (fx_ctx (fx c) = true -> messages s = []) ->
  let s' := send_response c who st ro bl bp s in
  trace s' = trace s ++ THead who st (c_v11 s) (c_head s) CClose :: (if bl =? 0 then [TComplete] else []) /\
  c_conn s' = CClose /\
  (bl = 0 -> finished s' = true /\ (linger s' || shutdown s') = true /\ dstate s' = SNone).
Proof.
  intros CU M s'. subst s'. split; [|split].
  - rewrite send_response_trace. unfold resp_conn. rewrite CU.
    destruct (fx_ctx (fx c)); [rewrite M by reflexivity|]; cbn; rewrite orb_true_r; reflexivity.
  - unfold send_response, encode_head, complete_flags, finish_hook, add_trace. rewrite CU.
    destruct (fx_ctx (fx c)) eqn:F; [rewrite M by reflexivity|]; cbn; rewrite orb_true_r; repeat bm; reflexivity.
  - intros ->. unfold send_response, encode_head, complete_flags, finish_hook, add_trace. rewrite CU, N.eqb_refl.
    destruct (fx_ctx (fx c)) eqn:F; [rewrite M by reflexivity|]; cbn; repeat bm; cbn; auto; rewrite ?orb_true_r; auto.
Qed.

Lemma body_end_unread_closes c s :
  close_unread s = true -> messages s = [] ->
  let s' := body_end c s in finished s' = true /\ (linger s' || shutdown s') = true /\ dstate s' = SNone.
Proof.
  intros CU M. unfold body_end, complete_flags, finish_hook, add_trace. rewrite CU, M. cbn.
  repeat bm; cbn; auto; rewrite ?orb_true_r; auto.
Qed.

(* LINGER / SHUTDOWN|FINISHED are entered at a response end ONLY for an unread, undrainable payload *)
Lemma keepalive_decision c f s :
  dstate s = SNone -> draining s = false -> messages s = [] ->
  keep_alive (poll_response (S f) c s) = true -> payload s = None /\ c_conn s = CKeepAlive.
Proof.
  intros D DR M. cbn [poll_response]. rewrite D, DR, M. destruct (payload s); cbn.
  - discriminate.
  - destruct (c_conn s); cbn; [discriminate|auto].
Qed.

(* ---- C03: LINGER drops every byte it reads, decodes nothing ---- *)
Lemma linger_discards c wb s :
  let s' := poll_linger c wb s in
  (rbuf s' = [] \/ s' = s) /\ ext (fun e => match e with TDiscard _ => true | _ => false end) s s' /\
  dstate s' = dstate s /\ messages s' = messages s /\ hs s' = hs s.
Proof.
  unfold poll_linger, flush.
  destruct (is_nil (wbuf s)) eqn:W; [|destruct wb]; cbn [negb fst snd].
  2:{ repeat split; auto. apply ext_refl. }
  all: unfold ensure_linger_timer, read_available, unfinish; repeat bm; cbn.
  all: repeat match goal with E : (_, _) = (_, _) |- _ => inv E end; cbn.
  all: repeat split; auto; try apply ext_refl; try (apply ext_same; reflexivity).
  all: try (eapply ext_one; [reflexivity|reflexivity]).
  all: try (left; match goal with H : is_nil ?l = true |- _ => destruct l; [reflexivity|discriminate] end).
Qed.
