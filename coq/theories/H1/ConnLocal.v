(* Per-transition facts (each holds for EVERY state the transition is applied to): how a closing
   response seals the connection, the unread-payload decision, LINGER, the three timers, the
   shutdown deadline. *)
Require Import AV.Lib.Base AV.H1.ConnRec AV.H1.ConnState AV.H1.ConnProofs AV.H1.ConnGraceful AV.H1.ConnSeal.

(* ---- C03: a response encoded with close seals the connection (repair F15) ---- *)
Lemma send_response_seals c who st ro bl bp s :
  fx_close (fx c) = true -> started s = true -> t_active (head_t s) = false ->
  resp_conn c ro s = CClose -> Sealed (send_response c who st ro bl bp s).
Proof.
  intros FX ST HT RC. unfold resp_conn in RC.
  unfold send_response, encode_head, complete_flags, finish_hook, add_trace. rewrite FX.
  repeat bm; cbn in *; try discriminate.
  all: try (left; unfold S1; cbn; repeat split; auto; fail).
  all: try (right; unfold S2; cbn; repeat split; auto; rewrite ?orb_true_r; auto; fail).
  all: try (right; unfold S2; cbn; repeat split; auto;
            match goal with H : linger _ = true |- _ => cbn in H; rewrite H end; rewrite ?orb_true_r; auto; fail).
  all: try congruence.
  all: try (destruct ro; discriminate).
  all: try (match goal with H : _ || true = false |- _ => rewrite orb_true_r in H; discriminate end).
  all: try (match goal with H : c_conn ?x = CClose, H2 : is_close (c_conn ?x) = false |- _ => rewrite H in H2; discriminate end).
Qed.

(* an error response (400/431/500) is popped when nothing is queued behind it and reading has stopped *)
Lemma error_response_seals c st s :
  messages s = [] -> read_disc s = true -> started s = true -> t_active (head_t s) = false ->
  Sealed (send_response c None st ONone 0 0 s).
Proof.
  intros M R ST HT. right. unfold send_response, encode_head, complete_flags, finish_hook, add_trace.
  rewrite N.eqb_refl. repeat bm; cbn in *; unfold S2; cbn; repeat split; auto; rewrite ?R, ?M; auto.
Qed.

(* the 408 of the head timer (repairs F14 + F15) *)
Lemma head_timer_seals c s :
  fx_sd (fx c) = true -> t_ready (head_t s) (now s) = true -> shutdown s = false -> read_disc s = false ->
  messages s = [] -> started s = true ->
  Sealed (poll_head_timer c s) /\
  exists k, trace (poll_head_timer c s) = trace s ++ [THead None 408 (c_v11 s) (c_head s) k; TComplete].
Proof.
  intros FX T SH RD M ST. unfold poll_head_timer. rewrite T, FX. cbn. rewrite SH, RD. cbn [orb]. split.
  - right. unfold send_response, encode_head, complete_flags, finish_hook, add_trace.
    rewrite N.eqb_refl. repeat bm; cbn in *; unfold S2; cbn; repeat split; auto; rewrite ?M, ?orb_true_r; auto.
  - eexists. cbn. rewrite send_response_trace. cbn. reflexivity.
Qed.

(* ---- C03: response sent while the request payload is unread and undrainable ---- *)
Lemma unread_payload_closes c who st ro bl bp s :
  close_unread s = true -> (fx_ctx (fx c) = true -> messages s = []) ->
  let s' := send_response c who st ro bl bp s in
  trace s' = trace s ++ THead who st (c_v11 s) (c_head s) CClose :: (if bl =? 0 then [TComplete] else []) /\
  c_conn s' = CClose /\
  (bl = 0 -> finished s' = true /\ (linger s' || shutdown s') = true /\ dstate s' = SNone).
Proof.
  intros CU M s'. subst s'. split; [|split].
  - rewrite send_response_trace. unfold resp_conn. rewrite CU.
    destruct (fx_ctx (fx c)); [rewrite M by reflexivity|]; cbn; rewrite orb_true_r; reflexivity.
  - unfold send_response, encode_head, complete_flags, finish_hook, add_trace. rewrite CU.
    destruct (fx_ctx (fx c)) eqn:F; [rewrite M by reflexivity|]; cbn; rewrite orb_true_r; repeat bm; reflexivity.
  - intros ->. unfold send_response, encode_head, complete_flags, finish_hook, add_trace. rewrite CU, N.eqb_refl.
    destruct (fx_ctx (fx c)) eqn:F; [rewrite M by reflexivity|]; cbn; repeat bm; cbn; auto; rewrite ?orb_true_r; auto.
Qed.

Lemma body_end_unread_closes c s :
  close_unread s = true -> messages s = [] ->
  let s' := body_end c s in finished s' = true /\ (linger s' || shutdown s') = true /\ dstate s' = SNone.
Proof.
  intros CU M. unfold body_end, complete_flags, finish_hook, add_trace. rewrite CU, M. cbn.
  repeat bm; cbn; auto; rewrite ?orb_true_r; auto.
Qed.

(* the same at the end of the body of an ERROR response (State::SendErrorPayload, dispatcher.rs:718-746) *)
Lemma body_end_err_unread_closes c s :
  close_unread s = true -> messages s = [] ->
  let s' := body_end_err c s in finished s' = true /\ (linger s' || shutdown s') = true /\ dstate s' = SNone.
Proof.
  intros CU M. unfold body_end_err, complete_flags, finish_hook, add_trace. rewrite CU, M. cbn.
  repeat bm; cbn; auto; rewrite ?orb_true_r; auto.
Qed.

(* LINGER / SHUTDOWN|FINISHED are entered at a response end ONLY for an unread, undrainable payload *)
Lemma keepalive_decision c f s :
  dstate s = SNone -> draining s = false -> messages s = [] ->
  keep_alive (poll_response (S f) c s) = true -> payload s = None /\ c_conn s = CKeepAlive.
Proof.
  intros D DR M. cbn [poll_response]. rewrite D, DR, M. destruct (payload s); cbn.
  - discriminate.
  - destruct (c_conn s); cbn; [discriminate|auto].
Qed.

(* ---- C03: LINGER drops every byte it reads, decodes nothing ---- *)
Definition is_discard (e : tev) : bool := match e with TDiscard _ => true | _ => false end.

Lemma linger_no_dispatch c wb s :
  let s' := poll_linger c wb s in
  dstate s' = dstate s /\ messages s' = messages s /\ hs s' = hs s /\ chans s' = chans s /\ ext is_discard s s'.
Proof.
  unfold poll_linger.
  destruct (flush wb s) as [s1 ok] eqn:E1.
  assert (A1 : dstate s1 = dstate s /\ messages s1 = messages s /\ hs s1 = hs s /\ chans s1 = chans s /\ trace s1 = trace s).
  { unfold flush in E1. repeat bmh E1; inv E1; cbn; auto. }
  destruct A1 as (a1 & b1 & c1 & d1 & e1). destruct ok; cbn [negb].
  2:{ repeat split; auto. apply ext_same; exact e1. }
  destruct (ensure_linger_timer c s1) as [s2 have] eqn:E2.
  assert (A2 : dstate s2 = dstate s /\ messages s2 = messages s /\ hs s2 = hs s /\ chans s2 = chans s /\ trace s2 = trace s).
  { unfold ensure_linger_timer in E2. repeat bmh E2; inv E2; cbn; auto. }
  destruct A2 as (a2 & b2 & c2 & d2 & e2). destruct have; cbn [negb].
  2:{ cbn. repeat split; auto. apply ext_same; exact e2. }
  destruct (read_available s2) as [[s3 d] io] eqn:E3.
  assert (A3 : dstate s3 = dstate s /\ messages s3 = messages s /\ hs s3 = hs s /\ chans s3 = chans s /\ trace s3 = trace s).
  { unfold read_available, unfinish in E3. repeat bmh E3; inv E3; cbn; auto. }
  destruct A3 as (a3 & b3 & c3 & d3 & e3). destruct io.
  { cbn. repeat split; auto. apply ext_same; exact e3. }
  destruct (is_nil (rbuf s3)); destruct d; cbn; repeat split; auto; try (apply ext_same; exact e3).
  all: apply ext_one with (e := TDiscard (length (rbuf s3))); [cbn; rewrite e3; reflexivity|reflexivity].
Qed.

Lemma linger_drops_what_it_reads c wb s s1 s2 s3 d :
  flush wb s = (s1, true) -> ensure_linger_timer c s1 = (s2, true) -> read_available s2 = (s3, d, false) ->
  rbuf (poll_linger c wb s) = [].
Proof.
  intros E1 E2 E3. unfold poll_linger. rewrite E1. cbn [negb]. rewrite E2. cbn [negb]. rewrite E3.
  destruct (is_nil (rbuf s3)) eqn:N; destruct d; cbn; auto.
  all: destruct (rbuf s3); [reflexivity|discriminate].
Qed.
