(* C03, the tree as it is (fixes/F12.patch and fixes/F14.patch applied, F15 a known finding):
   OUTSIDE the F15 class, after a closing response head no response head and no service call is
   ever added, for every handler script set and every event sequence.

   The class is a predicate on the INPUT: the concatenation of all bytes (items) that ever arrive
   must not be [calm]: some request that is followed by further request material is not [good]
   (its context is not keep-alive, or it has a body, or its handler may force close). *)
Require Import AV.Lib.Base AV.H1.ConnRec AV.H1.ConnState AV.H1.ConnSpec AV.H1.ConnProofs AV.H1.ConnGraceful AV.H1.ConnSeal AV.H1.ConnLocal AV.H1.ConnKeepAlive.

Section Quiet.
  Variable c : cfg.
  Variable H0 : list (N * list hact).          (* the handler scripts the connection starts with *)
  Hypothesis TREE : fx c = mkFixes true false true.
  Hypothesis NOSIG : has_signal c = false.

  Definition script_ok (a : list hact) : bool :=
    forallb (fun h => match h with HRespond OClose _ _ => false | _ => true end) a.
  Definition good (x : req) : bool :=
    is_ka (ctx_conn c x) && negb (has_body x) && script_ok (hs_get (rq_id x) H0).

  (* what may follow the head of a body-bearing request: its data, at most one exact end, nothing else *)
  Fixpoint body_tail (l : list item) : bool :=
    match l with [] => true | IData _ :: r => body_tail r | IEnd :: r => is_nil r | _ => false end.
  (* an input stream outside the F15 class (read from a message boundary) *)
  Fixpoint calm (l : list item) : bool :=
    match l with
    | [] => true
    | IReq x :: r => if has_body x then body_tail r else (is_nil r || (good x && calm r))
    | IPart :: r => calm r
    | _ => true                                  (* malformed head: a 400 follows, reading stops *)
    end.

  Definition P (s : st) (fut : list item) : list item := rbuf s ++ sock s ++ fut.
  Definition blocked (s : st) : bool := read_disc s || linger s || shutdown s.
  Definition is_merr (m : dmsg) : bool := match m with MError _ => true | _ => false end.
  Definition has_merr (l : list dmsg) : bool := existsb is_merr l.
  Fixpoint mreqs (l : list dmsg) : list req :=
    match l with MItem r :: t => r :: mreqs t | MError _ :: t => mreqs t | [] => [] end.
  Fixpoint merr_last (l : list dmsg) : bool :=
    match l with [] => true | MError _ :: r => is_nil r | MItem _ :: r => merr_last r end.
  Definition inflight (s : st) : list req := match dstate s with SService x => [x] | _ => [] end.
  Definition ys (s : st) : list req := inflight s ++ mreqs (messages s).
  Definition last_free (s : st) (fut : list item) : bool :=
    negb (has_merr (messages s)) && (c_pl s || is_nil (P s fut)).
  Definition closed (s : st) : bool := existsb closing_ev (trace s).
  Definition quiet_stream (s : st) (fut : list item) : bool := if c_pl s then body_tail (P s fut) else is_nil (P s fut).

  Definition Terminal (s : st) (fut : list item) : Prop :=
    messages s = [] /\ inflight s = [] /\ (t_active (head_t s) = true -> read_disc s = true) /\ started s = true /\
    (read_disc s = true \/ quiet_stream s fut = true \/ (linger s || shutdown s) = true).

  Record Inv (s : st) (fut : list item) : Prop := {
    i_sig : sig_armed s = false /\ draining s = false;
    i_B : Binv s;
    i_M : merr_last (messages s) = true /\ (has_merr (messages s) = true -> read_disc s = true);
    i_H : t_active (head_t s) = true ->
          dstate s = SNone /\ mreqs (messages s) = [] /\ started s = true /\ payload s = None /\
          (closed s = false \/ read_disc s = true);
    i_ST : started s = false -> dstate s = SNone /\ messages s = [] /\ closed s = false /\ payload s = None;
    i_CC : forall x, dstate s = SService x -> c_conn s = ctx_conn c x;
    i_HS : forall id, script_ok (hs_get id H0) = true -> script_ok (hs_get id (hs s)) = true;
    i_LB : c_pl s = true -> match rev (ys s) with y :: _ => has_body y = true | [] => True end;
    i_LG : linger s = true -> read_disc s = true \/ quiet_stream s fut = true;
    i_W : read_disc s = true \/ (if c_pl s then body_tail (P s fut) else calm (P s fut)) = true;
    i_V : if last_free s fut then forallb good (removelast (ys s)) = true else forallb good (ys s) = true;
    i_quiet : quiet_after_close (trace s) = true;
    i_term : closed s = true -> Terminal s fut }.

  (* ---- list facts ---- *)
  Lemma body_tail_app_nil l : body_tail l = true -> forall k, l = k -> True. Proof. auto. Qed.

  Lemma quiet_snoc t e : quiet_after_close (t ++ [e]) = quiet_after_close t && (negb (existsb closing_ev t) || negb (active_ev e)).
  Proof.
    induction t as [|a t IH]; cbn.
    - destruct (closing_ev e); reflexivity.
    - destruct (closing_ev a) eqn:Ca; cbn.
      + rewrite existsb_app. cbn. rewrite orb_false_r, negb_orb. reflexivity.
      + exact IH.
  Qed.
  Lemma closed_snoc t e : existsb closing_ev (t ++ [e]) = existsb closing_ev t || closing_ev e.
  Proof. rewrite existsb_app. cbn. rewrite orb_false_r. reflexivity. Qed.

  Lemma forallb_removelast {A} (f : A -> bool) l : forallb f l = true -> forallb f (removelast l) = true.
  Proof.
    induction l as [|a l IH]; cbn; [auto|]. intro H. apply andb_true_iff in H as [H1 H2].
    destruct l; [reflexivity|]. cbn. rewrite H1. apply IH. exact H2.
  Qed.
  Lemma removelast_cons_good (f : req -> bool) a l : forallb f (removelast (a :: l)) = true -> forallb f (removelast l) = true.
  Proof. cbn. destruct l; [reflexivity|]. intro H. apply andb_true_iff in H as [_ H]. exact H. Qed.

  Lemma mreqs_app l k : mreqs (l ++ k) = mreqs l ++ mreqs k.
  Proof. induction l as [|[r|e] l IH]; cbn; congruence. Qed.
  Lemma has_merr_app l k : has_merr (l ++ k) = has_merr l || has_merr k.
  Proof. apply existsb_app. Qed.
  Lemma merr_last_snoc_item l r : has_merr l = false -> merr_last (l ++ [MItem r]) = true.
  Proof. induction l as [|[x|e] l IH]; cbn; auto. discriminate. Qed.
  Lemma merr_last_snoc_err l e : has_merr l = false -> merr_last (l ++ [MError e]) = true.
  Proof. induction l as [|[x|e'] l IH]; cbn; auto. discriminate. Qed.
  Lemma no_msgs l : mreqs l = [] -> has_merr l = false -> l = [].
  Proof. destruct l as [|[x|e] l]; cbn; congruence. Qed.

  Lemma fx1 : fx_ctx (fx c) = true. Proof. rewrite TREE. reflexivity. Qed.
  Lemma fx2 : fx_close (fx c) = false. Proof. rewrite TREE. reflexivity. Qed.
  Lemma fx3 : fx_sd (fx c) = true. Proof. rewrite TREE. reflexivity. Qed.

  (* frame: the fields the invariant reads are unchanged, except that handler scripts may have
     advanced, the read side may have been closed and SHUTDOWN entered / LINGER turned into
     SHUTDOWN (every clause is monotone in those) *)
  Lemma Inv_mono s s' fut :
    sig_armed s' = sig_armed s -> draining s' = draining s -> payload s' = payload s -> c_pl s' = c_pl s ->
    messages s' = messages s -> head_t s' = head_t s -> dstate s' = dstate s -> started s' = started s ->
    trace s' = trace s -> c_conn s' = c_conn s -> rbuf s' = rbuf s -> sock s' = sock s ->
    (forall id, script_ok (hs_get id (hs s)) = true -> script_ok (hs_get id (hs s')) = true) ->
    (read_disc s = true -> read_disc s' = true) ->
    (linger s' = true -> linger s = true \/ read_disc s' = true) ->
    ((linger s || shutdown s) = true -> (read_disc s' || linger s' || shutdown s') = true) ->
    Inv s fut -> Inv s' fut.
  Proof.
    intros e1 e2 e3 e4 e5 e6 e7 e8 e9 e10 e12 e13 mh mr ml mb [a b cM d e f g h i j k l m].
    assert (EP : P s' fut = P s fut) by (unfold P; rewrite e12, e13; reflexivity).
    assert (EY : ys s' = ys s) by (unfold ys, inflight; rewrite e7, e5; reflexivity).
    assert (EL : last_free s' fut = last_free s fut) by (unfold last_free; rewrite e5, e4, EP; reflexivity).
    assert (EC : closed s' = closed s) by (unfold closed; rewrite e9; reflexivity).
    assert (EQ : quiet_stream s' fut = quiet_stream s fut) by (unfold quiet_stream; rewrite e4, EP; reflexivity).
    constructor.
    - rewrite e1, e2. exact a.
    - destruct b as [b1 b2]. split; rewrite ?e3, ?e4; auto.
    - rewrite e5. destruct cM as [c1 c2]. split; auto.
    - rewrite e6, e7, e5, e8, e3, EC. intro T. destruct (d T) as (d1 & d2 & d3 & d5 & [d4|d4]); repeat split; auto.
    - rewrite e8, e7, e5, EC, e3. exact e.
    - intros x. rewrite e7, e10. apply f.
    - intros id Hid. apply mh. apply g. exact Hid.
    - rewrite e4, EY. exact h.
    - rewrite EQ. intro L. destruct (ml L) as [L1|L1]; [|left; exact L1]. destruct (i L1) as [r|q]; [left; apply mr; exact r|right; exact q].
    - destruct j as [j|j]; [left; apply mr; exact j|right]. rewrite e4, EP. exact j.
    - rewrite EL, EY. exact k.
    - rewrite e9. exact l.
    - rewrite EC. intro C. destruct (m C) as (m1 & m2 & m3 & m4 & m5). unfold Terminal, inflight.
      rewrite e5, e7, e6, e8, EQ. repeat split; auto.
      destruct m5 as [m5|[m5|m5]]; [left; apply mr; exact m5|right; left; exact m5|].
      specialize (mb m5). destruct (read_disc s'); [left; reflexivity|right; right; exact mb].
  Qed.

  (* ---- handler scripts ---- *)
  Lemma run_h_ok rid acts : forall s s' rest out, script_ok acts = true -> run_h rid acts s = (s', rest, out) ->
    script_ok rest = true /\ match out with Some (k, _, _) => k <> OClose | None => True end.
  Proof.
    induction acts as [|a acts IH]; intros s s' rest out OK H; cbn [run_h] in H.
    - inv H. split; [reflexivity|discriminate].
    - cbn in OK. apply andb_true_iff in OK as [OKa OKr].
      assert (OK' : script_ok (a :: acts) = true) by (cbn; rewrite OKa; exact OKr).
      destruct a; try (inv H; split; [assumption|exact I]).
      all: repeat bmh H; try (inv H; split; [assumption|exact I]); try (eapply IH; eassumption).
      + inv H. split; [reflexivity|]. destruct c0; try discriminate; congruence.
      + inv H. split; [reflexivity|discriminate].
  Qed.

  Lemma hs_get_set id rid a l : hs_get id (hs_set rid a l) = if rid =? id then a else hs_get id l.
  Proof.
    induction l as [|[k b] l IH]; cbn [hs_set hs_get].
    - reflexivity.
    - destruct (k =? rid) eqn:K; cbn [hs_get].
      + apply N.eqb_eq in K. subst k. destruct (rid =? id); reflexivity.
      + rewrite IH. destruct (k =? id) eqn:KI; [|reflexivity].
        apply N.eqb_eq in KI. subst k. rewrite N.eqb_sym in K. rewrite K. reflexivity.
  Qed.

  (* one poll of the handler of the request in flight *)
  Lemma poll_handler_Inv s fut x s1 out : Inv s fut -> poll_handler (rq_id x) s = (s1, out) ->
    Inv s1 fut /\ dstate s1 = dstate s /\ messages s1 = messages s /\ read_disc s1 = read_disc s /\ res s1 = res s /\
    linger s1 = linger s /\ shutdown s1 = shutdown s /\
    (good x = true -> match out with Some (k, _, _) => k <> OClose | None => True end).
  Proof.
    intros I0 PH. unfold poll_handler in PH.
    destruct (run_h (rq_id x) (hs_get (rq_id x) (hs s)) s) as [[s' rest] o] eqn:R. inv PH.
    pose proof (run_h_frame _ _ _ _ _ _ R) as F.
    split; [|repeat split; try (rewrite F; reflexivity)].
    - rewrite F. revert I0. apply Inv_mono; try reflexivity; auto.
      + intros id Hid. cbn. rewrite hs_get_set. destruct (rq_id x =? id) eqn:E; [|exact Hid].
        apply N.eqb_eq in E. subst id. eapply run_h_ok; eassumption.
      + intro L. change (read_disc s || linger s || shutdown s = true). rewrite <- orb_assoc, L. apply orb_true_r.
    - intro G. unfold good in G. apply andb_true_iff in G as [_ G].
      pose proof (i_HS _ _ I0 _ G) as OK. eapply run_h_ok; eassumption.
  Qed.

  (* ---- what send_response changes (F15 hook absent) ---- *)
  Definition cu' (s : st) : bool := close_unread s && is_nil (messages s).

  Lemma send_response_fields who stt ro bl bp s :
    let s' := send_response c who stt ro bl bp s in
    sig_armed s' = sig_armed s /\ draining s' = draining s /\ payload s' = payload s /\ c_pl s' = c_pl s /\
    messages s' = messages s /\ head_t s' = head_t s /\ started s' = started s /\ rbuf s' = rbuf s /\ sock s' = sock s /\
    hs s' = hs s /\ read_disc s' = read_disc s /\ res s' = res s /\
    dstate s' = (if bl =? 0 then SNone else SSendPayload who) /\
    (linger s' = true -> linger s = true \/ cu' s = true) /\
    ((linger s || shutdown s) = true -> (linger s' || shutdown s') = true).
  Proof.
    unfold send_response, encode_head, complete_flags, finish_hook, add_trace, cu'. rewrite fx1, fx2. cbn [andb].
    repeat bm; cbn; repeat split; auto; intros; rewrite ?orb_true_r; auto.
  Qed.

  Lemma resp_conn_eq ro s : resp_conn c ro s =
    if draining s || cu' s then CClose else match ro with OClose => CClose | _ => c_conn s end.
  Proof. unfold resp_conn, cu'. rewrite fx1. reflexivity. Qed.

  Lemma rev_cons_last (x : req) t : t <> [] -> match rev (x :: t) with y :: _ => Some y | [] => None end = match rev t with y :: _ => Some y | [] => None end.
  Proof.
    intro N. cbn. destruct (rev t) eqn:E; [|reflexivity].
    apply (f_equal (@rev req)) in E. rewrite rev_involutive in E. cbn in E. contradiction.
  Qed.

  (* the response of the request in flight *)
  Lemma send_own s fut x stt ro bl bp : Inv s fut -> dstate s = SService x -> (good x = true -> ro <> OClose) ->
    let s' := send_response c (Some x) stt ro bl bp s in
    Inv s' fut /\ (closed s' = true -> read_disc s' = true \/ quiet_stream s' fut = true).
  Proof.
    intros I0 D RO s'.
    destruct (send_response_fields (Some x) stt ro bl bp s) as (f1 & f2 & f3 & f4 & f5 & f6 & f7 & f8 & f9 & f10 & f11 & f12 & f13 & f14 & f15).
    fold s' in f1, f2, f3, f4, f5, f6, f7, f8, f9, f10, f11, f12, f13, f14, f15.
    pose proof (send_response_trace c (Some x) stt ro bl bp s) as T. fold s' in T.
    destruct I0 as [a b cM d e f g h i j k l m].
    assert (EP : P s' fut = P s fut) by (unfold P; rewrite f8, f9; reflexivity).
    assert (EQ : quiet_stream s' fut = quiet_stream s fut) by (unfold quiet_stream; rewrite f4, EP; reflexivity).
    assert (IN' : inflight s' = []) by (unfold inflight; rewrite f13; destruct (bl =? 0); reflexivity).
    assert (YS : ys s = x :: mreqs (messages s)) by (unfold ys, inflight; rewrite D; reflexivity).
    assert (YS' : ys s' = mreqs (messages s)) by (unfold ys; rewrite IN', f5; reflexivity).
    assert (EL : last_free s' fut = last_free s fut) by (unfold last_free; rewrite f5, f4, EP; reflexivity).
    (* nothing closing has been sent yet: the request is in flight *)
    assert (NC : closed s = false).
    { destruct (closed s) eqn:C; [|reflexivity]. destruct (m eq_refl) as (_ & m2 & _). unfold inflight in m2. rewrite D in m2. discriminate. }
    assert (HT : t_active (head_t s) = false).
    { destruct (t_active (head_t s)) eqn:A; [|reflexivity]. destruct (d eq_refl) as (d1 & _). congruence. }
    assert (STT : started s = true).
    { destruct (started s) eqn:A; [reflexivity|]. destruct (e eq_refl) as (e1 & _). congruence. }
    (* a good request is answered without close *)
    assert (GOOD : good x = true -> resp_conn c ro s = CKeepAlive).
    { intro G. rewrite resp_conn_eq. destruct a as [_ a2]. rewrite a2. cbn [orb].
      assert (CUF : cu' s = false).
      { unfold cu', close_unread. destruct (payload s) eqn:Pl; [|reflexivity].
        destruct (is_nil (messages s)) eqn:Nl; [|apply andb_false_r].
        assert (M0 : messages s = []) by (destruct (messages s); [reflexivity|discriminate]).
        destruct b as [b1 _]. assert (CP : c_pl s = true) by (apply b1; congruence).
        specialize (h CP). rewrite YS, M0 in h. cbn in h.
        unfold good in G. rewrite h in G. cbn in G. rewrite andb_false_r in G. discriminate. }
      rewrite CUF. specialize (RO G). rewrite (f x D).
      unfold good in G. apply andb_true_iff in G as [G _]. apply andb_true_iff in G as [G _].
      destruct (ctx_conn c x); [discriminate|]. destruct ro; congruence. }
    assert (CLOSING : closing_ev (THead (Some x) stt (c_v11 s) (c_head s) (resp_conn c ro s)) = true ->
                      messages s = [] /\ (read_disc s = true \/ quiet_stream s fut = true)).
    { intro CE. assert (NG : good x = false).
      { destruct (good x) eqn:G; [|reflexivity]. rewrite (GOOD eq_refl) in CE. cbn in CE. discriminate. }
      unfold last_free in k. rewrite YS in k.
      destruct (negb (has_merr (messages s)) && (c_pl s || is_nil (P s fut))) eqn:LF.
      - apply andb_true_iff in LF as [LF1 LF2].
        destruct (mreqs (messages s)) eqn:MR.
        + assert (M0 : messages s = []) by (apply no_msgs; [exact MR|destruct (has_merr (messages s)); [discriminate|reflexivity]]).
          split; [exact M0|]. destruct j as [j|j]; [left; exact j|right].
          unfold quiet_stream. destruct (c_pl s); [exact j|]. cbn in LF2. exact LF2.
        + cbn in k. rewrite NG in k. discriminate.
      - cbn in k. rewrite NG in k. discriminate. }
    split.
    - constructor.
      + rewrite f1, f2. exact a.
      + destruct b as [b1 b2]. split; rewrite ?f3, ?f4, ?f11; auto.
      + rewrite f5, f11. exact cM.
      + rewrite f6, HT. discriminate.
      + rewrite f7, STT. discriminate.
      + intros y Dy. rewrite f13 in Dy. destruct (bl =? 0); discriminate.
      + rewrite f10. exact g.
      + rewrite f4, YS'. intro CP. specialize (h CP). rewrite YS in h.
        destruct (mreqs (messages s)) as [|q t] eqn:MR; [exact I|].
        assert (N : q :: t <> []) by discriminate. pose proof (rev_cons_last x (q :: t) N) as R.
        destruct (rev (x :: q :: t)); destruct (rev (q :: t)); try discriminate; inv R; auto.
      + rewrite EQ, f11. intro L. destruct (f14 L) as [L1|L1]; [exact (i L1)|].
        (* LINGER entered now: the unread payload is this request's own *)
        unfold cu' in L1. apply andb_true_iff in L1 as [CU NL]. unfold close_unread in CU.
        destruct (payload s) eqn:Pl; [|discriminate]. destruct b as [b1 _]. assert (CP : c_pl s = true) by (apply b1; congruence).
        destruct j as [j|j]; [left; exact j|right]. unfold quiet_stream. rewrite CP in *. exact j.
      + rewrite f11, f4, EP. exact j.
      + rewrite EL, YS'. rewrite YS in k. destruct (last_free s fut).
        * apply removelast_cons_good with (a := x). exact k.
        * cbn in k. apply andb_true_iff in k as [_ k]. exact k.
      + rewrite T. destruct (bl =? 0).
        * change (trace s ++ [THead (Some x) stt (c_v11 s) (c_head s) (resp_conn c ro s); TComplete])
            with (trace s ++ [THead (Some x) stt (c_v11 s) (c_head s) (resp_conn c ro s)] ++ [TComplete]).
          rewrite app_assoc, !quiet_snoc, l. unfold closed in NC. rewrite NC.
          cbn [active_ev negb orb andb]. rewrite ?orb_true_r. reflexivity.
        * rewrite quiet_snoc, l. unfold closed in NC. rewrite NC. reflexivity.
      + intro C. unfold Terminal. rewrite f5, IN', f6, HT, f7, f11, EQ.
        assert (CE : closing_ev (THead (Some x) stt (c_v11 s) (c_head s) (resp_conn c ro s)) = true).
        { unfold closed in C, NC. rewrite T in C. destruct (bl =? 0).
          - change (trace s ++ [THead (Some x) stt (c_v11 s) (c_head s) (resp_conn c ro s); TComplete])
              with (trace s ++ [THead (Some x) stt (c_v11 s) (c_head s) (resp_conn c ro s)] ++ [TComplete]) in C.
            rewrite app_assoc, !closed_snoc, NC in C. cbn [closing_ev orb] in C. rewrite orb_false_r in C. exact C.
          - rewrite closed_snoc, NC in C. exact C. }
        destruct (CLOSING CE) as [M0 Q]. repeat split; auto; try discriminate.
        destruct Q as [Q|Q]; [left; exact Q|right; left; exact Q].
    - intro C. rewrite f11, EQ.
      assert (CE : closing_ev (THead (Some x) stt (c_v11 s) (c_head s) (resp_conn c ro s)) = true).
      { unfold closed in C, NC. rewrite T in C. destruct (bl =? 0).
        - change (trace s ++ [THead (Some x) stt (c_v11 s) (c_head s) (resp_conn c ro s); TComplete])
            with (trace s ++ [THead (Some x) stt (c_v11 s) (c_head s) (resp_conn c ro s)] ++ [TComplete]) in C.
          rewrite app_assoc, !closed_snoc, NC in C. cbn [closing_ev orb] in C. rewrite orb_false_r in C. exact C.
        - rewrite closed_snoc, NC in C. exact C. }
      apply (CLOSING CE).
  Qed.

  (* the handler future resolved: Ok or Err response of the request in flight *)
  Lemma respond_own s fut x ro bl bp : Inv s fut -> dstate s = SService x -> (good x = true -> ro <> OClose) ->
    let s' := respond c x ro bl bp s in
    Inv s' fut /\ (closed s' = true -> read_disc s' = true \/ quiet_stream s' fut = true) /\
    messages s' = messages s /\ read_disc s' = read_disc s /\ res s' = res s /\ started s' = started s.
  Proof.
    intros I0 D RO s'. set (stt := if hfail s =? 0 then 200 else hfail s).
    destruct (send_own s fut x stt ro bl bp I0 D RO) as [I1 Q1].
    destruct (send_response_fields (Some x) stt ro bl bp s) as (_ & _ & _ & _ & f5 & _ & f7 & _ & _ & _ & f11 & f12 & _).
    split; [|split; [exact Q1|split; [exact f5|split; [exact f11|split; [exact f12|exact f7]]]]].
    revert I1. apply Inv_mono; try reflexivity; auto.
    intro LL. rewrite <- orb_assoc. apply orb_true_iff. right. exact LL.
  Qed.

  Lemma not_closed_busy s fut : Inv s fut -> (messages s <> [] \/ inflight s <> []) -> closed s = false.
  Proof.
    intros I0 B. destruct (closed s) eqn:C; [|reflexivity].
    destruct (i_term _ _ I0 C) as (m1 & m2 & _). destruct B; contradiction.
  Qed.

  (* an error response popped from the queue *)
  Lemma send_err s fut stt ms : Inv s fut -> dstate s = SNone -> messages s = MError stt :: ms ->
    Inv (send_response c None stt ONone 0 0 (set_messages ms s)) fut.
  Proof.
    intros I0 D M0.
    assert (NC : closed s = false) by (apply (not_closed_busy s fut I0); left; rewrite M0; discriminate).
    destruct I0 as [a b cM d e f g h i j k l m].
    destruct cM as [c1 c2]. rewrite M0 in c1, c2. cbn in c1, c2.
    assert (MS : ms = []) by (destruct ms; [reflexivity|discriminate]). subst ms.
    assert (RD : read_disc s = true) by (apply c2; reflexivity).
    assert (STT : started s = true).
    { destruct (started s) eqn:A; [reflexivity|]. destruct (e eq_refl) as (_ & e2 & _). congruence. }
    set (s1 := set_messages [] s).
    set (s' := send_response c None stt ONone 0 0 s1).
    destruct (send_response_fields None stt ONone 0 0 s1) as (f1 & f2 & f3 & f4 & f5 & f6 & f7 & f8 & f9 & f10 & f11 & f12 & f13 & f14 & f15).
    fold s' in f1, f2, f3, f4, f5, f6, f7, f8, f9, f10, f11, f12, f13, f14, f15.
    pose proof (send_response_trace c None stt ONone 0 0 s1) as T. fold s' in T. rewrite N.eqb_refl in T, f13.
    change (trace s1) with (trace s) in T.
    assert (YS' : ys s' = []) by (unfold ys, inflight; rewrite f13, f5; reflexivity).
    constructor.
    - rewrite f1, f2. exact a.
    - destruct b as [b1 b2]. split; rewrite ?f3, ?f4, ?f11; auto.
    - rewrite f5. split; [reflexivity|discriminate].
    - rewrite f6, f13, f5, f7, f3, f11. intro A. destruct (d A) as (_ & _ & _ & d4 & _). repeat split; auto.
    - rewrite f7. change (started s1) with (started s). rewrite STT. discriminate.
    - rewrite f13. discriminate.
    - rewrite f10. exact g.
    - rewrite YS'. intros _. exact I.
    - rewrite f11. intros _. left. exact RD.
    - rewrite f11. left. exact RD.
    - rewrite YS'. destruct (last_free s' fut); reflexivity.
    - rewrite T.
      change (trace s ++ [THead None stt (c_v11 s1) (c_head s1) (resp_conn c ONone s1); TComplete])
        with (trace s ++ [THead None stt (c_v11 s1) (c_head s1) (resp_conn c ONone s1)] ++ [TComplete]).
      rewrite app_assoc, !quiet_snoc, l. unfold closed in NC. rewrite NC.
      cbn [active_ev negb orb andb]. rewrite ?orb_true_r. reflexivity.
    - intros _. unfold Terminal, inflight. rewrite f5, f13, f7, f11. change (started s1) with (started s).
      repeat split; auto.
  Qed.

  (* a queued request is dispatched *)
  Lemma start_pop s fut q ms : Inv s fut -> dstate s = SNone -> messages s = MItem q :: ms ->
    Inv (start_service c true q (set_messages ms s)) fut.
  Proof.
    intros I0 D M0.
    assert (NC : closed s = false) by (apply (not_closed_busy s fut I0); left; rewrite M0; discriminate).
    destruct I0 as [a b cM d e f g h i j k l m].
    assert (HT : t_active (head_t s) = false).
    { destruct (t_active (head_t s)) eqn:A; [|reflexivity]. destruct (d eq_refl) as (_ & d2 & _). rewrite M0 in d2. discriminate. }
    assert (STT : started s = true).
    { destruct (started s) eqn:A; [reflexivity|]. destruct (e eq_refl) as (_ & e2 & _). congruence. }
    set (s' := start_service c true q (set_messages ms s)).
    assert (F : sig_armed s' = sig_armed s /\ draining s' = draining s /\ payload s' = payload s /\ c_pl s' = c_pl s /\
                messages s' = ms /\ head_t s' = head_t s /\ started s' = started s /\ rbuf s' = rbuf s /\ sock s' = sock s /\
                hs s' = hs s /\ read_disc s' = read_disc s /\ dstate s' = SService q /\ c_conn s' = ctx_conn c q /\
                linger s' = linger s /\ shutdown s' = shutdown s /\ trace s' = trace s ++ [TStart q]).
    { subst s'. unfold start_service, set_ctx, add_trace. rewrite fx1. cbn. repeat split; reflexivity. }
    destruct F as (f1 & f2 & f3 & f4 & f5 & f6 & f7 & f8 & f9 & f10 & f11 & f12 & f13 & f14 & f15 & T).
    assert (EP : P s' fut = P s fut) by (unfold P; rewrite f8, f9; reflexivity).
    assert (EQ : quiet_stream s' fut = quiet_stream s fut) by (unfold quiet_stream; rewrite f4, EP; reflexivity).
    assert (YS : ys s' = ys s) by (unfold ys, inflight; rewrite f12, f5, D, M0; reflexivity).
    assert (EL : last_free s' fut = last_free s fut) by (unfold last_free; rewrite f5, f4, EP, M0; reflexivity).
    constructor.
    - rewrite f1, f2. exact a.
    - destruct b as [b1 b2]. split; rewrite ?f3, ?f4, ?f11; auto.
    - rewrite f5, f11. destruct cM as [c1 c2]. rewrite M0 in c1, c2. cbn in c1, c2. auto.
    - rewrite f6, HT. discriminate.
    - rewrite f7, STT. discriminate.
    - intros y Dy. rewrite f12 in Dy. injection Dy as E. rewrite <- E. exact f13.
    - rewrite f10. exact g.
    - rewrite f4, YS. exact h.
    - rewrite f14, f11, EQ. exact i.
    - rewrite f11, f4, EP. exact j.
    - rewrite EL, YS. exact k.
    - rewrite T, quiet_snoc, l. unfold closed in NC. rewrite NC. reflexivity.
    - unfold closed. rewrite T, closed_snoc. unfold closed in NC. rewrite NC. cbn. discriminate.
  Qed.

  (* ---- the decode loop ---- *)
  (* loop invariant: the read side is open, nothing is queued behind an idle dispatcher, and if a
     closing response has been encoded the unread input holds no further head *)
  Definition LI (s : st) (fut : list item) : Prop :=
    Inv s fut /\ read_disc s = false /\ (dstate s = SNone -> messages s = []) /\ (closed s = true -> quiet_stream s fut = true) /\ started s = true.

  Lemma LI_open s fut it r : LI s fut -> c_pl s = false -> P s fut = it :: r -> closed s = false /\ linger s = false.
  Proof.
    intros (I0 & RD & _ & Q & _) CP EP.
    assert (QF : quiet_stream s fut = false) by (unfold quiet_stream; rewrite CP, EP; reflexivity).
    split.
    - destruct (closed s); [rewrite Q in QF by reflexivity; discriminate|reflexivity].
    - destruct (linger s) eqn:L; [|reflexivity]. destruct (i_LG _ _ I0 L) as [X|X]; congruence.
  Qed.

  Lemma no_merr_open s fut : Inv s fut -> read_disc s = false -> has_merr (messages s) = false.
  Proof. intros I0 RD. destruct (has_merr (messages s)) eqn:E; [|reflexivity]. destruct (i_M _ _ I0) as [_ X]. rewrite (X E) in RD. discriminate. Qed.

  Lemma started_busy s fut : Inv s fut -> (dstate s <> SNone \/ messages s <> []) -> started s = true.
  Proof. intros I0 B. destruct (started s) eqn:A; [reflexivity|]. destruct (i_ST _ _ I0 A) as (e1 & e2 & _). destruct B; contradiction. Qed.

  (* the bookkeeping of `Message::Item(req)` before the request is dispatched or queued *)
  Definition booked (x : req) (rest : list item) (s : st) : st :=
    let s := set_rbuf rest s in
    let s := if fx_ctx (fx c) && negb (is_none (dstate s)) then s else set_ctx c x s in
    let s := set_c_pl (has_body x) s in
    let s := set_head_t TInactive s in
    let s := add_trace (TDecode x) s in
    if has_body x
    then set_drainable (is_chunked x) (set_payload (Some (rq_id x)) (set_chans ((rq_id x, mkChan 0 false false false) :: chans s) s))
    else set_drainable false s.

  Lemma booked_fields x rest s : let y := booked x rest s in
    sig_armed y = sig_armed s /\ draining y = draining s /\ c_pl y = has_body x /\ messages y = messages s /\
    head_t y = TInactive /\ started y = started s /\ rbuf y = rest /\ sock y = sock s /\ hs y = hs s /\
    read_disc y = read_disc s /\ dstate y = dstate s /\ linger y = linger s /\ shutdown y = shutdown s /\
    trace y = trace s ++ [TDecode x] /\ res y = res s /\
    payload y = (if has_body x then Some (rq_id x) else payload s) /\
    (dstate s = SNone -> c_conn y = ctx_conn c x) /\ (dstate s <> SNone -> c_conn y = c_conn s).
  Proof.
    unfold booked, set_ctx, add_trace. rewrite fx1. cbn [andb]. cbv zeta.
    change (dstate (set_rbuf rest s)) with (dstate s).
    destruct (has_body x) eqn:HB; destruct (dstate s) eqn:D; cbn [is_none negb]; repeat split; auto; try congruence; try discriminate.
  Qed.


  Lemma rev_snoc_head (l : list req) x : rev (l ++ [x]) = x :: rev l.
  Proof. rewrite rev_app_distr. reflexivity. Qed.

  (* a request head is decoded: dispatched at once on an idle dispatcher, queued otherwise *)
  Definition entered (x : req) (rest : list item) (s : st) : st :=
    let y := booked x rest s in
    if is_none (dstate s) then start_service c false x y else set_messages (messages y ++ [MItem x]) y.

  Lemma entered_Inv s fut x rest : LI s fut -> rbuf s = IReq x :: rest -> c_pl s = false ->
    let z := entered x rest s in
    Inv z fut /\ read_disc z = false /\ closed z = false /\ dstate z <> SNone /\
    (dstate s = SNone -> dstate z = SService x /\ messages z = []) /\ res z = res s /\ started z = true.
  Proof.
    intros L0 RB CP z. pose proof L0 as (I0 & RD & MN & Q & STs).
    assert (EP : P s fut = IReq x :: (rest ++ sock s ++ fut)) by (unfold P; rewrite RB; reflexivity).
    destruct (LI_open s fut _ _ L0 CP EP) as [NC NL].
    pose proof (no_merr_open s fut I0 RD) as NM.
    destruct (booked_fields x rest s) as (f1 & f2 & f3 & f4 & f5 & f6 & f7 & f8 & f9 & f10 & f11 & f12 & f13 & f14 & f15 & f16 & f17 & f18).
    set (y := booked x rest s) in *.
    assert (Z : sig_armed z = sig_armed s /\ draining z = draining s /\ c_pl z = has_body x /\ head_t z = TInactive /\
                started z = started s /\ rbuf z = rest /\ sock z = sock s /\ hs z = hs s /\ read_disc z = read_disc s /\
                linger z = linger s /\ res z = res s /\ payload z = payload y /\
                trace z = (trace s ++ [TDecode x]) ++ (if is_none (dstate s) then [TStart x] else []) /\
                ys z = ys s ++ [x] /\ has_merr (messages z) = false /\ merr_last (messages z) = true /\
                dstate z <> SNone /\ (dstate s = SNone -> dstate z = SService x /\ messages z = [] /\ c_conn z = ctx_conn c x) /\
                (dstate s <> SNone -> dstate z = dstate s /\ c_conn z = c_conn s)).
    { subst z. unfold entered. fold y. destruct (dstate s) eqn:D; cbn [is_none].
      - specialize (MN eq_refl). unfold start_service, add_trace. rewrite fx1. cbn [andb].
        assert (My : messages y = []) by (rewrite f4; exact MN).
        assert (Cy : c_conn y = ctx_conn c x) by (apply f17; reflexivity).
        repeat split; try discriminate; try assumption; try (intros; congruence).
        + change (trace y ++ [TStart x] = (trace s ++ [TDecode x]) ++ [TStart x]). rewrite f14. reflexivity.
        + unfold ys, inflight. cbn. rewrite My. unfold ys, inflight. rewrite D, MN. reflexivity.
        + cbn. rewrite My. reflexivity.
        + cbn. rewrite My. reflexivity.
      - assert (ND : SService r <> SNone) by discriminate. destruct (f18 ND) as [].
        repeat split; try discriminate; try assumption; try (intros; congruence).
        all: try (rewrite app_nil_r; exact f14).
        all: try (change (has_merr (messages y ++ [MItem x]) = false); rewrite f4, has_merr_app, NM; reflexivity).
        all: try (change (merr_last (messages y ++ [MItem x]) = true); rewrite f4; apply merr_last_snoc_item; exact NM).
        all: try (change (dstate y <> SNone); rewrite f11; discriminate).
        all: try (intros _; split; [exact f11|]; change (c_conn y = c_conn s); apply f18; discriminate).
        all: try (change (c_conn y = c_conn s); apply f18; discriminate).
        all: unfold ys, inflight;
          change (dstate (set_messages (messages y ++ [MItem x]) y)) with (dstate y);
          change (messages (set_messages (messages y ++ [MItem x]) y)) with (messages y ++ [MItem x]);
          rewrite f11, f4, ?D, mreqs_app, app_assoc; reflexivity.
      - assert (ND : SSendPayload who <> SNone) by discriminate.
        repeat split; try discriminate; try assumption; try (intros; congruence).
        all: try (rewrite app_nil_r; exact f14).
        all: try (change (has_merr (messages y ++ [MItem x]) = false); rewrite f4, has_merr_app, NM; reflexivity).
        all: try (change (merr_last (messages y ++ [MItem x]) = true); rewrite f4; apply merr_last_snoc_item; exact NM).
        all: try (change (dstate y <> SNone); rewrite f11; discriminate).
        all: try (intros _; split; [exact f11|]; change (c_conn y = c_conn s); apply f18; discriminate).
        all: try (change (c_conn y = c_conn s); apply f18; discriminate).
        all: unfold ys, inflight;
          change (dstate (set_messages (messages y ++ [MItem x]) y)) with (dstate y);
          change (messages (set_messages (messages y ++ [MItem x]) y)) with (messages y ++ [MItem x]);
          rewrite f11, f4, ?D, mreqs_app, app_assoc; reflexivity. }
    destruct Z as (z1 & z2 & z3 & z4 & z5 & z6 & z7 & z8 & z9 & z10 & z11 & z12 & zT & zY & zM & zL & zD & zN & zB).
    assert (EPz : P z fut = rest ++ sock s ++ fut) by (unfold P; rewrite z6, z7; reflexivity).
    destruct I0 as [a b cM d e f g h i j k l m].
    assert (CALM : (if has_body x then body_tail (rest ++ sock s ++ fut)
                    else is_nil (rest ++ sock s ++ fut) || (good x && calm (rest ++ sock s ++ fut))) = true).
    { destruct j as [j|j]; [congruence|]. rewrite CP, EP in j. cbn [calm] in j. exact j. }
    assert (ALLGOOD : forallb good (ys s) = true).
    { unfold last_free in k. rewrite NM, CP, EP in k. cbn in k. exact k. }
    assert (NCz : closed z = false).
    { unfold closed. rewrite zT, !existsb_app. unfold closed in NC. rewrite NC. cbn. destruct (is_none (dstate s)); reflexivity. }
    assert (STz : started z = true).
    { rewrite z5. exact STs. }
    assert (PLs : payload s = None).
    { destruct (payload s) eqn:Pl; [|reflexivity]. destruct b as [b1 _]. rewrite b1 in CP by congruence. discriminate. }
    split; [|split; [rewrite z9; exact RD|split; [exact NCz|split; [exact zD|split; [|split; [exact z11|exact STz]]]]]].
    2:{ intro D. destruct (zN D) as (A1 & A2 & _). auto. }
    constructor.
    - rewrite z1, z2. exact a.
    - split; rewrite z3, z12, f16; destruct (has_body x) eqn:HB; intros; try congruence; try discriminate.
    - split; [exact zL|]. rewrite zM. discriminate.
    - rewrite z4. discriminate.
    - rewrite STz. discriminate.
    - intros w Dw. destruct (dstate s) eqn:D.
      + destruct (zN eq_refl) as (A1 & _ & A3). rewrite A1 in Dw. injection Dw as E. rewrite <- E. exact A3.
      + assert (ND : SService r <> SNone) by discriminate. destruct (zB ND) as [B1 B2]. rewrite B1 in Dw. rewrite B2. apply f. exact Dw.
      + assert (ND : SSendPayload who <> SNone) by discriminate. destruct (zB ND) as [B1 B2]. rewrite B1 in Dw. discriminate.
    - rewrite z8. exact g.
    - rewrite z3, zY, rev_snoc_head. auto.
    - rewrite z10, NL. discriminate.
    - right. rewrite z3, EPz. destruct (has_body x); [exact CALM|].
      apply orb_true_iff in CALM as [CN|CG].
      + destruct (rest ++ sock s ++ fut); [reflexivity|discriminate].
      + apply andb_true_iff in CG as [_ CG]. exact CG.
    - unfold last_free. rewrite zM, z3, EPz, zY. cbn [negb andb].
      destruct (has_body x) eqn:HB; cbn [orb].
      + rewrite removelast_last. exact ALLGOOD.
      + destruct (is_nil (rest ++ sock s ++ fut)) eqn:NLp.
        * rewrite removelast_last. exact ALLGOOD.
        * cbn in CALM. apply andb_true_iff in CALM as [GX _]. rewrite forallb_app, ALLGOOD. cbn. rewrite GX. reflexivity.
    - rewrite zT. destruct (is_none (dstate s)).
      + rewrite !quiet_snoc, l. unfold closed in NC. rewrite closed_snoc, NC. reflexivity.
      + rewrite app_nil_r, quiet_snoc, l. unfold closed in NC. rewrite NC. reflexivity.
    - rewrite NCz. discriminate.
  Qed.

  Lemma decode_loop_req f s upd x rest : rbuf s = IReq x :: rest -> c_pl s = false ->
    decode_loop (S f) c s upd =
    let y := booked x rest s in
    if is_none (dstate y) then
      let s2 := handle_request c x y in
      if fx_close (fx c) && (read_disc s2 || linger s2 || shutdown s2) then (s2, true) else decode_loop f c s2 true
    else decode_loop f c (set_messages (messages y ++ [MItem x]) y) true.
  Proof. intros R Cp. cbn [decode_loop]. rewrite R, Cp. reflexivity. Qed.

  (* the eager poll of handle_request *)
  Lemma handle_request_LI s fut x rest : LI s fut -> rbuf s = IReq x :: rest -> c_pl s = false -> dstate s = SNone ->
    let s2 := handle_request c x (booked x rest s) in
    LI s2 fut /\ res s2 = res s.
  Proof.
    intros L0 RB CP D s2.
    destruct (entered_Inv s fut x rest L0 RB CP) as (Iz & RDz & NCz & Dz & DN & Rz & STz).
    destruct (DN D) as [Dz' Mz].
    assert (EZ : entered x rest s = start_service c false x (booked x rest s)) by (unfold entered; rewrite D; reflexivity).
    set (z := entered x rest s) in *.
    subst s2. unfold handle_request. rewrite <- EZ.
    destruct (poll_handler (rq_id x) z) as [s1 out] eqn:PH.
    destruct (poll_handler_Inv z fut x s1 out Iz PH) as (I1 & D1 & M1 & R1 & Rs1 & L1 & S1 & G1).
    assert (ST1 : started s1 = true) by (rewrite (poll_handler_frame _ _ _ _ PH); exact STz).
    assert (C1 : closed s1 = closed z).
    { unfold closed. rewrite (poll_handler_trace _ _ _ _ PH). reflexivity. }
    destruct out as [[[k b] p]|].
    - assert (D1' : dstate s1 = SService x) by (rewrite D1; exact Dz').
      destruct (respond_own s1 fut x k b p I1 D1' G1) as (I2 & Q2 & f5 & f11 & f12 & f7).
      split; [|rewrite f12, Rs1; exact Rz].
      split; [exact I2|]. split; [rewrite f11, R1; exact RDz|]. split; [|split].
      + intros _. rewrite f5, M1. exact Mz.
      + intro C. destruct (Q2 C) as [X|X]; [|exact X]. rewrite f11, R1, RDz in X. discriminate.
      + rewrite f7. exact ST1.
    - split; [|rewrite Rs1; exact Rz].
      split; [exact I1|]. split; [rewrite R1; exact RDz|]. split; [|split].
      + intro X. rewrite D1, Dz' in X. discriminate.
      + rewrite C1, NCz. discriminate.
      + exact ST1.
  Qed.

  (* frame for changes of the unread input only (bytes move, body items are consumed, LINGER drops) *)
  Lemma Inv_stream s s' fut fut' :
    sig_armed s' = sig_armed s -> draining s' = draining s -> messages s' = messages s -> head_t s' = head_t s ->
    dstate s' = dstate s -> started s' = started s -> trace s' = trace s -> c_conn s' = c_conn s -> hs s' = hs s ->
    read_disc s' = read_disc s -> linger s' = linger s -> shutdown s' = shutdown s ->
    Binv s' -> (c_pl s' = true -> c_pl s = true) -> (payload s = None -> payload s' = None) ->
    (read_disc s' = true \/ (if c_pl s' then body_tail (P s' fut') else calm (P s' fut')) = true) ->
    (has_merr (messages s) = false -> c_pl s || is_nil (P s fut) = true -> c_pl s' || is_nil (P s' fut') = true) ->
    (quiet_stream s fut = true -> quiet_stream s' fut' = true) ->
    Inv s fut -> Inv s' fut'.
  Proof.
    intros e1 e2 e5 e6 e7 e8 e9 e10 e11 e12 e13 e14 B' LB' PN W' LF QS [a b cM d e f g h i j k l m].
    assert (EY : ys s' = ys s) by (unfold ys, inflight; rewrite e7, e5; reflexivity).
    assert (EC : closed s' = closed s) by (unfold closed; rewrite e9; reflexivity).
    constructor.
    - rewrite e1, e2. exact a.
    - exact B'.
    - rewrite e5, e12. exact cM.
    - rewrite e6, e7, e5, e8, EC, e12. intro T. destruct (d T) as (d1 & d2 & d3 & d5 & d4); repeat split; auto.
    - rewrite e8, e7, e5, EC. intro S0. destruct (e S0) as (x1 & x2 & x3 & x4). auto.
    - intros x. rewrite e7, e10. apply f.
    - rewrite e11. exact g.
    - rewrite EY. intro CP. apply h. apply LB'. exact CP.
    - rewrite e13, e12. intro L. destruct (i L) as [r|q]; [left; exact r|right; apply QS; exact q].
    - exact W'.
    - rewrite EY. unfold last_free in *. rewrite e5.
      destruct (has_merr (messages s)) eqn:HM; cbn [negb andb] in *; [exact k|].
      destruct (c_pl s || is_nil (P s fut)) eqn:X.
      + rewrite (LF eq_refl eq_refl). exact k.
      + destruct (c_pl s' || is_nil (P s' fut')); [apply forallb_removelast; exact k|exact k].
    - rewrite e9. exact l.
    - rewrite EC. intro C. destruct (m C) as (m1 & m2 & m3 & m4 & m5). unfold Terminal, inflight.
      rewrite e5, e7, e6, e8, e12, e13, e14. repeat split; auto.
      destruct m5 as [m5|[m5|m5]]; [left; exact m5|right; left; apply QS; exact m5|right; right; exact m5].
  Qed.

  Lemma parse_error_fields s : let s' := parse_error s in
    sig_armed s' = sig_armed s /\ draining s' = draining s /\ payload s' = None /\ c_pl s' = c_pl s /\
    messages s' = messages s ++ [MError 400] /\ head_t s' = head_t s /\ dstate s' = dstate s /\ started s' = started s /\
    trace s' = trace s /\ c_conn s' = c_conn s /\ hs s' = hs s /\ rbuf s' = rbuf s /\ sock s' = sock s /\
    read_disc s' = true /\ linger s' = linger s /\ shutdown s' = shutdown s /\ res s' = res s.
  Proof. unfold parse_error, take_payload_err, upd_chan. destruct (payload s) eqn:Pl; cbn; rewrite ?Pl; repeat split; reflexivity. Qed.

  Lemma parse_error_Inv s fut it rest X : LI s fut -> c_pl s = false -> rbuf s = it :: rest ->
    (X = set_rbuf rest s \/ X = set_reparsed true (set_rbuf rest s)) ->
    Inv (parse_error X) fut /\ res (parse_error X) = res s /\ dstate (parse_error X) = dstate s /\
    messages (parse_error X) = messages s ++ [MError 400].
  Proof.
    intros L0 CP RB HX. pose proof L0 as (I0 & RD & MN & Q & STs).
    assert (EP : P s fut = it :: (rest ++ sock s ++ fut)) by (unfold P; rewrite RB; reflexivity).
    destruct (LI_open s fut _ _ L0 CP EP) as [NC NL].
    pose proof (no_merr_open s fut I0 RD) as NM.
    assert (EX : sig_armed X = sig_armed s /\ draining X = draining s /\ c_pl X = c_pl s /\ messages X = messages s /\
                 head_t X = head_t s /\ dstate X = dstate s /\ started X = started s /\ trace X = trace s /\
                 c_conn X = c_conn s /\ hs X = hs s /\ linger X = linger s /\ res X = res s).
    { destruct HX; subst X; repeat split; reflexivity. }
    destruct EX as (x1 & x2 & x4 & x5 & x6 & x7 & x8 & x9 & x10 & x11 & x15 & x17).
    destruct (parse_error_fields X) as (f1 & f2 & f3 & f4 & f5 & f6 & f7 & f8 & f9 & f10 & f11 & f12 & f13 & f14 & f15 & f16 & f17).
    set (s' := parse_error X) in *.
    rewrite x1 in f1. rewrite x2 in f2. rewrite x4 in f4. rewrite x5 in f5. rewrite x6 in f6. rewrite x7 in f7.
    rewrite x8 in f8. rewrite x9 in f9. rewrite x10 in f10. rewrite x11 in f11. rewrite x15 in f15. rewrite x17 in f17.
    split; [|split; [exact f17|split; [exact f7|exact f5]]].
    destruct I0 as [a b cM d e f g h i j k l m].
    assert (YS : ys s' = ys s) by (unfold ys, inflight; rewrite f7, f5, mreqs_app; cbn; rewrite app_nil_r; reflexivity).
    assert (ALLGOOD : forallb good (ys s) = true).
    { unfold last_free in k. rewrite NM, CP, EP in k. cbn in k. exact k. }
    assert (NC' : closed s' = false) by (unfold closed; rewrite f9; exact NC).
    constructor.
    - rewrite f1, f2. exact a.
    - split; rewrite f3, f4, CP; intros; congruence.
    - rewrite f5, f14. split; [apply merr_last_snoc_err; exact NM|reflexivity].
    - rewrite f6, f7, f5, f8, f3, f14. intro T. destruct (d T) as (d1 & d2 & d3 & _). repeat split; auto.
      rewrite mreqs_app, d2. reflexivity.
    - rewrite f8, STs. discriminate.
    - intros x. rewrite f7, f10. apply f.
    - rewrite f11. exact g.
    - rewrite f4, CP. discriminate.
    - intros _. left. exact f14.
    - left. exact f14.
    - unfold last_free. rewrite f5, has_merr_app. cbn. rewrite orb_true_r. cbn. rewrite YS. exact ALLGOOD.
    - rewrite f9. exact l.
    - rewrite NC'. discriminate.
  Qed.

  Lemma LI_payload s fut : LI s fut -> c_pl s = true -> exists p, payload s = Some p.
  Proof.
    intros (I0 & RD & _) CP. destruct (payload s) eqn:Pl; [eexists; reflexivity|].
    destruct (i_B _ _ I0) as [_ b2]. rewrite (b2 Pl CP) in RD. discriminate.
  Qed.

  Lemma LI_wcond s fut : LI s fut -> (if c_pl s then body_tail (P s fut) else calm (P s fut)) = true.
  Proof. intros (I0 & RD & _). destruct (i_W _ _ I0) as [X|X]; [congruence|exact X]. Qed.

  Lemma decode_loop_Inv fut : forall fuel s upd, LI s fut ->
    let s' := fst (decode_loop fuel c s upd) in
    Inv s' fut /\ res s' = res s /\ (dstate s' = SNone -> mreqs (messages s') = []).
  Proof.
    induction fuel as [|fu IH]; intros s upd L0.
    { destruct L0 as (I0 & _ & MN & _ & _). cbn. split; [exact I0|split; [reflexivity|intro D; rewrite (MN D); reflexivity]]. }
    assert (BASE : Inv s fut /\ res s = res s /\ (dstate s = SNone -> mreqs (messages s) = [])).
    { destruct L0 as (I0 & _ & MN & _ & _). split; [exact I0|split; [reflexivity|intro D; rewrite (MN D); reflexivity]]. }
    destruct (rbuf s) as [|it rest] eqn:RB; [cbn [decode_loop]; rewrite RB; exact BASE|].
    pose proof (LI_wcond s fut L0) as WC.
    assert (EP : P s fut = it :: (rest ++ sock s ++ fut)) by (unfold P; rewrite RB; reflexivity).
    pose proof L0 as (I0 & RD & MN & Q & STs).
    destruct (c_pl s) eqn:CP.
    - (* inside a request body *)
      destruct (LI_payload s fut L0 CP) as [p Pl]. rewrite EP in WC.
      destruct it; try (cbn [decode_loop]; rewrite RB, CP; exact BASE).
      + (* data *)
        cbn [decode_loop]. rewrite RB, CP. change (payload (set_rbuf rest s)) with (payload s). rewrite Pl.
        set (s1 := upd_chan p feed_data (set_rbuf rest s)).
        assert (EP1 : P s1 fut = rest ++ sock s ++ fut) by reflexivity.
        assert (I1 : Inv s1 fut).
        { pose proof (i_B _ _ I0) as B0. revert I0. apply Inv_stream; try reflexivity.
          - revert B0. apply Binv_frame; try reflexivity; auto.
          - intros _. exact CP.
          - intro X. congruence.
          - right. change (c_pl s1) with (c_pl s). rewrite CP, EP1. exact WC.
          - intros _ _. change (c_pl s1) with (c_pl s). rewrite CP. reflexivity.
          - unfold quiet_stream. change (c_pl s1) with (c_pl s). rewrite CP, EP, EP1. cbn. auto. }
        assert (L1 : LI s1 fut).
        { split; [exact I1|]. split; [exact RD|]. split; [exact MN|]. split; [|exact STs].
          intro C. unfold quiet_stream. change (c_pl s1) with (c_pl s). rewrite CP, EP1. exact WC. }
        destruct (IH s1 true L1) as (A & B & C). split; [exact A|split; [exact B|exact C]].
      + (* exact end of the body *)
        cbn [decode_loop]. rewrite RB, CP.
        change (payload (set_c_pl false (set_rbuf rest s))) with (payload s). rewrite Pl.
        set (s1 := set_drainable false (set_payload None (upd_chan p feed_eof (set_c_pl false (set_rbuf rest s))))).
        cbn [body_tail] in WC.
        assert (X0 : rest ++ sock s ++ fut = []) by (destruct (rest ++ sock s ++ fut); [reflexivity|discriminate]).
        assert (EP1 : P s1 fut = []) by (change (P s1 fut) with (rest ++ sock s ++ fut); exact X0).
        assert (I1 : Inv s1 fut).
        { revert I0. apply Inv_stream; try reflexivity.
          - split; cbn; intros; congruence.
          - cbn. discriminate.
          - right. change (c_pl s1) with false. cbn iota. rewrite EP1. reflexivity.
          - intros _ _. rewrite EP1. apply orb_true_r.
          - intros _. unfold quiet_stream. change (c_pl s1) with false. cbn iota. rewrite EP1. reflexivity. }
        assert (L1 : LI s1 fut).
        { split; [exact I1|]. split; [exact RD|]. split; [exact MN|]. split; [|exact STs].
          intros _. unfold quiet_stream. change (c_pl s1) with false. cbn iota. rewrite EP1. reflexivity. }
        destruct (IH s1 true L1) as (A & B & C). split; [exact A|split; [exact B|exact C]].
    - (* at a message boundary *)
      destruct it.
      + (* a request head *)
        rewrite (decode_loop_req fu s upd r rest RB CP). cbv zeta.
        destruct (booked_fields r rest s) as (_ & _ & _ & _ & _ & _ & _ & _ & _ & _ & f11 & _).
        rewrite f11. destruct (dstate s) eqn:D; cbn [is_none].
        * destruct (handle_request_LI s fut r rest L0 RB CP D) as [L2 R2].
          rewrite fx2. cbn [andb]. destruct (IH _ true L2) as (A & B & C).
          split; [exact A|split; [rewrite B; exact R2|exact C]].
        * destruct (entered_Inv s fut r rest L0 RB CP) as (Iz & RDz & NCz & Dz & _ & Rz & STz).
          unfold entered in *. rewrite D in *. cbn [is_none] in *.
          assert (L2 : LI (set_messages (messages (booked r rest s) ++ [MItem r]) (booked r rest s)) fut).
          { split; [exact Iz|]. split; [exact RDz|]. split; [intro X; contradiction|]. split; [rewrite NCz; discriminate|exact STz]. }
          destruct (IH _ true L2) as (A & B & C). split; [exact A|split; [rewrite B; exact Rz|exact C]].
        * destruct (entered_Inv s fut r rest L0 RB CP) as (Iz & RDz & NCz & Dz & _ & Rz & STz).
          unfold entered in *. rewrite D in *. cbn [is_none] in *.
          assert (L2 : LI (set_messages (messages (booked r rest s) ++ [MItem r]) (booked r rest s)) fut).
          { split; [exact Iz|]. split; [exact RDz|]. split; [intro X; contradiction|]. split; [rewrite NCz; discriminate|exact STz]. }
          destruct (IH _ true L2) as (A & B & C). split; [exact A|split; [rewrite B; exact Rz|exact C]].
      + (* partial head *)
        cbn [decode_loop]. rewrite RB, CP. destruct rest as [|it2 r2] eqn:RE; [exact BASE|]. rewrite <- RE in *.
        destruct (LI_open s fut _ _ L0 CP EP) as [NC NL].
        set (s1 := set_rbuf rest s).
        assert (EP1 : P s1 fut = rest ++ sock s ++ fut) by reflexivity.
        rewrite EP in WC. cbn [calm] in WC.
        assert (I1 : Inv s1 fut).
        { pose proof (i_B _ _ I0) as B0. revert I0. apply Inv_stream; try reflexivity.
          - exact B0.
          - auto.
          - auto.
          - right. change (c_pl s1) with (c_pl s). rewrite CP, EP1. exact WC.
          - intros _ X. rewrite CP, EP in X. discriminate.
          - unfold quiet_stream. rewrite CP, EP. discriminate. }
        assert (L1 : LI s1 fut).
        { split; [exact I1|]. split; [exact RD|]. split; [exact MN|]. split; [change (closed s1) with (closed s); rewrite NC; discriminate|exact STs]. }
        destruct (IH s1 upd L1) as (A & B & C). split; [exact A|split; [exact B|exact C]].
      + cbn [decode_loop]. rewrite RB, CP. cbn [fst].
        destruct (parse_error_Inv s fut _ rest _ L0 CP RB (or_intror eq_refl)) as (I1 & R1 & D1 & M1).
        split; [exact I1|split; [exact R1|]]. intro D. rewrite M1, mreqs_app. rewrite D1 in D. rewrite (MN D). reflexivity.
      + cbn [decode_loop]. rewrite RB, CP. cbn [fst].
        destruct (parse_error_Inv s fut _ rest _ L0 CP RB (or_intror eq_refl)) as (I1 & R1 & D1 & M1).
        split; [exact I1|split; [exact R1|]]. intro D. rewrite M1, mreqs_app. rewrite D1 in D. rewrite (MN D). reflexivity.
      + cbn [decode_loop]. rewrite RB, CP. cbn [fst].
        destruct (parse_error_Inv s fut _ rest _ L0 CP RB (or_introl eq_refl)) as (I1 & R1 & D1 & M1).
        split; [exact I1|split; [exact R1|]]. intro D. rewrite M1, mreqs_app. rewrite D1 in D. rewrite (MN D). reflexivity.
  Qed.


  (* a history event that is neither a head nor a service call nor closing *)
  Lemma Inv_silent s fut e : active_ev e = false -> closing_ev e = false -> Inv s fut -> Inv (add_trace e s) fut.
  Proof.
    intros A Cl [a b cM d e0 f g h i j k l m].
    assert (EC : closed (add_trace e s) = closed s) by (unfold closed, add_trace; cbn; rewrite closed_snoc, Cl; apply orb_false_r).
    constructor; try assumption.
    - rewrite EC. exact d.
    - rewrite EC. exact e0.
    - unfold add_trace. cbn. rewrite quiet_snoc, l, A. cbn. apply orb_true_r.
    - rewrite EC. exact m.
  Qed.

  Lemma body_tail_suffix a b : body_tail (a ++ b) = true -> body_tail b = true.
  Proof.
    induction a as [|x a IH]; cbn; [auto|]. destruct x; try discriminate; [exact IH|].
    intro H. destruct (a ++ b) eqn:E; [|discriminate]. apply app_eq_nil in E as [_ ->]. reflexivity.
  Qed.

  (* end of a streamed response body *)
  Lemma body_end_Inv s fut who : Inv s fut -> dstate s = SSendPayload who -> Inv (body_end c s) fut.
  Proof.
    intros I0 D.
    assert (STT : started s = true) by (apply (started_busy s fut I0); left; rewrite D; discriminate).
    destruct I0 as [a b cM d e f g h i j k l m].
    assert (HT : t_active (head_t s) = false).
    { destruct (t_active (head_t s)) eqn:A; [|reflexivity]. destruct (d eq_refl) as (d1 & _). congruence. }
    set (s' := body_end c s).
    assert (F : sig_armed s' = sig_armed s /\ draining s' = draining s /\ payload s' = payload s /\ c_pl s' = c_pl s /\
                messages s' = messages s /\ head_t s' = head_t s /\ started s' = started s /\ rbuf s' = rbuf s /\ sock s' = sock s /\
                hs s' = hs s /\ read_disc s' = read_disc s /\ dstate s' = SNone /\ trace s' = trace s ++ [TComplete] /\
                (linger s' = true -> linger s = true \/ close_unread s = true) /\
                ((linger s || shutdown s) = true -> (linger s' || shutdown s') = true)).
    { subst s'. unfold body_end, complete_flags, finish_hook, add_trace. rewrite fx2. cbn [andb].
      repeat bm; cbn; repeat split; auto; intros; rewrite ?orb_true_r; auto.
      all: try (right; match goal with H : _ && close_unread _ = true |- _ => apply andb_true_iff in H as [_ H]; exact H end). }
    destruct F as (f1 & f2 & f3 & f4 & f5 & f6 & f7 & f8 & f9 & f10 & f11 & f12 & T & f14 & f15).
    assert (EP : P s' fut = P s fut) by (unfold P; rewrite f8, f9; reflexivity).
    assert (EQ : quiet_stream s' fut = quiet_stream s fut) by (unfold quiet_stream; rewrite f4, EP; reflexivity).
    assert (YS : ys s' = ys s) by (unfold ys, inflight; rewrite f12, f5, D; reflexivity).
    assert (EL : last_free s' fut = last_free s fut) by (unfold last_free; rewrite f5, f4, EP; reflexivity).
    assert (EC : closed s' = closed s) by (unfold closed; rewrite T, closed_snoc; apply orb_false_r).
    constructor.
    - rewrite f1, f2. exact a.
    - destruct b as [b1 b2]. split; rewrite ?f3, ?f4, ?f11; auto.
    - rewrite f5, f11. exact cM.
    - rewrite f6, HT. discriminate.
    - rewrite f7, STT. discriminate.
    - intros y Dy. rewrite f12 in Dy. discriminate.
    - rewrite f10. exact g.
    - rewrite f4, YS. exact h.
    - rewrite EQ, f11. intro L. destruct (f14 L) as [L1|L1]; [exact (i L1)|].
      unfold close_unread in L1. destruct (payload s) eqn:Pl; [|discriminate].
      destruct b as [b1 _]. assert (CP : c_pl s = true) by (apply b1; congruence).
      destruct j as [j|j]; [left; exact j|right]. unfold quiet_stream. rewrite CP in *. exact j.
    - rewrite f11, f4, EP. exact j.
    - rewrite EL, YS. exact k.
    - rewrite T, quiet_snoc, l. cbn. apply orb_true_r.
    - rewrite EC. intro C. destruct (m C) as (m1 & m2 & m3 & m4 & m5). unfold Terminal, inflight.
      rewrite f5, f12, f6, f7, f11, EQ. repeat split; auto.
      destruct m5 as [m5|[m5|m5]]; auto.
  Qed.

  (* poll_request: the gates, then the decode loop *)
  Lemma poll_request_Inv s fut : Inv s fut -> started s = true ->
    (dstate s = SNone -> mreqs (messages s) = []) ->
    (closed s = true -> read_disc s = true \/ quiet_stream s fut = true) ->
    let s' := fst (poll_request c s) in
    Inv s' fut /\ res s' = res s /\ (dstate s' = SNone -> mreqs (messages s') = []).
  Proof.
    intros I0 STT P9 LQ. unfold poll_request.
    destruct (i_sig _ _ I0) as [_ DR]. rewrite DR. cbn [andb].
    destruct ((MAXP <=? lenN (messages s)) || read_disc s) eqn:G; [cbn; auto|].
    apply orb_false_iff in G as [_ RD].
    apply decode_loop_Inv. split; [exact I0|]. split; [exact RD|]. split; [|split; [|exact STT]].
    - intro D. apply no_msgs; [apply P9; exact D|apply (no_merr_open s fut I0 RD)].
    - intro C. destruct (LQ C) as [X|X]; [congruence|exact X].
  Qed.

  Ltac mono := try reflexivity; auto; try (let LL := fresh "LL" in intro LL; rewrite <- orb_assoc; apply orb_true_iff; right; exact LL).

  Definition P9 (s : st) : Prop := res s = 0 -> dstate s = SNone -> mreqs (messages s) = [].

  Lemma poll_response_Inv fut : forall fuel s, Inv s fut ->
    Inv (poll_response fuel c s) fut /\ P9 (poll_response fuel c s).
  Proof.
    induction fuel as [|fu IH]; intros s I0; cbn [poll_response]; rewrite ?body_if.
    { split; [revert I0; apply Inv_mono; mono|]. unfold P9. intro X. change (9 = 0) in X. discriminate X. }
    destruct (dstate s) eqn:D.
    - destruct (i_sig _ _ I0) as [_ DR]. rewrite DR.
      destruct (messages s) as [|[q|stt] ms] eqn:M0.
      + (* idle decision *)
        cbv zeta. match goal with |- context [set_keep_alive ?k s] => destruct k end.
        * split; [|unfold P9; cbn; rewrite M0; reflexivity].
          apply Inv_silent; [reflexivity|reflexivity|]. revert I0. apply Inv_mono; mono.
        * split; [|unfold P9; cbn; rewrite M0; reflexivity].
          revert I0. apply Inv_mono; mono.
      + apply IH. apply start_pop; assumption.
      + apply IH. apply send_err; assumption.
    - destruct (poll_handler (rq_id r) s) as [s1 out] eqn:PH.
      destruct (poll_handler_Inv s fut r s1 out I0 PH) as (I1 & D1 & M1 & R1 & Rs1 & L1 & S1 & G1).
      assert (D1' : dstate s1 = SService r) by (rewrite D1; exact D).
      destruct out as [[[k b] p]|].
      + apply IH. apply respond_own; assumption.
      + destruct (poll_request c s1) as [s2 upd] eqn:PR.
        assert (ST1 : started s1 = true) by (apply (started_busy s1 fut I1); left; rewrite D1'; discriminate).
        destruct (poll_request_Inv s1 fut I1 ST1) as (I2 & R2 & N2).
        * intro X. congruence.
        * intro C. destruct (i_term _ _ I1 C) as (_ & m2 & _). unfold inflight in m2. rewrite D1' in m2. discriminate.
        * rewrite PR in I2, R2, N2. cbn in I2, R2, N2.
          destruct upd; [apply IH; exact I2|]. split; [exact I2|]. intros _ X. apply N2. exact X.
    - bm.
      + split; [revert I0; apply Inv_mono; mono|]. unfold P9. cbn. rewrite D. discriminate.
      + apply IH.
        match goal with |- Inv (body_end c ?x) fut => assert (Ix : Inv x fut) end.
        { destruct (0 <? bleft s); [|exact I0]. destruct (bskip s); revert I0; apply Inv_mono; mono. }
        eapply body_end_Inv; [exact Ix|]. destruct (0 <? bleft s); [|exact D]. destruct (bskip s); exact D.
  Qed.

  (* ---- the events ---- *)
  Lemma Inv_head_off s fut : Inv s fut -> Inv (set_head_t TInactive s) fut.
  Proof.
    intros [a b cM d e f g h i j k l m]. constructor; try assumption.
    - cbn. discriminate.
    - intro C. destruct (m C) as (m1 & m2 & m3 & m4 & m5). unfold Terminal. repeat split; auto. cbn. discriminate.
  Qed.

  (* the 408 of the head timer *)
  Lemma head408_Inv s fut : Inv s fut -> t_ready (head_t s) (now s) = true -> shutdown s = false -> read_disc s = false ->
    let s' := set_shutdown true (send_response c None 408 ONone 0 0 (set_head_t TInactive s)) in
    Inv s' fut /\ P9 s'.
  Proof.
    intros I0 TR SH RD s'.
    assert (TA : t_active (head_t s) = true) by (unfold t_ready in TR; destruct (head_t s); try discriminate; reflexivity).
    destruct (i_H _ _ I0 TA) as (D & MR & STT & PL & [NC|X]); [|congruence].
    pose proof (no_msgs _ MR (no_merr_open s fut I0 RD)) as M0.
    set (s1 := set_head_t TInactive s).
    pose proof (Inv_head_off s fut I0) as I1. fold s1 in I1.
    destruct (send_response_fields None 408 ONone 0 0 s1) as (f1 & f2 & f3 & f4 & f5 & f6 & f7 & f8 & f9 & f10 & f11 & f12 & f13 & f14 & f15).
    pose proof (send_response_trace c None 408 ONone 0 0 s1) as T. rewrite N.eqb_refl in T, f13.
    set (s2 := send_response c None 408 ONone 0 0 s1) in *.
    destruct I1 as [a b cM d e f g h i j k l m].
    assert (YS : ys s' = []) by (unfold ys, inflight; change (dstate s') with (dstate s2); change (messages s') with (messages s2); rewrite f13, f5; change (messages s1) with (messages s); rewrite M0; reflexivity).
    assert (CUF : cu' s1 = false) by (unfold cu', close_unread; change (payload s1) with (payload s); rewrite PL; reflexivity).
    split.
    - constructor.
      + change (sig_armed s') with (sig_armed s2). change (draining s') with (draining s2). rewrite f1, f2. exact a.
      + destruct b as [b1 b2]. split; change (payload s') with (payload s2); change (c_pl s') with (c_pl s2); change (read_disc s') with (read_disc s2); rewrite ?f3, ?f4, ?f11; auto.
      + change (messages s') with (messages s2). change (read_disc s') with (read_disc s2). rewrite f5, f11. exact cM.
      + change (head_t s') with (head_t s2). rewrite f6. cbn. discriminate.
      + change (started s') with (started s2). rewrite f7. change (started s1) with (started s). rewrite STT. discriminate.
      + intros y Dy. change (dstate s') with (dstate s2) in Dy. rewrite f13 in Dy. discriminate.
      + change (hs s') with (hs s2). rewrite f10. exact g.
      + rewrite YS. intros _. exact I.
      + change (linger s') with (linger s2). intro L. destruct (f14 L) as [L1|L1]; [|congruence].
        change (read_disc s') with (read_disc s2). rewrite f11.
        assert (EQ : quiet_stream s' fut = quiet_stream s1 fut) by (unfold quiet_stream, P; change (c_pl s') with (c_pl s2); change (rbuf s') with (rbuf s2); change (sock s') with (sock s2); rewrite f4, f8, f9; reflexivity).
        rewrite EQ. exact (i L1).
      + change (read_disc s') with (read_disc s2). rewrite f11.
        assert (EP : P s' fut = P s1 fut) by (unfold P; change (rbuf s') with (rbuf s2); change (sock s') with (sock s2); rewrite f8, f9; reflexivity).
        change (c_pl s') with (c_pl s2). rewrite f4, EP. exact j.
      + rewrite YS. destruct (last_free s' fut); reflexivity.
      + change (trace s') with (trace s2). rewrite T. change (trace s1) with (trace s).
        change (trace s ++ [THead None 408 (c_v11 s1) (c_head s1) (resp_conn c ONone s1); TComplete])
          with (trace s ++ [THead None 408 (c_v11 s1) (c_head s1) (resp_conn c ONone s1)] ++ [TComplete]).
        rewrite app_assoc, !quiet_snoc. change (quiet_after_close (trace s1)) with (quiet_after_close (trace s)) in l. rewrite l.
        unfold closed in NC. rewrite NC. cbn [active_ev negb orb andb]. rewrite ?orb_true_r. reflexivity.
      + intros _. unfold Terminal, inflight. change (messages s') with (messages s2). change (dstate s') with (dstate s2).
        change (head_t s') with (head_t s2). change (started s') with (started s2).
        rewrite f5, f13, f6, f7. change (messages s1) with (messages s). change (started s1) with (started s).
        repeat split; auto; try (cbn; discriminate). right. right. cbn. apply orb_true_r.
    - unfold P9. intros _ _. change (messages s') with (messages s2). rewrite f5. change (messages s1) with (messages s). rewrite M0. reflexivity.
  Qed.

  Lemma env_Inv s r fut : Inv s (r_arrive r ++ fut) -> Inv (env_step r s) fut.
  Proof.
    intro I0. pose proof (i_B _ _ I0) as B0. pose proof (i_W _ _ I0) as W0.
    assert (EP : P (env_step r s) fut = P s (r_arrive r ++ fut)).
    { unfold P, env_step. destruct (r_rd r); cbn; rewrite <- !app_assoc; reflexivity. }
    revert I0. apply Inv_stream; try (unfold env_step; destruct (r_rd r); reflexivity).
    - revert B0. apply Binv_frame; unfold env_step; destruct (r_rd r); auto.
    - unfold env_step; destruct (r_rd r); auto.
    - unfold env_step; destruct (r_rd r); auto.
    - revert W0. rewrite EP.
      replace (c_pl (env_step r s)) with (c_pl s) by (unfold env_step; destruct (r_rd r); reflexivity).
      replace (read_disc (env_step r s)) with (read_disc s) by (unfold env_step; destruct (r_rd r); reflexivity). auto.
    - rewrite EP. replace (c_pl (env_step r s)) with (c_pl s) by (unfold env_step; destruct (r_rd r); reflexivity). auto.
    - unfold quiet_stream. rewrite EP. replace (c_pl (env_step r s)) with (c_pl s) by (unfold env_step; destruct (r_rd r); reflexivity). auto.
  Qed.

  (* read_available moves bytes from the socket into read_buf *)
  Lemma read_available_Inv s fut s1 d io : Inv s fut -> read_available s = (s1, d, io) ->
    Inv s1 fut /\ dstate s1 = dstate s /\ messages s1 = messages s /\ res s1 = res s /\ started s1 = started s /\
    linger s1 = linger s /\ shutdown s1 = shutdown s /\ read_disc s1 = read_disc s /\ trace s1 = trace s /\
    quiet_stream s1 fut = quiet_stream s fut /\ keep_alive s1 = keep_alive s.
  Proof.
    intros I0 RA. unfold read_available in RA.
    destruct (read_disc s) eqn:RD; [inv RA; split; [exact I0|repeat split; auto]|].
    assert (G : forall x, (x = s \/ x = set_sock [] (set_rbuf (rbuf s ++ sock s) s) \/ x = unfinish (set_sock [] (set_rbuf (rbuf s ++ sock s) s)) \/
                           x = unfinish s \/ x = unfinish (unfinish (set_sock [] (set_rbuf (rbuf s ++ sock s) s)))) ->
      Inv x fut /\ dstate x = dstate s /\ messages x = messages s /\ res x = res s /\ started x = started s /\
      linger x = linger s /\ shutdown x = shutdown s /\ read_disc x = read_disc s /\ trace x = trace s /\
      quiet_stream x fut = quiet_stream s fut /\ keep_alive x = keep_alive s).
    { intros x HX.
      assert (EP : P x fut = P s fut /\ c_pl x = c_pl s).
      { unfold P, unfinish in *. destruct HX as [->|[->|[->|[->| ->]]]]; repeat bm; cbn; rewrite <- ?app_assoc, ?app_nil_r; auto. }
      destruct EP as [EP CPx].
      assert (FR : sig_armed x = sig_armed s /\ draining x = draining s /\ messages x = messages s /\ head_t x = head_t s /\
                   dstate x = dstate s /\ started x = started s /\ trace x = trace s /\ c_conn x = c_conn s /\ hs x = hs s /\
                   read_disc x = read_disc s /\ linger x = linger s /\ shutdown x = shutdown s /\ payload x = payload s /\
                   res x = res s /\ keep_alive x = keep_alive s).
      { unfold unfinish in *. destruct HX as [->|[->|[->|[->| ->]]]]; repeat bm; repeat split; reflexivity. }
      destruct FR as (x1 & x2 & x3 & x4 & x5 & x6 & x7 & x8 & x9 & x10 & x11 & x12 & x13 & x14 & x15).
      split; [|repeat split; auto; unfold quiet_stream; rewrite CPx, EP; reflexivity].
      pose proof (i_B _ _ I0) as B0. pose proof (i_W _ _ I0) as W0.
      revert I0. apply Inv_stream; auto.
      - revert B0. apply Binv_frame; auto. intro. congruence.
      - intro. congruence.
      - intro. congruence.
      - rewrite x10, CPx, EP. exact W0.
      - rewrite CPx, EP. auto.
      - unfold quiet_stream. rewrite CPx, EP. auto. }
    destruct (negb (is_nil (sock s))); destruct (sock_end s); inv RA;
      match goal with |- Inv ?x fut /\ _ => destruct (G x) as (g1 & g2 & g3 & g4 & g5 & g6 & g7 & g8 & g9 & g10 & g11); [auto 6|] end;
      (split; [exact g1|repeat split; try assumption; congruence]).
  Qed.

  (* first poll: STARTED, head timer armed (or left alone when the request timeout is 0) *)
  Lemma Inv_started s fut T : Inv s fut -> started s = false -> (T = head_t s \/ True) ->
    Inv (set_head_t T (set_started true s)) fut.
  Proof.
    intros I0 S0 _. destruct (i_ST _ _ I0 S0) as (D & M & NC & PL).
    destruct I0 as [a b cM d e f g h i j k l m].
    constructor; try assumption.
    - intros _. cbn. rewrite M. repeat split; auto.
    - cbn. discriminate.
    - change (closed (set_head_t T (set_started true s))) with (closed s). rewrite NC. discriminate.
  Qed.

  (* the peer closed its sending side: READ_DISCONNECT, the payload is terminated *)
  Lemma Inv_disc s fut : Inv s fut -> Inv (take_payload_err true (set_read_disc true s)) fut.
  Proof.
    intro I0.
    assert (I1 : Inv (set_read_disc true s) fut).
    { revert I0. apply Inv_mono; try reflexivity; auto. }
    unfold take_payload_err. destruct (payload (set_read_disc true s)) eqn:PL; [|exact I1].
    revert I1. apply Inv_stream; try reflexivity; auto.
    - split; cbn; intros; congruence.
  Qed.

  Lemma body_tail_is_nil_suffix (a b : list item) : is_nil (a ++ b) = true -> is_nil b = true.
  Proof. destruct a; cbn; [auto|discriminate]. Qed.

  (* LINGER: flush, timer, read and drop *)
  Lemma linger_Inv s fut wb : Inv s fut -> linger s = true ->
    Inv (poll_linger c wb s) fut /\ dstate (poll_linger c wb s) = dstate s /\ messages (poll_linger c wb s) = messages s /\
    (res (poll_linger c wb s) = 0 -> res s = 0).
  Proof.
    intros I0 L. unfold poll_linger.
    destruct (flush wb s) as [s1 ok] eqn:E1.
    assert (A1 : Inv s1 fut /\ dstate s1 = dstate s /\ messages s1 = messages s /\ res s1 = res s /\ linger s1 = true).
    { unfold flush in E1. repeat bmh E1; inv E1; (split; [try exact I0; revert I0; apply Inv_mono; mono|repeat split; auto]). }
    destruct A1 as (I1 & D1 & M1 & R1 & L1). destruct ok; cbn [negb]; [|split; [exact I1|repeat split; auto; congruence]].
    destruct (ensure_linger_timer c s1) as [s2 have] eqn:E2.
    assert (A2 : Inv s2 fut /\ dstate s2 = dstate s /\ messages s2 = messages s /\ res s2 = res s /\ linger s2 = true).
    { unfold ensure_linger_timer in E2. repeat bmh E2; inv E2; (split; [try exact I1; revert I1; apply Inv_mono; mono|repeat split; auto]). }
    destruct A2 as (I2 & D2 & M2 & R2 & L2). destruct have; cbn [negb].
    2:{ split; [|cbn; repeat split; auto; congruence]. revert I2. apply Inv_mono; mono. all: try (cbn; discriminate). all: try (intros _; cbn; rewrite ?orb_true_r; reflexivity). }
    destruct (read_available s2) as [[s3 d] io] eqn:E3.
    destruct (read_available_Inv s2 fut s3 d io I2 E3) as (I3 & D3 & M3 & R3 & ST3 & L3 & SH3 & RD3 & T3 & Q3 & _).
    destruct io.
    { split; [revert I3; apply Inv_mono; mono|cbn; repeat split; try congruence]. all: try (intro X; discriminate X). }
    assert (L3' : linger s3 = true) by congruence.
    (* drop whatever was read *)
    assert (I4 : Inv (if is_nil (rbuf s3) then s3 else add_trace (TDiscard (length (rbuf s3))) (set_rbuf [] s3)) fut).
    { destruct (is_nil (rbuf s3)) eqn:NR; [exact I3|].
      apply Inv_silent; [reflexivity|reflexivity|].
      pose proof (i_B _ _ I3) as B3. pose proof (i_LG _ _ I3 L3') as LG3. pose proof (i_W _ _ I3) as W3.
      revert I3. apply Inv_stream; try reflexivity; auto.
      - destruct LG3 as [X|X]; [left; exact X|right]. change (c_pl (set_rbuf [] s3)) with (c_pl s3).
        unfold quiet_stream, P in *. cbn. destruct (c_pl s3); [eapply body_tail_suffix; exact X|].
        apply body_tail_is_nil_suffix in X. destruct (sock s3 ++ fut); [reflexivity|discriminate].
      - intros _ X. change (c_pl (set_rbuf [] s3)) with (c_pl s3). apply orb_true_iff in X as [X|X]; [rewrite X; reflexivity|].
        unfold P in *. cbn. apply body_tail_is_nil_suffix in X. rewrite X. apply orb_true_r.
      - unfold quiet_stream, P. cbn. change (c_pl (set_rbuf [] s3)) with (c_pl s3). destruct (c_pl s3).
        + apply body_tail_suffix.
        + apply body_tail_is_nil_suffix. }
    set (s4 := if is_nil (rbuf s3) then s3 else add_trace (TDiscard (length (rbuf s3))) (set_rbuf [] s3)) in *.
    assert (F4 : dstate s4 = dstate s /\ messages s4 = messages s /\ res s4 = res s).
    { subst s4. destruct (is_nil (rbuf s3)); cbn; repeat split; congruence. }
    destruct F4 as (D4 & M4 & R4).
    destruct d; [|split; [exact I4|repeat split; auto; congruence]].
    split; [|cbn; repeat split; auto; congruence].
    revert I4. apply Inv_mono; mono. all: try (cbn; discriminate). all: try (intros _; cbn; rewrite ?orb_true_r; reflexivity).
  Qed.

  Lemma read_phase_Inv s fut : Inv s fut -> P9 s -> res s = 0 -> linger s = false -> shutdown s = false ->
    Inv (read_phase c s) fut /\ P9 (read_phase c s).
  Proof.
    intros I0 N9 R0 L0 S0. unfold read_phase.
    destruct (read_available s) as [[s1 d] io] eqn:E1.
    destruct (read_available_Inv s fut s1 d io I0 E1) as (I1 & D1 & M1 & R1 & ST1 & L1 & SH1 & RD1 & T1 & Q1 & _).
    destruct io.
    { split; [revert I1; apply Inv_mono; mono|]. unfold P9. intro X. change (2 = 0) in X. discriminate X. }
    set (s2 := if negb (is_nil (rbuf s1)) && keep_alive s1 then set_ka_tm TInactive (set_keep_alive false s1) else s1).
    assert (I2 : Inv s2 fut) by (subst s2; bm; [revert I1; apply Inv_mono; mono|exact I1]).
    assert (F2 : dstate s2 = dstate s /\ messages s2 = messages s /\ res s2 = res s /\ started s2 = started s /\
                 linger s2 = false /\ shutdown s2 = false /\ read_disc s2 = read_disc s /\ trace s2 = trace s /\
                 quiet_stream s2 fut = quiet_stream s fut).
    { subst s2. bm; cbn; repeat split; try congruence; exact Q1. }
    destruct F2 as (D2 & M2 & R2 & ST2 & L2 & SH2 & RD2 & T2 & Q2).
    set (s3 := if started s2 then s2 else (let s := set_started true s2 in if req_to c =? 0 then s else set_head_t (arm (req_to c) s) s)).
    assert (I3 : Inv s3 fut /\ started s3 = true).
    { subst s3. destruct (started s2) eqn:S2; [split; [exact I2|exact S2]|]. cbv zeta.
      destruct (req_to c =? 0).
      - split; [|reflexivity]. change (set_started true s2) with (set_head_t (head_t s2) (set_started true s2)).
        apply Inv_started; auto.
      - split; [|reflexivity]. apply Inv_started; auto. }
    destruct I3 as [I3 ST3].
    assert (F3 : dstate s3 = dstate s /\ messages s3 = messages s /\ res s3 = res s /\
                 linger s3 = false /\ shutdown s3 = false /\ read_disc s3 = read_disc s /\ closed s3 = closed s /\
                 quiet_stream s3 fut = quiet_stream s fut).
    { subst s3. unfold closed. destruct (started s2); [repeat split; congruence|]. cbv zeta.
      destruct (req_to c =? 0); cbn; repeat split; try congruence; exact Q2. }
    destruct F3 as (D3 & M3 & R3 & L3 & SH3 & RD3 & C3 & Q3).
    destruct (poll_request_Inv s3 fut I3 ST3) as (I4 & R4 & N4).
    { intro X. rewrite M3. apply N9; [exact R0|congruence]. }
    { intro C. destruct (i_term _ _ I3 C) as (_ & _ & _ & _ & [X|[X|X]]); auto. rewrite L3, SH3 in X. discriminate. }
    fold s2. fold s3. set (s4 := fst (poll_request c s3)) in *.
    destruct d.
    - split; [apply Inv_disc; exact I4|]. unfold P9. intros _ X.
      assert (E : dstate (take_payload_err true (set_read_disc true s4)) = dstate s4 /\ messages (take_payload_err true (set_read_disc true s4)) = messages s4).
      { unfold take_payload_err. bm; split; reflexivity. }
      destruct E as [Ed Em]. rewrite Em. apply N4. rewrite <- Ed. exact X.
    - split; [exact I4|]. unfold P9. intros _ X. apply N4. exact X.
  Qed.

  Definition arr (e : ev) : list item := match e with EEnv r => r_arrive r | _ => [] end.

  Lemma step_Inv e s fut : res s = 0 -> Inv s (arr e ++ fut) -> P9 s -> Inv (step c e s) fut /\ P9 (step c e s).
  Proof.
    intros R0 I0 N9. unfold step. rewrite R0. change (negb (0 =? 0)) with false. cbv iota.
    assert (KEEP : forall s', Inv s' fut -> dstate s' = dstate s -> messages s' = messages s -> (res s' = 0 -> True) -> Inv s' fut /\ P9 s').
    { intros s' I' D' M' _. split; [exact I'|]. unfold P9. rewrite D', M'. intros _. apply N9. exact R0. }
    destruct e; cbn [arr app] in I0.
    - apply KEEP; auto; [apply env_Inv; exact I0| |]; unfold env_step; destruct (r_rd r); reflexivity.
    - unfold poll_graceful. destruct (i_sig _ _ I0) as [SA _]. rewrite SA. cbn [andb]. split; assumption.
    - unfold poll_head_timer. rewrite fx3. destruct (t_ready (head_t s) (now s)) eqn:TR; [|split; assumption].
      cbv zeta. change (shutdown (set_head_t TInactive s)) with (shutdown s). change (read_disc (set_head_t TInactive s)) with (read_disc s).
      destruct (shutdown s) eqn:SH; cbn [orb]; [apply KEEP; auto; apply Inv_head_off; exact I0|].
      destruct (read_disc s) eqn:RD; [apply KEEP; auto; apply Inv_head_off; exact I0|].
      apply head408_Inv; assumption.
    - apply KEEP; auto; [|unfold poll_ka_timer; repeat bm; reflexivity|unfold poll_ka_timer; repeat bm; reflexivity].
      revert I0. unfold poll_ka_timer. repeat bm; try (intro; assumption); apply Inv_mono; mono.
      all: try (intros _; cbn; rewrite ?orb_true_r; reflexivity).
    - apply KEEP; auto; [|unfold poll_sd_timer; repeat bm; reflexivity|unfold poll_sd_timer; repeat bm; reflexivity].
      revert I0. unfold poll_sd_timer. repeat bm; try (intro; assumption); apply Inv_mono; mono.
      all: try (cbn; discriminate). all: try (intros _; cbn; rewrite ?orb_true_r; reflexivity).
    - destruct (linger s) eqn:L; [|split; assumption].
      destruct (linger_Inv s fut wblock I0 L) as (I1 & D1 & M1 & R1). apply KEEP; auto.
    - destruct (negb (linger s) && shutdown s); [|split; assumption].
      apply KEEP; auto.
      + revert I0. unfold shutdown_io, ensure_linger_timer, flush. rewrite fx3.
        repeat bm; repeat match goal with E : (_, _) = (_, _) |- _ => inv E end; try (intro; assumption); apply Inv_mono; mono.
      + unfold shutdown_io, ensure_linger_timer, flush. repeat bm; repeat match goal with E : (_, _) = (_, _) |- _ => inv E end; reflexivity.
      + unfold shutdown_io, ensure_linger_timer, flush. repeat bm; repeat match goal with E : (_, _) = (_, _) |- _ => inv E end; reflexivity.
    - destruct (linger s) eqn:L; cbn [orb]; [split; assumption|]. destruct (shutdown s) eqn:SH; [split; assumption|].
      apply read_phase_Inv; assumption.
    - unfold response_phase.
      match goal with |- context [poll_response ?f c s] => destruct (poll_response_Inv fut f s I0) as [I1 N1]; set (s1 := poll_response f c s) in * end.
      set (s2 := if keep_alive s1 && finished s1 then match ka c with KaTimeout d => set_ka_tm (arm d s1) s1 | _ => s1 end else s1).
      assert (I2 : Inv s2 fut /\ dstate s2 = dstate s1 /\ messages s2 = messages s1 /\ res s2 = res s1).
      { subst s2. destruct (keep_alive s1 && finished s1); [|auto]. destruct (ka c); auto.
        split; [revert I1; apply Inv_mono; mono|auto]. }
      destruct I2 as (I2 & D2 & M2 & R2).
      assert (I3 : Inv (fst (flush wblock s2)) fut /\ dstate (fst (flush wblock s2)) = dstate s1 /\ messages (fst (flush wblock s2)) = messages s1 /\ res (fst (flush wblock s2)) = res s1).
      { unfold flush. repeat bm; cbn [fst]; auto. split; [revert I2; apply Inv_mono; mono|auto]. }
      destruct I3 as (I3 & D3 & M3 & R3). split; [exact I3|]. unfold P9. rewrite D3, M3, R3. exact N1.
    - apply KEEP; auto; [|unfold epilogue; repeat bm; reflexivity|unfold epilogue; repeat bm; reflexivity].
      revert I0. unfold epilogue. repeat bm; cbn [fst]; try (intro; assumption); apply Inv_mono; mono.
      all: try (intros _; cbn; rewrite ?orb_true_r; reflexivity).
  Qed.
End Quiet.

(* ------------------------------------------------------------------ the theorem *)
Fixpoint arrivals (es : list ev) : list item :=
  match es with [] => [] | e :: r => arr e ++ arrivals r end.

(* the tree as delivered: F12 and F14 repaired, F15 not *)
Definition tree_fixes : fixes := mkFixes true false true.
(* F15 class of a run (a predicate on the INPUT: configuration, scripts, everything that arrives) *)
Definition Known_F15 (c : cfg) (hs0 : list (list hact)) (es : list ev) : Prop :=
  calm c (number 0 hs0) (arrivals es) = false.

Lemma init_Inv c hs0 fut : has_signal c = false -> calm c (number 0 hs0) fut = true ->
  Inv c (number 0 hs0) (init c hs0) fut /\ P9 (init c hs0).
Proof.
  intros NS CA. split; [|unfold P9; reflexivity].
  constructor; cbn.
  - split; [exact NS|reflexivity].
  - split; cbn; intros; congruence.
  - split; [reflexivity|discriminate].
  - destruct (req_to c =? 0); cbn; discriminate.
  - intros _. repeat split.
  - discriminate.
  - auto.
  - discriminate.
  - discriminate.
  - right. exact CA.
  - unfold last_free, ys, inflight. cbn. destruct (is_nil fut); reflexivity.
  - reflexivity.
  - discriminate.
Qed.

Theorem quiet_outside_F15 c hs0 : fx c = tree_fixes -> has_signal c = false ->
  forall es, ~ Known_F15 c hs0 es ->
  quiet_after_close (trace (run_events c es (init c hs0))) = true.
Proof.
  intros TREE NS es NK.
  assert (CA : calm c (number 0 hs0) (arrivals es) = true).
  { unfold Known_F15 in NK. destruct (calm c (number 0 hs0) (arrivals es)); [reflexivity|exfalso; apply NK; reflexivity]. }
  destruct (init_Inv c hs0 _ NS CA) as [I0 N0].
  assert (GEN : forall es0 s, (res s = 0 -> Inv c (number 0 hs0) s (arrivals es0) /\ P9 s) ->
                quiet_after_close (trace s) = true -> quiet_after_close (trace (run_events c es0 s)) = true).
  { clear I0 N0 CA NK. intros es0. induction es0 as [|e es0 IH]; intros s H Q; cbn [run_events]; [exact Q|].
    destruct (N.eq_dec (res s) 0) as [R0|R0].
    - destruct (H R0) as [I0 N0]. cbn [arrivals] in I0.
      destruct (step_Inv c (number 0 hs0) TREE e s (arrivals es0) R0 I0 N0) as [I1 N1].
      apply IH; [intros _; split; assumption|]. exact (i_quiet _ _ _ _ I1).
    - assert (E : step c e s = s).
      { unfold step. destruct (res s =? 0) eqn:X; [apply N.eqb_eq in X; contradiction|reflexivity]. }
      rewrite E. apply IH; [intro X; contradiction|exact Q]. }
  apply GEN; [intros _; split; assumption|reflexivity].
Qed.

(* the same for sequences of polls *)
Fixpoint poll_arrivals (rs : list round) : list item :=
  match rs with [] => [] | r :: t => r_arrive r ++ poll_arrivals t end.

(* every poll IS a sequence of events whose arrivals are the round's bytes *)
Lemma res_zero_dec s : {res s = 0} + {negb (res s =? 0) = true}.
Proof. destruct (res s =? 0) eqn:E; [left; apply N.eqb_eq; exact E|right; reflexivity]. Qed.

Lemma step_id c e s : negb (res s =? 0) = true -> step c e s = s.
Proof. intro H. unfold step. rewrite H. reflexivity. Qed.
Lemma run_events_id c es : forall s, negb (res s =? 0) = true -> run_events c es s = s.
Proof. induction es as [|e es IH]; intros s H; cbn; [reflexivity|]. rewrite step_id by exact H. apply IH. exact H. Qed.

Lemma no_arr es : (forall e, In e es -> arr e = []) -> arrivals es = [].
Proof. induction es as [|e es IH]; intros H; cbn; [reflexivity|]. rewrite (H e) by (left; reflexivity). apply IH. intros x Hx. apply H. right. exact Hx. Qed.

Definition timers_evs (sig : bool) : list ev := [EGraceful sig; EHeadTimer; EKaTimer; ESdTimer].

Lemma run_timers c sig s : res s = 0 ->
  run_events c (timers_evs sig) s = poll_sd_timer (poll_ka_timer c (poll_head_timer c (poll_graceful sig s))).
Proof.
  intro R. unfold timers_evs. cbn [run_events].
  assert (R1 := res_graceful sig s). rewrite R in R1.
  assert (R2 := res_head_timer c (poll_graceful sig s)). rewrite R1 in R2.
  assert (R3 := res_ka_timer c (poll_head_timer c (poll_graceful sig s))). rewrite R2 in R3.
  unfold step at 4. rewrite R. change (negb (0 =? 0)) with false. cbv iota.
  unfold step at 3. rewrite R1. change (negb (0 =? 0)) with false. cbv iota.
  unfold step at 2. rewrite R2. change (negb (0 =? 0)) with false. cbv iota.
  unfold step at 1. rewrite R3. change (negb (0 =? 0)) with false. cbv iota. reflexivity.
Qed.

Lemma shutdown_timers c sig s : shutdown s = true ->
  shutdown (poll_ka_timer c (poll_head_timer c (poll_graceful sig s))) = true.
Proof.
  intro S.
  assert (S1 : shutdown (poll_graceful sig s) = true) by (unfold poll_graceful; repeat bm; cbn; auto).
  assert (S2 : shutdown (poll_head_timer c (poll_graceful sig s)) = true) by (unfold poll_head_timer; repeat bm; cbn; auto).
  unfold poll_ka_timer; repeat bm; cbn; auto.
Qed.

Lemma poll_body_events_shutdown c r f s : shutdown s = true -> res s = 0 ->
  exists es, poll_body (S f) c r s = run_events c es s /\ (forall e, In e es -> arr e = []).
Proof.
  intros S R. rewrite poll_body_S. cbv zeta.
  pose proof (run_timers c (r_signal r) s R) as RT.
  pose proof (shutdown_timers c (r_signal r) s S) as S3.
  set (s3 := poll_ka_timer c (poll_head_timer c (poll_graceful (r_signal r) s))) in *.
  set (s4 := poll_sd_timer s3) in *.
  assert (S4 : linger s4 = true \/ shutdown s4 = true).
  { subst s4. unfold poll_sd_timer. repeat bm; cbn; auto. }
  destruct (res_zero_dec s4) as [R4|R4].
  - rewrite R4. change (negb (0 =? 0)) with false. cbv iota.
    destruct (linger s4) eqn:L4.
    + exists (timers_evs (r_signal r) ++ [ELinger (r_wblock r)]). split.
      * rewrite <- RT. change (run_events c (timers_evs (r_signal r) ++ [ELinger (r_wblock r)]) s) with
          (run_events c [ELinger (r_wblock r)] (run_events c (timers_evs (r_signal r)) s)).
        rewrite RT. fold s3 s4. cbn [run_events]. unfold step. rewrite R4. change (negb (0 =? 0)) with false. cbv iota. rewrite L4. reflexivity.
      * intros e [<-|[<-|[<-|[<-|[<-|[]]]]]]; reflexivity.
    + destruct S4 as [X|S4]; [discriminate|]. rewrite S4.
      exists (timers_evs (r_signal r) ++ [EShutdownIo (r_wblock r) (r_sdpend r)]). split.
      * change (run_events c (timers_evs (r_signal r) ++ [EShutdownIo (r_wblock r) (r_sdpend r)]) s) with
          (run_events c [EShutdownIo (r_wblock r) (r_sdpend r)] (run_events c (timers_evs (r_signal r)) s)).
        rewrite RT. fold s3 s4. cbn [run_events]. unfold step. rewrite R4. change (negb (0 =? 0)) with false. cbv iota. rewrite L4, S4. reflexivity.
      * intros e [<-|[<-|[<-|[<-|[<-|[]]]]]]; reflexivity.
  - rewrite R4. exists (timers_evs (r_signal r)). split; [rewrite RT; reflexivity|].
    intros e [<-|[<-|[<-|[<-|[]]]]]; reflexivity.
Qed.

Lemma run_events_app c es1 es2 s : run_events c (es1 ++ es2) s = run_events c es2 (run_events c es1 s).
Proof. revert s. induction es1 as [|e es1 IH]; intros s; cbn; [reflexivity|apply IH]. Qed.

Lemma poll_body_events c r f s : res s = 0 ->
  exists es, poll_body (S (S f)) c r s = run_events c es s /\ (forall e, In e es -> arr e = []).
Proof.
  intros R. rewrite poll_body_S. cbv zeta.
  pose proof (run_timers c (r_signal r) s R) as RT.
  set (s3 := poll_ka_timer c (poll_head_timer c (poll_graceful (r_signal r) s))) in *.
  set (s4 := poll_sd_timer s3) in *.
  assert (T0 : forall e, In e (timers_evs (r_signal r)) -> arr e = []) by (intros e [<-|[<-|[<-|[<-|[]]]]]; reflexivity).
  assert (ONE : forall e x, arr e = [] -> res s4 = 0 -> x = step c e s4 ->
                exists es, x = run_events c es s /\ (forall e, In e es -> arr e = [])).
  { intros e x A R4 ->. exists (timers_evs (r_signal r) ++ [e]). split.
    - rewrite run_events_app, RT. reflexivity.
    - intros y Hy. apply in_app_or in Hy as [Hy|[<-|[]]]; auto. }
  destruct (res_zero_dec s4) as [R4|R4].
  2:{ rewrite R4. exists (timers_evs (r_signal r)). split; [rewrite RT; reflexivity|exact T0]. }
  rewrite R4. change (negb (0 =? 0)) with false. cbv iota.
  destruct (linger s4) eqn:L4.
  { apply (ONE (ELinger (r_wblock r))); auto. unfold step. rewrite R4. change (negb (0 =? 0)) with false. cbv iota. rewrite L4. reflexivity. }
  destruct (shutdown s4) eqn:S4.
  { apply (ONE (EShutdownIo (r_wblock r) (r_sdpend r))); auto. unfold step. rewrite R4. change (negb (0 =? 0)) with false. cbv iota. rewrite L4, S4. reflexivity. }
  assert (E5 : read_phase c s4 = step c EReadPhase s4).
  { unfold step. rewrite R4. change (negb (0 =? 0)) with false. cbv iota. rewrite L4, S4. reflexivity. }
  set (s5 := read_phase c s4) in *.
  assert (RT5 : run_events c (timers_evs (r_signal r) ++ [EReadPhase]) s = s5).
  { rewrite run_events_app, RT. cbn [run_events]. fold s3 s4. rewrite <- E5. reflexivity. }
  assert (T5 : forall e, In e (timers_evs (r_signal r) ++ [EReadPhase]) -> arr e = []).
  { intros y Hy. apply in_app_or in Hy as [Hy|[<-|[]]]; auto. }
  destruct (res_zero_dec s5) as [R5|R5].
  2:{ rewrite R5. exists (timers_evs (r_signal r) ++ [EReadPhase]). split; [symmetry; exact RT5|exact T5]. }
  rewrite R5. change (negb (0 =? 0)) with false. cbv iota.
  assert (E6 : response_phase c (r_wblock r) s5 = step c (EResponsePhase (r_wblock r)) s5).
  { unfold step. rewrite R5. reflexivity. }
  set (s6 := response_phase c (r_wblock r) s5) in *.
  assert (RT6 : run_events c ((timers_evs (r_signal r) ++ [EReadPhase]) ++ [EResponsePhase (r_wblock r)]) s = s6).
  { rewrite run_events_app, RT5. cbn [run_events]. rewrite <- E6. reflexivity. }
  assert (T6 : forall e, In e ((timers_evs (r_signal r) ++ [EReadPhase]) ++ [EResponsePhase (r_wblock r)]) -> arr e = []).
  { intros y Hy. apply in_app_or in Hy as [Hy|[<-|[]]]; auto. }
  destruct (res_zero_dec s6) as [R6|R6].
  2:{ rewrite R6. eexists. split; [symmetry; exact RT6|exact T6]. }
  rewrite R6. change (negb (0 =? 0)) with false. cbv iota.
  assert (E7 : fst (epilogue c s6) = step c EEpilogue s6).
  { unfold step. rewrite R6. reflexivity. }
  destruct (epilogue c s6) as [s7 again] eqn:EP. cbn [fst] in E7.
  assert (RT7 : run_events c (((timers_evs (r_signal r) ++ [EReadPhase]) ++ [EResponsePhase (r_wblock r)]) ++ [EEpilogue]) s = s7).
  { rewrite run_events_app, RT6. cbn [run_events]. rewrite <- E7. reflexivity. }
  assert (T7 : forall e, In e (((timers_evs (r_signal r) ++ [EReadPhase]) ++ [EResponsePhase (r_wblock r)]) ++ [EEpilogue]) -> arr e = []).
  { intros y Hy. apply in_app_or in Hy as [Hy|[<-|[]]]; auto. }
  destruct again.
  2:{ eexists. split; [symmetry; exact RT7|exact T7]. }
  assert (shutdown s7 = true /\ res s7 = 0) as [S7 R7].
  { unfold epilogue in EP. repeat bmh EP; inv EP; cbn; auto. }
  destruct (poll_body_events_shutdown c r f s7 S7 R7) as [es8 [E8 T8]].
  exists ((((timers_evs (r_signal r) ++ [EReadPhase]) ++ [EResponsePhase (r_wblock r)]) ++ [EEpilogue]) ++ es8). split.
  - rewrite run_events_app, RT7. exact E8.
  - intros y Hy. apply in_app_or in Hy as [Hy|Hy]; auto.
Qed.

Lemma poll_events c r s : exists es, poll c r s = run_events c es s /\ arrivals es = r_arrive r.
Proof.
  unfold poll. destruct (res_zero_dec s) as [R|R].
  - rewrite R. change (negb (0 =? 0)) with false. cbv iota.
    assert (R0 : res (env_step r s) = 0) by (unfold env_step; destruct (r_rd r); exact R).
    destruct (poll_body_events c r 2 (env_step r s) R0) as [es [E T]].
    exists (EEnv r :: es). split.
    + cbn [run_events]. unfold step. rewrite R. change (negb (0 =? 0)) with false. cbv iota. exact E.
    + cbn [arrivals arr]. rewrite (no_arr es T). apply app_nil_r.
  - rewrite R. exists [EEnv r]. split.
    + cbn [run_events]. rewrite step_id by exact R. reflexivity.
    + cbn. apply app_nil_r.
Qed.

Lemma arrivals_app e1 e2 : arrivals (e1 ++ e2) = arrivals e1 ++ arrivals e2.
Proof. induction e1 as [|x e1 IH]; cbn; [reflexivity|]. rewrite IH, app_assoc. reflexivity. Qed.

Lemma run_polls_events c rs : forall s, exists es, run_polls c rs s = run_events c es s /\ arrivals es = poll_arrivals rs.
Proof.
  induction rs as [|r rs IH]; intros s; cbn [run_polls poll_arrivals].
  - exists []. split; reflexivity.
  - destruct (poll_events c r s) as [e1 [E1 A1]]. destruct (IH (poll c r s)) as [e2 [E2 A2]].
    exists (e1 ++ e2). split.
    + rewrite run_events_app, <- E1. exact E2.
    + rewrite arrivals_app, A1, A2. reflexivity.
Qed.

(* close means close for every sequence of polls whose input is outside the F15 class *)
Theorem quiet_polls_outside_F15 c hs0 : fx c = tree_fixes -> has_signal c = false ->
  forall rs, calm c (number 0 hs0) (poll_arrivals rs) = true ->
  quiet_after_close (trace (run_polls c rs (init c hs0))) = true.
Proof.
  intros TREE NS rs CA. destruct (run_polls_events c rs (init c hs0)) as [es [E A]]. rewrite E.
  apply quiet_outside_F15; auto. unfold Known_F15. rewrite A, CA. discriminate.
Qed.
